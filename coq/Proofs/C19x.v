(* C19 proofs, part 6: histories that continue after a raise (Model/C19x.v).
   With the placeholder dropped before the re-raise (the regenerated decision g_giveup_drops_placeholder = true,
   shape lemma s_giveup_drops) no ghost entry ever exists, every operation of the history is one step of the
   reference kernel of Proofs/C19.v (x_write_lift + tie_write), and the invariants of Proofs/C19.v / C19_leak.v
   are carried through the raises (inv_raise, write_acct, write_raise_bounded). *)
From Coq Require Import ZArith List Bool Lia.
Import ListNotations.
From SCMO Require Import Lib.Val Gen.GenHandles Model.C19 Model.C19x Proofs.C19 Proofs.C19_leak Proofs.C19_tie.
Open Scope Z_scope.

(* the give-up branch removes the placeholder before re-raising (D33 repaired) *)
Lemma s_giveup_drops : g_giveup_drops_placeholder = true.
Proof. reflexivity. Qed.

(* ------------------------------------------------------------------ one step: no ghosts = reference kernel *)
Lemma x_write_phase_lift : forall mh pe st o,
  x_write_phase mh pe (lift st) o = XOk (lift (hl_write_phase mh pe st o)).
Proof. reflexivity. Qed.

Lemma x_open_phase_lift : forall orc st o,
  x_open_phase true orc (lift st) o = lift_res (hl_open_phase orc st o).
Proof.
  intros orc st o. unfold x_open_phase, hl_open_phase, x_entries. cbv zeta.
  cbn [base ghosts lift length Z.of_nat]. rewrite Z.add_0_r, s_handler. cbn [andb orb].
  destruct (orc (att st) (w_path o) (length (opens st))); [|reflexivity].
  destruct (g_retry (Z.of_nat (length (opens st)) + 1)); [|reflexivity].
  match goal with |- context [orc ?a ?p 0%nat] => destruct (orc a p 0%nat) end.
  - destruct (g_retry (if g_restores_placeholder then 1 else 0)); reflexivity.
  - destruct g_restores_placeholder; reflexivity.
Qed.

Lemma x_write_lift : forall mh pe orc st o,
  x_write true mh pe orc (lift st) o = lift_res (hl_write mh pe orc st o).
Proof.
  intros mh pe orc st o. unfold x_write, hl_write. cbv zeta.
  replace (memZ (w_path o) (ghosts (lift st))) with false by reflexivity.
  replace (base (lift st)) with st by reflexivity.
  rewrite orb_false_r, !s_write_guard.
  destruct (memZ (w_path o) (paths st)) eqn:E; cbn [negb].
  - reflexivity.
  - rewrite x_open_phase_lift. destruct (hl_open_phase orc st o) as [s1|e s1]; reflexivity.
Qed.

Lemma xstate_of_lift_res : forall r, xstate_of (lift_res r) = lift (state_of r).
Proof. intros [s|e s]; reflexivity. Qed.

Definition status (r : res) : Z := match r with Ok _ => 0 | Raise e _ => e end.

Lemma xstatus_lift_res : forall r, xstatus (lift_res r) = status r.
Proof. intros [s|e s]; reflexivity. Qed.

Lemma tie_xwrite : forall mh pe orc st o,
  hl_xwrite mh pe orc (lift st) o = lift_res (write (cfg_of mh pe) orc st o).
Proof. intros. unfold hl_xwrite. rewrite s_giveup_drops, x_write_lift, tie_write. reflexivity. Qed.

(* ------------------------------------------------------------------ the history of the reference kernel *)
Fixpoint rhist_from (c : cfg) (orc : oracle) (ops : list wop) (st : state) : list res :=
  match ops with
  | [] => []
  | o :: r => write c orc st o :: rhist_from c orc r (state_of (write c orc st o))
  end.

Definition rfinal_from (c : cfg) (orc : oracle) (ops : list wop) (st : state) : state :=
  fold_left (fun s o => state_of (write c orc s o)) ops st.

Lemma rfinal_cons : forall c orc o ops st,
  rfinal_from c orc (o :: ops) st = rfinal_from c orc ops (state_of (write c orc st o)).
Proof. reflexivity. Qed.

Lemma hist_lift : forall mh pe orc ops st,
  x_hist_from g_giveup_drops_placeholder mh pe orc ops (lift st)
  = map lift_res (rhist_from (cfg_of mh pe) orc ops st).
Proof.
  intros mh pe orc ops. induction ops as [|o ops IH]; intros st; [reflexivity|].
  cbn [x_hist_from rhist_from map].
  change (x_write g_giveup_drops_placeholder mh pe orc (lift st) o) with (hl_xwrite mh pe orc (lift st) o).
  rewrite tie_xwrite, xstate_of_lift_res, IH. reflexivity.
Qed.

Lemma final_lift : forall mh pe orc ops st,
  x_final_from g_giveup_drops_placeholder mh pe orc ops (lift st)
  = lift (rfinal_from (cfg_of mh pe) orc ops st).
Proof.
  intros mh pe orc ops. unfold x_final_from, rfinal_from.
  induction ops as [|o ops IH]; intros st; [reflexivity|].
  cbn [fold_left].
  change (x_write g_giveup_drops_placeholder mh pe orc (lift st) o) with (hl_xwrite mh pe orc (lift st) o).
  rewrite tie_xwrite, xstate_of_lift_res, IH. reflexivity.
Qed.

Lemma hl_hist_ref : forall mh pe orc init ops,
  hl_hist mh pe orc init ops = map lift_res (rhist_from (cfg_of mh pe) orc ops (init_state init)).
Proof. intros. unfold hl_hist, x_init. rewrite tie_init. apply hist_lift. Qed.

Lemma hl_final_ref : forall mh pe orc init ops,
  hl_final mh pe orc init ops = lift (rfinal_from (cfg_of mh pe) orc ops (init_state init)).
Proof. intros. unfold hl_final, x_init. rewrite tie_init. apply final_lift. Qed.

Lemma hl_statuses_ref : forall mh pe orc init ops,
  map xstatus (hl_hist mh pe orc init ops) = map status (rhist_from (cfg_of mh pe) orc ops (init_state init)).
Proof.
  intros. rewrite hl_hist_ref, map_map. apply map_ext. intros r. apply xstatus_lift_res.
Qed.

Lemma x_close_ref : forall st, x_close (lift st) = lift (close_all st).
Proof. intros. unfold x_close. cbn [base lift]. rewrite tie_close. reflexivity. Qed.

Lemma rhist_length : forall c orc ops st, length (rhist_from c orc ops st) = length ops.
Proof.
  intros c orc ops. induction ops as [|o ops IH]; intros st; [reflexivity|].
  cbn [rhist_from length]. rewrite IH. reflexivity.
Qed.

(* ------------------------------------------------------------------ completed operations *)
Lemma completed_cons_ok : forall o ops sts, completed (o :: ops) (0 :: sts) = o :: completed ops sts.
Proof. reflexivity. Qed.

Lemma completed_cons_eos : forall o ops sts, completed (o :: ops) (EOS :: sts) = completed ops sts.
Proof. reflexivity. Qed.

Lemma completed_incl : forall ops sts o, In o (completed ops sts) -> In o ops.
Proof.
  intros ops sts o H. unfold completed in H. apply in_map_iff in H. destruct H as [[o1 s1] [Ho Hin]].
  cbn [fst] in Ho. subst o1. apply filter_In in Hin. destruct Hin as [Hin _].
  apply in_combine_l in Hin. exact Hin.
Qed.

Lemma completed_all_ok : forall ops sts, length sts = length ops -> Forall (fun s => s = 0) sts ->
  completed ops sts = ops.
Proof.
  intros ops. induction ops as [|o ops IH]; intros sts Hl Hall.
  - destruct sts; reflexivity.
  - destruct sts as [|s sts]; [discriminate|]. inversion Hall as [|s' sts' Hs Hr]. subst.
    rewrite completed_cons_ok. f_equal. apply IH; [|exact Hr]. cbn [length] in Hl. lia.
Qed.

(* ------------------------------------------------------------------ invariants through the whole history *)
Lemma rhist_inv : forall c orc init fa_of ops done st,
  fixed c = true -> Inv init fa_of done st ->
  Forall (fun o => w_fa o = fa_of (w_path o)) ops ->
  Inv init fa_of (done ++ completed ops (map status (rhist_from c orc ops st))) (rfinal_from c orc ops st).
Proof.
  intros c orc init fa_of ops. induction ops as [|o ops IH]; intros done st Hfix HI Hfa.
  - cbn [rhist_from map]. unfold completed. cbn [combine filter map]. rewrite app_nil_r. exact HI.
  - inversion Hfa as [|o' ops' Hfa1 Hfa2]. subst o' ops'.
    rewrite rfinal_cons. cbn [rhist_from map].
    destruct (write c orc st o) as [st1|e st1] eqn:Ew; cbn [status state_of].
    + rewrite completed_cons_ok.
      replace (done ++ o :: completed ops (map status (rhist_from c orc ops st1)))
        with ((done ++ [o]) ++ completed ops (map status (rhist_from c orc ops st1)))
        by (rewrite <- app_assoc; reflexivity).
      apply IH; [exact Hfix | | exact Hfa2].
      exact (write_ok c orc init fa_of done st o st1 Hfix HI Hfa1 Ew).
    + destruct (write_raise c orc st o e st1 Hfix Ew) as [He [Hf [Hs [Hp _]]]]. subst e.
      rewrite completed_cons_eos.
      apply IH; [exact Hfix | | exact Hfa2].
      exact (inv_raise init fa_of done st st1 HI Hf Hs Hp).
Qed.

Lemma rhist_raise : forall c orc ops st j e st',
  fixed c = true -> nth_error (rhist_from c orc ops st) j = Some (Raise e st') ->
  e = EOS /\ exists o, nth_error ops j = Some o /\ hopeless orc o st'.
Proof.
  intros c orc ops. induction ops as [|o ops IH]; intros st j e st' Hfix H.
  - destruct j; discriminate.
  - destruct j as [|j]; cbn [rhist_from nth_error] in H.
    + injection H as H.
      destruct (write_raise c orc st o e st' Hfix H) as [He [_ [_ [_ Hh]]]].
      split; [exact He|]. exists o. split; [reflexivity | exact Hh].
    + destruct (IH _ j e st' Hfix H) as [He [o' [Hn Hh]]].
      split; [exact He|]. exists o'. split; [exact Hn | exact Hh].
Qed.

Lemma rhist_acct : forall c orc ops st, fixed c = true -> acct st -> acct (rfinal_from c orc ops st).
Proof.
  intros c orc ops. induction ops as [|o ops IH]; intros st Hfix Ha; [exact Ha|].
  rewrite rfinal_cons. apply IH; [exact Hfix|].
  exact (write_acct c orc st o (write c orc st o) Hfix Ha eq_refl).
Qed.

Lemma write_any_bounded : forall c orc st o, bounded c st -> bounded c (state_of (write c orc st o)).
Proof.
  intros c orc st o Hb. destruct (write c orc st o) as [st1|e st1] eqn:Ew; cbn [state_of].
  - exact (write_bounded c orc st o st1 Hb Ew).
  - exact (write_raise_bounded c orc st o e st1 Hb Ew).
Qed.

Lemma rhist_bounded : forall c orc ops st j x,
  bounded c st -> nth_error (rhist_from c orc ops st) j = Some x -> bounded c (state_of x).
Proof.
  intros c orc ops. induction ops as [|o ops IH]; intros st j x Hb H.
  - destruct j; discriminate.
  - destruct j as [|j]; cbn [rhist_from nth_error] in H.
    + injection H as H. subst x. apply write_any_bounded. exact Hb.
    + apply (IH (state_of (write c orc st o)) j x); [|exact H]. apply write_any_bounded. exact Hb.
Qed.

(* what a raise leaves behind: nothing open, seen / counter / clock / files as before the call *)
Lemma write_raise_fresh : forall c orc st o e st', fixed c = true ->
  write c orc st o = Raise e st' ->
  st' = {| opens := []; seen := seen st; ctr := ctr st; clock := clock st; att := att st'; fs := fs st;
           trace := trace st' |}.
Proof.
  intros c orc st o e st' Hfix H. unfold write in H.
  destruct (memZ (w_path o) (paths st)); [discriminate|].
  destruct (open_phase c orc st o) as [st1|e1 st1] eqn:Eop; [discriminate|].
  injection H as He H. subst e1 st1. unfold open_phase in Eop.
  destruct (orc (att st) (w_path o) (length (opens st))); [|discriminate].
  destruct (0 <? Z.of_nat (length (opens st))) eqn:E2.
  - cbn [att close_all os_open] in Eop.
    destruct (orc (S (att st)) (w_path o) 0%nat).
    + injection Eop as _ Eop. subst st'. reflexivity.
    + rewrite Hfix in Eop. discriminate.
  - injection Eop as _ Eop. subst st'. unfold os_open. cbn [att trace].
    assert (Hl : opens st = []).
    { apply Z.ltb_ge in E2. destruct (opens st); [reflexivity | cbn [length] in E2; lia]. }
    rewrite Hl. reflexivity.
Qed.

(* ------------------------------------------------------------------ statements about the model K runs *)
Lemma hl_hist_length : forall mh pe orc init ops, length (hl_hist mh pe orc init ops) = length ops.
Proof. intros. rewrite hl_hist_ref, map_length. apply rhist_length. Qed.

Lemma hl_hist_content : forall mh pe orc init ops,
  fa_consistentb ops = true ->
  length (hl_hist mh pe orc init ops) = length ops /\
  opens (base (x_close (hl_final mh pe orc init ops))) = [] /\
  ghosts (x_close (hl_final mh pe orc init ops)) = [] /\
  forall p, fs (base (x_close (hl_final mh pe orc init ops))) p
            = expected init (completed ops (map xstatus (hl_hist mh pe orc init ops))) p.
Proof.
  intros mh pe orc init ops Hc. split; [apply hl_hist_length|].
  rewrite hl_statuses_ref, hl_final_ref, x_close_ref. cbn [base ghosts lift close_all opens fs].
  split; [reflexivity|]. split; [reflexivity|].
  pose proof (fa_consistent_forall ops Hc) as Hfa.
  pose proof (rhist_inv (cfg_of mh pe) orc init (fa_first ops) ops [] (init_state init) eq_refl
                        (inv_init init (fa_first ops)) Hfa) as HI.
  cbn [app] in HI. intros p.
  apply (inv_expected init (fa_first ops) _ _ HI).
  apply Forall_forall. intros o Ho. apply completed_incl in Ho.
  rewrite Forall_forall in Hfa. exact (Hfa o Ho).
Qed.

Lemma hl_hist_content_plain : forall mh pe orc init ops,
  (forall o, In o ops -> w_fa o = false) ->
  let done := completed ops (map xstatus (hl_hist mh pe orc init ops)) in
  let fin := x_close (hl_final mh pe orc init ops) in
  (forall p, In p (map w_path done) -> fs (base fin) p = Some (writes_of p done)) /\
  (forall p, ~ In p (map w_path done) -> fs (base fin) p = init p).
Proof.
  intros mh pe orc init ops Hfa done fin.
  destruct (hl_hist_content mh pe orc init ops (no_fa_consistent ops Hfa)) as [_ [_ [_ H3]]].
  fold done in H3. fold fin in H3. split.
  - intros p Hp. rewrite H3. unfold expected. destruct (first_op p done) as [o|] eqn:E.
    + apply first_op_some in E. destruct E as [E _]. apply completed_incl in E.
      rewrite (Hfa o E). reflexivity.
    + exfalso. apply first_op_none in E. exact (E Hp).
  - intros p Hp. rewrite H3. unfold expected. apply first_op_none in Hp. rewrite Hp. reflexivity.
Qed.

Lemma nth_error_map_some : forall A B (f : A -> B) l j y,
  nth_error (map f l) j = Some y -> exists x, nth_error l j = Some x /\ f x = y.
Proof.
  intros A B f l. induction l as [|a l IH]; intros j y H.
  - destruct j; discriminate.
  - destruct j as [|j]; cbn [map nth_error] in H.
    + injection H as H. exists a. split; [reflexivity | exact H].
    + exact (IH j y H).
Qed.

Lemma hl_hist_raise : forall mh pe orc init ops j e xs',
  nth_error (hl_hist mh pe orc init ops) j = Some (XRaise e xs') ->
  e = EOS /\ exists o i, nth_error ops j = Some o /\ att (base xs') = S i /\
                         orc i (w_path o) 0%nat = true /\ opens (base xs') = [] /\ ghosts xs' = [].
Proof.
  intros mh pe orc init ops j e xs' H. rewrite hl_hist_ref in H.
  apply nth_error_map_some in H. destruct H as [r [Hr Hx]].
  destruct r as [s|e1 s]; [discriminate|]. cbn [lift_res] in Hx. injection Hx as He Hs. subst e1 xs'.
  destruct (rhist_raise (cfg_of mh pe) orc ops (init_state init) j e s eq_refl Hr) as [He [o [Hn [i [H1 [H2 H3]]]]]].
  split; [exact He|]. exists o, i. cbn [base ghosts lift]. auto.
Qed.

Lemma hl_hist_openable : forall mh pe orc init ops j o,
  nth_error ops j = Some o -> (forall i, orc i (w_path o) 0%nat = false) ->
  exists xs, nth_error (hl_hist mh pe orc init ops) j = Some (XOk xs).
Proof.
  intros mh pe orc init ops j o Hn Horc.
  destruct (nth_error (hl_hist mh pe orc init ops) j) as [x|] eqn:E.
  - destruct x as [xs|e xs]; [exists xs; reflexivity|]. exfalso.
    destruct (hl_hist_raise mh pe orc init ops j e xs E) as [_ [o' [i [Hn' [_ [Ho _]]]]]].
    rewrite Hn in Hn'. injection Hn' as Hn'. subst o'. rewrite Horc in Ho. discriminate.
  - exfalso. apply nth_error_None in E. rewrite hl_hist_length in E.
    assert (Hlt : (j < length ops)%nat) by (apply nth_error_Some; rewrite Hn; discriminate). lia.
Qed.

Lemma hl_hist_good_oracle : forall mh pe orc init ops,
  (forall i o, In o ops -> orc i (w_path o) 0%nat = false) ->
  completed ops (map xstatus (hl_hist mh pe orc init ops)) = ops.
Proof.
  intros mh pe orc init ops Horc. apply completed_all_ok.
  - rewrite map_length. apply hl_hist_length.
  - apply Forall_forall. intros s Hs. apply In_nth_error in Hs. destruct Hs as [j Hj].
    apply nth_error_map_some in Hj. destruct Hj as [x [Hx Hsx]].
    assert (Hlt : (j < length ops)%nat).
    { rewrite <- (hl_hist_length mh pe orc init ops). apply nth_error_Some. rewrite Hx. discriminate. }
    destruct (nth_error ops j) as [o|] eqn:Eo; [|apply nth_error_None in Eo; lia].
    destruct (hl_hist_openable mh pe orc init ops j o Eo) as [xs Hxs].
    + intros i. apply Horc. apply nth_error_In in Eo. exact Eo.
    + rewrite Hx in Hxs. injection Hxs as Hxs. subst x s. reflexivity.
Qed.

Lemma hl_hist_no_leak : forall mh pe orc init ops,
  n_opened (trace (base (x_close (hl_final mh pe orc init ops))))
  = n_closed (trace (base (x_close (hl_final mh pe orc init ops)))).
Proof.
  intros mh pe orc init ops. rewrite hl_final_ref, x_close_ref. cbn [base lift].
  assert (H0 : acct (init_state init)) by (split; [reflexivity | constructor]).
  destruct (rhist_acct (cfg_of mh pe) orc ops (init_state init) eq_refl H0) as [Ha _].
  cbn [close_all trace]. rewrite n_opened_app, n_closed_app, closes_opened, closes_closed.
  unfold paths. rewrite map_length. lia.
Qed.

Lemma hl_hist_handles_bounded : forall mh pe orc init ops j x,
  nth_error (hl_hist mh pe orc init ops) j = Some x ->
  Z.of_nat (length (opens (base (xstate_of x)))) <= Z.max 0 mh + Z.max 0 (pe - 1).
Proof.
  intros mh pe orc init ops j x H. rewrite hl_hist_ref in H.
  apply nth_error_map_some in H. destruct H as [r [Hr Hx]]. subst x.
  rewrite xstate_of_lift_res. cbn [base lift].
  assert (Hb : bounded (cfg_of mh pe) (init_state init)) by (unfold bounded; cbn [ctr opens init_state length]; lia).
  destruct (rhist_bounded (cfg_of mh pe) orc ops (init_state init) j r Hb Hr) as [H1 H2].
  cbn [maxHandles pruneEvery cfg_of] in H1, H2. lia.
Qed.

(* splitting a history *)
Lemma x_hist_app : forall d mh pe orc a b xs,
  x_hist_from d mh pe orc (a ++ b) xs
  = x_hist_from d mh pe orc a xs ++ x_hist_from d mh pe orc b (x_final_from d mh pe orc a xs).
Proof.
  intros d mh pe orc a. induction a as [|o a IH]; intros b xs; [reflexivity|].
  cbn [app x_hist_from]. rewrite IH. reflexivity.
Qed.

Lemma hl_hist_resume : forall mh pe orc init ops1 o ops2 e xs',
  hl_xwrite mh pe orc (hl_final mh pe orc init ops1) o = XRaise e xs' ->
  let st := base (hl_final mh pe orc init ops1) in
  let fw := fresh_writer (seen st) (ctr st) (clock st) (att (base xs')) (fs st) (trace (base xs')) in
  xs' = fw /\
  hl_hist mh pe orc init (ops1 ++ o :: ops2)
  = hl_hist mh pe orc init ops1
    ++ XRaise e fw :: x_hist_from g_giveup_drops_placeholder mh pe orc ops2 fw.
Proof.
  intros mh pe orc init ops1 o ops2 e xs' H st fw.
  assert (Hx : xs' = fw).
  { unfold fw, st. clear fw st. rewrite hl_final_ref in *. rewrite tie_xwrite in H.
    destruct (write (cfg_of mh pe) orc (rfinal_from (cfg_of mh pe) orc ops1 (init_state init)) o) as [s|e1 s] eqn:Ew;
      [discriminate|].
    cbn [lift_res] in H. injection H as He Hs. subst e1 xs'. cbn [base lift].
    unfold fresh_writer. f_equal.
    exact (write_raise_fresh (cfg_of mh pe) orc _ o e s eq_refl Ew). }
  split; [exact Hx|].
  unfold hl_hist. rewrite x_hist_app. f_equal. cbn [x_hist_from].
  change (x_final_from g_giveup_drops_placeholder mh pe orc ops1 (x_init init)) with (hl_final mh pe orc init ops1).
  change (x_write g_giveup_drops_placeholder mh pe orc (hl_final mh pe orc init ops1) o)
    with (hl_xwrite mh pe orc (hl_final mh pe orc init ops1) o).
  rewrite H. cbn [xstate_of]. rewrite Hx. reflexivity.
Qed.

(* ------------------------------------------------------------------ the boolean specification of K *)
Lemma script_alone_sound : forall s p, script_can_fail_alone s p = false ->
  forall i, script_oracle s i p 0%nat = false.
Proof.
  intros s p H i. unfold script_can_fail_alone in H. apply orb_false_iff in H. destruct H as [H1 H2].
  unfold script_oracle. rewrite H2. destruct (s_hard s) eqn:Eh; [|discriminate].
  cbn [memZ existsb Z.of_nat]. rewrite !andb_false_r.
  replace (s_limit s <=? 0) with (negb (0 <? s_limit s))
    by (destruct (Z.ltb_spec 0 (s_limit s)), (Z.leb_spec (s_limit s) 0); cbn; lia || reflexivity).
  destruct (0 <? s_limit s); reflexivity.
Qed.

Lemma str_eqb_refl : forall a, str_eqb a a = true.
Proof.
  intros a. unfold str_eqb. rewrite Nat.eqb_refl. cbn [andb].
  induction a as [|x a IH]; [reflexivity|]. cbn [combine forallb fst snd]. rewrite Z.eqb_refl, IH. reflexivity.
Qed.

Lemma ostr_eqb_refl : forall a, ostr_eqb a a = true.
Proof. intros [a|]; [apply str_eqb_refl | reflexivity]. Qed.

Lemma combine_nth_error : forall A B (l : list A) (l' : list B) j a b,
  nth_error (combine l l') j = Some (a, b) -> nth_error l j = Some a /\ nth_error l' j = Some b.
Proof.
  intros A B l. induction l as [|x l IH]; intros l' j a b H.
  - destruct j; discriminate.
  - destruct l' as [|y l']; [destruct j; discriminate|].
    destruct j as [|j]; cbn [combine nth_error] in *.
    + injection H as H1 H2. subst. split; reflexivity.
    + exact (IH l' j a b H).
Qed.

Lemma hl_hist_spec_sound : forall mh pe s init ops univ,
  fa_consistentb ops = true ->
  spec_histb s init ops univ (map xstatus (hl_hist mh pe (script_oracle s) init ops))
             (fs (base (x_close (hl_final mh pe (script_oracle s) init ops)))) = true.
Proof.
  intros mh pe s init ops univ Hc. unfold spec_histb.
  destruct (hl_hist_content mh pe (script_oracle s) init ops Hc) as [Hl [_ [_ Hf]]].
  rewrite map_length, Hl, Nat.eqb_refl. cbn [andb]. apply andb_true_iff. split.
  - apply forallb_forall. intros [o st] Hin. cbn [fst snd].
    apply In_nth_error in Hin. destruct Hin as [j Hj]. apply combine_nth_error in Hj. destruct Hj as [Ho Hs].
    apply nth_error_map_some in Hs. destruct Hs as [x [Hx Hsx]].
    destruct x as [xs|e xs]; cbn [xstatus] in Hsx; subst st; [reflexivity|].
    destruct (hl_hist_raise mh pe (script_oracle s) init ops j e xs Hx) as [He [o' [i [Ho' [_ [Horc _]]]]]].
    rewrite Ho in Ho'. injection Ho' as Ho'. subst o' e.
    replace (EOS =? 0) with false by reflexivity. rewrite Z.eqb_refl. cbn [orb andb].
    destruct (script_can_fail_alone s (w_path o)) eqn:E; [reflexivity|].
    rewrite (script_alone_sound s (w_path o) E i) in Horc. discriminate.
  - apply forallb_forall. intros p _. rewrite Hf. apply ostr_eqb_refl.
Qed.

(* ------------------------------------------------------------------ the code as found (D33) *)
Definition d33_script : script := {| s_limit := 0; s_soft := []; s_hard := []; s_perm := [109] |}.
Definition d33_ops : list wop :=
  [ {| w_path := 162; w_str := [48; 59]; w_fa := false |};
    {| w_path := 109; w_str := [49; 59]; w_fa := false |};
    {| w_path := 7; w_str := [50; 59]; w_fa := false |} ].

(* placeholder left behind: the write to the openable path 7 that follows the legitimate raise for 109 has its
   record written and then raises KeyError in prune() *)
Lemma d33_unrepaired_refuted :
  let h := x_hist_from false 1 1 (script_oracle d33_script) d33_ops (x_init (fun _ => None)) in
  let xs := x_final_from false 1 1 (script_oracle d33_script) d33_ops (x_init (fun _ => None)) in
  map xstatus h = [0; EOS; EKEY] /\ script_can_fail_alone d33_script 7 = false /\
  ghosts xs = [109] /\ ctr (base xs) = 1 /\ x_entries xs = 2.
Proof. vm_compute. repeat split; reflexivity. Qed.

(* a transient failure of the only path: the second write could open the file, but raises KeyError and the
   record is lost *)
Definition d33_script2 : script := {| s_limit := 0; s_soft := []; s_hard := [0]; s_perm := [] |}.
Definition d33_ops2 : list wop :=
  [ {| w_path := 109; w_str := [48; 59]; w_fa := false |};
    {| w_path := 109; w_str := [49; 59]; w_fa := false |} ].

Lemma d33_unrepaired_loses_record :
  let run d := (map xstatus (x_hist_from d 4 100 (script_oracle d33_script2) d33_ops2 (x_init (fun _ => None))),
                fs (base (x_close (x_final_from d 4 100 (script_oracle d33_script2) d33_ops2 (x_init (fun _ => None))))) 109) in
  script_oracle d33_script2 1%nat 109 0%nat = false /\
  run false = ([EOS; EKEY], None) /\ run true = ([EOS; 0], Some [49; 59]).
Proof. vm_compute. repeat split; reflexivity. Qed.

(* ------------------------------------------------------------------ the stop-at-first-raise run is the history cut at its first raise *)
Lemma run_hist_prefix : forall c orc ops st n k r,
  run_from c orc ops st n = (k, r) ->
  exists m, k = (n + m)%nat /\
            map status (firstn m (rhist_from c orc ops st)) = repeat 0 m /\
            match r with
            | Ok s => m = length ops /\ s = rfinal_from c orc ops st
            | Raise e s => nth_error (rhist_from c orc ops st) m = Some (Raise e s)
            end.
Proof.
  intros c orc ops. induction ops as [|o ops IH]; intros st n k r H; cbn [run_from] in H.
  - injection H as Hk Hr. subst k r. exists 0%nat. split; [lia|]. split; [reflexivity|]. split; reflexivity.
  - destruct (write c orc st o) as [st1|e st1] eqn:Ew.
    + destruct (IH st1 (S n) k r H) as [m [Hk [Hz Hr]]]. exists (S m). split; [lia|].
      cbn [rhist_from firstn map repeat]. rewrite Ew. cbn [status state_of]. rewrite Hz. split; [reflexivity|].
      destruct r as [s|e s].
      * destruct Hr as [Hm Hs]. split; [cbn [length]; lia|]. rewrite rfinal_cons, Ew. exact Hs.
      * cbn [nth_error]. exact Hr.
    + injection H as Hk Hr. subst k r. exists 0%nat. split; [lia|]. split; [reflexivity|].
      cbn [rhist_from nth_error]. rewrite Ew. reflexivity.
Qed.

Lemma hl_run_is_hist_prefix : forall mh pe orc init ops k r,
  hl_run_ops mh pe orc init ops = (k, r) ->
  firstn k (map xstatus (hl_hist mh pe orc init ops)) = repeat 0 k /\
  match r with
  | Ok s => k = length ops /\ hl_final mh pe orc init ops = lift s
  | Raise e s => nth_error (hl_hist mh pe orc init ops) k = Some (XRaise e (lift s))
  end.
Proof.
  intros mh pe orc init ops k r H. rewrite tie_run_ops in H. unfold run_ops in H.
  destruct (run_hist_prefix (cfg_of mh pe) orc ops (init_state init) 0%nat k r H) as [m [Hk [Hz Hr]]].
  cbn [plus] in Hk. subst m. rewrite hl_statuses_ref, hl_final_ref, hl_hist_ref.
  rewrite <- firstn_map in Hz. split; [exact Hz|].
  destruct r as [s|e s].
  - destruct Hr as [Hm Hs]. split; [exact Hm|]. rewrite Hs. reflexivity.
  - rewrite (map_nth_error lift_res k _ Hr). reflexivity.
Qed.
