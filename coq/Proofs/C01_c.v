(* C01 proofs, part 3: the yield counters, input order, mate synchronisation. *)
From Coq Require Import ZArith List Bool Lia Arith Sorted.
Import ListNotations.
From SCMO Require Import Lib.Val Lib.C01Shape Model.C01 Proofs.C01 Proofs.C01_b.
Open Scope Z_scope.

Lemma bump_length j ys : length (bump j ys) = length ys.
Proof. revert j; induction ys as [|y t IH]; intros [|j]; cbn [bump length]; auto. Qed.

Lemma nth_bump : forall ys j k,
  nth k (bump j ys) 0 = nth k ys 0 + (if Nat.eqb j k && (j <? length ys)%nat then 1 else 0).
Proof.
  induction ys as [|y t IH]; intros j k.
  - replace (bump j []) with (@nil Z) by (destruct j; reflexivity).
    cbn [length]. assert (H : (j <? 0)%nat = false) by (apply Nat.ltb_ge; lia).
    rewrite H, andb_false_r. lia.
  - destruct j as [|j], k as [|k]; cbn [bump nth Nat.eqb length andb].
    + assert (H : (0 <? S (length t))%nat = true) by (apply Nat.ltb_lt; lia). rewrite H. lia.
    + lia.
    + lia.
    + rewrite IH. replace (S j <? S (length t))%nat with (j <? length t)%nat; [reflexivity|].
      destruct (j <? length t)%nat eqn:H; symmetry.
      * apply Nat.ltb_lt in H. apply Nat.ltb_lt. lia.
      * apply Nat.ltb_ge in H. apply Nat.ltb_ge. lia.
Qed.


Lemma yields_from_length cfg r : forall ss j ys, length (yields_from cfg r j ss ys) = length ys.
Proof.
  induction ss as [|f ss IH]; intros j ys; cbn [yields_from]; [reflexivity|].
  rewrite IH. destruct (is_accept cfg (f r)); [apply bump_length|reflexivity].
Qed.

Lemma nth_yields_from cfg r k : forall ss j0 ys, (j0 + length ss <= length ys)%nat ->
  nth k (yields_from cfg r j0 ss ys) 0 =
  nth k ys 0 + (if (j0 <=? k)%nat && (k <? j0 + length ss)%nat && is_accept cfg (nth (k - j0) ss dflt r) then 1 else 0).
Proof.
  induction ss as [|f ss IH]; intros j0 ys Hlen.
  - cbn [yields_from length]. rewrite Nat.add_0_r.
    destruct (j0 <=? k)%nat eqn:H1, (k <? j0)%nat eqn:H2; cbn [andb]; try lia.
    apply Nat.leb_le in H1. apply Nat.ltb_lt in H2. lia.
  - cbn [yields_from]. cbn [length] in Hlen. rewrite IH.
    2:{ destruct (is_accept cfg (f r)); [rewrite bump_length|]; lia. }
    assert (Hnth : nth k (if is_accept cfg (f r) then bump j0 ys else ys) 0 =
                   nth k ys 0 + (if is_accept cfg (f r) && Nat.eqb j0 k then 1 else 0)).
    { destruct (is_accept cfg (f r)); cbn [andb]; [|lia]. rewrite nth_bump.
      assert (H : (j0 <? length ys)%nat = true) by (apply Nat.ltb_lt; lia). rewrite H, andb_true_r. reflexivity. }
    rewrite Hnth. cbn [length].
    destruct (Nat.eqb j0 k) eqn:Hjk.
    + apply Nat.eqb_eq in Hjk. subst k.
      assert (H1 : (S j0 <=? j0)%nat = false) by (apply Nat.leb_gt; lia).
      assert (H2 : (j0 <=? j0)%nat = true) by (apply Nat.leb_le; lia).
      assert (H3 : (j0 <? j0 + S (length ss))%nat = true) by (apply Nat.ltb_lt; lia).
      rewrite H1, H2, H3, Nat.sub_diag. cbn [andb nth]. rewrite andb_true_r. lia.
    + apply Nat.eqb_neq in Hjk. rewrite andb_false_r.
      destruct (S j0 <=? k)%nat eqn:H1.
      * apply Nat.leb_le in H1. assert (H2 : (j0 <=? k)%nat = true) by (apply Nat.leb_le; lia). rewrite H2.
        replace (k - j0)%nat with (S (k - S j0)) by lia. cbn [nth].
        replace (j0 + S (length ss))%nat with (S j0 + length ss)%nat by lia. lia.
      * apply Nat.leb_gt in H1. assert (H2 : (j0 <=? k)%nat = false) by (apply Nat.leb_gt; lia). rewrite H2.
        cbn [andb]. lia.
Qed.

Section Loader.
  Variable sh : shape.
  Variable strats : list strategy.
  Variable rejhdr : read -> str -> hout.
  Variable cfg : config.
  Hypothesis wf : wf_shape sh = true.

  Definition accepted_by (j : nat) (pairs : list pair) : list pair :=
    filter (fun r => is_accept cfg (nth j strats dflt r)) pairs.

  Lemma yields_pairs_spec k : (k < length strats)%nat -> forall pairs ys, (length strats <= length ys)%nat ->
    length (yields_pairs strats cfg pairs ys) = length ys /\
    nth k (yields_pairs strats cfg pairs ys) 0 = nth k ys 0 + Z.of_nat (length (accepted_by k pairs)).
  Proof.
    intros Hk. unfold yields_pairs, accepted_by.
    induction pairs as [|r rest IH]; intros ys Hlen; cbn [fold_left filter length].
    - split; [reflexivity|lia].
    - destruct (IH (yields_from cfg r 0 strats ys)) as [IH1 IH2]; [rewrite yields_from_length; lia|].
      rewrite IH1, IH2, yields_from_length. split; [reflexivity|].
      rewrite nth_yields_from by (cbn [Nat.add]; lia).
      cbn [Nat.leb Nat.add andb]. rewrite Nat.sub_0_r.
      apply Nat.ltb_lt in Hk. rewrite Hk. cbn [andb].
      destruct (is_accept cfg (nth k strats dflt r)); cbn [length]; lia.
  Qed.

  (* COUNTERS: strategyYields[j] = number of consumed pairs strategy j accepted *)
  Lemma yields_count pairs j :
    res_crashed (loader sh strats rejhdr cfg pairs) = false -> (j < length strats)%nat ->
    nth j (res_yields (loader sh strats rejhdr cfg pairs)) 0 = Z.of_nat (length (accepted_by j (consumed sh cfg pairs))).
  Proof.
    intros Hc Hj. destruct (loader_decl sh strats rejhdr cfg wf pairs Hc) as (_ & _ & -> & _).
    destruct (yields_pairs_spec j Hj (consumed sh cfg pairs) (repeat 0 (length strats))) as [_ H].
    - rewrite repeat_length. lia.
    - rewrite H. rewrite nth_repeat. lia.
  Qed.

  (* ... = number of records of strategy j in the R1 file(s) of the demultiplexed output *)
  Definition written_by (j : nat) (e : event) : bool :=
    Nat.eqb (e_strat e) j && (Bool.eqb (e_target e) true && Nat.eqb (e_mate e) 0).

  Lemma written_pairs j : (j < length strats)%nat -> (0 < target_width cfg)%nat ->
    forall pairs p0,
      (forall r, In r pairs -> step_ok cfg r (nth j strats dflt) /\ step_crash rejhdr cfg r (nth j strats dflt) = false) ->
      length (filter (written_by j) (pairs_from strats rejhdr cfg p0 pairs)) = length (accepted_by j pairs).
  Proof.
    intros Hj Hw. induction pairs as [|r rest IH]; intros p0 Hall; [reflexivity|].
    cbn [pairs_from]. rewrite filter_app, app_length, IH by (intros r' Hr'; apply Hall; now right).
    unfold accepted_by. cbn [filter].
    assert (Hstep : length (filter (written_by j) (steps_from rejhdr cfg p0 r 0 strats)) =
                    if is_accept cfg (nth j strats dflt r) then 1%nat else 0%nat).
    { rewrite (filter_ext_in (written_by j) (at_b true p0 j 0)).
      2:{ intros e He. apply steps_from_labels in He. destruct He as [He _].
          unfold written_by, at_b, lab_eqb. rewrite He, Nat.eqb_refl. reflexivity. }
      unfold at_b. rewrite <- filter_filter, filter_lab_steps.
      cbn [Nat.leb Nat.add andb]. rewrite Nat.sub_0_r.
      apply Nat.ltb_lt in Hj. rewrite Hj.
      destruct (Hall r (or_introl eq_refl)) as [Hok Hcr].
      rewrite (step_count rejhdr cfg true p0 r j _ 0%nat Hok Hcr Hw).
      destruct (is_accept cfg (nth j strats dflt r)); reflexivity. }
    rewrite Hstep. unfold accepted_by. destruct (is_accept cfg (nth j strats dflt r)); cbn [length]; lia.
  Qed.

  Lemma counters_written pairs j :
    res_crashed (loader sh strats rejhdr cfg pairs) = false -> (j < length strats)%nat -> (0 < target_width cfg)%nat ->
    (forall r, In r (consumed sh cfg pairs) -> step_ok cfg r (nth j strats dflt)) ->
    nth j (res_yields (loader sh strats rejhdr cfg pairs)) 0 =
    Z.of_nat (length (filter (written_by j) (res_trace (loader sh strats rejhdr cfg pairs)))).
  Proof.
    intros Hc Hj Hw Hok. rewrite (yields_count pairs j Hc Hj).
    destruct (loader_decl sh strats rejhdr cfg wf pairs Hc) as (Hex & -> & _ & _).
    rewrite (written_pairs j Hj Hw); [reflexivity|].
    intros r Hr. split; [now apply Hok|].
    destruct (step_crash rejhdr cfg r (nth j strats dflt)) eqn:Hsc; [|reflexivity].
    assert (existsb (pair_crash strats rejhdr cfg) (consumed sh cfg pairs) = true).
    { apply existsb_exists. exists r. split; [assumption|]. unfold pair_crash. apply existsb_exists.
      exists (nth j strats dflt). split; [now apply nth_In|assumption]. }
    congruence.
  Qed.

  (* ---------------- ORDER: the trace, hence every output file, lists its records in input order *)
  Lemma same_label_sorted (l : list event) p j :
    (forall e, In e l -> e_pair e = p /\ e_strat e = j) -> StronglySorted ev_le l.
  Proof.
    induction l as [|x l IH]; intros H; constructor.
    - apply IH. intros e He. apply H. now right.
    - apply Forall_forall. intros y Hy.
      destruct (H x (or_introl eq_refl)) as [Hx1 Hx2]. destruct (H y (or_intror Hy)) as [Hy1 Hy2].
      unfold ev_le. rewrite Hx1, Hx2, Hy1, Hy2. right. split; [reflexivity|lia].
  Qed.

  Lemma steps_sorted p r : forall ss j0, StronglySorted ev_le (steps_from rejhdr cfg p r j0 ss).
  Proof.
    induction ss as [|f ss IH]; intros j0; cbn [steps_from]; [constructor|].
    apply SSorted_app; [|apply IH|].
    - apply (same_label_sorted _ p j0). intros e He. now apply step_events_labels in He.
    - intros a b Ha Hb. apply step_events_labels in Ha. apply steps_from_labels in Hb.
      destruct Ha as [Ha1 Ha2]. destruct Hb as [Hb1 Hb2]. unfold ev_le. rewrite Ha1, Ha2, Hb1. right. split; [reflexivity|lia].
  Qed.

  Lemma pairs_sorted : forall pairs p0, StronglySorted ev_le (pairs_from strats rejhdr cfg p0 pairs).
  Proof.
    induction pairs as [|r rest IH]; intros p0; cbn [pairs_from]; [constructor|].
    apply SSorted_app; [apply steps_sorted|apply IH|].
    intros a b Ha Hb. apply steps_from_labels in Ha. apply pairs_from_labels in Hb.
    destruct Ha as [Ha _]. unfold ev_le. rewrite Ha. left. lia.
  Qed.

  Lemma file_sorted pairs t cell m :
    res_crashed (loader sh strats rejhdr cfg pairs) = false ->
    StronglySorted ev_le (file_events (res_trace (loader sh strats rejhdr cfg pairs)) t cell m).
  Proof.
    intros Hc. destruct (loader_decl sh strats rejhdr cfg wf pairs Hc) as (_ & -> & _ & _).
    unfold file_events. apply SSorted_filter. apply pairs_sorted.
  Qed.

  (* ---------------- MATE SYNC: the R1 and the R2 file of a sink hold the same sequence of (pair, strategy) labels *)
  Definition lab (e : event) : nat * nat := (e_pair e, e_strat e).

  Definition width (t : bool) : nat := if t then target_width cfg else c_nh cfg.

  (* per-cell mode: all mates of an accepted pair name the same cell *)
  Definition step_ok2 (r : pair) (f : strategy) : Prop :=
    step_ok cfg r f /\
    match f r with
    | Accept recs => c_sc cfg = true -> forall x y, In x recs -> In y recs -> a_cell x = a_cell y
    | _ => True
    end.

  Lemma in_file_split t cell m :
    in_file t cell m = fun e => (Bool.eqb (e_target e) t && str_eqb (e_cell e) cell) && Nat.eqb (e_mate e) m.
  Proof. reflexivity. Qed.

  Lemma write_reject_sync t cell p j ts m1 m2 : (m1 < c_nh cfg)%nat -> (m2 < c_nh cfg)%nat -> (c_nh cfg <= length ts)%nat ->
    map lab (filter (in_file t cell m1) (write_reject cfg p j ts)) = map lab (filter (in_file t cell m2) (write_reject cfg p j ts)).
  Proof.
    intros H1 H2 Hl. unfold write_reject. rewrite !in_file_split.
    rewrite !(filter_mate_combine [] (fun k x => mkEv false [] k p j x)
                (fun e => Bool.eqb (e_target e) t && str_eqb (e_cell e) cell)) by reflexivity.
    cbn [Nat.leb Nat.add andb]. unfold str in *.
    assert (A1 : (m1 <? Nat.min (c_nh cfg) (length ts))%nat = true) by (apply Nat.ltb_lt; lia).
    assert (A2 : (m2 <? Nat.min (c_nh cfg) (length ts))%nat = true) by (apply Nat.ltb_lt; lia).
    rewrite A1, A2. cbn [andb e_target e_cell].
    destruct (Bool.eqb false t && str_eqb [] cell); reflexivity.
  Qed.

  Lemma step_sync t cell p r j f m1 m2 : step_ok2 r f -> (m1 < width t)%nat -> (m2 < width t)%nat ->
    map lab (filter (in_file t cell m1) (step_events rejhdr cfg p r j f)) =
    map lab (filter (in_file t cell m2) (step_events rejhdr cfg p r j f)).
  Proof.
    unfold step_ok2, step_ok, step_events, width, target_width. intros [Hok Hcell] H1 H2.
    destruct (f r) as [recs|reason|kind].
    - destruct Hok as [Hok Hall]. rewrite (ok_prefix_all _ Hall). destruct t.
      + unfold write_target. destruct (c_sc cfg) eqn:Hsc.
        * rewrite !in_file_split.
          rewrite !(filter_mate_combine (mkArec true [] []) (fun k x => mkEv true (a_cell x) k p j (a_text x))
                      (fun e => Bool.eqb (e_target e) true && str_eqb (e_cell e) cell)) by reflexivity.
          cbn [Nat.leb Nat.add andb].
          assert (A1 : (m1 <? Nat.min 2 (length recs))%nat = true) by (apply Nat.ltb_lt; lia).
          assert (A2 : (m2 <? Nat.min 2 (length recs))%nat = true) by (apply Nat.ltb_lt; lia).
          rewrite A1, A2. cbn [andb e_target e_cell Bool.eqb]. rewrite !Nat.sub_0_r.
          rewrite (Hcell eq_refl (nth m1 recs (mkArec true [] [])) (nth m2 recs (mkArec true [] []))) by (apply nth_In; lia).
          destruct (str_eqb (a_cell (nth m2 recs (mkArec true [] []))) cell); reflexivity.
        * rewrite !in_file_split.
          rewrite !(filter_mate_combine (mkArec true [] []) (fun k x => mkEv true [] k p j (a_text x))
                      (fun e => Bool.eqb (e_target e) true && str_eqb (e_cell e) cell)) by reflexivity.
          cbn [Nat.leb Nat.add andb].
          assert (A1 : (m1 <? Nat.min (c_nh cfg) (length recs))%nat = true) by (apply Nat.ltb_lt; lia).
          assert (A2 : (m2 <? Nat.min (c_nh cfg) (length recs))%nat = true) by (apply Nat.ltb_lt; lia).
          rewrite A1, A2. cbn [andb e_target e_cell Bool.eqb].
          destruct (str_eqb [] cell); reflexivity.
      + rewrite !filter_nil_forall; [reflexivity| |];
          intros e He; apply write_target_labels in He; destruct He as (_ & _ & He);
          unfold in_file; rewrite He; reflexivity.
    - destruct (c_rejects cfg); [|reflexivity].
      destruct (reject_texts rejhdr r reason) as [ts|] eqn:Hts; [|reflexivity].
      destruct t.
      + rewrite !filter_nil_forall; [reflexivity| |];
          intros e He; apply write_reject_labels in He; destruct He as (_ & _ & He & _);
          unfold in_file; rewrite He; reflexivity.
      + apply write_reject_sync; try assumption. rewrite (reject_texts_length _ _ _ _ Hts). assumption.
    - destruct (c_rejects cfg); [|reflexivity].
      destruct t.
      + rewrite !filter_nil_forall; [reflexivity| |];
          intros e He; apply write_reject_labels in He; destruct He as (_ & _ & He & _);
          unfold in_file; rewrite He; reflexivity.
      + apply write_reject_sync; try assumption. unfold generic_texts. now rewrite map_length.
  Qed.

  Lemma steps_sync t cell p r m1 m2 : (m1 < width t)%nat -> (m2 < width t)%nat ->
    forall ss j0, (forall f, In f ss -> step_ok2 r f) ->
    map lab (filter (in_file t cell m1) (steps_from rejhdr cfg p r j0 ss)) =
    map lab (filter (in_file t cell m2) (steps_from rejhdr cfg p r j0 ss)).
  Proof.
    intros H1 H2. induction ss as [|f ss IH]; intros j0 Hall; [reflexivity|].
    cbn [steps_from]. rewrite !filter_app, !map_app. f_equal.
    - apply step_sync; auto. apply Hall. now left.
    - apply IH. intros f' Hf'. apply Hall. now right.
  Qed.

  Lemma pairs_sync t cell m1 m2 : (m1 < width t)%nat -> (m2 < width t)%nat ->
    forall pairs p0, (forall r f, In r pairs -> In f strats -> step_ok2 r f) ->
    map lab (filter (in_file t cell m1) (pairs_from strats rejhdr cfg p0 pairs)) =
    map lab (filter (in_file t cell m2) (pairs_from strats rejhdr cfg p0 pairs)).
  Proof.
    intros H1 H2. induction pairs as [|r rest IH]; intros p0 Hall; [reflexivity|].
    cbn [pairs_from]. rewrite !filter_app, !map_app. f_equal.
    - apply steps_sync; auto. intros f Hf. apply Hall; [now left|assumption].
    - apply IH. intros r' f Hr' Hf. apply Hall; [now right|assumption].
  Qed.

  Lemma mate_sync pairs t cell m1 m2 :
    res_crashed (loader sh strats rejhdr cfg pairs) = false ->
    (forall r f, In r (consumed sh cfg pairs) -> In f strats -> step_ok2 r f) ->
    (m1 < width t)%nat -> (m2 < width t)%nat ->
    map lab (file_events (res_trace (loader sh strats rejhdr cfg pairs)) t cell m1) =
    map lab (file_events (res_trace (loader sh strats rejhdr cfg pairs)) t cell m2).
  Proof.
    intros Hc Hall H1 H2. destruct (loader_decl sh strats rejhdr cfg wf pairs Hc) as (_ & -> & _ & _).
    unfold file_events. now apply pairs_sync.
  Qed.

  (* processedReadPairs: the number of consumed pairs, and its closed form *)
  Lemma processed_spec pairs :
    res_crashed (loader sh strats rejhdr cfg pairs) = false ->
    res_processed (loader sh strats rejhdr cfg pairs) = Z.of_nat (length (consumed sh cfg pairs)) /\
    res_processed (loader sh strats rejhdr cfg pairs) =
      match pairs, c_max cfg with
      | [], _ => 0
      | _, None => Z.of_nat (length pairs)
      | _, Some m => Z.min (Z.of_nat (length pairs)) (Z.max (min_consumed sh) m)
      end /\
    exists k, consumed sh cfg pairs = firstn k pairs.
  Proof.
    intros Hc. split; [|split].
    - now destruct (loader_decl sh strats rejhdr cfg wf pairs Hc) as (_ & _ & _ & ->).
    - now apply processed_formula.
    - apply consumed_from_prefix.
  Qed.
End Loader.
