(* C07 proofs, extension: invariants of every yielded molecule (soundness of the grouping, arrival order)
   and independence of cache_size.  Generic part: a keyed invariant Q key past m that is established by newm,
   preserved by an accepted add and monotone in the consumed prefix holds of every yielded molecule. *)
From Coq Require Import ZArith List Bool Lia ZifyBool Permutation.
Import ListNotations.
From SCMO Require Import Lib.Val Gen.GenEject Model.C07 Proofs.C07_a Proofs.C07.
Open Scope Z_scope.

Section InvFacts.
Variables F M : Type.
Variable newm : F -> M.
Variable addm : M -> F -> M.
Variable matchm : M -> F -> bool.
Variable hashf : F -> Z.
Variable validf : F -> bool.
Variable nochrom : F -> bool.
Variable yieldable : F -> M -> bool.
Variable pidx : Z -> Z -> Z.
Variable yield_invalid : bool.
Variable every : option Z.
Hypothesis pidx_good : forall i j, pidx i j = j - i.

Variable Q : Z -> list F -> M -> Prop.
Hypothesis Q_mono : forall k past g m, Q k past m -> Q k (past ++ [g]) m.
Hypothesis Q_new : forall past g, Q (hashf g) (past ++ [g]) (newm g).
Hypothesis Q_add : forall past g m, validf g = true -> Q (hashf g) past m -> matchm m g = true ->
  Q (hashf g) (past ++ [g]) (addm m g).

Notation assign := (assign F M addm matchm).
Notation place := (place F M newm addm matchm).
Notation gplace := (gplace F M newm addm matchm).
Notation geject := (geject M pidx).
Notation step := (step F M newm addm matchm hashf validf nochrom yieldable pidx).
Notation run_from := (run_from F M newm addm matchm hashf validf nochrom yieldable pidx).
Notation run_machine := (run_machine F M newm addm matchm hashf validf nochrom yieldable pidx).

Definition GQ (past : list F) (gs : list (Z * list M)) : Prop :=
  Forall (fun g => Forall (Q (fst g) past) (snd g)) gs.
Definition OQ (past : list F) (out : list M) : Prop := Forall (fun m => exists k, Q k past m) out.

Lemma Q_mono_app k m : forall l past, Q k past m -> Q k (past ++ l) m.
Proof.
  induction l as [|g l IH]; intros past H.
  - rewrite app_nil_r. exact H.
  - change (g :: l) with ([g] ++ l). rewrite app_assoc. apply IH. apply Q_mono. exact H.
Qed.

Lemma GQ_mono_app l past gs : GQ past gs -> GQ (past ++ l) gs.
Proof.
  unfold GQ. intros H. eapply Forall_impl; [|exact H]. intros g Hg.
  eapply Forall_impl; [|exact Hg]. intros m Hm. apply Q_mono_app. exact Hm.
Qed.

Lemma OQ_mono_app l past out : OQ past out -> OQ (past ++ l) out.
Proof.
  unfold OQ. intros H. eapply Forall_impl; [|exact H]. intros m [k Hm]. exists k. apply Q_mono_app. exact Hm.
Qed.

Lemma assign_Q past g (Hv : validf g = true) : forall l r,
  Forall (Q (hashf g) past) l -> assign g l = Some r -> Forall (Q (hashf g) (past ++ [g])) r.
Proof.
  induction l as [|m l IH]; intros r HF H; cbn [C07.assign] in H; [discriminate|].
  inversion HF as [|? ? Hm Hl]; subst.
  destruct (matchm m g) eqn:Em.
  - injection H as <-. constructor.
    + apply Q_add; assumption.
    + eapply Forall_impl; [|exact Hl]. intros x Hx. apply Q_mono. exact Hx.
  - destruct (assign g l) as [r'|] eqn:Ea; [|discriminate]. injection H as <-. constructor.
    + apply Q_mono. exact Hm.
    + apply IH; [exact Hl|reflexivity].
Qed.

Lemma place_Q past g (Hv : validf g = true) l :
  Forall (Q (hashf g) past) l -> Forall (Q (hashf g) (past ++ [g])) (place g l).
Proof.
  intros HF. unfold C07.place. destruct (assign g l) as [r|] eqn:Ea.
  - eapply assign_Q; eassumption.
  - apply Forall_app. split.
    + eapply Forall_impl; [|exact HF]. intros x Hx. apply Q_mono. exact Hx.
    + constructor; [apply Q_new|constructor].
Qed.

Lemma gplace_Q past g (Hv : validf g = true) : forall gs,
  GQ past gs -> GQ (past ++ [g]) (gplace g (hashf g) gs).
Proof.
  unfold GQ. induction gs as [|[k l] gs IH]; intros HG; cbn [C07.gplace].
  - constructor; [|constructor]. cbn [fst snd]. apply (place_Q past g Hv []). constructor.
  - inversion HG as [|? ? Hkl Hgs]; subst. cbn [fst snd] in Hkl.
    destruct (hashf g =? k) eqn:Ek.
    + apply Z.eqb_eq in Ek. constructor.
      * cbn [fst snd]. rewrite <- Ek. apply place_Q; [exact Hv|]. rewrite Ek. exact Hkl.
      * exact (GQ_mono_app [g] past gs Hgs).
    + constructor.
      * cbn [fst snd]. eapply Forall_impl; [|exact Hkl]. intros x Hx. apply Q_mono. exact Hx.
      * apply IH. exact Hgs.
Qed.

Lemma gpicked_Q past p : forall gs, GQ past gs -> OQ past (gpicked M p gs).
Proof.
  unfold GQ, OQ, gpicked. induction gs as [|[k l] gs IH]; intros HG; cbn [map concat].
  - constructor.
  - inversion HG as [|? ? Hkl Hgs]; subst. cbn [fst snd] in *. apply Forall_app. split.
    + apply Forall_forall. intros m Hm. apply filter_In in Hm. destruct Hm as [Hm _].
      exists k. rewrite Forall_forall in Hkl. apply Hkl. exact Hm.
    + apply IH. exact Hgs.
Qed.

Lemma gfilter_Q past p : forall gs, GQ past gs -> GQ past (gfilter M p gs).
Proof.
  unfold GQ, gfilter. induction gs as [|[k l] gs IH]; intros HG; cbn [map].
  - constructor.
  - inversion HG as [|? ? Hkl Hgs]; subst. cbn [fst snd] in *. constructor.
    + cbn [fst snd]. apply Forall_forall. intros m Hm. apply filter_In in Hm. destruct Hm as [Hm _].
      rewrite Forall_forall in Hkl. apply Hkl. exact Hm.
    + apply IH. exact Hgs.
Qed.

Lemma step_Q past st f st' out ok :
  GQ past (st_groups M st) -> step every yield_invalid st f = (st', out, ok) ->
  GQ (past ++ [f]) (st_groups M st') /\ OQ (past ++ [f]) out.
Proof.
  intros HG. unfold C07.step. destruct (validf f) eqn:Hv; cbn [negb].
  - pose proof (gplace_Q past f Hv _ HG) as H1.
    destruct (eject_due _ _ _).
    + destruct (nochrom f).
      * intros H. injection H as <- <- <-. cbn [st_groups]. split; [exact H1|constructor].
      * rewrite (geject_good M pidx pidx_good).
        intros H. injection H as <- <- <-. cbn [st_groups]. split.
        -- apply gfilter_Q. exact H1.
        -- apply gpicked_Q. exact H1.
    + intros H. injection H as <- <- <-. cbn [st_groups]. split; [exact H1|constructor].
  - intros H. injection H as <- <- <-. split.
    + exact (GQ_mono_app [f] past _ HG).
    + destruct yield_invalid; [|constructor]. constructor; [|constructor]. exists (hashf f). apply Q_new.
Qed.

Lemma run_from_Q : forall fs past st outs st' ok,
  GQ past (st_groups M st) -> run_from every yield_invalid st fs = (outs, st', ok) ->
  GQ (past ++ fs) (st_groups M st') /\ OQ (past ++ fs) (concat outs).
Proof.
  induction fs as [|f fs IH]; intros past st outs st' ok HG H; cbn [C07.run_from] in H.
  - injection H as <- <- <-. rewrite app_nil_r. split; [exact HG|constructor].
  - destruct (step every yield_invalid st f) as [[st1 out] ok1] eqn:E.
    destruct (step_Q past st f st1 out ok1 HG E) as [G1 O1].
    change (f :: fs) with ([f] ++ fs). rewrite app_assoc.
    destruct ok1.
    + destruct (run_from every yield_invalid st1 fs) as [[outs2 st2] ok2] eqn:E2.
      injection H as <- <- <-. destruct (IH _ _ _ _ _ G1 E2) as [G2 O2]. split; [exact G2|].
      cbn [concat]. apply Forall_app. split; [apply OQ_mono_app; exact O1|exact O2].
    + injection H as <- <- <-. split; [apply GQ_mono_app; exact G1|].
      cbn [concat]. rewrite app_nil_r. apply OQ_mono_app. exact O1.
Qed.

Theorem invariant_generic fs outs fl ok :
  run_machine every yield_invalid fs = (outs, fl, ok) -> OQ fs (concat outs ++ fl).
Proof.
  unfold C07.run_machine. destruct (run_from every yield_invalid (init M) fs) as [[o st] k] eqn:E.
  intros H. injection H as <- <- <-.
  assert (G0 : GQ [] (st_groups M (init M))) by constructor.
  destruct (run_from_Q fs [] _ _ _ _ G0 E) as [G O]. cbn [app] in *.
  apply Forall_app. split; [exact O|].
  destruct k; [|constructor]. unfold flush.
  unfold GQ in G. unfold OQ. induction (st_groups M st) as [|[kk l] gs IHg]; cbn [map concat]; [constructor|].
  inversion G as [|? ? Hkl Hgs]; subst. cbn [fst snd] in *. apply Forall_app. split.
  - eapply Forall_impl; [|exact Hkl]. intros m Hm. exists kk. exact Hm.
  - apply IHg. exact Hgs.
Qed.

(* with check_eject_every = None the ejection predicate is never evaluated *)
Lemma run_from_none_yieldable (y1 y2 : F -> M -> bool) : forall fs st,
  C07.run_from F M newm addm matchm hashf validf nochrom y1 pidx None yield_invalid st fs =
  C07.run_from F M newm addm matchm hashf validf nochrom y2 pidx None yield_invalid st fs.
Proof.
  induction fs as [|f fs IH]; intros st; cbn [C07.run_from]; [reflexivity|].
  assert (E : C07.step F M newm addm matchm hashf validf nochrom y1 pidx None yield_invalid st f =
              C07.step F M newm addm matchm hashf validf nochrom y2 pidx None yield_invalid st f).
  { unfold C07.step. destruct (validf f); cbn [negb]; [|reflexivity].
    unfold has_every. rewrite eject_due_none. reflexivity. }
  rewrite E. destruct (C07.step _ _ _ _ _ _ _ _ y2 _ _ _ st f) as [[st1 out] ok1].
  destruct ok1; [|reflexivity]. rewrite IH. reflexivity.
Qed.
End InvFacts.

(* ------------------------------------------------------------------ the instance *)
(* l is a subsequence of past (same relative order) *)
Inductive subseq {A : Type} : list A -> list A -> Prop :=
| ss_nil : subseq [] []
| ss_skip : forall x l p, subseq l p -> subseq l (p ++ [x])
| ss_take : forall x l p, subseq l p -> subseq (l ++ [x]) (p ++ [x]).

(* what is true of every molecule the iterator yields (key = the buffer it lived in) *)
Record sound_mol (c : cfg) (k : Z) (past : list frag) (m : mol) : Prop := {
  sm_nonempty : m_frags m <> [];
  sm_sample : forall g, In g (m_frags m) -> f_sample g = m_sample m;
  sm_hash : c_pooling c =? 0 = false -> forall g, In g (m_frags m) -> f_hash g = k;
  sm_order : subseq (m_frags m) past;
  (* pooling 0: every fragment but the first compared equal (Fragment.__eq__) to an earlier member *)
  sm_chain : c_pooling c =? 0 = true -> forall pre g post, m_frags m = pre ++ g :: post -> pre <> [] ->
             exists g', In g' pre /\ frag_eq_frag (c_radius c) (c_hd c) g' g = true
}.

Lemma matchC_sample c m g : (forall h, In h (m_frags m) -> f_sample h = m_sample m) ->
  matchC c m g = true -> f_sample g = m_sample m.
Proof.
  intros Hs. unfold matchC. destruct (c_pooling c =? 0).
  - unfold match_flat. intros H. apply existsb_exists in H. destruct H as [h [Hin He]].
    unfold frag_eq_frag in He. apply fragment_eq_true in He. destruct He as [E _]. rewrite <- (Hs h Hin). symmetry. exact E.
  - unfold match_grouped, frag_eq_mol. intros H. apply fragment_eq_true in H. destruct H as [E _]. exact E.
Qed.

Lemma subseq_nil {A : Type} : forall p : list A, subseq [] p.
Proof. induction p as [|x p IH] using rev_ind; [constructor|apply ss_skip; exact IH]. Qed.

Lemma snoc_split {A : Type} (pre : list A) g0 post l g :
  pre ++ g0 :: post = l ++ [g] ->
  (post = [] /\ pre = l /\ g0 = g) \/ (exists post', post = post' ++ [g] /\ l = pre ++ g0 :: post').
Proof.
  induction post as [|x post _] using rev_ind; intros H.
  - left. change (pre ++ [g0] = l ++ [g]) in H. apply app_inj_tail in H. destruct H as [-> ->]. auto.
  - right. rewrite app_comm_cons, app_assoc in H. apply app_inj_tail in H. destruct H as [<- ->].
    exists post. auto.
Qed.

Section SoundC.
Variable c : cfg.

Lemma sound_mono k past g m : sound_mol c k past m -> sound_mol c k (past ++ [g]) m.
Proof. intros [H1 H2 H3 H4 H5]. constructor; try assumption. apply ss_skip. exact H4. Qed.

Lemma sound_new past g : sound_mol c (hashC c g) (past ++ [g]) (new_mol g).
Proof.
  constructor; cbn [new_mol m_frags m_sample].
  - discriminate.
  - intros h [<-|[]]. reflexivity.
  - intros Hp h [<-|[]]. unfold hashC. rewrite Hp. reflexivity.
  - apply (ss_take g [] past). apply subseq_nil.
  - intros _ pre h post E Hpre. destruct pre as [|x pre]; [contradiction|].
    cbn in E. injection E as _ E. destruct pre; discriminate E.
Qed.

Lemma sound_add past g m : f_valid g = true -> sound_mol c (hashC c g) past m -> matchC c m g = true ->
  sound_mol c (hashC c g) (past ++ [g]) (add_mol m g).
Proof.
  intros _ [H1 H2 H3 H4 H5] Hm. constructor; cbn [add_mol m_frags m_sample].
  - intros E. apply app_eq_nil in E. destruct E as [_ E]. discriminate.
  - intros h Hin. apply in_app_or in Hin. destruct Hin as [Hin|[<-|[]]]; [apply H2; exact Hin|].
    apply (matchC_sample c m g H2 Hm).
  - intros Hp h Hin. apply in_app_or in Hin. destruct Hin as [Hin|[<-|[]]]; [apply H3; assumption|].
    unfold hashC. rewrite Hp. reflexivity.
  - apply ss_take. exact H4.
  - intros Hp pre g0 post E Hpre. symmetry in E. apply snoc_split in E. destruct E as [(-> & -> & ->)|(post' & -> & E)].
    + unfold matchC in Hm. rewrite Hp in Hm. unfold match_flat in Hm. apply existsb_exists in Hm.
      destruct Hm as [h [Hin He]]. exists h. split; assumption.
    + exact (H5 Hp pre g0 post' E Hpre).
Qed.
End SoundC.

(* every yielded molecule is sound, for every configuration and input *)
Lemma molecule_sound c fs outs fl ok : runC c fs = (outs, fl, ok) ->
  forall m, In m (concat outs ++ fl) -> exists k, sound_mol c k fs m.
Proof.
  intros H. rewrite runC_unified in H. unfold runU in H.
  pose proof (invariant_generic frag mol new_mol add_mol (matchC c) (hashC c) f_valid nochrom (yieldable (c_cache c))
                (pidxC c) (c_yield_invalid c) (c_every c) (pidxC_ok c) (sound_mol c)
                (sound_mono c) (sound_new c) (sound_add c) fs outs fl ok H) as HO.
  unfold OQ in HO. rewrite Forall_forall in HO. exact HO.
Qed.

(* consequences in plain words *)
Lemma molecule_one_sample c fs outs fl ok : runC c fs = (outs, fl, ok) ->
  forall m, In m (concat outs ++ fl) -> forall g h, In g (m_frags m) -> In h (m_frags m) -> f_sample g = f_sample h.
Proof.
  intros H m Hm g h Hg Hh. destruct (molecule_sound c fs outs fl ok H m Hm) as [k S].
  rewrite (sm_sample c k fs m S g Hg), (sm_sample c k fs m S h Hh). reflexivity.
Qed.

Lemma molecule_one_hash c fs outs fl ok : c_pooling c =? 0 = false -> runC c fs = (outs, fl, ok) ->
  forall m, In m (concat outs ++ fl) -> forall g h, In g (m_frags m) -> In h (m_frags m) -> f_hash g = f_hash h.
Proof.
  intros Hp H m Hm g h Hg Hh. destruct (molecule_sound c fs outs fl ok H m Hm) as [k S].
  rewrite (sm_hash c k fs m S Hp g Hg), (sm_hash c k fs m S Hp h Hh). reflexivity.
Qed.

Lemma molecule_arrival_order c fs outs fl ok : runC c fs = (outs, fl, ok) ->
  forall m, In m (concat outs ++ fl) -> subseq (m_frags m) fs.
Proof.
  intros H m Hm. destruct (molecule_sound c fs outs fl ok H m Hm) as [k S]. exact (sm_order c k fs m S).
Qed.

Lemma molecule_chain_flat c fs outs fl ok : c_pooling c =? 0 = true -> runC c fs = (outs, fl, ok) ->
  forall m, In m (concat outs ++ fl) -> forall pre g post, m_frags m = pre ++ g :: post -> pre <> [] ->
  exists g', In g' pre /\ frag_eq_frag (c_radius c) (c_hd c) g' g = true.
Proof.
  intros Hp H m Hm. destruct (molecule_sound c fs outs fl ok H m Hm) as [k S]. exact (sm_chain c k fs m S Hp).
Qed.

(* ------------------------------------------------------------------ cache_size *)
Definition with_cache (c : cfg) (k : Z) : cfg :=
  mkCfg (c_every c) (c_pooling c) k (c_radius c) (c_hd c) (c_yield_invalid c).

Lemma runC_none_cache c k fs : runC (with_every c None) fs = runC (with_every (with_cache c k) None) fs.
Proof.
  rewrite !runC_unified. unfold runU, run_machine. cbn [with_every with_cache c_every c_cache c_pooling c_radius c_hd c_yield_invalid].
  change (matchC (with_every (with_cache c k) None)) with (matchC (with_every c None)).
  change (hashC (with_every (with_cache c k) None)) with (hashC (with_every c None)).
  change (pidxC (with_every (with_cache c k) None)) with (pidxC (with_every c None)).
  rewrite (run_from_none_yieldable frag mol new_mol add_mol (matchC (with_every c None)) (hashC (with_every c None))
             f_valid nochrom (pidxC (with_every c None)) (c_yield_invalid c) (yieldable (c_cache c)) (yieldable k)).
  reflexivity.
Qed.

Lemma preb_cache_mono L lag c k fs : c_cache c <= k -> preb L lag c fs = true -> preb L lag (with_cache c k) fs = true.
Proof.
  intros Hk. unfold preb. cbn [with_cache c_radius c_cache]. intros H.
  repeat (apply andb_prop in H; let H' := fresh "H" in destruct H as [H H']).
  repeat (apply andb_true_intro; split); try assumption. lia.
Qed.

(* under the hypotheses the yielded multiset is the same for every larger cache_size *)
Lemma cache_monotone L lag c k fs : preb L lag c fs = true -> c_cache c <= k ->
  Permutation (emitted mol (runC c fs)) (emitted mol (runC (with_cache c k) fs)).
Proof.
  intros Hpre Hk. pose proof (preb_cache_mono L lag c k fs Hk Hpre) as Hpre2.
  eapply Permutation_trans; [exact (schedule_independent L lag c fs Hpre)|].
  rewrite (runC_none_cache c k fs). apply Permutation_sym. exact (schedule_independent L lag (with_cache c k) fs Hpre2).
Qed.

(* non-vacuity *)
Definition ex_cfg1 (e : option Z) : cfg := mkCfg e 1 40 0 0 false.
(* two cells (sample = match_hash 0 / 1) with the same coordinates and UMI, interleaved *)
Definition ex_two : list frag :=
  [mkFrag 0 true 0 0 0 100 110 [65] 0; mkFrag 1 true 1 0 0 100 110 [65] 1;
   mkFrag 2 true 0 0 0 100 110 [65] 0; mkFrag 3 true 1 0 0 100 110 [65] 1].
