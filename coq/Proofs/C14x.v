(* C14 proofs, extension part x: the caller written on the raw aligned pairs (Model/C14x.v, r-functions) is the
   caller of Model/C14.v applied to the abstraction abs_frag; what the abstraction is (matches_only view,
   reference_start / reference_end). *)
From Coq Require Import ZArith List Bool Lia Arith.
Import ListNotations.
From SCMO Require Import Lib.Val Gen.GenTaps Model.C14 Model.C14x Proofs.C14_a Proofs.C14.
Open Scope Z_scope.

(* ------------------------------------------------------------------ list facts *)
Lemma map_filter_flat_map {A B C} (g : B -> C) (p : B -> bool) (h : A -> list B) (l : list A) :
  map g (filter p (flat_map h l)) = flat_map (fun a => map g (filter p (h a))) l.
Proof.
  induction l as [|a l IH]; [reflexivity|]. cbn [flat_map]. now rewrite filter_app, map_app, IH.
Qed.

Lemma map_flat_map {A B C} (g : B -> C) (h : A -> list B) (l : list A) :
  map g (flat_map h l) = flat_map (fun a => map g (h a)) l.
Proof. induction l as [|a l IH]; [reflexivity|]. cbn [flat_map]. now rewrite map_app, IH. Qed.

Lemma flat_map_map' {A B C} (g : A -> B) (h : B -> list C) (l : list A) :
  flat_map h (map g l) = flat_map (fun a => h (g a)) l.
Proof. induction l as [|a l IH]; [reflexivity|]. cbn [map flat_map]. now rewrite IH. Qed.

Lemma flat_map_ext' {A B} (f g : A -> list B) (l : list A) :
  (forall a, In a l -> f a = g a) -> flat_map f l = flat_map g l.
Proof.
  induction l as [|a l IH]; intros H; [reflexivity|]. cbn [flat_map].
  rewrite (H a (or_introl eq_refl)), IH; auto. intros x Hx. apply H. now right.
Qed.

(* ------------------------------------------------------------------ read_to_consensus_dict *)
Lemma rentry_abs lo hi only minq w a :
  map (fun p => (p_pos p, (p_base p, p_qual p))) (filter (keep lo hi only minq) (matched1 w a)) =
  rentry lo hi only minq w a.
Proof.
  unfold matched1, rentry. destruct (a_q a) as [q|]; [|reflexivity]. destruct (a_r a) as [r|]; [|reflexivity].
  cbn [filter]. unfold keep. cbn [p_pos p_qual p_ref p_base].
  destruct (in_lo lo r && in_hi hi r && match minq with Some m => m <=? nthZ (w_qual w) q | None => true end &&
            (upper (a_b a) =? only)); reflexivity.
Qed.

Lemma rrdict_abs o lo hi only minq : rrdict o lo hi only minq = rdict (option_map abs_read o) lo hi only minq.
Proof.
  destruct o as [w|]; [|reflexivity]. cbn [option_map rdict rrdict abs_read r_pairs]. unfold matched.
  rewrite map_filter_flat_map. apply flat_map_ext'. intros a _. symmetry. apply rentry_abs.
Qed.

Lemma rhas_abs o : has (option_map abs_read o) = rhas o.
Proof. now destruct o. Qed.
Lemma rmd_ok_abs o : md_ok (option_map abs_read o) = rmd_ok o.
Proof. now destruct o. Qed.

Lemma rsafe_span_abs c f : rsafe_span c f = safe_span c (abs_frag f).
Proof. destruct f as [[w1|] [w2|]]; reflexivity. Qed.

Lemma rfrag_cons_abs c f : rfrag_cons c f = frag_cons c (abs_frag f).
Proof.
  destruct f as [o1 o2]. unfold rfrag_cons, frag_cons. rewrite rsafe_span_abs. unfold abs_frag. cbn [fst snd].
  rewrite !rhas_abs, !rmd_ok_abs.
  destruct (negb (c_unsafe c) && (negb (rhas o2) || negb (rhas o1))); [reflexivity|].
  destruct (safe_span c (option_map abs_read o1, option_map abs_read o2)) as [[lo hi]|]; [|reflexivity].
  now rewrite !rrdict_abs.
Qed.

Lemma rfrag_votes_abs c f : rfrag_votes c f = frag_votes c (abs_frag f).
Proof. unfold rfrag_votes, frag_votes. now rewrite rfrag_cons_abs. Qed.

Lemma rvotes_abs c fs : rvotes c fs = votes c (map abs_frag fs).
Proof.
  unfold rvotes, votes. rewrite flat_map_map'. apply flat_map_ext'. intros f _. apply rfrag_votes_abs.
Qed.

Lemma rconsensus_abs c fs : rconsensus c fs = consensus c (map abs_frag fs).
Proof. unfold rconsensus, consensus. now rewrite rvotes_abs. Qed.

Lemma rcalls_abs c ref fs : rcalls c ref fs = calls c ref (map abs_frag fs).
Proof. unfold rcalls, calls, calls_t. now rewrite rconsensus_abs. Qed.

(* ------------------------------------------------------------------ XM, reads, the encoded result *)
Lemma rxm_abs cs w : rxm cs w = xm cs (abs_read w).
Proof.
  unfold rxm, xm. cbn [abs_read r_pairs]. unfold matched. rewrite map_flat_map. apply flat_map_ext'.
  intros a _. unfold rxm1, matched1. destruct (a_q a), (a_r a); reflexivity.
Qed.

Lemma rreads_of_abs fs : reads_of (map abs_frag fs) = map abs_read (rreads_of fs).
Proof.
  unfold reads_of, rreads_of. rewrite flat_map_map', map_flat_map. apply flat_map_ext'.
  intros [[w1|] [w2|]] _; reflexivity.
Qed.

Lemma renc_result_abs fs r : renc_result fs r = enc_result (map abs_frag fs) r.
Proof.
  destruct r as [cs|]; [|reflexivity]. unfold renc_result, enc_result. rewrite rreads_of_abs, map_map.
  do 2 f_equal. f_equal. f_equal. apply map_ext. intros w. now rewrite rxm_abs.
Qed.

(* ------------------------------------------------------------------ the matches_only view *)
Lemma matched_spec w p : In p (matched w) <->
  exists a q, In a (w_ap w) /\ a_q a = Some q /\ a_r a = Some (p_pos p) /\
              p_base p = nthZ (w_seq w) q /\ p_qual p = nthZ (w_qual w) q /\ p_ref p = a_b a.
Proof.
  unfold matched. rewrite in_flat_map. split.
  - intros [a [Ha Hp]]. unfold matched1 in Hp. destruct (a_q a) as [q|] eqn:Eq; [|destruct Hp].
    destruct (a_r a) as [r|] eqn:Er; [|destruct Hp]. destruct Hp as [<-|[]]. exists a, q. cbn. auto 8.
  - intros [a [q [Ha [Eq [Er [Hb [Hq Hr]]]]]]]. exists a. split; auto. unfold matched1. rewrite Eq, Er.
    left. destruct p; cbn in *. now subst.
Qed.

Lemma matched_rpositions w p : In p (matched w) -> In (p_pos p) (rpositions w).
Proof.
  intros H. apply matched_spec in H as [a [q [Ha [_ [Er _]]]]]. unfold rpositions. apply in_flat_map.
  exists a. split; auto. unfold rpos1. rewrite Er. now left.
Qed.

Lemma matched_length w : length (matched w) =
  length (filter (fun a => match a_q a, a_r a with Some _, Some _ => true | _, _ => false end) (w_ap w)).
Proof.
  unfold matched. induction (w_ap w) as [|a l IH]; [reflexivity|]. cbn [flat_map filter]. rewrite app_length, IH.
  unfold matched1. destruct (a_q a), (a_r a); reflexivity.
Qed.

(* ------------------------------------------------------------------ reference_start / reference_end *)
Lemma increasing_bounds : forall l x, increasing l = true -> In x l -> hd 0 l <= x <= last l (-1).
Proof.
  induction l as [|a l IH]; intros x Hi Hx; [destruct Hx|].
  cbn [increasing] in Hi. apply andb_true_iff in Hi as [Ha Hl]. cbn [hd].
  destruct l as [|b l'].
  - destruct Hx as [<-|[]]. cbn. lia.
  - apply Z.ltb_lt in Ha. change (last (a :: b :: l') (-1)) with (last (b :: l') (-1)).
    pose proof (IH b Hl (or_introl eq_refl)) as Hb. cbn [hd] in Hb.
    destruct Hx as [<-|Hx]; [lia|]. specialize (IH x Hl Hx). cbn [hd] in IH. lia.
Qed.

Lemma ref_bounds w r : increasing (rpositions w) = true -> In r (rpositions w) -> ref_start w <= r < ref_end w.
Proof.
  intros Hi Hr. unfold ref_start, ref_end. pose proof (increasing_bounds _ _ Hi Hr). lia.
Qed.

Lemma ref_start_covered w : rpositions w <> [] -> In (ref_start w) (rpositions w) /\ In (ref_end w - 1) (rpositions w).
Proof.
  unfold ref_start, ref_end. intros H. split.
  - destruct (rpositions w); [congruence|now left].
  - replace (last (rpositions w) (-1) + 1 - 1) with (last (rpositions w) (-1)) by lia.
    destruct (exists_last H) as [l' [x ->]]. rewrite last_last. apply in_or_app. right. now left.
Qed.

(* ------------------------------------------------------------------ well-formedness *)
Lemma nodupb_NoDup l : nodupb l = true -> NoDup l.
Proof.
  induction l as [|x l IH]; cbn; intros H; constructor; apply andb_true_iff in H as [H1 H2]; auto.
  intros Hin. apply memZ_In in Hin. rewrite Hin in H1. discriminate.
Qed.

Lemma NoDup_nodupb l : NoDup l -> nodupb l = true.
Proof.
  induction 1 as [|x l Hn _ IH]; cbn; auto. rewrite IH, andb_true_r. apply negb_true_iff.
  destruct (memZ x l) eqn:E; auto. apply memZ_In in E. contradiction.
Qed.

Lemma rwf_wfx fs : rwf fs = true -> wfx (map abs_frag fs) = true.
Proof.
  unfold rwf, wfx, wf. rewrite rreads_of_abs, !forallb_forall. intros H. apply andb_true_iff.
  split; apply forallb_forall; intros r Hr; apply in_map_iff in Hr as [w [<- Hw]]; specialize (H w Hw);
    unfold rread_ok in H; apply andb_true_iff in H as [H _]; apply andb_true_iff in H as [H1 H2]; auto.
Qed.

Lemma wfx_wf fs : wfx fs = true -> wf fs = true.
Proof. unfold wfx. intros H. now apply andb_true_iff in H as [H _]. Qed.

Lemma rwf_read fs w : rwf fs = true -> In w (rreads_of fs) -> rread_ok w = true.
Proof. unfold rwf. rewrite forallb_forall. auto. Qed.
