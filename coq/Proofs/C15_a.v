(* C15 proofs, part a: coverage -> runs -> CIGAR -> partial reads (structural laws). *)
From Coq Require Import ZArith List Bool Lia.
Import ListNotations.
From SCMO Require Import Lib.Val Lib.PyInt Lib.PyIntFacts Gen.GenDedup Model.C15 Proofs.C15_g.
Open Scope Z_scope.

(* ------------------------------------------------------------------ ranges *)
Lemma zrange_from_app : forall n m lo,
  zrange_from lo (n + m) = zrange_from lo n ++ zrange_from (lo + Z.of_nat n) m.
Proof.
  induction n as [|n IH]; intros m lo.
  - cbn [Nat.add app zrange_from]. replace (lo + Z.of_nat 0) with lo by lia. reflexivity.
  - cbn [Nat.add zrange_from app]. rewrite IH. do 2 f_equal.
    replace (lo + 1 + Z.of_nat n) with (lo + Z.of_nat (S n)) by lia. reflexivity.
Qed.

Lemma zrange_app a b c : a <= b -> b <= c -> zrange a c = zrange a b ++ zrange b c.
Proof.
  intros Hab Hbc. unfold zrange.
  replace (Z.to_nat (c - a)) with (Z.to_nat (b - a) + Z.to_nat (c - b))%nat by lia.
  rewrite zrange_from_app. do 2 f_equal. lia.
Qed.

Lemma zrange_snoc a b : a <= b -> zrange a (b + 1) = zrange a b ++ [b].
Proof. intros H. rewrite (zrange_app a b (b + 1)) by lia. now rewrite zrange_single. Qed.

Lemma zrange_cons a b : a < b -> zrange a b = a :: zrange (a + 1) b.
Proof. intros H. rewrite (zrange_app a (a + 1) b) by lia. now rewrite zrange_single. Qed.

Lemma zrange_length a b : length (zrange a b) = Z.to_nat (b - a).
Proof. unfold zrange. apply zrange_from_length. Qed.

(* ------------------------------------------------------------------ strictly increasing lists *)
Fixpoint inc (l : list Z) : Prop :=
  match l with
  | [] => True
  | x :: t => match t with [] => True | y :: _ => x < y end /\ inc t
  end.

Lemma inc_cons x l : inc (x :: l) <-> (forall y, In y l -> x < y) /\ inc l.
Proof.
  revert x. induction l as [|a l IH]; intros x.
  - cbn. intuition.
  - change (inc (x :: a :: l)) with (x < a /\ inc (a :: l)). rewrite (IH a). split.
    + intros (Hxa & Hal & Hl). split; [|split; assumption].
      intros y [->|Hy]; [assumption|]. specialize (Hal y Hy). lia.
    + intros (Hall & Hal & Hl). split; [apply Hall; now left|]. split; assumption.
Qed.

Lemma ins_In x l y : In y (ins x l) <-> y = x \/ In y l.
Proof.
  induction l as [|a l IH]; cbn [ins].
  - cbn. intuition.
  - destruct (x <? a) eqn:E1; [cbn; intuition|].
    destruct (x =? a) eqn:E2.
    + apply Z.eqb_eq in E2. subst a. cbn. intuition.
    + cbn [In]. rewrite IH. intuition.
Qed.

Lemma ins_inc x l : inc l -> inc (ins x l).
Proof.
  induction l as [|a l IH]; intros Hl; cbn [ins].
  - cbn. auto.
  - destruct (x <? a) eqn:E1.
    + apply Z.ltb_lt in E1. change (x < a /\ inc (a :: l)). auto.
    + destruct (x =? a) eqn:E2; [assumption|].
      apply Z.ltb_ge in E1. apply Z.eqb_neq in E2.
      apply inc_cons in Hl. destruct Hl as [Hall Hl']. apply inc_cons. split.
      * intros y Hy. apply ins_In in Hy. destruct Hy as [->|Hy]; [lia|auto].
      * auto.
Qed.

Lemma sort_uniq_In l y : In y (sort_uniq l) <-> In y l.
Proof.
  induction l as [|a l IH]; cbn [sort_uniq fold_right]; [tauto|].
  fold (sort_uniq l). rewrite ins_In, IH. cbn. intuition.
Qed.

Lemma sort_uniq_inc l : inc (sort_uniq l).
Proof.
  induction l as [|a l IH]; cbn [sort_uniq fold_right]; [exact I|].
  fold (sort_uniq l). now apply ins_inc.
Qed.

Lemma sort_uniq_nil l : sort_uniq l = [] -> l = [].
Proof.
  intros H. destruct l as [|a l]; [reflexivity|].
  assert (Hin : In a (sort_uniq (a :: l))) by (apply sort_uniq_In; now left).
  rewrite H in Hin. destruct Hin.
Qed.

(* ------------------------------------------------------------------ runs *)
Definition rng (b : Z * Z) : list Z := zrange (fst b) (snd b + 1).   (* inclusive block *)

Lemma runs_from_expand : forall l s e, s <= e ->
  flat_map rng (runs_from s e l) = zrange s (e + 1) ++ l.
Proof.
  induction l as [|x t IH]; intros s e Hse; cbn [runs_from].
  - cbn. unfold rng. cbn [fst snd]. now rewrite app_nil_r.
  - destruct (x =? e + 1) eqn:E.
    + apply Z.eqb_eq in E. subst x. rewrite IH by lia.
      rewrite (zrange_snoc s (e + 1)) by lia. now rewrite <- app_assoc.
    + cbn [flat_map]. rewrite IH by lia. unfold rng at 1. cbn [fst snd].
      rewrite zrange_single. reflexivity.
Qed.

(* expanding the blocks gives back the position list: no position lost, none invented *)
Lemma runs_expand l : flat_map rng (runs l) = l.
Proof.
  destruct l as [|x t]; [reflexivity|]. cbn [runs].
  rewrite runs_from_expand by lia. now rewrite zrange_single.
Qed.

(* blocks of an increasing list: non-empty, ordered, separated by at least one uncovered position *)
Fixpoint runs_ok (lo : Z) (rs : list (Z * Z)) : Prop :=
  match rs with
  | [] => True
  | (s, e) :: t => lo + 1 < s /\ s <= e /\ runs_ok e t
  end.

Lemma runs_from_ok : forall l s e lo, s <= e -> inc (e :: l) -> lo + 1 < s ->
  runs_ok lo (runs_from s e l).
Proof.
  induction l as [|x t IH]; intros s e lo Hse Hinc Hlo; cbn [runs_from].
  - cbn. auto.
  - destruct Hinc as [Hex Hinc]. destruct (x =? e + 1) eqn:E.
    + apply IH; [lia|assumption|assumption].
    + apply Z.eqb_neq in E. cbn [runs_ok]. repeat split; [assumption|assumption|].
      apply IH; [lia|assumption|lia].
Qed.

Lemma runs_ok_inc l : inc l -> forall lo, (forall x, In x l -> lo + 1 < x) -> runs_ok lo (runs l).
Proof.
  intros Hinc lo Hlo. destruct l as [|x t]; [exact I|]. cbn [runs].
  apply runs_from_ok; [lia|assumption|apply Hlo; now left].
Qed.

Lemma runs_ok_weaken lo lo' rs : lo' <= lo -> runs_ok lo rs -> runs_ok lo' rs.
Proof. destruct rs as [|[s e] t]; cbn; [auto|]. intros H (H1 & H2 & H3). repeat split; auto; lia. Qed.

Lemma runs_ok_starts : forall rs lo s, runs_ok lo rs -> In s (map fst rs) -> lo + 1 < s.
Proof.
  induction rs as [|[s0 e0] t IH]; intros lo s Hok Hin; [destruct Hin|].
  destruct Hok as (H1 & H2 & H3). destruct Hin as [<-|Hin]; [assumption|].
  specialize (IH e0 s H3 Hin). lia.
Qed.

Lemma fold_min_first : forall l s, (forall x, In x l -> s <= x) -> fold_left gen_alignment_start l s = s.
Proof.
  induction l as [|a l IH]; intros s H; [reflexivity|]. cbn [fold_left]. rewrite shape_alignment_start.
  rewrite Z.min_l by (apply H; now left). apply IH. intros x Hx. apply H. now right.
Qed.

Lemma alignment_start_first s e t lo : runs_ok lo ((s, e) :: t) ->
  alignment_start ((s, e) :: t) = Some s.
Proof.
  intros (H1 & H2 & H3). cbn [alignment_start]. f_equal. apply fold_min_first.
  intros x Hx. pose proof (runs_ok_starts t e x H3 Hx). lia.
Qed.

(* ------------------------------------------------------------------ CIGAR *)
Fixpoint end_pos (pos : Z) (c : list cop) : Z :=
  match c with [] => pos | CM n :: t => end_pos (pos + n) t | CN n :: t => end_pos (pos + n) t end.

Lemma expand_app : forall c1 c2 pos, expand pos (c1 ++ c2) = expand pos c1 ++ expand (end_pos pos c1) c2.
Proof.
  induction c1 as [|[n|n] t IH]; intros c2 pos; cbn [app expand end_pos]; [reflexivity| |].
  - rewrite IH. now rewrite app_assoc.
  - apply IH.
Qed.

Lemma end_pos_app : forall c1 c2 pos, end_pos pos (c1 ++ c2) = end_pos (end_pos pos c1) c2.
Proof. induction c1 as [|[n|n] t IH]; intros c2 pos; cbn [app end_pos]; auto. Qed.

Lemma query_len_app : forall c1 c2, query_len (c1 ++ c2) = query_len c1 + query_len c2.
Proof. induction c1 as [|[n|n] t IH]; intros c2; cbn [app query_len]; rewrite ?IH; lia. Qed.

Lemma cigar_from_expand : forall rs e, expand (e + 1) (cigar_from e rs) = flat_map rng rs.
Proof.
  induction rs as [|[s e'] t IH]; intros e; cbn [cigar_from expand flat_map]; [reflexivity|].
  rewrite shape_gap_len, shape_block_len.
  replace (e + 1 + (s - e - 1)) with s by lia.
  replace (s + (e' - s + 1)) with (e' + 1) by lia.
  rewrite IH. reflexivity.
Qed.

Lemma cigar_of_runs_expand s e t :
  expand s (cigar_of_runs ((s, e) :: t)) = flat_map rng ((s, e) :: t).
Proof.
  cbn [cigar_of_runs expand flat_map]. rewrite shape_block_len. replace (s + (e - s + 1)) with (e + 1) by lia.
  now rewrite cigar_from_expand.
Qed.

(* well-formed consensus CIGAR: M and N alternate, it starts and ends with M, every length is
   positive, no N is longer than max_N_span *)
Section WF.
  Variable maxN : option Z.
  Fixpoint okM (c : list cop) : Prop :=
    match c with CM n :: t => 0 < n /\ okN t | _ => False end
  with okN (c : list cop) : Prop :=
    match c with
    | [] => True
    | CN n :: t => 0 < n /\ too_long maxN n = false /\ okM t
    | _ => False
    end.

  Lemma okM_snoc2 : forall c a b, okM c -> 0 < a -> too_long maxN a = false -> 0 < b ->
    okM (c ++ [CN a; CM b])
  with okN_snoc2 : forall c a b, okN c -> 0 < a -> too_long maxN a = false -> 0 < b ->
    okN (c ++ [CN a; CM b]).
  Proof.
    - intros c a b H Ha Hl Hb. destruct c as [|[n|n] t]; cbn in H; try contradiction.
      destruct H as [Hn Ht]. cbn [app okM]. split; [assumption|].
      apply okN_snoc2; auto.
    - intros c a b H Ha Hl Hb. destruct c as [|[n|n] t]; cbn in H; try contradiction.
      + cbn. auto.
      + destruct H as (Hn & Hl' & Ht). cbn [app okN]. split; [assumption|]. split; [assumption|].
        apply okM_snoc2; auto.
  Qed.
End WF.

(* the CIGAR of get_CIGAR: alternating, positive lengths (no bound on N) *)
Lemma cigar_from_ok : forall rs e, runs_ok e rs -> okN None (cigar_from e rs).
Proof.
  induction rs as [|[s e'] t IH]; intros e H; cbn [cigar_from]; [exact I|].
  destruct H as (H1 & H2 & H3). cbn [okN okM]. rewrite shape_gap_len, shape_block_len, too_long_spec.
  repeat split; try lia. now apply IH.
Qed.

Lemma cigar_of_runs_ok lo rs : rs <> [] -> runs_ok lo rs -> okM None (cigar_of_runs rs).
Proof.
  destruct rs as [|[s e] t]; [congruence|]. intros _ (H1 & H2 & H3).
  cbn [cigar_of_runs okM]. rewrite shape_block_len. split; [lia|]. now apply cigar_from_ok.
Qed.

(* ------------------------------------------------------------------ generate_partial_reads *)
Section PartialFacts.
  Variable callf : Z -> Z.
  Variable qualf : Z -> Z.
  Variable maxN : option Z.

  Definition pexpand (p : partial) : list Z := expand (pa_start p) (pa_cigar p).
  Definition cur (st : gstate) : list Z := expand (g_start st) (g_cig st).

  (* what every emitted record satisfies *)
  Definition rec_ok (p : partial) : Prop :=
    okM maxN (pa_cigar p) /\
    pa_seq p = map callf (pexpand p) /\
    pa_qual p = map qualf (pexpand p) /\
    block_positions (pa_md p) = pexpand p /\
    pa_end p = Some (end_pos (pa_start p) (pa_cigar p)).

  (* state invariant; [b] = an M is expected next *)
  Definition inv (b : bool) (st : gstate) : Prop :=
    Forall rec_ok (g_out st) /\
    g_seq st = map callf (cur st) /\
    g_qual st = map qualf (cur st) /\
    block_positions (g_md st) = cur st /\
    (if b then
       (g_cig st = [] /\ g_seq st = [] /\ g_qual st = [] /\ g_md st = []) \/
       (exists c a, g_cig st = c ++ [CN a] /\ okM maxN c /\ 0 < a /\ too_long maxN a = false /\
                    end_pos (g_start st) (g_cig st) = g_pos st /\
                    g_end st = Some (end_pos (g_start st) c))
     else
       okM maxN (g_cig st) /\ end_pos (g_start st) (g_cig st) = g_pos st /\
       g_end st = Some (g_pos st)).

  Lemma block_positions_app l1 l2 : block_positions (l1 ++ l2) = block_positions l1 ++ block_positions l2.
  Proof. unfold block_positions. apply flat_map_app. Qed.

  Lemma okM_not_nil c : okM maxN c -> c <> [].
  Proof. destruct c; cbn; [tauto|discriminate]. Qed.

  Lemma step_M st a : inv true st -> 0 < a ->
    inv false (step callf qualf maxN st (CM a)) /\
    cur (step callf qualf maxN st (CM a)) = cur st ++ zrange (g_pos st) (g_pos st + a) /\
    g_out (step callf qualf maxN st (CM a)) = g_out st /\
    g_pos (step callf qualf maxN st (CM a)) = g_pos st + a.
  Proof.
    intros (Hout & Hseq & Hqual & Hmd & Hb) Ha.
    destruct Hb as [(Hc & Hs & Hq & Hm) | (c & a0 & Hc & Hok & Ha0 & Hl & Hend & Hge)].
    - (* first M of a record *)
      unfold inv, step, cur. rewrite first_block_spec.
      cbn [g_out g_seq g_qual g_md g_cig g_start g_pos g_end]. rewrite Hc, Hs, Hq, Hm.
      unfold block_positions.
      cbn [app expand end_pos okM okN flat_map fst snd map].
      rewrite !app_nil_r. repeat split; auto; lia.
    - unfold inv, step, cur. rewrite first_block_spec.
      cbn [g_out g_seq g_qual g_md g_cig g_start g_pos g_end].
      assert (Hne : g_cig st <> []) by (rewrite Hc; destruct c; discriminate).
      destruct (g_cig st) as [|o0 c0] eqn:Eg; [congruence|]. rewrite <- Eg in *.
      rewrite expand_app, end_pos_app, Hend. cbn [expand end_pos].
      rewrite app_nil_r. repeat split; auto.
      + rewrite Hseq. unfold cur. now rewrite map_app.
      + rewrite Hqual. unfold cur. now rewrite map_app.
      + rewrite block_positions_app, Hmd. unfold cur, block_positions. cbn [flat_map fst snd].
        now rewrite app_nil_r.
      + rewrite Hc, <- app_assoc. cbn [app]. apply okM_snoc2; auto.
  Qed.

  Lemma step_N_keep st a : inv false st -> 0 < a -> too_long maxN a = false ->
    inv true (step callf qualf maxN st (CN a)) /\
    cur (step callf qualf maxN st (CN a)) = cur st /\
    g_out (step callf qualf maxN st (CN a)) = g_out st /\
    g_pos (step callf qualf maxN st (CN a)) = g_pos st + a.
  Proof.
    intros (Hout & Hseq & Hqual & Hmd & Hok & Hend & Hge) Ha Hl.
    unfold inv, step, cur. rewrite Hl. cbn [g_out g_seq g_qual g_md g_cig g_start g_pos g_end].
    rewrite expand_app. cbn [expand]. rewrite app_nil_r. repeat split; auto.
    right. exists (g_cig st), a. rewrite end_pos_app. cbn [end_pos]. rewrite Hend.
    repeat split; auto.
  Qed.

  Lemma step_N_split st a : inv false st -> 0 < a -> too_long maxN a = true ->
    inv true (step callf qualf maxN st (CN a)) /\
    cur (step callf qualf maxN st (CN a)) = [] /\
    g_out (step callf qualf maxN st (CN a)) = g_out st ++ [emit st] /\
    g_pos (step callf qualf maxN st (CN a)) = g_pos st + a.
  Proof.
    intros (Hout & Hseq & Hqual & Hmd & Hok & Hend & Hge) Ha Hl.
    unfold inv, step, cur. rewrite Hl. cbn [g_out g_seq g_qual g_md g_cig g_start g_pos g_end expand].
    repeat split; auto.
    - apply Forall_app. split; [assumption|]. constructor; [|constructor].
      unfold rec_ok, emit, pexpand. cbn [pa_cigar pa_seq pa_qual pa_md pa_start pa_end].
      repeat split; auto. now rewrite Hend.
  Qed.

  Definition pcat (l : list partial) : list Z := flat_map pexpand l.

  Lemma pcat_app l1 l2 : pcat (l1 ++ l2) = pcat l1 ++ pcat l2.
  Proof. apply flat_map_app. Qed.

  (* number of N operations longer than max_N_span *)
  Fixpoint n_long (c : list cop) : nat :=
    match c with
    | [] => O
    | CN a :: t => ((if too_long maxN a then 1 else 0) + n_long t)%nat
    | CM _ :: t => n_long t
    end.

  Lemma fold_step : forall rest st,
    (okM None rest /\ inv true st) \/ (okN None rest /\ inv false st) ->
    let st' := fold_left (step callf qualf maxN) rest st in
    Forall rec_ok (g_out st' ++ [emit st']) /\
    pcat (g_out st' ++ [emit st']) = pcat (g_out st) ++ cur st ++ expand (g_pos st) rest /\
    length (g_out st' ++ [emit st']) = (length (g_out st) + n_long rest + 1)%nat.
  Proof.
    induction rest as [|o rest IH]; intros st H.
    - destruct H as [[H _]|[_ H]]; [destruct H|]. cbn [fold_left expand n_long].
      destruct H as (Hout & Hseq & Hqual & Hmd & Hok & Hend & Hge).
      repeat split.
      + apply Forall_app. split; [assumption|]. constructor; [|constructor].
        unfold rec_ok, emit, pexpand. cbn [pa_cigar pa_seq pa_qual pa_md pa_start pa_end].
        repeat split; auto. now rewrite Hend.
      + rewrite pcat_app. cbn [pcat flat_map]. unfold pexpand, emit, cur.
        cbn [pa_start pa_cigar]. now rewrite !app_nil_r.
      + rewrite app_length. cbn. lia.
    - cbn [fold_left]. destruct H as [[Hr Hi]|[Hr Hi]].
      + (* M expected *)
        destruct o as [a|a]; [|destruct Hr]. destruct Hr as [Ha Hr].
        destruct (step_M st a Hi Ha) as (Hi' & Hcur & Hout & Hpos).
        specialize (IH (step callf qualf maxN st (CM a)) (or_intror (conj Hr Hi'))).
        cbn zeta in IH. destruct IH as (I1 & I2 & I3). repeat split; [assumption| |].
        * rewrite I2, Hout, Hcur, Hpos. cbn [expand]. now rewrite <- !app_assoc.
        * rewrite I3, Hout. cbn [n_long]. lia.
      + destruct o as [a|a]; [destruct Hr|]. destruct Hr as (Ha & _ & Hr).
        destruct (too_long maxN a) eqn:El.
        * destruct (step_N_split st a Hi Ha El) as (Hi' & Hcur & Hout & Hpos).
          specialize (IH (step callf qualf maxN st (CN a)) (or_introl (conj Hr Hi'))).
          cbn zeta in IH. destruct IH as (I1 & I2 & I3). repeat split; [assumption| |].
          -- rewrite I2, Hout, Hcur, Hpos, pcat_app. cbn [expand pcat flat_map app].
             unfold pexpand, emit, cur. cbn [pa_start pa_cigar].
             now rewrite app_nil_r, <- !app_assoc.
          -- rewrite I3, Hout, app_length. cbn [n_long length]. rewrite El. lia.
        * destruct (step_N_keep st a Hi Ha El) as (Hi' & Hcur & Hout & Hpos).
          specialize (IH (step callf qualf maxN st (CN a)) (or_introl (conj Hr Hi'))).
          cbn zeta in IH. destruct IH as (I1 & I2 & I3). repeat split; [assumption| |].
          -- rewrite I2, Hout, Hcur, Hpos. cbn [expand]. reflexivity.
          -- rewrite I3, Hout. cbn [n_long]. rewrite El. lia.
  Qed.

  Lemma inv_init start : inv true (g_init start).
  Proof.
    unfold inv, g_init, cur. cbn [g_out g_seq g_qual g_md g_cig g_start g_pos g_end expand map].
    repeat split; auto.
  Qed.

  (* generate_partial_reads on a well-formed CIGAR *)
  Lemma partial_reads_spec cigar start : okM None cigar ->
    let ps := partial_reads callf qualf maxN cigar start in
    Forall rec_ok ps /\ pcat ps = expand start cigar /\ length ps = S (n_long cigar).
  Proof.
    intros Hok. unfold partial_reads.
    destruct (fold_step cigar (g_init start) (or_introl (conj Hok (inv_init start)))) as (H1 & H2 & H3).
    cbn zeta in *. repeat split; [assumption| |].
    - rewrite H2. unfold g_init, cur. cbn [g_out g_cig g_start g_pos pcat flat_map expand app].
      reflexivity.
    - rewrite H3. cbn. lia.
  Qed.
End PartialFacts.

(* query length of a record *)
Lemma expand_length : forall c pos, (forall n, In (CM n) c -> 0 <= n) ->
  Z.of_nat (length (expand pos c)) = query_len c.
Proof.
  induction c as [|[n|n] t IH]; intros pos H; cbn [expand query_len]; [reflexivity| |].
  - rewrite app_length, zrange_length, Nat2Z.inj_add, IH.
    + assert (0 <= n) by (apply H; now left). lia.
    + intros m Hm. apply H. now right.
  - apply IH. intros m Hm. apply H. now right.
Qed.

Lemma okM_M_pos maxN : forall c, okM maxN c -> forall n, In (CM n) c -> 0 <= n
with okN_M_pos maxN : forall c, okN maxN c -> forall n, In (CM n) c -> 0 <= n.
Proof.
  - intros c H n Hin. destruct c as [|[m|m] t]; cbn in H; try contradiction.
    destruct H as [Hm Ht]. destruct Hin as [E|Hin]; [inversion E; lia|].
    eapply okN_M_pos; eauto.
  - intros c H n Hin. destruct c as [|[m|m] t]; cbn in H; try contradiction.
    destruct H as (Hm & _ & Ht). destruct Hin as [E|Hin]; [discriminate E|].
    eapply okM_M_pos; eauto.
Qed.
