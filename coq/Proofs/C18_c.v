(* C18 proofs, part c: the loops of fetchChromosome (informative) against the loop-free site rule
   (informativeb) and the carriers of a base *)
From Coq Require Import ZArith List Bool Lia Permutation Sorting.Sorted.
Import ListNotations.
From SCMO Require Import Lib.Val Gen.GenAlleles Model.C18 Proofs.C18_s Proofs.C18_a.
Open Scope Z_scope.

(* ------------------------------------------------------------------ a sequence of bases_to_alleles[b].add(s) *)
Definition badd_all (ps : list (str * str)) (m : bmap) : bmap :=
  fold_left (fun m bs => badd m (fst bs) (snd bs)) ps m.

Lemma badd_getd m b s b' :
  getd seqb (badd m b s) b' = if seqb b' b then sins s (getd seqb m b) else getd seqb m b'.
Proof. unfold badd. apply (getd_aset seqb seqb_eq). Qed.
Lemma badd_aget m b s b' :
  aget seqb (badd m b s) b' = if seqb b' b then Some (sins s (getd seqb m b)) else aget seqb m b'.
Proof. unfold badd. apply (aget_aset seqb seqb_eq). Qed.
Lemma badd_keys m b s x : In x (map fst (badd m b s)) <-> x = b \/ In x (map fst m).
Proof. unfold badd. apply (keys_aset seqb seqb_eq). Qed.
Lemma badd_NoDup m b s : NoDup (map fst m) -> NoDup (map fst (badd m b s)).
Proof. unfold badd. apply (aset_NoDup seqb seqb_eq). Qed.

Lemma badd_all_cons q ps m : badd_all (q :: ps) m = badd_all ps (badd m (fst q) (snd q)).
Proof. reflexivity. Qed.

Lemma badd_all_getd ps : forall m b,
  getd seqb (badd_all ps m) b
  = fold_left (fun acc y => sins y acc) (map snd (filter (fun bs => seqb (fst bs) b) ps)) (getd seqb m b).
Proof.
  induction ps as [|[b0 s0] ps IH]; intros m b; [reflexivity|].
  rewrite badd_all_cons, IH. cbn [filter fst snd]. rewrite badd_getd. rewrite (seqb_sym b0 b).
  destruct (seqb b b0) eqn:E; [|reflexivity]. apply seqb_eq in E. subst. reflexivity.
Qed.
Lemma badd_all_keys ps : forall m x, In x (map fst (badd_all ps m)) <-> In x (map fst m) \/ In x (map fst ps).
Proof.
  induction ps as [|[b0 s0] ps IH]; intros m x; [cbn; tauto|].
  rewrite badd_all_cons, IH, badd_keys. cbn. intuition.
Qed.
Lemma badd_all_NoDup ps : forall m, NoDup (map fst m) -> NoDup (map fst (badd_all ps m)).
Proof. induction ps as [|q ps IH]; intros m H; [exact H|]. rewrite badd_all_cons. apply IH, badd_NoDup, H. Qed.

Lemma canon_ext l1 l2 : (forall x, In x l1 <-> In x l2) -> canon l1 = canon l2.
Proof.
  intros H. apply ssorted_ext; try apply canon_sorted. intros x. rewrite !canon_In. apply H.
Qed.
Lemma fold_sins_canon xs : fold_left (fun acc y => sins y acc) xs [] = canon xs.
Proof.
  apply ssorted_ext; [apply fold_sins_sorted; constructor|apply canon_sorted|].
  intros x. rewrite fold_sins_In, canon_In. cbn. tauto.
Qed.

Lemma aget_getd (m : bmap) b ss : aget seqb m b = Some ss -> getd seqb m b = ss.
Proof. unfold getd. intros ->. reflexivity. Qed.

(* the dict built from scratch: base b is a key iff some pair carries it; its value is the set of its partners *)
Lemma badd_all_aget ps b :
  aget seqb (badd_all ps []) b
  = match canon (map snd (filter (fun bs => seqb (fst bs) b) ps)) with [] => None | ss => Some ss end.
Proof.
  destruct (aget seqb (badd_all ps []) b) as [ss|] eqn:E.
  - pose proof (aget_getd _ _ _ E) as G. rewrite badd_all_getd in G. cbn [getd aget] in G.
    unfold getd in G. cbn [aget] in G. rewrite fold_sins_canon in G. rewrite G.
    assert (Hin : In b (map fst (badd_all ps []))).
    { apply (amem_In seqb seqb_eq). unfold amem. rewrite E. reflexivity. }
    apply badd_all_keys in Hin. destruct Hin as [[]|Hin].
    apply in_map_iff in Hin. destruct Hin as ([b1 s1] & E1 & Hin). cbn in E1. subst b1.
    assert (In s1 ss).
    { rewrite <- G. apply canon_In. apply in_map_iff. exists (b, s1). split; [reflexivity|].
      apply filter_In. split; [exact Hin|]. apply seqb_refl. }
    destruct ss; [contradiction|reflexivity].
  - apply (aget_None seqb seqb_eq) in E.
    assert (filter (fun bs => seqb (fst bs) b) ps = []) as ->; [|reflexivity].
    destruct (filter (fun bs => seqb (fst bs) b) ps) as [|[b1 s1] l] eqn:F; [reflexivity|]. exfalso. apply E.
    assert (Hin : In (b1, s1) (filter (fun bs => seqb (fst bs) b) ps)) by (rewrite F; left; reflexivity).
    apply filter_In in Hin. destruct Hin as [Hin Hb]. cbn in Hb. apply seqb_eq in Hb. subst b1.
    apply badd_all_keys. right. change b with (fst (b, s1)). apply in_map, Hin.
Qed.

(* every value of such a dict is a non-empty sorted set *)
Definition bm_good (m : bmap) : Prop :=
  NoDup (map fst m) /\ forall b ss, In (b, ss) m -> ss <> [] /\ ssorted ss.
Lemma badd_all_good ps : bm_good (badd_all ps []).
Proof.
  split; [apply badd_all_NoDup; constructor|]. intros b ss Hin.
  assert (E : aget seqb (badd_all ps []) b = Some ss).
  { apply (In_aget seqb seqb_eq); [apply badd_all_NoDup; constructor|exact Hin]. }
  rewrite badd_all_aget in E.
  destruct (canon (map snd (filter (fun bs => seqb (fst bs) b) ps))) as [|x l] eqn:C; [discriminate|].
  inversion E; subst. split; [discriminate|]. rewrite <- C. apply canon_sorted.
Qed.

(* ------------------------------------------------------------------ phased: the two nested loops as one event list *)
Definition events (cf : cfg) (r : vrec) : list (str * option str) :=
  flat_map (fun g => if selected cf (fst g) then map (pair (fst g)) (snd g) else []) (r_gts r).
Definition scan_events (es : list (str * option str)) (st : scan) : scan :=
  fold_left (fun st e => scan_allele (fst e) st (snd e)) es st.
Definition pairs_of (es : list (str * option str)) : list (str * str) :=
  flat_map (fun e => match snd e with Some b => if single b then [(b, fst e)] else [] | None => [] end) es.

Lemma scan_events_app es1 es2 st : scan_events (es1 ++ es2) st = scan_events es2 (scan_events es1 st).
Proof. unfold scan_events. apply fold_left_app. Qed.
Lemma scan_inner s l : forall st, fold_left (scan_allele s) l st = scan_events (map (pair s) l) st.
Proof. induction l as [|a l IH]; intros st; [reflexivity|]. cbn. apply IH. Qed.
Lemma scan_rec_events cf r : scan_rec cf r = scan_events (events cf r) scan0.
Proof.
  unfold scan_rec, events. generalize scan0. induction (r_gts r) as [|g gs IH]; intros st; [reflexivity|].
  cbn [fold_left flat_map]. rewrite scan_events_app, IH. f_equal.
  unfold scan_sample. rewrite gselected_shape, alleles_seen_shape. destruct (selected cf (fst g)); [apply scan_inner|reflexivity].
Qed.

Lemma scan_events_cons e es st : scan_events (e :: es) st = scan_events es (scan_allele (fst e) st (snd e)).
Proof. reflexivity. Qed.
Lemma pairs_of_cons e es :
  pairs_of (e :: es) = (match snd e with Some b => if single b then [(b, fst e)] else [] | None => [] end) ++ pairs_of es.
Proof. reflexivity. Qed.

Lemma scan_events_bm es : forall st, s_bm (scan_events es st) = badd_all (pairs_of es) (s_bm st).
Proof.
  induction es as [|[s a] es IH]; intros st; [reflexivity|].
  rewrite scan_events_cons, IH, pairs_of_cons. cbn [fst snd]. unfold scan_allele.
  destruct a as [b|]; [|reflexivity]. rewrite gsingle_shape. destruct (single b); reflexivity.
Qed.
Lemma scan_events_used es : forall st,
  s_used (scan_events es st) = s_used st || existsb (fun e => is_some_single (snd e)) es.
Proof.
  induction es as [|[s a] es IH]; intros st; [cbn; rewrite orb_false_r; reflexivity|].
  rewrite scan_events_cons, IH. cbn [fst snd existsb]. unfold scan_allele, is_some_single at 2.
  destruct a as [b|]; [rewrite gsingle_shape|]; cbn; [|reflexivity]. destruct (single b); cbn; [rewrite orb_true_r|]; reflexivity.
Qed.
Lemma scan_events_mono es : forall st,
  s_mono (scan_events es st) = s_mono st || existsb (fun e => is_missing (snd e)) es.
Proof.
  induction es as [|[s a] es IH]; intros st; [cbn; rewrite orb_false_r; reflexivity|].
  rewrite scan_events_cons, IH. cbn [fst snd existsb]. unfold scan_allele, is_missing at 2.
  destruct a as [b|]; [rewrite gsingle_shape|]; cbn; [|rewrite orb_true_r; reflexivity]. destruct (single b); reflexivity.
Qed.
Lemma scan_events_bad es : forall st,
  s_bad (scan_events es st) = s_bad st || existsb (fun e => is_multi (snd e)) es.
Proof.
  induction es as [|[s a] es IH]; intros st; [cbn; rewrite orb_false_r; reflexivity|].
  rewrite scan_events_cons, IH. cbn [fst snd existsb]. unfold scan_allele, is_multi at 2.
  destruct a as [b|]; [rewrite gsingle_shape|]; cbn; [|reflexivity]. destruct (single b); cbn; [reflexivity|rewrite orb_true_r; reflexivity].
Qed.
Lemma scan_events_assigned es : forall st,
  s_assigned (scan_events es st) = fold_left (fun acc y => sins y acc) (map snd (pairs_of es)) (s_assigned st).
Proof.
  induction es as [|[s a] es IH]; intros st; [reflexivity|].
  rewrite scan_events_cons, IH, pairs_of_cons. cbn [fst snd]. unfold scan_allele.
  destruct a as [b|]; [|reflexivity]. rewrite gsingle_shape. destruct (single b); reflexivity.
Qed.

(* ---- what the event list contains, in terms of the genotypes *)
Lemma events_In cf r s a :
  In (s, a) (events cf r) <-> exists al, In (s, al) (r_gts r) /\ selected cf s = true /\ In a al.
Proof.
  unfold events. rewrite in_flat_map. split.
  - intros ([s0 al] & Hg & Hin). cbn [fst snd] in Hin. destruct (selected cf s0) eqn:E; [|destruct Hin].
    apply in_map_iff in Hin. destruct Hin as (a0 & E0 & Ha). inversion E0; subst. exists al. auto.
  - intros (al & Hg & Hs & Ha). exists (s, al). split; [exact Hg|]. cbn [fst snd]. rewrite Hs.
    apply in_map, Ha.
Qed.
Lemma pairs_of_In es b s : In (b, s) (pairs_of es) <-> In (s, Some b) es /\ single b = true.
Proof.
  unfold pairs_of. rewrite in_flat_map. split.
  - intros ([s0 a] & He & Hin). cbn [fst snd] in Hin. destruct a as [b0|]; [|destruct Hin].
    destruct (single b0) eqn:E; [|destruct Hin]. destruct Hin as [E0|[]]. inversion E0; subst. auto.
  - intros (He & Hs). exists (s, Some b). split; [exact He|]. cbn [fst snd]. rewrite Hs. left; reflexivity.
Qed.
Lemma sel_alleles_events cf r : sel_alleles cf r = map snd (events cf r).
Proof.
  unfold sel_alleles, events. induction (r_gts r) as [|g gs IH]; [reflexivity|].
  cbn [filter flat_map]. rewrite map_app, <- IH. destruct (selected cf (fst g)); cbn [map concat]; [|reflexivity].
  f_equal. rewrite map_map. cbn. symmetry. apply map_id.
Qed.
Lemma existsb_map {A B} (f : A -> B) (g : B -> bool) l : existsb g (map f l) = existsb (fun x => g (f x)) l.
Proof. induction l as [|a l IH]; cbn; [reflexivity|]. rewrite IH. reflexivity. Qed.
Lemma existsb_ext_In {A} (f : A -> bool) l1 l2 : (forall x, In x l1 <-> In x l2) -> existsb f l1 = existsb f l2.
Proof.
  intros H. destruct (existsb f l1) eqn:E1; destruct (existsb f l2) eqn:E2; try reflexivity.
  - apply existsb_exists in E1. destruct E1 as (x & Hx & Hf). assert (existsb f l2 = true) by (apply existsb_exists; exists x; split; [apply H, Hx|exact Hf]). congruence.
  - apply existsb_exists in E2. destruct E2 as (x & Hx & Hf). assert (existsb f l1 = true) by (apply existsb_exists; exists x; split; [apply H, Hx|exact Hf]). congruence.
Qed.

Lemma bases_of_pairs cf r : bases_of cf r = canon (map fst (pairs_of (events cf r))).
Proof.
  unfold bases_of. fold (canon (flat_map (fun a => match a with Some x => if single x then [x] else [] | None => [] end) (sel_alleles cf r))).
  f_equal. rewrite sel_alleles_events. unfold pairs_of. induction (events cf r) as [|[s a] es IH]; [reflexivity|].
  cbn [map flat_map fst snd]. rewrite map_app, <- IH. f_equal. destruct a as [b|]; [|reflexivity]. destruct (single b); reflexivity.
Qed.
Lemma assigned_of_pairs cf r : assigned_of cf r = canon (map snd (pairs_of (events cf r))).
Proof.
  unfold assigned_of. fold (canon (map fst (filter (fun g => selected cf (fst g) && existsb is_some_single (snd g)) (r_gts r)))).
  apply canon_ext. intros s. rewrite !in_map_iff. split.
  - intros ([s0 al] & E & Hin). cbn in E. subst s0. apply filter_In in Hin. destruct Hin as [Hg Hb].
    cbn [fst snd] in Hb. apply andb_true_iff in Hb. destruct Hb as [Hs Hx]. apply existsb_exists in Hx.
    destruct Hx as ([b|] & Ha & Hsb); [|discriminate]. exists (b, s). split; [reflexivity|].
    apply pairs_of_In. split; [|exact Hsb]. apply events_In. exists al. auto.
  - intros ([b s0] & E & Hin). cbn in E. subst s0. apply pairs_of_In in Hin. destruct Hin as [He Hsb].
    apply events_In in He. destruct He as (al & Hg & Hs & Ha). exists (s, al). split; [reflexivity|].
    apply filter_In. split; [exact Hg|]. cbn [fst snd]. rewrite Hs. cbn. apply existsb_exists. exists (Some b). auto.
Qed.

Lemma NoDup_same_length {A} (l1 l2 : list A) : NoDup l1 -> NoDup l2 -> (forall x, In x l1 <-> In x l2) -> length l1 = length l2.
Proof. intros H1 H2 H. apply Permutation_length, NoDup_Permutation; assumption. Qed.

Definition site_pairs (cf : cfg) (r : vrec) : list (str * str) := pairs_of (events cf r).

Lemma phased_bm cf r : s_bm (scan_rec cf r) = badd_all (site_pairs cf r) [].
Proof. rewrite scan_rec_events, scan_events_bm. reflexivity. Qed.
Lemma phased_nbases cf r : length (s_bm (scan_rec cf r)) = length (bases_of cf r).
Proof.
  rewrite <- (map_length fst). apply NoDup_same_length.
  - rewrite phased_bm. apply badd_all_NoDup. constructor.
  - apply ssorted_NoDup. rewrite bases_of_pairs. apply canon_sorted.
  - intros x. rewrite phased_bm, badd_all_keys, bases_of_pairs, canon_In. cbn. tauto.
Qed.
Lemma phased_used cf r : s_used (scan_rec cf r) = negb (length (bases_of cf r) =? 0)%nat.
Proof.
  rewrite scan_rec_events, scan_events_used. cbn [s_used scan0 orb].
  rewrite bases_of_pairs.
  destruct (existsb (fun e => is_some_single (snd e)) (events cf r)) eqn:E.
  - apply existsb_exists in E. destruct E as ([s [b|]] & He & Hs); [|discriminate]. cbn in Hs.
    assert (Hin : In b (canon (map fst (pairs_of (events cf r))))).
    { apply canon_In. apply in_map_iff. exists (b, s). split; [reflexivity|]. apply pairs_of_In. auto. }
    destruct (canon (map fst (pairs_of (events cf r)))); [destruct Hin|reflexivity].
  - destruct (canon (map fst (pairs_of (events cf r)))) as [|b l] eqn:C; [reflexivity|]. exfalso.
    assert (Hin : In b (canon (map fst (pairs_of (events cf r))))) by (rewrite C; left; reflexivity).
    apply canon_In, in_map_iff in Hin. destruct Hin as ([b0 s] & E0 & Hin). cbn in E0. subst b0.
    apply pairs_of_In in Hin. destruct Hin as [He Hs].
    assert (existsb (fun e => is_some_single (snd e)) (events cf r) = true); [|congruence].
    apply existsb_exists. exists (s, Some b). auto.
Qed.
Lemma phased_mono cf r : s_mono (scan_rec cf r) = existsb is_missing (sel_alleles cf r).
Proof. rewrite scan_rec_events, scan_events_mono, sel_alleles_events, existsb_map. reflexivity. Qed.
Lemma phased_bad cf r : s_bad (scan_rec cf r) = existsb is_multi (sel_alleles cf r).
Proof. rewrite scan_rec_events, scan_events_bad, sel_alleles_events, existsb_map. reflexivity. Qed.
Lemma phased_assigned cf r : s_assigned (scan_rec cf r) = assigned_of cf r.
Proof. rewrite scan_rec_events, scan_events_assigned, assigned_of_pairs. apply fold_sins_canon. Qed.

Lemma ignored_keys cf r bm l : (forall x, In x (map fst bm) <-> In x l) ->
  ignored cf r bm = existsb (fun b => ign_mem cf (r_ref r) b) l.
Proof.
  intros H. unfold ignored, ign_mem. destruct (c_ignore cf) as [ig|].
  - rewrite <- (existsb_ext_In _ _ _ H). rewrite existsb_map. reflexivity.
  - symmetry. clear H. induction l as [|a l IH]; cbn in *; [reflexivity|exact IH].
Qed.

Lemma informative_phased cf r : c_phased cf = true ->
  informative cf r = if informativeb cf r then Some (badd_all (site_pairs cf r) []) else None.
Proof.
  intros Hp. rewrite informative_shape. unfold informative_ref, informativeb, phased_site_ref. rewrite Hp.
  rewrite (ignored_keys cf r _ (bases_of cf r)).
  2:{ intros x. rewrite phased_bm, badd_all_keys, bases_of_pairs, canon_In. cbn. tauto. }
  rewrite phased_used, phased_mono, phased_bad, phased_assigned, phased_nbases, phased_bm.
  set (nb := length (bases_of cf r)).
  set (mono := existsb is_missing (sel_alleles cf r)).
  set (multi := existsb is_multi (sel_alleles cf r)).
  set (ign := existsb (fun b => ign_mem cf (r_ref r) b) (bases_of cf r)).
  destruct (c_select cf) as [sel|].
  - set (asg := (length (assigned_of cf r) =? length sel)%nat).
    destruct nb as [|[|nb]]; destruct mono, multi, asg, ign; reflexivity.
  - destruct nb as [|[|nb]]; destruct mono, multi, ign; reflexivity.
Qed.

(* ------------------------------------------------------------------ unphased *)
Definition swap (lb : str * str) : str * str := (snd lb, fst lb).
Definition upairs (r : vrec) : list (str * str) := map swap (combine letters (alleles r)).

Lemma fold_badd_swap l : forall m,
  fold_left (fun m lb => badd m (snd lb) (fst lb)) l m = badd_all (map swap l) m.
Proof. induction l as [|a l IH]; intros m; [reflexivity|]. cbn. apply IH. Qed.
Lemma map_snd_combine {A B} (l1 : list A) : forall l2 : list B, map snd (combine l1 l2) = firstn (length l1) l2.
Proof. induction l1 as [|a l1 IH]; intros [|b l2]; cbn; try reflexivity. f_equal. apply IH. Qed.

Lemma informative_unphased cf r : c_phased cf = false ->
  informative cf r = if informativeb cf r then Some (badd_all (upairs r) []) else None.
Proof.
  intros Hp. rewrite informative_shape. unfold informative_ref, informativeb, unphased_site_ref. rewrite Hp.
  destruct (forallb single (alleles r)) eqn:E; [|reflexivity].
  rewrite fold_badd_swap. fold (upairs r).
  rewrite (ignored_keys cf r _ (firstn 6 (alleles r))).
  2:{ intros x. rewrite badd_all_keys. unfold upairs. rewrite map_map. cbn [fst swap].
      change (fun x0 : str * str => snd x0) with (@snd str str). rewrite map_snd_combine. cbn. tauto. }
  cbn [andb negb]. destruct (existsb (fun b => ign_mem cf (r_ref r) b) (firstn 6 (alleles r))); reflexivity.
Qed.

(* ------------------------------------------------------------------ what a stored site answers *)
Lemma carriers_phased cf r b : c_phased cf = true ->
  carriers cf r b = canon (map snd (filter (fun bs => seqb (fst bs) b) (site_pairs cf r))).
Proof.
  intros Hp. unfold carriers. rewrite Hp.
  match goal with |- fold_right sins [] ?l = _ => change (fold_right sins [] l) with (canon l) end.
  apply canon_ext. intros s. rewrite !in_map_iff. split.
  - intros ([s0 al] & E & Hin). cbn in E. subst s0. apply filter_In in Hin. destruct Hin as [Hg Hb].
    cbn [fst snd] in Hb. apply andb_true_iff in Hb. destruct Hb as [Hb Hx]. apply andb_true_iff in Hb. destruct Hb as [Hs Hsb].
    apply existsb_exists in Hx. destruct Hx as ([x|] & Ha & Hxb); [|discriminate]. apply seqb_eq in Hxb. subst x.
    exists (b, s). split; [reflexivity|]. apply filter_In. split; [|apply seqb_refl].
    apply pairs_of_In. split; [|exact Hsb]. apply events_In. exists al. auto.
  - intros ([b0 s0] & E & Hin). cbn in E. subst s0. apply filter_In in Hin. destruct Hin as [Hin Hb].
    cbn in Hb. apply seqb_eq in Hb. subst b0. apply pairs_of_In in Hin. destruct Hin as [He Hsb].
    apply events_In in He. destruct He as (al & Hg & Hs & Ha). exists (s, al). split; [reflexivity|].
    apply filter_In. split; [exact Hg|]. cbn [fst snd]. rewrite Hs, Hsb. cbn. apply existsb_exists.
    exists (Some b). split; [exact Ha|apply seqb_refl].
Qed.
Lemma carriers_unphased cf r b : c_phased cf = false ->
  carriers cf r b = canon (map snd (filter (fun bs => seqb (fst bs) b) (upairs r))).
Proof.
  intros Hp. unfold carriers. rewrite Hp.
  match goal with |- fold_right sins [] ?l = _ => change (fold_right sins [] l) with (canon l) end.
  f_equal. unfold upairs. induction (combine letters (alleles r)) as [|[l a] t IH]; [reflexivity|].
  cbn [map filter swap fst snd]. destruct (seqb a b); cbn [map fst snd]; rewrite IH; reflexivity.
Qed.

Definition site_dict (cf : cfg) (r : vrec) : bmap :=
  badd_all (if c_phased cf then site_pairs cf r else upairs r) [].

Lemma informative_eq cf r : informative cf r = if informativeb cf r then Some (site_dict cf r) else None.
Proof.
  unfold site_dict. destruct (c_phased cf) eqn:Hp; [apply informative_phased|apply informative_unphased]; exact Hp.
Qed.
Lemma site_dict_aget cf r b :
  aget seqb (site_dict cf r) b = match carriers cf r b with [] => None | ss => Some ss end.
Proof.
  unfold site_dict. rewrite badd_all_aget. destruct (c_phased cf) eqn:Hp.
  - rewrite carriers_phased by exact Hp. reflexivity.
  - rewrite carriers_unphased by exact Hp. reflexivity.
Qed.
Lemma site_dict_good cf r : bm_good (site_dict cf r).
Proof. apply badd_all_good. Qed.

(* membership form of the carriers: "exactly the selected samples whose genotype contains the base" *)
Lemma carriers_phased_In cf r b s : c_phased cf = true ->
  In s (carriers cf r b) <->
  exists al, In (s, al) (r_gts r) /\ selected cf s = true /\ In (Some b) al /\ single b = true.
Proof.
  intros Hp. rewrite carriers_phased by exact Hp. rewrite canon_In, in_map_iff. split.
  - intros ([b0 s0] & E & Hin). cbn in E. subst s0. apply filter_In in Hin. destruct Hin as [Hin Hb].
    cbn in Hb. apply seqb_eq in Hb. subst b0. apply pairs_of_In in Hin. destruct Hin as [He Hsb].
    apply events_In in He. destruct He as (al & Hg & Hs & Ha). exists al. auto.
  - intros (al & Hg & Hs & Ha & Hsb). exists (b, s). split; [reflexivity|]. apply filter_In.
    split; [|apply seqb_refl]. apply pairs_of_In. split; [|exact Hsb]. apply events_In. exists al. auto.
Qed.
Lemma carriers_unphased_In cf r b l : c_phased cf = false ->
  In l (carriers cf r b) <-> In (l, b) (combine letters (alleles r)).
Proof.
  intros Hp. rewrite carriers_unphased by exact Hp. rewrite canon_In, in_map_iff. unfold upairs. split.
  - intros ([b0 l0] & E & Hin). cbn in E. subst l0. apply filter_In in Hin. destruct Hin as [Hin Hb].
    cbn in Hb. apply seqb_eq in Hb. subst b0. apply in_map_iff in Hin. destruct Hin as ([l1 b1] & E & Hin).
    unfold swap in E. cbn in E. inversion E; subst. exact Hin.
  - intros Hin. exists (b, l). split; [reflexivity|]. apply filter_In. split; [|apply seqb_refl].
    apply in_map_iff. exists (l, b). split; [reflexivity|exact Hin].
Qed.
Lemma carriers_sorted cf r b : ssorted (carriers cf r b).
Proof. unfold carriers. destruct (c_phased cf); apply canon_sorted. Qed.

(* ------------------------------------------------------------------ spec_rec against last_inf *)
Lemma last_inf_spec cf c p recs : forall acc accr,
  acc = option_map (site_dict cf) accr ->
  last_inf cf c p recs acc
  = option_map (site_dict cf) (fold_left (fun acc r => if at_site c p r && informativeb cf r then Some r else acc) recs accr).
Proof.
  unfold last_inf. induction recs as [|r recs IH]; intros acc accr E; cbn [fold_left]; [exact E|].
  apply IH. rewrite informative_eq. destruct (at_site c p r); cbn [andb]; [|exact E].
  destruct (informativeb cf r); [reflexivity|exact E].
Qed.
Lemma last_inf_spec_rec v cf c p :
  last_inf cf c p (v_recs v) None = option_map (site_dict cf) (spec_rec v cf c p).
Proof. unfold spec_rec. apply last_inf_spec. reflexivity. Qed.

(* the deciding record: the last informative one at the site *)
Lemma spec_rec_some v cf c p r : spec_rec v cf c p = Some r ->
  exists l1 l2, v_recs v = l1 ++ r :: l2 /\ at_site c p r = true /\ informativeb cf r = true
                /\ forall r', In r' l2 -> at_site c p r' && informativeb cf r' = false.
Proof.
  unfold spec_rec.
  assert (G : forall recs acc,
     fold_left (fun acc r => if at_site c p r && informativeb cf r then Some r else acc) recs acc = Some r ->
     (exists l1 l2, recs = l1 ++ r :: l2 /\ at_site c p r = true /\ informativeb cf r = true
                    /\ forall r', In r' l2 -> at_site c p r' && informativeb cf r' = false)
     \/ (acc = Some r /\ forall r', In r' recs -> at_site c p r' && informativeb cf r' = false)).
  { induction recs as [|r0 recs IH]; intros acc H; cbn [fold_left] in H.
    - right. split; [exact H|]. intros r' [].
    - apply IH in H. destruct H as [(l1 & l2 & E & H1 & H2 & H3)|[E H3]].
      + left. exists (r0 :: l1), l2. split; [cbn; f_equal; exact E|auto].
      + destruct (at_site c p r0 && informativeb cf r0) eqn:E0.
        * inversion E; subst. left. exists [], recs. apply andb_true_iff in E0. destruct E0. auto.
        * right. split; [exact E|]. intros r' [->|Hr]; [exact E0|apply H3, Hr]. }
  intros H. apply G in H. destruct H as [H|[H _]]; [exact H|discriminate].
Qed.
Lemma spec_rec_none v cf c p : spec_rec v cf c p = None ->
  forall r, In r (v_recs v) -> at_site c p r && informativeb cf r = false.
Proof.
  unfold spec_rec.
  assert (G : forall recs acc,
     fold_left (fun acc r => if at_site c p r && informativeb cf r then Some r else acc) recs acc = None ->
     acc = None /\ forall r, In r recs -> at_site c p r && informativeb cf r = false).
  { induction recs as [|r0 recs IH]; intros acc H; cbn [fold_left] in H.
    - split; [exact H|]. intros r [].
    - apply IH in H. destruct H as [E H3]. destruct (at_site c p r0 && informativeb cf r0) eqn:E0; [discriminate|].
      split; [exact E|]. intros r [->|Hr]; [exact E0|apply H3, Hr]. }
  intros H. apply G in H. apply H.
Qed.
