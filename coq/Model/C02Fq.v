(* C02 - the file-level stream: FastqIterator (fastqProcessing/fastqIterator.py) and the writer
   FastqHandle.write / TaggedRecord.asFastq, over lists of LINES.
   A file is the list of strings successive handle.readline() calls return (each with its line end,
   as the text layer delivers it); readline() at end of file returns '' (here []), for ever.
   Executable definitions only. *)
From Coq Require Import ZArith List Bool.
Import ListNotations.
Open Scope Z_scope.

(* str.isspace() for the characters str.rstrip() (no argument) removes *)
Definition is_ws (c : Z) : bool :=
  ((9 <=? c) && (c <=? 13)) || ((28 <=? c) && (c <=? 32)) || (c =? 133) || (c =? 160) || (c =? 5760) ||
  ((8192 <=? c) && (c <=? 8202)) || (c =? 8232) || (c =? 8233) || (c =? 8239) || (c =? 8287) || (c =? 12288).

(* str.rstrip() *)
Fixpoint rstrip (l : list Z) : list Z :=
  match l with
  | [] => []
  | c :: t => match rstrip t with
              | [] => if is_ws c then [] else [c]
              | t' => c :: t'
              end
  end.

Record frec := mkF { f_header : list Z; f_seq : list Z; f_plus : list Z; f_qual : list Z }.

(* _readFastqRecord: four readline().rstrip(); a handle is the list of lines not yet read *)
Definition read_rec (ls : list (list Z)) : frec :=
  mkF (rstrip (nth 0 ls [])) (rstrip (nth 1 ls [])) (rstrip (nth 2 ls [])) (rstrip (nth 3 ls [])).
Definition advance (ls : list (list Z)) : list (list Z) := skipn 4 ls.

Definition hdr_empty (r : frec) : bool := match f_header r with [] => true | _ => false end.

(* __next__ repeated: one record per handle; StopIteration as soon as ANY record has an empty header.
   fuel bounds the number of __next__ calls (FastqIterator() without paths never stops). *)
Fixpoint fq_iter (fuel : nat) (files : list (list (list Z))) : list (list frec) :=
  match fuel with
  | O => []
  | S f => let rs := map read_rec files in
           if existsb hdr_empty rs then [] else rs :: fq_iter f (map advance files)
  end.

Definition fq_fuel (files : list (list (list Z))) : nat := S (list_max (map (@length (list Z)) files)).
Definition fq_records (files : list (list (list Z))) : list (list frec) := fq_iter (fq_fuel files) files.

(* the writer: FastqHandle.write does handle.write(str(record)); asFastq returns
   f'@{header}\n{sequence}\n{dirAtt}\n{baseQualities}\n'.  Lines of the written text, for fields
   that contain no line break. *)
Definition write_rec (h s p q : list Z) : list (list Z) :=
  [64 :: h ++ [10]; s ++ [10]; p ++ [10]; q ++ [10]].
Definition fq_write (recs : list (list Z * list Z * list Z * list Z)) : list (list Z) :=
  flat_map (fun r => match r with (h, s, p, q) => write_rec h s p q end) recs.

(* the read tuple handed to demultiplex: (sequence, qualities) per mate *)
Definition mate_of (r : frec) : list Z * list Z := (f_seq r, f_qual r).
