(* C14: the SPECIFICATION of a call letter (definitions only; moved here from Proofs/C14_a.v unchanged so that the
   boolean specification specb of Model/C14x.v can be extracted and evaluated on the implementation's outputs even
   when a proof is broken).  Nothing here looks at TAPS.context_mapping or position_to_context. *)
From Coq Require Import ZArith List Bool.
Import ListNotations.
From SCMO Require Import Lib.Val Gen.GenTaps Model.C14.
Open Scope Z_scope.

Definition is_acgt (c : Z) : bool := (c =? cA) || (c =? cC) || (c =? cG) || (c =? cT).

Definition ref_at (ref : list Z) (i : Z) : option Z := if i <? 0 then None else nth_error ref (Z.to_nat i).
Definition up_at (ref : list Z) (i : Z) : option Z := option_map upper (ref_at ref i).

(* the two bases that follow the cytosine on ITS OWN strand, read 5'->3' on that strand:
   reference C at pos: pos+1, pos+2 ; reference G at pos (C on the opposite strand): complement of pos-1, pos-2 *)
Definition neighbours (ref : list Z) (pos base : Z) : option (Z * Z) :=
  if base =? cC then
    match up_at ref (pos + 1), up_at ref (pos + 2) with Some a, Some b => Some (a, b) | _, _ => None end
  else
    match up_at ref (pos - 1), up_at ref (pos - 2) with Some a, Some b => Some (compl a, compl b) | _, _ => None end.

(* CpG -> z, CHG -> x, CHH -> h ; H = A/C/T ; any non-ACGT neighbour -> no class *)
Definition ctx_class (n1 n2 : Z) : option Z :=
  if is_acgt n1 && is_acgt n2 then Some (if n1 =? cG then c_z else if n2 =? cG then c_x else c_h) else None.

Definition conv (base : Z) : Z := if base =? cC then cT else cA.     (* C>T , G>A *)

Definition spec_letter (ref : list Z) (pos base cons : Z) : Z :=
  match up_at ref pos with
  | Some b0 =>
      if b0 =? base then
        match neighbours ref pos base with
        | Some (n1, n2) =>
            match ctx_class n1 n2 with
            | Some l => if cons =? conv base then upper l else if cons =? base then l else cDot
            | None => cDot
            end
        | None => cDot
        end
      else cDot
  | None => cDot
  end.
