(* C06 model: greedy molecule assignment of MoleculeIterator (pooling_method=1, NO ejection:
   check_eject_every=None; the ejection schedule is C07's subject) and Molecule.write_tags.
   Definitions only.

   Source read (singlecellmultiomics, /repo):
     fragment/fragment.py  Fragment.__eq__, umi_eq          (plain fragments: sample, strand, [contig: fix D31],
                                                              min(|start-start'|,|end-end'|) <= radius, UMI)
     fragment/nlaIII.py    NlaIIIFragment.match_hash/__eq__ (hash = (strand, site strand, contig, site, sample); UMI)
     fragment/chic.py      CHICFragment.match_hash/__eq__   (radius 0: as NLA; radius > 0: hash without the
                                                              position, |site - molecule site| <= radius; UMI)
     molecule/molecule.py  Molecule.add_fragment/_add_fragment (cap -> OverflowError), update_umi
                           (Counter.most_common(1): first inserted wins ties), write_tags (RC, duplicate, af, TF)
     molecule/nlaIII.py, molecule/chic.py  _add_fragment: running extreme site (min forward / max reverse)
     molecule/iterator.py  MoleculeIterator.__iter__: `molecule == fragment` has no Molecule.__eq__, so
                           Python dispatches to the FRAGMENT's __eq__ with the molecule as `other`.

   A molecule is its fragment list in arrival order plus the overflow counter; every attribute
   of the Python Molecule the comparison reads (umi, site_location, match_hash, sample, strand, span)
   is a left fold over that list, exactly as _add_fragment updates it (fold_left = one update per append).

   T: the comparison kernel is GENERATED from the working tree on every run (coq/Gen/GenAssign.v, tools/c06_gen.py)
   and the model is defined WITH it: the guard chains of the three __eq__ and of umi_eq (g_fragment_eq, g_nla_eq,
   g_chic_eq, g_umi_eq), the match_hash tuples composed with the stores of set_site (g_nla_hash, g_chic_hash), the
   add_fragment / capacity decision (g_add_decision) and the tag expressions of write_tags (g_tag_rc, g_tag_dup,
   g_tag_af, g_tag_tf).  Proofs/C06_shape.v connects them to the closed forms the proofs use. *)
From Coq Require Import ZArith List Bool.
Import ListNotations.
From SCMO Require Import Lib.Val Gen.GenAssign.
Open Scope Z_scope.

(* ---- abstract fragment.  strand: 0 = False (forward), 1 = True (reverse), 2 = None.
   NLA/CHIC: (f_contig, f_site) = site_location, f_end unused.  plain: (f_contig, f_site, f_end) = span. *)
Record frag := { f_id : Z; f_cell : Z; f_strand : Z; f_contig : Z; f_site : Z; f_end : Z;
                 f_umi : list Z; f_valid : bool; f_dup : bool }.

(* fragment class: 0 plain Fragment, 1 NlaIIIFragment, 2 CHICFragment *)
Record cfg := { c_cls : Z; c_d : Z; c_r : Z; c_cap : option Z; c_yinv : bool; c_yover : bool; c_fixed : bool }.

(* m_frags: associated fragments in arrival order; m_ovf: fragments that matched the full molecule and were
   refused with OverflowError (overflow_fragments = their number; CHICMolecule._add_fragment moves site_location
   BEFORE Molecule._add_fragment raises, so they still shift the molecule's site);
   kind: 0 normal, 1 overflow singleton, 2 invalid singleton *)
Record mol := { m_frags : list frag; m_ovf : list frag; m_kind : Z }.
Definition m_over (m : mol) : Z := Z.of_nat (length (m_ovf m)).

Fixpoint zs_eqb (a b : list Z) : bool :=
  match a, b with
  | [], [] => true
  | x :: a', y :: b' => (x =? y) && zs_eqb a' b'
  | _, _ => false
  end.

(* ---- UMI comparison: Fragment.umi_eq with sequtils.hamming_distance ('N' = 78 matches anything) *)
Definition chN : Z := 78.
Fixpoint hamming (a b : list Z) : Z :=
  match a, b with
  | x :: a', y :: b' => (if negb (x =? y) && negb (x =? chN) && negb (y =? chN) then 1 else 0) + hamming a' b'
  | _, _ => 0
  end.
Definition umi_eq (d : Z) (fu mu : list Z) : bool :=
  g_umi_eq (zs_eqb fu mu) (negb (Nat.eqb (length fu) (length mu))) d (hamming fu mu).

(* ---- collections.Counter in insertion order, most_common(1) = first maximal entry *)
Fixpoint counter_add (u : list Z) (c : list (list Z * Z)) : list (list Z * Z) :=
  match c with
  | [] => [(u, 1)]
  | (k, n) :: c' => if zs_eqb u k then (k, n + 1) :: c' else (k, n) :: counter_add u c'
  end.
Definition counter (us : list (list Z)) : list (list Z * Z) := fold_left (fun c u => counter_add u c) us [].
Fixpoint best (c : list (list Z * Z)) (cur : list Z * Z) : list Z * Z :=
  match c with
  | [] => cur
  | (k, n) :: c' => if snd cur <? n then best c' (k, n) else best c' cur
  end.
Definition most_common (c : list (list Z * Z)) : list Z :=
  match c with [] => [] | x :: c' => fst (best c' x) end.

(* ---- molecule attributes as folds over the fragment list *)
Definition rep_of (fs : list frag) : list Z := most_common (counter (map f_umi fs)).      (* Molecule.umi *)
Definition site_step (s : Z) (f : frag) : Z := if f_strand f =? 1 then Z.max (f_site f) s else Z.min (f_site f) s.
Definition site_of (fs : list frag) : Z :=                                                 (* site_location[1] *)
  match fs with [] => 0 | f :: fs' => fold_left site_step fs' (f_site f) end.
Definition start_of (fs : list frag) : Z :=                                                (* spanStart *)
  match fs with [] => 0 | f :: fs' => fold_left (fun s g => Z.min (f_site g) s) fs' (f_site f) end.
Definition end_of (fs : list frag) : Z :=                                                  (* spanEnd *)
  match fs with [] => 0 | f :: fs' => fold_left (fun s g => Z.max (f_end g) s) fs' (f_end f) end.
Definition strand_of (fs : list frag) : Z :=                                               (* Molecule.strand *)
  fold_left (fun s g => if f_strand g =? 2 then s else f_strand g) fs 2.
Definition cell_of (fs : list frag) : Z := match fs with [] => 0 | f :: _ => f_cell f end. (* Molecule.sample *)
Definition lastf (fs : list frag) : option frag := last (map Some fs) None.
Definition chrom_of (fs : list frag) : Z := match lastf fs with Some f => f_contig f | None => 0 end.

(* match_hash of a fragment; [] stands for None (plain Fragment) *)
Definition key (c : cfg) (f : frag) : list Z :=
  if c_cls c =? 1 then g_nla_hash (c_r c) (f_strand f) (f_contig f) (f_site f) (f_cell f)
  else if c_cls c =? 2 then g_chic_hash (c_r c) (f_strand f) (f_contig f) (f_site f) (f_cell f)
  else [].
Definition hash_of (c : cfg) (fs : list frag) : list Z :=                                  (* Molecule.match_hash *)
  match lastf fs with Some f => key c f | None => [] end.

(* fragment.__eq__(molecule) *)
Definition accepts (c : cfg) (f : frag) (m : mol) : bool :=
  let fs := m_frags m in
  let umi_ok := umi_eq (c_d c) (f_umi f) (rep_of fs) in
  if c_cls c =? 1 then g_nla_eq (negb (zs_eqb (key c f) (hash_of c fs))) umi_ok
  else if c_cls c =? 2 then
    g_chic_eq (negb (zs_eqb (key c f) (hash_of c fs))) false false umi_ok (c_r c) (f_site f) (site_of (fs ++ m_ovf m))
  else
    (* a non-empty molecule has spanStart / spanEnd set (possibly to 0): has_valid_span = g_mol_span_ok true true *)
    g_fragment_eq true (g_mol_span_ok true true) umi_ok (c_r c) (f_cell f) (f_strand f) (f_contig f) (f_site f) (f_end f)
                  (cell_of fs) (strand_of fs) (chrom_of fs) (start_of fs) (end_of fs).

Definition full (c : cfg) (m : mol) : bool :=
  match c_cap c with Some cap => cap <=? Z.of_nat (length (m_frags m)) | None => false end.
Definition has_cap (c : cfg) : bool := match c_cap c with Some _ => true | None => false end.
Definition cap_val (c : cfg) : Z := match c_cap c with Some cap => cap | None => 0 end.
(* Molecule.add_fragment(fragment, use_hash=True) on a non-empty molecule: 0 refused, 1 added, 2 OverflowError *)
Definition decide (c : cfg) (f : frag) (m : mol) : Z :=
  g_add_decision false (accepts c f m) (has_cap c) (Z.of_nat (length (m_frags m))) (cap_val c).

Definition mol_add (m : mol) (f : frag) : mol := {| m_frags := m_frags m ++ [f]; m_ovf := m_ovf m; m_kind := m_kind m |}.
Definition mol_bump (m : mol) (f : frag) : mol := {| m_frags := m_frags m; m_ovf := m_ovf m ++ [f]; m_kind := m_kind m |}.
Definition mol_new (kind : Z) (f : frag) : mol := {| m_frags := [f]; m_ovf := []; m_kind := kind |}.

(* the loop `for molecule in group: if molecule.add_fragment(fragment): break` with OverflowError escaping it *)
Inductive offer_res := Added (ms : list mol) | Overflowed (ms : list mol) | Rejected.
Fixpoint offer (c : cfg) (f : frag) (ms : list mol) : offer_res :=
  match ms with
  | [] => Rejected
  | m :: ms' =>
      if decide c f m =? 1 then Added (mol_add m f :: ms')
      else if decide c f m =? 2 then Overflowed (mol_bump m f :: ms')
      else match offer c f ms' with
           | Added r => Added (m :: r)
           | Overflowed r => Overflowed (m :: r)
           | Rejected => Rejected
           end
  end.

Definition step_group (c : cfg) (f : frag) (ms : list mol) : list mol * option mol :=
  match offer c f ms with
  | Added ms' => (ms', None)
  | Overflowed ms' => (ms', Some (mol_new 1 f))
  | Rejected => (ms ++ [mol_new 0 f], None)
  end.

(* molecules_per_cell: insertion-ordered dict  match_hash -> list of molecules *)
Definition groups := list (list Z * list mol).
Fixpoint step_groups (c : cfg) (f : frag) (k : list Z) (gs : groups) : groups * option mol :=
  match gs with
  | [] => ([(k, [mol_new 0 f])], None)
  | (k', ms) :: gs' =>
      if zs_eqb k k' then let '(ms', e) := step_group c f ms in ((k', ms') :: gs', e)
      else let '(gs'', e) := step_groups c f k gs' in ((k', ms) :: gs'', e)
  end.

Record state := { st_groups : groups; st_emitted : list mol }.

Definition step (c : cfg) (st : state) (f : frag) : state :=
  if negb (f_valid f) then
    (if c_yinv c then {| st_groups := st_groups st; st_emitted := st_emitted st ++ [mol_new 2 f] |} else st)
  else
    let '(gs', e) := step_groups c f (key c f) (st_groups st) in
    {| st_groups := gs';
       st_emitted := match e with
                     | Some m => if c_yover c then st_emitted st ++ [m] else st_emitted st
                     | None => st_emitted st
                     end |}.

Definition all_mols (gs : groups) : list mol := concat (map snd gs).
Definition assign_ok (c : cfg) (frags : list frag) : list mol :=
  let st := fold_left (step c) frags {| st_groups := []; st_emitted := [] |} in
  st_emitted st ++ all_mols (st_groups st).

(* max_associated_fragments <= 0: the Molecule constructor itself raises OverflowError (uncaught in the
   iterator) for the first fragment that needs a molecule *)
Definition cap_bad (c : cfg) : bool := g_add_decision true false (has_cap c) 0 (cap_val c) =? 2.
Definition needs_mol (c : cfg) (f : frag) : bool := f_valid f || c_yinv c.
Definition assign (c : cfg) (frags : list frag) : option (list mol) :=      (* None = OverflowError raised *)
  if cap_bad c then (if existsb (needs_mol c) frags then None else Some [])
  else Some (assign_ok c frags).

(* ---- Molecule.write_tags (+ Fragment.write_tags qcfail bit): per fragment (id, RC, duplicate, af, TF, qcfail).
   c_fixed = true: duplicate bit ASSIGNED (rc > 0) - the repaired code (fix D9);
   c_fixed = false: the bit is only ever set (rc > 0) and otherwise keeps the input value. *)
Record tagrec := { t_id : Z; t_rc : Z; t_dup : bool; t_af : Z; t_tf : Z; t_qc : bool }.
Fixpoint tags_from (fixed : bool) (n over : Z) (rc : Z) (fs : list frag) : list tagrec :=
  match fs with
  | [] => []
  | f :: fs' => {| t_id := f_id f; t_rc := g_tag_rc n rc;
                   t_dup := if fixed then g_tag_dup n rc (f_dup f) else ((0 <? rc) || f_dup f);
                   t_af := g_tag_af n over; t_tf := g_tag_tf n over; t_qc := negb (f_valid f) |}
                :: tags_from fixed n over (rc + 1) fs'
  end.
Definition write_tags (fixed : bool) (m : mol) : list tagrec :=
  tags_from fixed (Z.of_nat (length (m_frags m))) (m_over m) 0 (m_frags m).

(* re-tagging history: the same fragments in the same order, carrying the duplicate bits of an earlier run *)
Definition set_dup (f : frag) (b : bool) : frag :=
  {| f_id := f_id f; f_cell := f_cell f; f_strand := f_strand f; f_contig := f_contig f; f_site := f_site f;
     f_end := f_end f; f_umi := f_umi f; f_valid := f_valid f; f_dup := b |}.
Definition dup_lookup (ts : list tagrec) (id : Z) : bool :=
  match find (fun t => t_id t =? id) ts with Some t => t_dup t | None => false end.
Definition retag (c : cfg) (frags : list frag) : list frag :=
  match assign c frags with
  | Some out => let ts := concat (map (write_tags (c_fixed c)) out) in
                map (fun f => set_dup f (dup_lookup ts (f_id f))) frags
  | None => frags
  end.

(* ---- I/O glue *)
Definition dec_frag (v : Val) : frag :=
  {| f_id := getZ (nthV 0 v); f_cell := getZ (nthV 1 v); f_strand := getZ (nthV 2 v); f_contig := getZ (nthV 3 v);
     f_site := getZ (nthV 4 v); f_end := getZ (nthV 5 v); f_umi := getZs (nthV 6 v);
     f_valid := getB (nthV 7 v); f_dup := getB (nthV 8 v) |}.
Definition dec_cfg (v : Val) : cfg :=
  {| c_cls := getZ (nthV 0 v); c_d := getZ (nthV 1 v); c_r := getZ (nthV 2 v); c_cap := getOptZ (nthV 3 v);
     c_yinv := getB (nthV 4 v); c_yover := getB (nthV 5 v); c_fixed := getB (nthV 6 v) |}.
Definition enc_tag (t : tagrec) : Val :=
  VL [VZ (t_id t); VZ (t_rc t); ofB (t_dup t); VZ (t_af t); VZ (t_tf t); ofB (t_qc t)].
Definition enc_mol (fixed : bool) (m : mol) : Val :=
  VL [VZ (m_kind m); VZ (m_over m); VL (map enc_tag (write_tags fixed m))].
Definition enc_run (c : cfg) (frags : list frag) : Val :=
  match assign c frags with
  | None => VL [VZ 0]
  | Some out => VL [VZ 1; VL (map (enc_mol (c_fixed c)) out)]
  end.

(* mode 0: run + write_tags;  mode 1: precondition of the theorems (constructor does not raise);
   mode 3: run on the re-tagged input (second pass of a re-tagging history) *)
Definition run_C06 (mode : Z) (v : Val) : Val :=
  let c := dec_cfg (nthV 0 v) in
  let frags := map dec_frag (getL (nthV 1 v)) in
  match mode with
  | 0 => enc_run c frags
  | 1 => ofB (negb (cap_bad c))
  | 3 => enc_run c (retag c frags)
  | _ => bad
  end.
