(* T: the machine below is written WITH the definitions g_* of Gen/GenAlleles.v, regenerated from the current source on
   every run (tools/c18.py, regen_alleles); the specification part uses hand-written reference definitions only;
   Proofs/C18_s.v connects the two (shape lemmas).
   C18 model: AlleleResolver (singlecellmultiomics/alleleTools/alleleTools.py), REPAIRED behaviour
   (fixes/C18-D24, C18-D25, C18-D26).  Definitions only.

   strings        = list Z (code points);  python set of str = strictly sorted list (sorted() is then the identity)
   python dict    = association list, first match, d[k]=v replaces in place or appends (insertion order kept)
   VCF            = header contigs + records in file order; a record carries (sample, alleles) in header order,
                    alleles as pysam's sampleData.alleles (None = missing)
   file system    = association list  cache file name -> content (code points); gzip/text codec outside the model
   Not modelled (ASSUMPTIONS/TRUSTED in tools/c18.py): uglyMode, vcffile=None, region_start/region_end,
   VCFs without sample columns, the sentinel stored under the key None by the eager load of all contigs. *)
From Coq Require Import ZArith List Bool.
Import ListNotations.
From SCMO Require Import Lib.Val Gen.GenAlleles.
Open Scope Z_scope.

Definition str := list Z.

(* ------------------------------------------------------------------ strings, sets, dicts *)
Fixpoint scmp (a b : str) : comparison :=
  match a, b with
  | [], [] => Eq
  | [], _ :: _ => Lt
  | _ :: _, [] => Gt
  | x :: a', y :: b' => match Z.compare x y with Eq => scmp a' b' | Lt => Lt | Gt => Gt end
  end.
Definition seqb (a b : str) : bool := match scmp a b with Eq => true | _ => false end.

(* set.add on the sorted representation *)
Fixpoint sins (x : str) (l : list str) : list str :=
  match l with
  | [] => [x]
  | h :: t => match scmp x h with Lt => x :: l | Eq => l | Gt => h :: sins x t end
  end.
Definition smem (x : str) (l : list str) : bool := existsb (seqb x) l.
(* sorted(list) keeping duplicates *)
Fixpoint ssort_ins (x : str) (l : list str) : list str :=
  match l with
  | [] => [x]
  | h :: t => match scmp x h with Gt => h :: ssort_ins x t | _ => x :: l end
  end.
Definition ssort (l : list str) : list str := fold_right ssort_ins [] l.
Fixpoint zsort_ins (x : Z) (l : list Z) : list Z :=
  match l with
  | [] => [x]
  | h :: t => if x <=? h then x :: l else h :: zsort_ins x t
  end.
Definition zsort (l : list Z) : list Z := fold_right zsort_ins [] l.

Section Assoc.
  Context {K V : Type}.
  Variable eqb : K -> K -> bool.
  Fixpoint aget (m : list (K * V)) (k : K) : option V :=
    match m with
    | [] => None
    | (k', v) :: m' => if eqb k k' then Some v else aget m' k
    end.
  Fixpoint aset (m : list (K * V)) (k : K) (v : V) : list (K * V) :=
    match m with
    | [] => [(k, v)]
    | (k', v') :: m' => if eqb k k' then (k', v) :: m' else (k', v') :: aset m' k v
    end.
  Definition amem (m : list (K * V)) (k : K) : bool := match aget m k with Some _ => true | None => false end.
End Assoc.

Definition bmap := list (str * list str).      (* base -> set(samples) *)
Definition ctable := list (Z * bmap).          (* pos -> base -> samples *)
Definition table := list (str * ctable).       (* locationToAllele: contig -> pos -> base -> samples *)
Definition fsys := list (str * str).           (* cache file name -> content *)

Definition getd {K V} (eqb : K -> K -> bool) (m : list (K * list V)) (k : K) : list V :=
  match aget eqb m k with Some v => v | None => [] end.

(* bases_to_alleles[base].add(sample) *)
Definition badd (m : bmap) (b s : str) : bmap := aset seqb m b (sins s (getd seqb m b)).
(* self.locationToAllele[c][p] = bm *)
Definition store (t : table) (c : str) (p : Z) (bm : bmap) : table :=
  aset seqb t c (aset Z.eqb (getd seqb t c) p bm).
(* self.locationToAllele[c][p][b] = ss *)
Definition store3 (t : table) (c : str) (p : Z) (b : str) (ss : list str) : table :=
  store t c p (aset seqb (getd Z.eqb (getd seqb t c) p) b ss).
Definition lookup2 (t : table) (c : str) (p : Z) : option bmap :=
  match aget seqb t c with Some ct => aget Z.eqb ct p | None => None end.

(* ------------------------------------------------------------------ VCF and configuration *)
Record vrec := { r_chrom : str; r_pos : Z; r_ref : str; r_alts : list str;
                 r_gts : list (str * list (option str)) }.
Record vcf := { v_contigs : list str; v_recs : list vrec }.
Record cfg := { c_phased : bool; c_select : option (list str); c_ignore : option (list (str * str));
                c_lazy : bool; c_cache : bool; c_chrom : option str }.

Definition single (a : str) : bool := match a with [_] => true | _ => false end.   (* len(base) == 1 *)
Definition selected (cf : cfg) (s : str) : bool :=
  match c_select cf with None => true | Some l => smem s l end.
(* ---- the same tests as the current source writes them *)
Definition is_some {A} (o : option A) : bool := match o with Some _ => true | None => false end.
Definition sel_list (cf : cfg) : list str := match c_select cf with Some l => l | None => [] end.
Definition ign_list (a : option (list (str * str))) : list (str * str) := match a with Some l => l | None => [] end.
Definition gsingle (a : str) : bool := g_single (Z.of_nat (length a)).                  (* len(base) == 1 *)
Definition gusingle (a : str) : bool := g_unphased_single (Z.of_nat (length a)).        (* len(allele) == 1 *)
Definition gselected (cf : cfg) (s : str) : bool :=
  negb (g_select_skip (is_some (c_select cf)) (smem s (sel_list cf))).
(* `continue` / `break` on a missing allele *)
Fixpoint upto_none (l : list (option str)) : list (option str) :=
  match l with
  | [] => []
  | None :: _ => [None]
  | a :: t => a :: upto_none t
  end.
Definition alleles_seen (l : list (option str)) : list (option str) := if g_missing_break then upto_none l else l.

(* ---- phased branch of fetchChromosome: the loops over rec.samples.items() and sampleData.alleles *)
Record scan := { s_bm : bmap; s_used : bool; s_assigned : list str; s_mono : bool; s_bad : bool }.
Definition scan0 : scan := {| s_bm := []; s_used := false; s_assigned := []; s_mono := false; s_bad := false |}.
Definition scan_allele (sample : str) (st : scan) (a : option str) : scan :=
  match a with
  | None => {| s_bm := s_bm st; s_used := s_used st; s_assigned := s_assigned st; s_mono := true; s_bad := s_bad st |}
  | Some b =>
      if gsingle b
      then {| s_bm := badd (s_bm st) b sample; s_used := true; s_assigned := sins sample (s_assigned st);
              s_mono := s_mono st; s_bad := s_bad st |}
      else {| s_bm := s_bm st; s_used := s_used st; s_assigned := s_assigned st; s_mono := s_mono st; s_bad := true |}
  end.
Definition scan_sample (cf : cfg) (st : scan) (g : str * list (option str)) : scan :=
  if gselected cf (fst g) then fold_left (scan_allele (fst g)) (alleles_seen (snd g)) st else st.
Definition scan_rec (cf : cfg) (r : vrec) : scan := fold_left (scan_sample cf) (r_gts r) scan0.

Definition phased_site (cf : cfg) (r : vrec) : bmap * bool * bool :=   (* (bases_to_alleles, used, bad) *)
  let st := scan_rec cf r in
  (s_bm st, s_used st,
   g_bad_after (is_some (c_select cf)) (s_used st) (Z.of_nat (length (s_assigned st))) (Z.of_nat (length (sel_list cf)))
               (s_mono st) (Z.of_nat (length (s_bm st))) (s_bad st)).

(* ---- unphased branch: zip('UVWXYZ', rec.alleles) *)
Definition letters : list str := [[85]; [86]; [87]; [88]; [89]; [90]].
Definition alleles (r : vrec) : list str := r_ref r :: r_alts r.
Definition gletters : list str := map (fun c => [c]) g_letters.
Definition unphased_site (r : vrec) : bmap * bool * bool :=
  if forallb gusingle (alleles r)
  then (fold_left (fun m lb => badd m (snd lb) (fst lb)) (combine gletters (alleles r)) [], true, false)
  else ([], false, true).

Definition pair_mem (a b : str) (l : list (str * str)) : bool :=
  existsb (fun q => seqb a (fst q) && seqb b (snd q)) l.
Definition ignored (cf : cfg) (r : vrec) (bm : bmap) : bool :=
  match c_ignore cf with
  | None => false
  | Some l => existsb (fun kv => pair_mem (r_ref r) (fst kv) l) bm
  end.

(* if <guard>: bad = any((rec.ref, base) in self.ignore_conversions for base in bases_to_alleles) *)
Definition ignored_any (cf : cfg) (r : vrec) (bm : bmap) : bool :=
  existsb (fun kv => let k := g_ignore_key (r_ref r) (fst kv) in pair_mem (fst k) (snd k) (ign_list (c_ignore cf))) bm.
(* the base->samples dict stored for a record, or None when the record is skipped *)
Definition informative (cf : cfg) (r : vrec) : option bmap :=
  let '(bm, used, bad) := if c_phased cf then phased_site cf r else unphased_site r in
  let bad' := if g_ignore_guard bad (is_some (c_ignore cf)) then ignored_any cf r bm else bad in
  if g_store used bad' then Some bm else None.

Definition load_recs (cf : cfg) (recs : list vrec) (t : table) : table :=
  fold_left (fun t r => match informative cf r with
                        | Some bm => store t (r_chrom r) (g_store_pos (r_pos r)) bm
                        | None => t end) recs t.

(* self.locationToAllele[chrom][-1]['N'].add('Nop') *)
Definition str_N : str := [78].
Definition str_Nop : str := [78; 111; 112].
Definition add_sentinel (t : table) (c : str) : table :=
  store t c g_sentinel_pos (badd (getd Z.eqb (getd seqb t c) g_sentinel_pos) g_sentinel_base g_sentinel_name).

Definition valid_contig (v : vcf) (c : str) : bool := smem c (v_contigs v).
Definition recs_of (v : vcf) (c : str) : list vrec := filter (fun r => seqb (r_chrom r) c) (v_recs v).

(* what fetchChromosome(vcf, c) builds from the VCF in an empty dict; v.fetch(c) raises ValueError
   ('invalid contig') after the sentinel was stored when c is not a contig of the file *)
Definition contig_table (v : vcf) (cf : cfg) (c : str) : table :=
  let t := add_sentinel [] c in
  if valid_contig v c then load_recs cf (recs_of v c) t else t.

(* ------------------------------------------------------------------ cache file: name, write_cache, read_cached *)
Fixpoint prefixb (p s : str) : bool :=
  match p, s with
  | [], _ => true
  | x :: p', y :: s' => (x =? y) && prefixb p' s'
  | _ :: _, [] => false
  end.
Fixpoint infixb (p s : str) : bool :=
  prefixb p s || match s with [] => false | _ :: s' => infixb p s' end.
Definition suffixb (p s : str) : bool := prefixb (rev p) (rev s).
Definition s_KN : str := [75; 78].
Definition s_KZ : str := [75; 90].
Definition s_chrUn : str := [99; 104; 114; 85; 110].
Definition s_random : str := [95; 114; 97; 110; 100; 111; 109].
Definition s_ERCC : str := [69; 82; 67; 67].
Definition cacheable (c : str) : bool :=
  negb (existsb (fun rule => if fst rule =? 0 then prefixb (snd rule) c
                             else if fst rule =? 1 then suffixb (snd rule) c else infixb (snd rule) c) g_nocache_rules).

Fixpoint join (sep : Z) (l : list str) : str :=
  match l with
  | [] => []
  | [x] => x
  | x :: l' => x ++ sep :: join sep l'
  end.
Fixpoint joins (sep : str) (l : list str) : str :=
  match l with
  | [] => []
  | [x] => x
  | x :: l' => x ++ sep ++ joins sep l'
  end.
Definition cache_name (cf : cfg) (c : str) : str :=
  let n := c in
  let n := match c_select cf with Some sel => g_name_sel n (joins g_name_sel_join (ssort sel)) | None => n end in
  let n := if c_phased cf then n else n ++ g_name_unphased in
  let n := match c_ignore cf with
           | Some (q :: l) => n ++ (g_name_ignore_prefix
                                    ++ joins g_name_ignore_join (ssort (map (fun ab => g_name_conv (fst ab) (snd ab)) (q :: l))))
           | _ => n end in
  n ++ g_name_suffix.

(* f'{position}' and int(position) *)
Fixpoint digits (u : Decimal.uint) : str :=
  match u with
  | Decimal.Nil => []
  | Decimal.D0 u => 48 :: digits u | Decimal.D1 u => 49 :: digits u | Decimal.D2 u => 50 :: digits u
  | Decimal.D3 u => 51 :: digits u | Decimal.D4 u => 52 :: digits u | Decimal.D5 u => 53 :: digits u
  | Decimal.D6 u => 54 :: digits u | Decimal.D7 u => 55 :: digits u | Decimal.D8 u => 56 :: digits u
  | Decimal.D9 u => 57 :: digits u
  end.
Definition print_int (z : Z) : str :=
  match Z.to_int z with Decimal.Pos u => digits u | Decimal.Neg u => 45 :: digits u end.
Fixpoint undigits (s : str) : option Decimal.uint :=
  match s with
  | [] => Some Decimal.Nil
  | c :: s' =>
      match undigits s' with
      | None => None
      | Some u =>
          if c =? 48 then Some (Decimal.D0 u) else if c =? 49 then Some (Decimal.D1 u)
          else if c =? 50 then Some (Decimal.D2 u) else if c =? 51 then Some (Decimal.D3 u)
          else if c =? 52 then Some (Decimal.D4 u) else if c =? 53 then Some (Decimal.D5 u)
          else if c =? 54 then Some (Decimal.D6 u) else if c =? 55 then Some (Decimal.D7 u)
          else if c =? 56 then Some (Decimal.D8 u) else if c =? 57 then Some (Decimal.D9 u)
          else None
      end
  end.
(* int(s) for s = [+-]?[0-9]+ ; anything else is ValueError (None).  (parse_int below strips blanks first, as
   int() does.)  Python's int() also accepts '_' separators and non-ASCII digits: never produced by write_cache *)
Definition parse_int0 (s : str) : option Z :=
  match s with
  | [] => None
  | c :: s' =>
      if c =? 45 then match s' with [] => None | _ => option_map (fun u => Z.of_int (Decimal.Neg u)) (undigits s') end
      else if c =? 43 then match s' with [] => None | _ => option_map (fun u => Z.of_int (Decimal.Pos u)) (undigits s') end
      else option_map (fun u => Z.of_int (Decimal.Pos u)) (undigits s)
  end.

(* write_cache: for position in sorted(keys): for base in dict: f'{position}\t{base}\t{",".join(sorted(samples))}\n' *)
Definition line_of (p : Z) (kv : str * list str) : str :=
  g_line (print_int p) (fst kv) (join g_sample_join (snd kv)).
Definition serialise (ct : ctable) : str :=
  concat (flat_map (fun p => map (line_of p) (getd Z.eqb ct p)) (zsort (map fst ct))).

(* str.isspace *)
Definition is_space (c : Z) : bool :=
  ((9 <=? c) && (c <=? 13)) || ((28 <=? c) && (c <=? 32)) || (c =? 133) || (c =? 160) || (c =? 5760)
  || ((8192 <=? c) && (c <=? 8202)) || (c =? 8232) || (c =? 8233) || (c =? 8239) || (c =? 8287) || (c =? 12288).
Fixpoint lstrip (s : str) : str :=
  match s with
  | [] => []
  | c :: s' => if is_space c then lstrip s' else s
  end.
Definition strip (s : str) : str := rev (lstrip (rev (lstrip s))).
Definition parse_int (s : str) : option Z := parse_int0 (strip s).
(* s.split(sep) *)
Fixpoint split_on (sep : Z) (s : str) : list str :=
  match s with
  | [] => [[]]
  | c :: s' => if c =? sep then [] :: split_on sep s'
               else match split_on sep s' with f :: fs => (c :: f) :: fs | [] => [[c]] end
  end.
(* text mode, newline=None: '\r\n' and '\r' are read as '\n' *)
Fixpoint unl (s : str) : str :=
  match s with
  | [] => []
  | c :: s' => if c =? 13
               then 10 :: match s' with
                          | d :: s'' => if d =? 10 then unl s'' else unl s'
                          | [] => [] end
               else c :: unl s'
  end.
(* for line in f  (terminator dropped; line.strip() removes it anyway) *)
Fixpoint lines_of (s : str) : list str :=
  match s with
  | [] => []
  | c :: s' => if c =? 10 then [] :: lines_of s'
               else match lines_of s' with l :: ls => (c :: l) :: ls | [] => [[c]] end
  end.

(* position, base, samples = line.strip().split('\t', 3); int(position); set(samples.split(',')) ;
   None = ValueError (wrong number of fields / not an integer) *)
Definition parse_line (l : str) : option (Z * str * list str) :=
  match split_on g_field_sep (strip l) with
  | [ps; b; ss] => match parse_int ps with
                   | Some p => Some (p, b, fold_right sins [] (split_on g_sample_split ss))
                   | None => None end
  | _ => None
  end.
(* read_cached: an exception stops the loop and leaves what was read so far (the callers catch it) *)
Fixpoint read_lines (ls : list str) (c : str) (t : table) : table :=
  match ls with
  | [] => t
  | l :: ls' => match parse_line l with
                | Some (p, b, ss) =>
                    if g_read_skip false p 0 then read_lines ls' c t           (* region_start is None *)
                    else if g_read_stop false p 0 then t                       (* region_end is None *)
                    else read_lines ls' c (store3 t c p b ss)
                | None => t end
  end.
Definition read_cached (content : str) (c : str) (t : table) : table := read_lines (lines_of (unl content)) c t.

(* ------------------------------------------------------------------ the resolver as a state machine *)
Inductive query := QGet (c : str) (p : Z) (b : str) | QHas (c : str) (p : Z).
Inductive answer := ANone | ASome (ss : list str) | ABool (b : bool) | ARaise.

Definition is_lazy (cf : cfg) : bool := c_lazy cf || c_cache cf.     (* the constructor's local lazyLoad *)
Definition self_lazy (cf : cfg) : bool := c_lazy cf || (g_cache_forces_lazy && c_cache cf).   (* self.lazyLoad *)

(* fetchChromosome(self.vcffile, c, clear=True) *)
Definition fetch_lazy (v : vcf) (cf : cfg) (fs : fsys) (c : str) : table * fsys :=
  let cached := c_cache cf && cacheable c in
  let name := cache_name cf c in
  match (if cached then aget seqb fs name else None) with
  | Some content => (read_cached content c [], fs)
  | None =>
      let t := contig_table v cf c in
      (t, if cached && valid_contig v c then aset seqb fs name (serialise (getd seqb t c)) else fs)
  end.

Definition ensure (v : vcf) (cf : cfg) (st : table * fsys) (c : str) : table * fsys :=
  if self_lazy cf && negb (amem seqb (fst st) c) then fetch_lazy v cf (snd st) c else st.
(* the lazy fetch of this call ends in ValueError('invalid contig') *)
Definition fetch_raises (v : vcf) (cf : cfg) (st : table * fsys) (c : str) : bool :=
  self_lazy cf && negb (amem seqb (fst st) c)
  && match (if c_cache cf && cacheable c then aget seqb (snd st) (cache_name cf c) else None) with
     | Some _ => false
     | None => negb (valid_contig v c) end.

Definition answer_get (t : table) (c : str) (p : Z) (b : str) : answer :=
  match lookup2 t c p with
  | Some bm => match aget seqb bm b with Some ss => ASome ss | None => ANone end
  | None => ANone
  end.
Definition answer_has (t : table) (c : str) (p : Z) : answer :=
  ABool (match lookup2 t c p with Some _ => true | None => false end).

Definition step (v : vcf) (cf : cfg) (st : table * fsys) (q : query) : (table * fsys) * answer :=
  match q with
  | QGet c p b => let st' := ensure v cf st c in (st', answer_get (fst st') c p b)
  | QHas c p => let st' := ensure v cf st c in
                (st', if fetch_raises v cf st c then ABool g_has_invalid_contig else answer_has (fst st') c p)
  end.

Fixpoint run_queries (v : vcf) (cf : cfg) (st : table * fsys) (qs : list query) : fsys * list answer :=
  match qs with
  | [] => (snd st, [])
  | q :: qs' => let '(st', a) := step v cf st q in
                let '(fs', ans) := run_queries v cf st' qs' in (fs', a :: ans)
  end.

(* __init__ : None = the constructor raises (eager load of a contig the file does not have) *)
Definition init_table (v : vcf) (cf : cfg) : option table :=
  if is_lazy cf then Some []
  else match c_chrom cf with
       | None => Some (load_recs cf (v_recs v) [])
       | Some c => if valid_contig v c then Some (contig_table v cf c) else None
       end.

Definition run_one (v : vcf) (fs : fsys) (run : cfg * list query) : fsys * list answer :=
  match init_table v (fst run) with
  | Some t => run_queries v (fst run) (t, fs) (snd run)
  | None => (fs, [ARaise])
  end.

(* a history: runs one after the other on the same VCF, the cache directory persists *)
Fixpoint run_history (v : vcf) (fs : fsys) (h : list (cfg * list query)) : fsys * list (list answer) :=
  match h with
  | [] => (fs, [])
  | r :: h' => let '(fs1, a) := run_one v fs r in
               let '(fs2, rest) := run_history v fs1 h' in (fs2, a :: rest)
  end.

(* ------------------------------------------------------------------ specification (mode independent) *)
(* the samples (phased) / allele letters (unphased) that carry base b in record r *)
Definition carriers (cf : cfg) (r : vrec) (b : str) : list str :=
  if c_phased cf
  then fold_right sins []
         (map fst (filter (fun g => selected cf (fst g) && single b && existsb (fun a => match a with Some x => seqb x b | None => false end) (snd g))
                          (r_gts r)))
  else fold_right sins [] (map fst (filter (fun lb => seqb (snd lb) b) (combine letters (alleles r)))).

Definition sel_alleles (cf : cfg) (r : vrec) : list (option str) :=
  concat (map snd (filter (fun g => selected cf (fst g)) (r_gts r))).
Definition is_some_single (a : option str) : bool := match a with Some x => single x | None => false end.
Definition is_multi (a : option str) : bool := match a with Some x => negb (single x) | None => false end.
Definition is_missing (a : option str) : bool := match a with Some _ => false | None => true end.
(* distinct single-base alleles among the selected samples *)
Definition bases_of (cf : cfg) (r : vrec) : list str :=
  fold_right sins [] (flat_map (fun a => match a with Some x => if single x then [x] else [] | None => [] end) (sel_alleles cf r)).
Definition assigned_of (cf : cfg) (r : vrec) : list str :=
  fold_right sins [] (map fst (filter (fun g => selected cf (fst g) && existsb is_some_single (snd g)) (r_gts r))).
Definition ign_mem (cf : cfg) (a b : str) : bool :=
  match c_ignore cf with None => false | Some l => pair_mem a b l end.

(* the site rule, stated over the genotypes (no loop state) *)
Definition informativeb (cf : cfg) (r : vrec) : bool :=
  if c_phased cf then
    let bs := bases_of cf r in
    negb (length bs =? 0)%nat
    && (if existsb is_missing (sel_alleles cf r) then true
        else (2 <=? length bs)%nat && negb (existsb is_multi (sel_alleles cf r))
             && match c_select cf with
                | Some sel => (length (assigned_of cf r) =? length sel)%nat
                | None => true end)
    && negb (existsb (fun b => ign_mem cf (r_ref r) b) bs)
  else
    forallb single (alleles r)
    && negb (existsb (fun b => ign_mem cf (r_ref r) b) (firstn 6 (alleles r))).

Definition at_site (c : str) (p : Z) (r : vrec) : bool := seqb (r_chrom r) c && (r_pos r - 1 =? p).
(* the record that decides site (c,p): the last informative one in file order *)
Definition spec_rec (v : vcf) (cf : cfg) (c : str) (p : Z) : option vrec :=
  fold_left (fun acc r => if at_site c p r && informativeb cf r then Some r else acc) (v_recs v) None.

Definition in_scope (cf : cfg) (c : str) : bool :=
  is_lazy cf || match c_chrom cf with None => true | Some c0 => seqb c0 c end.

Definition spec_answer (v : vcf) (cf : cfg) (q : query) : answer :=
  match q with
  | QGet c p b =>
      match (if in_scope cf c then spec_rec v cf c p else None) with
      | Some r => match carriers cf r b with [] => ANone | ss => ASome ss end
      | None => ANone
      end
  | QHas c p =>
      ABool (match (if in_scope cf c then spec_rec v cf c p else None) with Some _ => true | None => false end)
  end.

Definition spec_run (v : vcf) (run : cfg * list query) : list answer :=
  match (if is_lazy (fst run) then true
         else match c_chrom (fst run) with None => true | Some c => valid_contig v c end) with
  | true => map (spec_answer v (fst run)) (snd run)
  | false => [ARaise]
  end.

(* ------------------------------------------------------------------ preconditions of the theorems *)
(* what the cache line format supports: no tab / newline / comma inside a sample name, blanks allowed except as the
   last character (line.strip() would eat it when the name ends the line) *)
Definition name_char_ok (c : Z) : bool := negb ((c =? 9) || (c =? 10) || (c =? 13) || (c =? 44)).
Definition name_ok (s : str) : bool := negb (is_space (last s 32)) && forallb name_char_ok s.
Definition base_char_ok (c : Z) : bool := negb ((c =? 9) || (c =? 10) || (c =? 13)).
Definition rec_ok (v : vcf) (r : vrec) : bool :=
  smem (r_chrom r) (v_contigs v)
  && negb (length (r_gts r) =? 0)%nat
  && forallb (fun g => name_ok (fst g)) (r_gts r)
  && forallb (forallb base_char_ok) (alleles r)
  && forallb (fun g => forallb (fun a => match a with Some x => forallb base_char_ok x | None => true end) (snd g)) (r_gts r).
Definition vcf_ok (v : vcf) : bool := forallb (rec_ok v) (v_recs v).

Definition query_contig (q : query) : str := match q with QGet c _ _ => c | QHas c _ => c end.
Definition query_pos (q : query) : Z := match q with QGet _ p _ => p | QHas _ p => p end.

(* two configurations build the same tables *)
Definition sel_same (a b : option (list str)) : bool :=
  match a, b with
  | None, None => true
  | Some l1, Some l2 => (length l1 =? length l2)%nat && forallb (fun s => smem s l2) l1 && forallb (fun s => smem s l1) l2
  | _, _ => false
  end.
Definition ign_same (a b : option (list (str * str))) : bool :=
  forallb (fun q => pair_mem (fst q) (snd q) (ign_list b)) (ign_list a)
  && forallb (fun q => pair_mem (fst q) (snd q) (ign_list a)) (ign_list b).
Definition same_sem (a b : cfg) : bool :=
  Bool.eqb (c_phased a) (c_phased b) && sel_same (c_select a) (c_select b) && ign_same (c_ignore a) (c_ignore b).

Definition keys_of (h : list (cfg * list query)) : list (cfg * str) :=
  flat_map (fun run => map (fun q => (fst run, query_contig q)) (snd run)) h.
(* no two different (settings, contig) pairs used in the history share a cache file name *)
Definition names_ok (ks : list (cfg * str)) : bool :=
  forallb (fun k1 => forallb (fun k2 =>
     negb (seqb (cache_name (fst k1) (snd k1)) (cache_name (fst k2) (snd k2)))
     || (seqb (snd k1) (snd k2) && same_sem (fst k1) (fst k2))) ks) ks.
Definition hist_ok (h : list (cfg * list query)) : bool :=
  forallb (fun run => forallb (fun q => 0 <=? query_pos q) (snd run)) h && names_ok (keys_of h).

(* ------------------------------------------------------------------ getAllele(reads) *)
(* alleles = set(); for every aligned (read base, reference position): c = self.getAllelesAt(chrom, refPos, readBase);
   if c is not None and len(c) == 1: alleles.update(c).  The state changes only through these getAllelesAt calls: a
   getAllele operation is the sequence of its lookups (the harness expands it) followed by this pure fold. *)
Definition allele_keep (a : answer) : list str :=
  match a with
  | ASome ss => if g_allele_keep true (Z.of_nat (length ss)) then ss else []
  | _ => []
  end.
Definition alleles_of (l : list answer) : list str :=
  fold_left (fun acc a => fold_left (fun acc s => sins s acc) (allele_keep a) acc) l [].

(* ------------------------------------------------------------------ several resolver objects in one process *)
(* objects are numbered; an object is constructed when it is first used; every object owns its table
   (self.locationToAllele is per instance), all objects on this VCF share the cache directory *)
Definition cfg0 : cfg :=
  {| c_phased := true; c_select := None; c_ignore := None; c_lazy := false; c_cache := false; c_chrom := None |}.
Definition obj_cfg (objs : list cfg) (i : nat) : cfg := nth i objs cfg0.
Definition objs_state := list (nat * option table).     (* None: the constructor raised *)
Definition session_step (v : vcf) (objs : list cfg) (st : objs_state * fsys) (op : nat * query)
  : (objs_state * fsys) * answer :=
  let cf := obj_cfg objs (fst op) in
  let ot := match aget Nat.eqb (fst st) (fst op) with Some x => x | None => init_table v cf end in
  match ot with
  | Some t => let r := step v cf (t, snd st) (snd op) in
              ((aset Nat.eqb (fst st) (fst op) (Some (fst (fst r))), snd (fst r)), snd r)
  | None => ((aset Nat.eqb (fst st) (fst op) None, snd st), ARaise)
  end.
Fixpoint run_session (v : vcf) (objs : list cfg) (st : objs_state * fsys) (ops : list (nat * query))
  : fsys * list answer :=
  match ops with
  | [] => (snd st, [])
  | op :: ops' => let r := session_step v objs st op in
                  let '(fs', ans) := run_session v objs (fst r) ops' in (fs', snd r :: ans)
  end.
Definition ctor_ok (v : vcf) (cf : cfg) : bool :=
  if is_lazy cf then true else match c_chrom cf with None => true | Some c => valid_contig v c end.
(* what an operation on object i must answer: a function of THAT object's settings and the VCF only *)
Definition spec_op (v : vcf) (objs : list cfg) (op : nat * query) : answer :=
  if ctor_ok v (obj_cfg objs (fst op)) then spec_answer v (obj_cfg objs (fst op)) (snd op) else ARaise.
Definition sess_keys (objs : list cfg) (ops : list (nat * query)) : list (cfg * str) :=
  map (fun op => (obj_cfg objs (fst op), query_contig (snd op))) ops.
Definition sess_ok (objs : list cfg) (ops : list (nat * query)) : bool :=
  forallb (fun op => 0 <=? query_pos (snd op)) ops && names_ok (sess_keys objs ops).

(* ------------------------------------------------------------------ I/O glue *)
Definition dec_str (v : Val) : str := getZs v.
Definition dec_opt {A} (f : Val -> A) (v : Val) : option A :=
  match getL v with [x] => Some (f x) | _ => None end.
Definition dec_rec (samples : list str) (v : Val) : vrec :=
  {| r_chrom := dec_str (nthV 0 v); r_pos := getZ (nthV 1 v); r_ref := dec_str (nthV 2 v);
     r_alts := map dec_str (getL (nthV 3 v));
     r_gts := combine samples (map (fun g => map (dec_opt dec_str) (getL g)) (getL (nthV 4 v))) |}.
Definition dec_vcf (v : Val) : vcf :=
  let samples := map dec_str (getL (nthV 1 v)) in
  {| v_contigs := map dec_str (getL (nthV 0 v)); v_recs := map (dec_rec samples) (getL (nthV 2 v)) |}.
Definition dec_cfg (v : Val) : cfg :=
  {| c_phased := getB (nthV 0 v);
     c_select := dec_opt (fun x => map dec_str (getL x)) (nthV 1 v);
     c_ignore := dec_opt (fun x => map (fun q => (dec_str (nthV 0 q), dec_str (nthV 1 q))) (getL x)) (nthV 2 v);
     c_lazy := getB (nthV 3 v); c_cache := getB (nthV 4 v);
     c_chrom := dec_opt dec_str (nthV 5 v) |}.
Definition dec_query (v : Val) : query :=
  if getZ (nthV 0 v) =? 0 then QGet (dec_str (nthV 1 v)) (getZ (nthV 2 v)) (dec_str (nthV 3 v))
  else QHas (dec_str (nthV 1 v)) (getZ (nthV 2 v)).
Definition dec_op (v : Val) : nat * query := (Z.to_nat (getZ (nthV 0 v)), dec_query (nthV 1 v)).
Definition dec_hist (v : Val) : list (cfg * list query) :=
  map (fun r => (dec_cfg (nthV 0 r), map dec_query (getL (nthV 1 r)))) (getL v).
Definition enc_str (s : str) : Val := ofZs s.
Definition enc_answer (a : answer) : Val :=
  match a with
  | ANone => VL []
  | ASome ss => VL [VL (map enc_str ss)]
  | ABool b => ofB b
  | ARaise => VZ (-1)
  end.
Definition enc_answers (l : list (list answer)) : Val := VL (map (fun a => VL (map enc_answer a)) l).
Definition dec_answer (v : Val) : answer :=
  match v with
  | VZ z => if z =? (-1) then ARaise else ABool (negb (z =? 0))
  | VL [] => ANone
  | VL (x :: _) => ASome (map dec_str (getL x))
  end.
Fixpoint str_list_eqb (a b : list str) : bool :=
  match a, b with
  | [], [] => true
  | x :: a', y :: b' => seqb x y && str_list_eqb a' b'
  | _, _ => false
  end.
Definition answer_eqb (a b : answer) : bool :=
  match a, b with
  | ANone, ANone => true
  | ASome x, ASome y => str_list_eqb x y
  | ABool x, ABool y => Bool.eqb x y
  | ARaise, ARaise => true
  | _, _ => false
  end.
Fixpoint list_eqb {A} (e : A -> A -> bool) (a b : list A) : bool :=
  match a, b with
  | [], [] => true
  | x :: a', y :: b' => e x y && list_eqb e a' b'
  | _, _ => false
  end.

(* mode 0: [vcf; history] -> [answers per run; cache files (name, content) left behind]
   mode 1: precondition of C18_modes_equal
   mode 2: [[vcf; history]; answers] -> do the given answers satisfy the specification?
   mode 3: [vcf; history] -> the answers the specification demands
   mode 4: [content] -> what read_cached makes of a cache file for contig "c" (lines as (pos, base, samples))
   mode 5: [cfg; contig] -> cache file name (and whether the contig is cached at all)
   mode 6: [vcf; objects (cfgs); ops ([object; query])] -> [answers; cache files]   (several objects, interleaved)
   mode 7: precondition of C18_objects_independent;  mode 8: the answers the specification demands for mode 6
   mode 9: [answers of the getAllelesAt calls of one getAllele(reads)] -> the set it returns *)
Definition run_C18 (mode : Z) (x : Val) : Val :=
  match mode with
  | 0 => let v := dec_vcf (nthV 0 x) in
         let '(fs, ans) := run_history v [] (dec_hist (nthV 1 x)) in
         VL [enc_answers ans; VL (map (fun nc => VL [enc_str (fst nc); enc_str (snd nc)]) fs)]
  | 1 => ofB (vcf_ok (dec_vcf (nthV 0 x)) && hist_ok (dec_hist (nthV 1 x)))
  | 2 => let v := dec_vcf (nthV 0 (nthV 0 x)) in
         let h := dec_hist (nthV 1 (nthV 0 x)) in
         let got := map (fun a => map dec_answer (getL a)) (getL (nthV 1 x)) in
         ofB (list_eqb (list_eqb answer_eqb) got (map (spec_run v) h))
  | 3 => enc_answers (map (spec_run (dec_vcf (nthV 0 x))) (dec_hist (nthV 1 x)))
  | 4 => let t := read_cached (dec_str (nthV 0 x)) [99] [] in
         VL (flat_map (fun pb => map (fun kv => VL [VZ (fst pb); enc_str (fst kv); VL (map enc_str (snd kv))]) (snd pb))
                      (getd seqb t [99]))
  | 5 => let cf := dec_cfg (nthV 0 x) in let c := dec_str (nthV 1 x) in
         VL [enc_str (cache_name cf c); ofB (cacheable c)]
  | 6 => let v := dec_vcf (nthV 0 x) in
         let '(fs, ans) := run_session v (map dec_cfg (getL (nthV 1 x))) ([], []) (map dec_op (getL (nthV 2 x))) in
         VL [VL (map enc_answer ans); VL (map (fun nc => VL [enc_str (fst nc); enc_str (snd nc)]) fs)]
  | 7 => ofB (vcf_ok (dec_vcf (nthV 0 x)) && sess_ok (map dec_cfg (getL (nthV 1 x))) (map dec_op (getL (nthV 2 x))))
  | 8 => let objs := map dec_cfg (getL (nthV 1 x)) in
         VL (map (fun op => enc_answer (spec_op (dec_vcf (nthV 0 x)) objs op)) (map dec_op (getL (nthV 2 x))))
  | 9 => VL (map enc_str (alleles_of (map dec_answer (getL (nthV 0 x)))))
  | _ => bad
  end.
