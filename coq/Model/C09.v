(* C09 model.  Layer 1: NlaIIIFragment / CHICFragment site assignment.  The site arithmetic
   (clip correction, guard chain, offsets, recognised sequence, rejection reasons) is GENERATED from the
   source (Gen/GenSite.v: nla_site_gen, chic_site_gen); what is hand-written here is the glue around it:
   pysam's view of a read (reference_end and cigartuples from the CIGAR), the early exits of
   identify_site, set_site / set_meta (which tags get written), is_valid.
   Layer 2: a ground-truth simulator (simulate_nla / simulate_chic) and the strand mirror (mirror).
   Definitions only. *)
From Coq Require Import ZArith List Bool.
Import ListNotations.
From SCMO Require Import Lib.Val Lib.C09Str Gen.GenSite.
Open Scope Z_scope.

(* ------------------------------------------------------------------ reads as pysam presents them *)
Record read := mkRead {
  r_start : Z;                 (* reference_start *)
  r_cigar : list (Z * Z);      (* cigartuples: (operation, length); [] = no CIGAR (cigartuples is None) *)
  r_rev : bool;                (* is_reverse *)
  r_seq : str;                 (* query_sequence as stored (reverse reads are stored reverse-complemented) *)
  r_unmapped : bool;
  r_mx : option str            (* MX tag *)
}.

(* BAM operations that consume the reference: M D N = X *)
Definition consumes_ref (op : Z) : bool :=
  (op =? 0) || (op =? 2) || (op =? 3) || (op =? 7) || (op =? 8).
Definition ref_len (c : list (Z * Z)) : Z :=
  fold_right (fun ol acc => if consumes_ref (fst ol) then snd ol + acc else acc) 0 c.
(* htslib bam_endpos: an alignment whose CIGAR consumes no reference base still spans one position *)
Definition ref_span (c : list (Z * Z)) : Z := if ref_len c =? 0 then 1 else ref_len c.
Definition ref_end (r : read) : Z := r_start r + ref_span (r_cigar r).

Definition first_op (c : list (Z * Z)) : Z * Z := hd (0, 0) c.
Definition last_op (c : list (Z * Z)) : Z * Z := last c (0, 0).

(* ------------------------------------------------------------------ configuration and observations *)
Record cfg := mkCfg {
  c_nocigar : bool;        (* no_umi_cigar_processing *)
  c_check_motif : bool;    (* check_motif (nla) *)
  c_allow_shift : bool;    (* allow_cycle_shift (nla) *)
  c_invert : bool          (* invert_strand *)
}.

Record obs := mkObs {
  o_ds : option Z;           (* DS tag on every read of the fragment *)
  o_rs : option bool;        (* RS tag *)
  o_rz : option str;         (* RZ tag *)
  o_rr : option str;         (* RR tag (rejection reason) *)
  o_qcfail : bool;           (* identify_site flagged the reads qcfail *)
  o_valid : bool;            (* fragment.is_valid() *)
  o_loc : option Z;          (* fragment.site_location[1] *)
  o_cut_strand : option bool (* fragment.cut_site_strand (= fragment.strand afterwards) *)
}.

Inductive result := Raise | Done (o : obs).

Definition rejected (reason : str) : obs :=
  mkObs None None None (Some reason) false false None None.

Definition s_unmapped_R1 : str := [117; 110; 109; 97; 112; 112; 101; 100; 32; 82; 49].      (* "unmapped R1" *)
Definition s_R1_undefined : str := [82; 49; 95; 117; 110; 100; 101; 102; 105; 110; 101; 100]. (* "R1_undefined" *)
Definition s_R1_unmapped : str := [82; 49; 95; 117; 110; 109; 97; 112; 112; 101; 100].       (* "R1_unmapped" *)
Definition s_orientation : str := [111; 114; 105; 101; 110; 116; 97; 116; 105; 111; 110].    (* "orientation" *)
Definition s_scCHIC : str := [115; 99; 67; 72; 73; 67].                                      (* "scCHIC" *)

(* a mapped read without CIGAR has reference_end = None and cigartuples = None: every path of
   identify_site that touches either raises TypeError; only forward + no_umi_cigar_processing does not *)
Definition usable (nocigar : bool) (r : read) : bool :=
  match r_cigar r with [] => nocigar && negb (r_rev r) | _ => true end.

(* ------------------------------------------------------------------ NlaIIIFragment *)
(* pre_qcfail: some read of the fragment carried the qcfail flag on input (Fragment.qcfail) *)
Definition nla_fragment (c : cfg) (two_reads : bool) (pre_qcfail : bool) (r1 : option read) : result :=
  if negb two_reads then Raise            (* R1, R2 = self.reads *)
  else match r1 with
  | None => Done (rejected s_unmapped_R1)
  | Some r =>
    if r_unmapped r then Done (rejected s_unmapped_R1)
    else if negb (usable (c_nocigar c) r) then Raise
    else
      let '(ds_set, strand, pos, rz, rr, qc, found) :=
        nla_site_gen (c_nocigar c) (c_check_motif c) (c_allow_shift c) (r_rev r) (r_start r) (ref_end r)
                     (fst (first_op (r_cigar r))) (snd (first_op (r_cigar r)))
                     (fst (last_op (r_cigar r))) (snd (last_op (r_cigar r))) (r_seq r) in
      (* NlaIIIFragment.set_site *)
      Done (mkObs (if ds_set then Some pos else None)
                  (Some (if c_invert c then negb strand else strand))
                  rz rr qc
                  (negb pre_qcfail && found)
                  (Some pos) (Some strand))
  end.

(* ------------------------------------------------------------------ CHICFragment *)
(* r2 : None = no second read; Some (unmapped, is_reverse) *)
Definition chic_fragment (c : cfg) (pre_qcfail : bool) (r1 : option read) (r2 : option (bool * bool)) : result :=
  match r1 with
  | None => Done (rejected s_R1_undefined)
  | Some r =>
    if r_unmapped r then Done (rejected s_R1_unmapped)
    else if match r2 with
            | Some (false, rev2) => Bool.eqb (r_rev r) rev2     (* both mapped, same orientation *)
            | _ => false
            end then Done (rejected s_orientation)
    else if negb (usable (c_nocigar c) r) then Raise
    else
      let is_trimmed := match r_mx r with Some mx => py_startswith s_scCHIC mx | None => false end in
      let '(ds_set, strand, pos, rz, rr, qc, found) :=
        chic_site_gen (c_nocigar c) (c_invert c) is_trimmed (r_rev r) (r_start r) (ref_end r)
                      (fst (first_op (r_cigar r))) (snd (first_op (r_cigar r)))
                      (fst (last_op (r_cigar r))) (snd (last_op (r_cigar r))) in
      (* CHICFragment.set_site *)
      Done (mkObs (if ds_set then Some pos else None) (Some strand) rz rr qc
                  (negb pre_qcfail && found) (Some pos) (Some strand))
  end.

(* CHICFragment with the homopolymer filter of Fragment.__init__ (max_NUC_stretch = 18 for CHICFragment;
   tested nucleotides and the literal are GENERATED: nuc_stretch_bases, chic_max_nuc_stretch).
   [seqs]: the stored sequences of the reads of the fragment (None entries left out).  A homopolymer read
   makes the fragment qcfail (never valid), flags the reads, and adds the reason "HomoPolymer";
   identify_site still runs afterwards and still writes its tags. *)
Definition s_HomoPolymer : str := [72; 111; 109; 111; 80; 111; 108; 121; 109; 101; 114].   (* "HomoPolymer" *)
Definition mark_homo (o : obs) : obs :=
  mkObs (o_ds o) (o_rs o) (o_rz o)
        (Some (s_HomoPolymer ++ match o_rr o with Some r => 44 :: r | None => [] end))   (* ','.join(sorted(..)) *)
        true (o_valid o) (o_loc o) (o_cut_strand o).
Definition any_homopolymer (seqs : list str) : bool :=
  existsb (homopolymer chic_max_nuc_stretch nuc_stretch_bases) seqs.
Definition chic_fragment_h (c : cfg) (pre_qcfail : bool) (r1 : option read) (r2 : option (bool * bool))
                           (seqs : list str) : result :=
  if any_homopolymer seqs
  then match chic_fragment c true r1 r2 with Raise => Raise | Done o => Done (mark_homo o) end
  else chic_fragment c pre_qcfail r1 r2.

(* ------------------------------------------------------------------ ground truth: sequencing simulator *)
Definition comp (b : Z) : Z :=
  if b =? 65 then 84 else if b =? 84 then 65 else if b =? 67 then 71 else if b =? 71 then 67 else b.
Definition revcomp (s : str) : str := rev (map comp s).

Definition CATG : str := [67; 65; 84; 71].
Definition ATG : str := [65; 84; 71].
Definition CAT : str := [67; 65; 84].

Definition softclip (k : Z) : list (Z * Z) := if k =? 0 then [] else [(4, k)].

(* [mid]: the aligned part of the CIGAR: any operations but clips, covering at least one reference base *)
Definition is_clip (op : Z) : bool := (op =? 4) || (op =? 5).
Definition good_mid (mid : list (Z * Z)) : bool :=
  (0 <? ref_len mid) && forallb (fun ol => negb (is_clip (fst ol))) mid.

(* place_read: a read whose FIRST sequenced cycle pairs with reference position [x]
   (forward strand: the read extends to the right of x; reverse strand: to the left),
   with the first [clip] cycles and the last [tail] cycles soft-clipped by the aligner.
   [cycles] are the bases in sequencing order. *)
Definition place_read (cycles : str) (mid : list (Z * Z)) (x : Z) (reverse : bool) (clip tail : Z)
                      (mx : option str) : read :=
  if reverse
  then mkRead (x + 1 - clip - ref_len mid) (softclip tail ++ mid ++ softclip clip) true (revcomp cycles) false mx
  else mkRead (x + clip) (softclip clip ++ mid ++ softclip tail) false cycles false mx.

(* NlaIII: the recognised CATG occupies reference positions p .. p+3 (its site coordinate is p).
   A forward read's first cycle is the C at p, a reverse read's first cycle pairs with p+3.
   [lost]: the first cycle was lost (the stored read starts at the second base of the motif). *)
Definition simulate_nla (cycles : str) (mid : list (Z * Z)) (p : Z) (reverse : bool) (clip tail : Z) (lost : bool) : read :=
  let cyc := if lost then tl cycles else cycles in
  let d := if lost then 1 else 0 in
  place_read cyc mid (if reverse then p + 3 - d else p + d) reverse clip tail None.

(* scCHIC: the ligated overhang base (the T read in cycle 1) pairs with reference position x.
   untrimmed layout: the stored read starts with that base; trimmed (MX = scCHIC...): the demultiplexer
   removed it, the stored read starts one base further into the molecule. *)
Definition simulate_chic (cycles : str) (mid : list (Z * Z)) (x : Z) (reverse : bool) (clip tail : Z)
                         (trimmed : bool) (mx : option str) : read :=
  let d := if trimmed then 1 else 0 in
  place_read cycles mid (if reverse then x - d else x + d) reverse clip tail mx.

Definition mx_trimmed (mx : option str) : bool :=
  match mx with Some s => py_startswith s_scCHIC s | None => false end.

(* mirror: the same read seen on the reverse-complemented reference of length L *)
Definition mirror (L : Z) (r : read) : read :=
  mkRead (L - ref_end r) (rev (r_cigar r)) (negb (r_rev r)) (revcomp (r_seq r)) (r_unmapped r) (r_mx r).

Definition mirror_r2 (r2 : option (bool * bool)) : option (bool * bool) :=
  match r2 with Some (um, rv) => Some (um, negb rv) | None => None end.

(* an interval [s, s+w) mirrors to [L-w-s, L-s) *)
Definition mirror_obs (L w : Z) (o : obs) : obs :=
  mkObs (option_map (fun s => L - w - s) (o_ds o)) (option_map negb (o_rs o)) (option_map revcomp (o_rz o))
        (o_rr o) (o_qcfail o) (o_valid o) (option_map (fun s => L - w - s) (o_loc o))
        (option_map negb (o_cut_strand o)).
Definition drop_rr (o : obs) : obs :=
  mkObs (o_ds o) (o_rs o) (o_rz o) None (o_qcfail o) (o_valid o) (o_loc o) (o_cut_strand o).
Definition mirror_result (L w : Z) (x : result) : result :=
  match x with Raise => Raise | Done o => Done (drop_rr (mirror_obs L w o)) end.
Definition forget_rr (x : result) : result :=
  match x with Raise => Raise | Done o => Done (drop_rr o) end.

(* ------------------------------------------------------------------ molecules *)
(* CHICMolecule._add_fragment / NlaIIIMolecule._add_fragment: the molecule's cut site starts at its first
   fragment's site and moves to the outermost one - min for a forward fragment, max for a reverse one.
   A fragment is (fragment.strand, fragment.site_location[1]). *)
Definition mol_update (cur : Z) (f : bool * Z) : Z :=
  if fst f then Z.max (snd f) cur else Z.min (snd f) cur.
Definition mol_site (frags : list (bool * Z)) : option Z :=
  match frags with [] => None | f :: rest => Some (fold_left mol_update rest (snd f)) end.
(* CHICMolecule.write_tags: the DS tag of every fragment of the molecule after tagging *)
Definition chic_mol_ds (radius : Z) (frags : list (bool * Z)) : list Z :=
  if (0 <? radius) && (1 <? Z.of_nat (length frags))
  then match mol_site frags with Some s => map (fun _ => s) frags | None => [] end
  else map snd frags.

Definition mirror_frag (L w : Z) (f : bool * Z) : bool * Z := (negb (fst f), L - w - snd f).
Definition frag_site (x : result) : list (bool * Z) :=
  match x with
  | Done o => match o_cut_strand o, o_loc o with Some s, Some p => [(s, p)] | _, _ => [] end
  | Raise => []
  end.
Definition chic_frag_sites (c : cfg) (rs : list read) : list (bool * Z) :=
  flat_map (fun r => frag_site (chic_fragment c false (Some r) None)) rs.
Definition nla_frag_sites (c : cfg) (rs : list read) : list (bool * Z) :=
  flat_map (fun r => frag_site (nla_fragment c true false (Some r))) rs.

(* ------------------------------------------------------------------ specification vocabulary *)
(* a fragment that was assigned site [p]: DS = p, RS = rs, RZ = rz, no rejection, valid unless it was
   qcfail on input *)
Definition site_obs (p : Z) (rs cut : bool) (rz : option str) (pre : bool) : obs :=
  mkObs (Some p) (Some rs) rz None false (negb pre) (Some p) (Some cut).

(* no_umi_cigar_processing switches the clip correction off: the site then moves with the clipped cycles *)
Definition clip_shift (c : cfg) (reverse : bool) (clip : Z) : Z :=
  if c_nocigar c then (if reverse then - clip else clip) else 0.

(* a rejected fragment: no DS, not valid, reads flagged qcfail, nothing recognised *)
Definition is_rejected (x : result) : Prop :=
  exists o, x = Done o /\ o_ds o = None /\ o_valid o = false /\ o_qcfail o = true /\ o_rz o = None
            /\ o_rr o <> None.

(* the first four sequenced cycles of a stored read *)
Definition start_motif (r : read) : str :=
  if r_rev r then revcomp (py_suffix 4 (r_seq r)) else py_prefix 4 (r_seq r).

(* the partner read does not trip the CHIC orientation filter *)
Definition r2_ok (reverse : bool) (r2 : option (bool * bool)) : bool :=
  match r2 with Some (false, rev2) => negb (Bool.eqb reverse rev2) | _ => true end.

(* ------------------------------------------------------------------ I/O glue *)
Definition dec_cigar (v : Val) : list (Z * Z) := map getPair (getL v).
Definition dec_optstr (v : Val) : option str :=   (* [] = None ; [s] = Some s *)
  match getL v with [] => None | s :: _ => Some (getZs s) end.
(* read = [start; cigar; rev; seq; unmapped; mx] ; None = [] *)
Definition dec_read (v : Val) : option read :=
  match getL v with
  | [] => None
  | _ => Some (mkRead (getZ (nthV 0 v)) (dec_cigar (nthV 1 v)) (getB (nthV 2 v)) (getZs (nthV 3 v))
                      (getB (nthV 4 v)) (dec_optstr (nthV 5 v)))
  end.
Definition dec_cfg (v : Val) : cfg :=
  mkCfg (getB (nthV 0 v)) (getB (nthV 1 v)) (getB (nthV 2 v)) (getB (nthV 3 v)).
Definition dec_r2 (v : Val) : option (bool * bool) :=
  match getL v with [] => None | _ => Some (getB (nthV 0 v), getB (nthV 1 v)) end.

Definition ofOptZ (o : option Z) : Val := ofOpt VZ o.
Definition ofOptB (o : option bool) : Val := ofOpt ofB o.
Definition ofOptS (o : option str) : Val := ofOpt ofZs o.
Definition enc_result (x : result) : Val :=
  match x with
  | Raise => VL [VZ (-1)]
  | Done o => VL [ofOptZ (o_ds o); ofOptB (o_rs o); ofOptS (o_rz o); ofOptS (o_rr o); ofB (o_qcfail o);
                  ofB (o_valid o); ofOptZ (o_loc o); ofOptB (o_cut_strand o)]
  end.
Definition enc_read (r : read) : Val :=
  VL [VZ (r_start r); VL (map ofPair (r_cigar r)); ofB (r_rev r); ofZs (r_seq r); ofB (r_unmapped r);
      ofOptS (r_mx r)].

(* mode 0: [kind; cfg; two_reads; pre_qcfail; r1; r2; seqs]  -> observation   (kind 0 = nla, 1 = chic)
   mode 1: [kind; cycles; mid; pos; reverse; clip; tail; flag; mx] -> the simulated read (ground truth layer)
   mode 2: [L; read] -> mirror L read
   mode 3: [radius; [[strand; site]...]] -> DS of every fragment after CHICMolecule.write_tags
   mode 4: [_; [[strand; site]...]] -> the molecule's cut site *)
Definition run_C09 (mode : Z) (v : Val) : Val :=
  match mode with
  | 0 => let c := dec_cfg (nthV 1 v) in
         if getZ (nthV 0 v) =? 0
         then enc_result (nla_fragment c (getB (nthV 2 v)) (getB (nthV 3 v)) (dec_read (nthV 4 v)))
         else enc_result (chic_fragment_h c (getB (nthV 3 v)) (dec_read (nthV 4 v)) (dec_r2 (nthV 5 v))
                                          (map getZs (getL (nthV 6 v))))
  | 1 => let cyc := getZs (nthV 1 v) in let mid := dec_cigar (nthV 2 v) in
         let p := getZ (nthV 3 v) in let rv := getB (nthV 4 v) in
         let clip := getZ (nthV 5 v) in let tail := getZ (nthV 6 v) in let flag := getB (nthV 7 v) in
         if getZ (nthV 0 v) =? 0
         then enc_read (simulate_nla cyc mid p rv clip tail flag)
         else enc_read (simulate_chic cyc mid p rv clip tail flag (dec_optstr (nthV 8 v)))
  | 2 => match dec_read (nthV 1 v) with
         | Some r => enc_read (mirror (getZ (nthV 0 v)) r)
         | None => bad
         end
  | 3 => ofZs (chic_mol_ds (getZ (nthV 0 v)) (map (fun f => (getB (nthV 0 f), getZ (nthV 1 f))) (getL (nthV 1 v))))
  | 4 => ofOptZ (mol_site (map (fun f => (getB (nthV 0 f), getZ (nthV 1 f))) (getL (nthV 1 v))))
  | _ => bad
  end.
