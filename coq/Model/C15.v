(* C15 model: majority-consensus pseudo-reads (Molecule.deduplicate_majority and what it calls).
   Definitions only.  Source (singlecellmultiomics):
     molecule/molecule.py  get_base_confidence_dict, get_aligned_blocks, get_CIGAR,
                           generate_partial_reads, extract_stretch_from_dict, get_dedup_reads,
                           get_consensus_read, write_tags_to_psuedoreads, deduplicate_majority
     utils/iteration.py    find_ranges (more_itertools.consecutive_groups)
     utils/sequtils.py     base_probabilities_to_likelihood, phredscores_to_base_call, create_MD_tag
   The model is the REPAIRED behaviour (fixes/C15-D17, C15-D18, C15-D31): np.prod exists, the MD tag is
   built from the reference bases of the M blocks only, DS is written only when a cut site exists.
   [md_old_stretch] keeps the unrepaired reference stretch for the refutation lemma.
   Floats: likelihoods are exact rationals over the per-quality correctness probability
   pc : Z -> Q (IEEE rounding is not modelled).  Phred qualities of the consensus bases:
   rint(-10 log10 x) is the number of thresholds 10^(-(2k+1)/20) above x; the thresholds are a
   table tt : list Q (libm log10 / IEEE rounding are not modelled).
   The expressions marked gen_* are regenerated from the current source on every run
   (coq/Gen/GenDedup.v, tools/c15.py regen_dedup): gap / block lengths and operation codes of
   get_CIGAR, the split and first-block tests of generate_partial_reads, the match / flush tests of
   create_MD_tag, the no-call test of phredscores_to_base_call, the clip bounds and the default
   call of extract_stretch_from_dict, the tag table of write_tags_to_psuedoreads. *)
From Coq Require Import ZArith NArith List Bool QArith Decimal.
Import ListNotations.
From SCMO Require Import Lib.Val Lib.PyInt Gen.GenDedup.
Open Scope Z_scope.

(* ------------------------------------------------------------------ pysam: aligned pairs
   read.get_aligned_pairs(matches_only=True): (query index, reference position) of M/=/X columns.
   op codes: M0 I1 D2 N3 S4 H5 P6 =7 X8 *)
Definition is_match (op : Z) : bool := (op =? 0) || (op =? 7) || (op =? 8).
Definition cons_query (op : Z) : bool := is_match op || (op =? 1) || (op =? 4).
Definition cons_ref (op : Z) : bool := is_match op || (op =? 2) || (op =? 3).

Fixpoint aligned_pairs (cig : list (Z * Z)) (q r : Z) : list (Z * Z) :=
  match cig with
  | [] => []
  | (op, n) :: t =>
      (if is_match op then map (fun i => (q + i, r + i)) (zrange 0 n) else []) ++
      aligned_pairs t (if cons_query op then q + n else q) (if cons_ref op then r + n else r)
  end.

Record read := mkRead { r_start : Z; r_cigar : list (Z * Z); r_seq : list Z; r_qual : list Z }.

(* one observation: (reference position, base code, phred quality) *)
Definition obs := (Z * Z * Z)%type.
Definition o_pos (o : obs) : Z := fst (fst o).
Definition o_base (o : obs) : Z := snd (fst o).
Definition o_qual (o : obs) : Z := snd o.

Definition read_obs (rd : read) : list obs :=
  map (fun qr => (snd qr, nth (Z.to_nat (fst qr)) (r_seq rd) 0, nth (Z.to_nat (fst qr)) (r_qual rd) 0))
      (aligned_pairs (r_cigar rd) 0 (r_start rd)).

(* iter_reads order: fragments in order, R1 then R2 *)
Definition all_obs (reads : list read) : list obs := flat_map read_obs reads.

(* ------------------------------------------------------------------ get_aligned_blocks
   sorted(list(set(positions))) then find_ranges *)
Fixpoint ins (x : Z) (l : list Z) : list Z :=
  match l with
  | [] => [x]
  | y :: t => if x <? y then x :: l else if x =? y then l else y :: ins x t
  end.
Definition sort_uniq (l : list Z) : list Z := fold_right ins [] l.

(* consecutive_groups: a new group starts whenever the next item is not previous + 1;
   find_ranges yields (first, last) of each group, both inclusive *)
Fixpoint runs_from (s e : Z) (l : list Z) : list (Z * Z) :=
  match l with
  | [] => [(s, e)]
  | x :: t => if x =? e + 1 then runs_from s x t else (s, e) :: runs_from x x t
  end.
Definition runs (l : list Z) : list (Z * Z) :=
  match l with [] => [] | x :: t => runs_from x x t end.

Definition aligned_blocks (reads : list read) : list (Z * Z) :=
  runs (sort_uniq (map o_pos (all_obs reads))).

(* ------------------------------------------------------------------ get_CIGAR *)
Inductive cop : Type := CM (n : Z) | CN (n : Z).

Fixpoint cigar_from (prev_end : Z) (rs : list (Z * Z)) : list cop :=
  match rs with
  | [] => []
  | (s, e) :: t => CN (gen_cigar_gap_len s prev_end) :: CM (gen_cigar_block_len s e) :: cigar_from e t
  end.
Definition cigar_of_runs (rs : list (Z * Z)) : list cop :=
  match rs with [] => [] | (s, e) :: t => CM (gen_cigar_block_len s e) :: cigar_from e t end.
(* what get_CIGAR hands to generate_partial_reads: (operation character, amount) pairs *)
Definition raw_of (o : cop) : Z * Z :=
  match o with CM n => (gen_cigar_block_op, n) | CN n => (gen_cigar_gap_op, n) end.
Definition get_cigar (rs : list (Z * Z)) : list (Z * Z) := map raw_of (cigar_of_runs rs).
(* alignment_start = min over the block starts (None without blocks) *)
Definition alignment_start (rs : list (Z * Z)) : option Z :=
  match rs with [] => None | (s, _) :: t => Some (fold_left gen_alignment_start (map fst t) s) end.

(* ------------------------------------------------------------------ base calling (sequtils) *)
Definition baseN : Z := 78.

Section Call.
  Variable pc : Z -> Q.              (* 1 - 10^(-q/10), the probability that a call of quality q is right *)

  (* get_base_confidence_dict at one position: base -> list of probabilities, keys in first-seen order *)
  Fixpoint dict_add (b : Z) (p : Q) (d : list (Z * list Q)) : list (Z * list Q) :=
    match d with
    | [] => [(b, [p])]
    | (k, v) :: t => if k =? b then (k, v ++ [p]) :: t else (k, v) :: dict_add b p t
    end.
  Definition conf_dict (os : list (Z * Z)) : list (Z * list Q) :=
    fold_left (fun d o => dict_add (fst o) (pc (snd o)) d) os [].

  (* probs['N'] = [1-p for base, ps in probs.items() for p in ps if base != 'N'] *)
  Definition n_probs (d : list (Z * list Q)) : list Q :=
    flat_map (fun kv => if fst kv =? baseN then [] else map (fun p => 1 - p)%Q (snd kv)) d.
  Fixpoint dict_set (b : Z) (v : list Q) (d : list (Z * list Q)) : list (Z * list Q) :=
    match d with
    | [] => [(b, v)]
    | (k, w) :: t => if k =? b then (k, v) :: t else (k, w) :: dict_set b v t
    end.

  (* np.prod(v) / np.power(0.25, len(v) - 1) *)
  Definition qprod (v : list Q) : Q := fold_left Qmult v 1%Q.
  Definition scale4 (n : nat) : Q :=
    match n with O => (1 # 4)%Q | S k => inject_Z (4 ^ Z.of_nat k) end.
  Definition lik (v : list Q) : Q := (qprod v * scale4 (length v))%Q.

  Definition likelihoods (os : list (Z * Z)) : list (Z * Q) :=
    let d := conf_dict os in
    map (fun kv => (fst kv, lik (snd kv))) (dict_set baseN (n_probs d) d).

  Definition qsum (l : list Q) : Q := fold_left Qplus l 0%Q.

  (* Counter.most_common(): sorted by value, descending, stable *)
  Fixpoint mc_insert (x : Z * Q) (l : list (Z * Q)) : list (Z * Q) :=
    match l with
    | [] => [x]
    | y :: t => if Qle_bool (snd y) (snd x) then x :: l else y :: mc_insert x t
    end.
  Definition most_common (l : list (Z * Q)) : list (Z * Q) := fold_right mc_insert [] l.

  Definition base_probs (os : list (Z * Z)) : list (Z * Q) :=
    let l := likelihoods os in
    let t := qsum (map snd l) in
    most_common (map (fun kv => (fst kv, (snd kv / t)%Q)) l).

  (* phredscores_to_base_call: the decision on the ranked list.  The undecidable test is the source's
     (len(base_probs) == 0 or (len(base_probs) >= 2 and base_probs[0][1] == base_probs[1][1])) *)
  Definition eq01 (l : list (Z * Q)) : bool :=
    match l with (_, p) :: (_, p2) :: _ => Qeq_bool p p2 | _ => false end.
  Definition no_call (l : list (Z * Q)) : bool := gen_no_call (Z.of_nat (length l)) (eq01 l).
  Definition no_call_result : Z * Q := (gen_no_call_base, inject_Z gen_no_call_prob).
  Definition decide (l : list (Z * Q)) : Z * Q :=
    if no_call l then no_call_result
    else match l with (b, p) :: _ => (b, p) | [] => no_call_result end.
  Definition call (os : list (Z * Z)) : Z * Q := decide (base_probs os).
  (* the same decision on the likelihoods before the division by their total *)
  Definition call_raw (os : list (Z * Z)) : Z * Q := decide (most_common (likelihoods os)).

  (* The same call without the division by the total (Proofs: equal to [fst (call os)] whenever
     0 <= pc q < 1), together with how far the two best are apart: 0 clear, 1 exact tie,
     2 closer than 2^-20 relative.  The extracted model runs this one (the division makes the
     numbers four times longer); the class lets the correspondence check leave out calls that
     IEEE rounding may decide. *)
  Definition call_fast (os : list (Z * Z)) : Z * Z :=
    let l := most_common (likelihoods os) in
    if no_call l then (gen_no_call_base, match l with _ :: _ :: _ => 1 | _ => 0 end)
    else match l with
         | (b, v1) :: (_, v2) :: _ => (b, if Qle_bool v1 ((v1 - v2) * inject_Z (2 ^ 20))%Q then 0 else 2)
         | (b, _) :: _ => (b, 0)
         | [] => (gen_no_call_base, 0)
         end.
End Call.

(* ------------------------------------------------------------------ phred quality of a consensus base
   extract_stretch_from_dict:  np.rint(-10 * np.log10(np.clip(1 - p, lo, hi))).astype('B')
   rint(-10 log10 x) = k  iff  10^(-(2k+1)/20) < x < 10^(-(2k-1)/20)  (the bounds are irrational, so no
   tie of rint occurs): the quality is the number of thresholds tt_k = 10^(-(2k+1)/20), k = 0, 1, .., above x.
   The clip keeps x inside [lo, hi], i.e. the quality inside 0 .. 90 for the source's bounds. *)
Definition qlt (a b : Q) : bool := negb (Qle_bool b a).
Definition q_of (p : Z * Z) : Q := Qmake (fst p) (Z.to_pos (snd p)).
Definition clip_lo : Q := q_of gen_clip_lo.
Definition clip_hi : Q := q_of gen_clip_hi.
(* np.clip(x, lo, hi) = minimum(maximum(x, lo), hi) *)
Definition clipq (x : Q) : Q := if qlt x clip_lo then clip_lo else if qlt clip_hi x then clip_hi else x.
Definition phred (tt : list Q) (p : Q) : Z :=
  Z.of_nat (length (filter (qlt (clipq (1 - p)%Q)) tt)).
(* quality of one column: the probability phredscores_to_base_call reports for it; a position without
   observation reads the default (base, probability) of extract_stretch_from_dict *)
Definition col_qual (pc : Z -> Q) (tt : list Q) (os : list (Z * Z)) : Z :=
  match os with
  | [] => phred tt (inject_Z gen_default_prob)
  | _ => phred tt (snd (call pc os))
  end.

(* the table the correspondence check passes: numerators over 2^60; the comparison x < T / 2^60 is
   floor(x * 2^60) < T, one division per column (Proofs: the same quality) *)
Definition two60 : positive := (2 ^ 60)%positive.
Definition tt_of (ttab : list Z) : list Q := map (fun T => Qmake T two60) ttab.
Definition floor60 (x : Q) : Z := (Qnum x * Zpos two60) / Zpos (Qden x).
Definition phred_floor (ttab : list Z) (p : Q) : Z :=
  let X := floor60 (clipq (1 - p)%Q) in Z.of_nat (length (filter (fun T => X <? T) ttab)).
(* the 90 thresholds of a quality 0 .. 90: floor(10^(-(2k+1)/20) * 2^60), k = 0 .. 89
   (Proofs/C15_q.v ttab90_exact: T^20 * 10^(2k+1) <= 2^1200 < (T+1)^20 * 10^(2k+1) for each of them) *)
Definition ttab90 : list Z := [
  1027542372575421786; 816205918912234752; 648335406741065480; 514991119145879580;
  409071986569828657; 324937428967166987; 258106974347336366; 205021657303345105;
  162854491126012714; 129359920453046846; 102754237257542178; 81620591891223475;
  64833540674106548; 51499111914587958; 40907198656982865; 32493742896716698;
  25810697434733636; 20502165730334510; 16285449112601271; 12935992045304684;
  10275423725754217; 8162059189122347; 6483354067410654; 5149911191458795;
  4090719865698286; 3249374289671669; 2581069743473363; 2050216573033451;
  1628544911260127; 1293599204530468; 1027542372575421; 816205918912234;
  648335406741065; 514991119145879; 409071986569828; 324937428967166;
  258106974347336; 205021657303345; 162854491126012; 129359920453046;
  102754237257542; 81620591891223; 64833540674106; 51499111914587;
  40907198656982; 32493742896716; 25810697434733; 20502165730334;
  16285449112601; 12935992045304; 10275423725754; 8162059189122;
  6483354067410; 5149911191458; 4090719865698; 3249374289671;
  2581069743473; 2050216573033; 1628544911260; 1293599204530;
  1027542372575; 816205918912; 648335406741; 514991119145;
  409071986569; 324937428967; 258106974347; 205021657303;
  162854491126; 129359920453; 102754237257; 81620591891;
  64833540674; 51499111914; 40907198656; 32493742896;
  25810697434; 20502165730; 16285449112; 12935992045;
  10275423725; 8162059189; 6483354067; 5149911191;
  4090719865; 3249374289; 2581069743; 2050216573;
  1628544911; 1293599204 ].
Definition prob_fast (pc : Z -> Q) (os : list (Z * Z)) : Q :=
  match os with
  | [] => inject_Z gen_default_prob
  | _ => (snd (call_raw pc os) / qsum (map snd (likelihoods pc os)))%Q
  end.
Definition col_qual_fast (pc : Z -> Q) (ttab : list Z) (os : list (Z * Z)) : Z :=
  phred_floor ttab (prob_fast pc os).

(* obs dict of deduplicate_majority: position -> call; extract_stretch_from_dict reads it with
   .get(pos, ('N', 0)) *)
Definition obs_at (all : list obs) (p : Z) : list (Z * Z) :=
  map (fun o => (o_base o, o_qual o)) (filter (fun o => o_pos o =? p) all).
Definition call_at (caller : list (Z * Z) -> Z) (all : list obs) (p : Z) : Z :=
  match obs_at all p with [] => gen_default_base | os => caller os end.
Definition qual_at (qcaller : list (Z * Z) -> Z) (all : list obs) (p : Z) : Z := qcaller (obs_at all p).

(* ------------------------------------------------------------------ generate_partial_reads *)
Record partial := mkPartial {
  pa_start : Z; pa_end : option Z; pa_seq : list Z; pa_qual : list Z; pa_cigar : list cop; pa_md : list (Z * Z) }.

Record gstate := mkG {
  g_pos : Z; g_start : Z; g_end : option Z; g_cig : list cop;
  g_seq : list Z; g_qual : list Z; g_md : list (Z * Z); g_out : list partial }.

Section Partial.
  Variable callf : Z -> Z.           (* extract_stretch_from_dict: position -> called base *)
  Variable qualf : Z -> Z.           (* extract_stretch_from_dict: position -> phred quality of the call *)
  Variable maxN : option Z.          (* max_N_span *)

  Definition emit (st : gstate) : partial :=
    mkPartial (g_start st) (g_end st) (g_seq st) (g_qual st) (g_cig st) (g_md st).

  (* the source's  max_N_span is not None and amount > max_N_span *)
  Definition too_long (a : Z) : bool :=
    match maxN with Some m => gen_split true m a | None => gen_split false 0 a end.

  Definition step (st : gstate) (o : cop) : gstate :=
    match o with
    | CN a =>
        if too_long a
        then mkG (g_pos st + a) (g_start st) (g_end st) [] [] [] [] (g_out st ++ [emit st])
        else mkG (g_pos st + a) (g_start st) (g_end st) (g_cig st ++ [CN a])
                 (g_seq st) (g_qual st) (g_md st) (g_out st)
    | CM a =>
        let s := if gen_first_block (Z.of_nat (length (g_cig st))) then g_pos st else g_start st in
        let e := g_pos st + a in
        mkG e s (Some e) (g_cig st ++ [CM a])
            (g_seq st ++ map callf (zrange (g_pos st) e))
            (g_qual st ++ map qualf (zrange (g_pos st) e))
            (g_md st ++ [(g_pos st, e)]) (g_out st)
    end.

  (* the loop body of generate_partial_reads dispatches on the operation character; an operation that
     is neither the gap nor the block character falls through both branches *)
  Definition step_raw (st : gstate) (o : Z * Z) : gstate :=
    if fst o =? gen_branch_gap_op then step st (CN (snd o))
    else if fst o =? gen_branch_block_op then step st (CM (snd o))
    else st.

  Definition g_init (start : Z) : gstate := mkG start start None [] [] [] [] [].
  Definition partial_reads (cigar : list cop) (start : Z) : list partial :=
    let st := fold_left step cigar (g_init start) in g_out st ++ [emit st].
  Definition partial_reads_raw (cigar : list (Z * Z)) (start : Z) : list partial :=
    let st := fold_left step_raw cigar (g_init start) in g_out st ++ [emit st].
End Partial.

(* ------------------------------------------------------------------ create_MD_tag *)
Definition upper (c : Z) : Z := if (97 <=? c) && (c <=? 122) then c - 32 else c.
Definition is_digit (c : Z) : bool := (48 <=? c) && (c <=? 57).

Fixpoint uint_codes (u : uint) : list Z :=
  match u with
  | Nil => []
  | D0 u => 48 :: uint_codes u | D1 u => 49 :: uint_codes u | D2 u => 50 :: uint_codes u
  | D3 u => 51 :: uint_codes u | D4 u => 52 :: uint_codes u | D5 u => 53 :: uint_codes u
  | D6 u => 54 :: uint_codes u | D7 u => 55 :: uint_codes u | D8 u => 56 :: uint_codes u
  | D9 u => 57 :: uint_codes u
  end.
(* str(n) *)
Definition num (n : N) : list Z := uint_codes (N.to_uint n).
Definition flush_num (n : N) : list Z := if gen_md_flush (Z.of_N n) then num n else [].

Fixpoint md_go (ref query : list Z) (no_change : N) : list Z :=
  match ref, query with
  | r :: ref', b :: query' =>
      if gen_md_match (upper r) b then md_go ref' query' (N.succ no_change)
      else flush_num no_change ++ upper r :: md_go ref' query' 0%N
  | _, _ => flush_num no_change
  end.
Definition md_tag (ref query : list Z) : list Z := md_go ref query 0%N.

(* MD reader (the column-wise reading pysam/htslib/htsjdk apply): a number copies that many query
   bases, a letter is the reference base of a mismatching column.  No '^' (the consensus has no deletions). *)
Fixpoint codes_uint (l : list Z) : uint :=
  match l with
  | [] => Nil
  | c :: t =>
      let u := codes_uint t in
      if c =? 48 then D0 u else if c =? 49 then D1 u else if c =? 50 then D2 u
      else if c =? 51 then D3 u else if c =? 52 then D4 u else if c =? 53 then D5 u
      else if c =? 54 then D6 u else if c =? 55 then D7 u else if c =? 56 then D8 u else D9 u
  end.
Definition pend_value (pend : list Z) : nat := N.to_nat (N.of_uint (codes_uint pend)).  (* no digits: 0 *)

Fixpoint md_dec (md pend query : list Z) : option (list Z) :=
  match md with
  | [] => if Nat.eqb (pend_value pend) (length query) then Some query else None
  | c :: t =>
      if is_digit c then md_dec t (pend ++ [c]) query
      else
        let n := pend_value pend in
        if Nat.ltb n (length query)
        then match md_dec t [] (skipn (S n) query) with
             | Some r => Some (firstn n query ++ c :: r)
             | None => None
             end
        else None
  end.
Definition md_decode (md query : list Z) : option (list Z) := md_dec md [] query.

(* ------------------------------------------------------------------ records *)
Record meta := mkMeta {
  m_sample : list Z; m_umi : option (list Z); m_site : option Z; m_bc : list Z;
  m_fragments : Z; m_overflow : Z; m_strand : option bool; m_mapq : list Z }.

Record crec := mkRec {
  c_start : Z; c_cigar : list cop; c_seq : list Z; c_qual : list Z; c_md : list Z;
  c_reverse : bool; c_mapq : Z;
  c_SM : list Z; c_DS : option Z; c_RX : option (list Z); c_BC : option (list Z);
  c_MI : option (list Z); c_TF : Z }.

Definition block_positions (bl : list (Z * Z)) : list Z := flat_map (fun b => zrange (fst b) (snd b)) bl.

(* write_tags_to_psuedoreads: the tag table regenerated from the source (gen_tags): tag code 256*c0+c1,
   guard (0 always, 1 the molecule has a cut site, 2 it has a UMI, 3 not modelled),
   value kind (1 sample, 2 site, 3 UMI, 4 barcode, 5 barcode ++ UMI, 6 fragments + overflow, 0 not modelled) *)
Inductive tagv : Type := TStr (s : list Z) | TInt (z : Z).
Definition guard_ok (g : Z) (m : meta) : bool :=
  if g =? 0 then true
  else if g =? 1 then (match m_site m with Some _ => true | None => false end)
  else if g =? 2 then (match m_umi m with Some _ => true | None => false end)
  else false.
Definition tag_value (kind : Z) (m : meta) : option tagv :=
  if kind =? 1 then Some (TStr (m_sample m))
  else if kind =? 2 then option_map TInt (m_site m)
  else if kind =? 3 then option_map TStr (m_umi m)
  else if kind =? 4 then Some (TStr (m_bc m))
  else if kind =? 5 then option_map (fun u => TStr (m_bc m ++ u)) (m_umi m)
  else if kind =? 6 then Some (TInt (gen_TF (m_fragments m) (m_overflow m)))
  else None.
Definition tags_of (m : meta) : list (Z * tagv) :=
  flat_map (fun e => if guard_ok (snd (fst e)) m
                     then match tag_value (snd e) m with Some v => [(fst (fst e), v)] | None => [] end
                     else []) gen_tags.
Fixpoint tag_get (code : Z) (l : list (Z * tagv)) : option tagv :=
  match l with [] => None | (k, v) :: t => if k =? code then Some v else tag_get code t end.
Definition tag_str (code : Z) (m : meta) : option (list Z) :=
  match tag_get code (tags_of m) with Some (TStr s) => Some s | _ => None end.
Definition tag_int (code : Z) (m : meta) : option Z :=
  match tag_get code (tags_of m) with Some (TInt z) => Some z | _ => None end.
Definition tagSM : Z := 21325.  Definition tagDS : Z := 17491.  Definition tagRX : Z := 21080.
Definition tagBC : Z := 16963.  Definition tagMI : Z := 19785.  Definition tagTF : Z := 21574.

Definition record_of (ref : Z -> Z) (m : meta) (p : partial) : crec :=
  mkRec (pa_start p) (pa_cigar p) (pa_seq p) (pa_qual p)
        (md_tag (map ref (block_positions (pa_md p))) (pa_seq p))
        (match m_strand m with Some b => b | None => false end)
        (fold_left Z.max (m_mapq m) 0)
        (match tag_str tagSM m with Some s => s | None => [] end)
        (tag_int tagDS m) (tag_str tagRX m) (tag_str tagBC m) (tag_str tagMI m)
        (match tag_int tagTF m with Some z => z | None => 0 end).

(* deduplicate_majority; None = the molecule has no aligned position (outside the property).
   caller = the base caller of one column: [fun os => fst (call pc os)] (phredscores_to_base_call),
   qcaller = the quality of one column: [col_qual pc tt] *)
Definition consensus (caller qcaller : list (Z * Z) -> Z) (ref : Z -> Z) (maxN : option Z) (m : meta)
  (reads : list read) : option (list crec) :=
  let all := all_obs reads in
  let rs := runs (sort_uniq (map o_pos all)) in
  match alignment_start rs with
  | None => None
  | Some s => Some (map (record_of ref m)
                        (partial_reads_raw (call_at caller all) (qual_at qcaller all) maxN (get_cigar rs) s))
  end.

(* ------------------------------------------------------------------ the request as a whole: what is raised, what is skipped
   get_dedup_reads: no chromosome -> no record at all (and no exception);
   no aligned position -> np.concatenate([]) raises ValueError before the reference is touched;
   no reference attached -> self.reference.fetch raises AttributeError on the first record; list(..) in
   deduplicate_majority then returns nothing (no partial result).
   Reads carry the contig they are aligned to; the code pools the positions of ALL reads whatever their
   contig (keys are (self.chromosome, position)) and puts every record on the molecule's chromosome. *)
Inductive outcome : Type :=
| Records (contig : option Z) (recs : list crec)
| RaiseNoCoverage          (* ValueError: need at least one array to concatenate *)
| RaiseNoReference.        (* AttributeError: 'NoneType' object has no attribute 'fetch' *)

Definition consensus_x (caller qcaller : list (Z * Z) -> Z) (ref : option (Z -> Z)) (maxN : option Z) (m : meta)
  (chrom : option Z) (creads : list (Z * read)) : outcome :=
  match chrom with
  | None => Records None []
  | Some k =>
      match consensus caller qcaller (match ref with Some f => f | None => fun _ => baseN end) maxN m (map snd creads) with
      | None => RaiseNoCoverage
      | Some recs => match ref with Some _ => Records (Some k) recs | None => RaiseNoReference end
      end
  end.
Definition reads_on (k : Z) (creads : list (Z * read)) : list read :=
  map snd (filter (fun cr => fst cr =? k) creads).

(* ------------------------------------------------------------------ one molecule object over time
   The object is grown by add_fragment / add_molecule and asked for its consensus in between.
   State = the fragments held (Molecule.fragments); everything a consensus request reads
   (reads, UMI counter, fragment count, mapping qualities) is a function of that list, and a
   request changes nothing.  sample / site / barcode / strand are fixed by the first fragment. *)
Record frag := mkFrag { f_umi : list Z; f_mapq : Z; f_reads : list read }.
Inductive mop : Type :=
| AddFragment (f : frag)
| AddMolecule (fs : list frag)
| Consensus (maxN : option Z).

Fixpoint list_eqb (a b : list Z) : bool :=
  match a, b with
  | [], [] => true
  | x :: a', y :: b' => (x =? y) && list_eqb a' b'
  | _, _ => false
  end.
Definition count_umi (u : list Z) (all : list (list Z)) : nat := length (filter (list_eqb u) all).
(* umi_counter.most_common(1): the highest count, the first inserted among equals *)
Definition umi_of (all : list (list Z)) : option (list Z) :=
  fold_left (fun best u => match best with
                           | None => Some u
                           | Some b => if Nat.ltb (count_umi b all) (count_umi u all) then Some u else Some b
                           end) all None.

Record base_meta := mkBase { b_sample : list Z; b_site : option Z; b_bc : list Z; b_strand : option bool }.
Definition meta_of (b : base_meta) (fs : list frag) : meta :=
  mkMeta (b_sample b) (umi_of (map f_umi fs)) (b_site b) (b_bc b) (Z.of_nat (length fs)) 0
         (b_strand b) (map f_mapq fs).
Definition reads_of (fs : list frag) : list read := flat_map f_reads fs.

Definition apply_op (st : list frag) (o : mop) : list frag :=
  match o with AddFragment f => st ++ [f] | AddMolecule fs => st ++ fs | Consensus _ => st end.

(* the answers to the consensus requests of an operation sequence, in order *)
Fixpoint run_ops {A} (answer : option Z -> list frag -> A) (ops : list mop) (st : list frag) : list A :=
  match ops with
  | [] => []
  | o :: t => (match o with Consensus mx => [answer mx st] | _ => [] end) ++ run_ops answer t (apply_op st o)
  end.

Definition answer (caller qcaller : list (Z * Z) -> Z) (ref : Z -> Z) (b : base_meta) (mx : option Z)
  (fs : list frag) : option (list crec) :=
  consensus caller qcaller ref mx (meta_of b fs) (reads_of fs).

(* the unrepaired reference stretch of get_dedup_reads: fetch(reference_start, reference_end), gaps included *)
Definition md_old (ref : Z -> Z) (p : partial) : list Z :=
  match pa_end p with
  | Some e => md_tag (map ref (zrange (pa_start p) e)) (pa_seq p)
  | None => []
  end.

(* reading a record back: the reference positions of its M columns, its query length *)
Fixpoint expand (pos : Z) (c : list cop) : list Z :=
  match c with
  | [] => []
  | CM n :: t => zrange pos (pos + n) ++ expand (pos + n) t
  | CN n :: t => expand (pos + n) t
  end.
Fixpoint query_len (c : list cop) : Z :=
  match c with [] => 0 | CM n :: t => n + query_len t | CN _ :: t => query_len t end.

(* ------------------------------------------------------------------ I/O glue
   input  [ptab; [ref_off; ref codes]; maxN (opt); meta; reads; ttab; [has_ref; chrom opt; contig of each read]]
     ptab  = numerators of pc(q) over 2^60, index q
     ttab  = numerators over 2^60 of the quality thresholds 10^(-(2k+1)/20), k = 0 .. 89
     meta  = [sample; umi opt; site opt; bc; nfrag; overflow; strand opt; mapqs]
     read  = [start; [[op; len] ...]; seq codes; quals]
   output (mode 0) [] when no position is aligned, else
     [[start; [[op;len]...]; seq; md; reverse; mapq; SM; DS opt; RX opt; BC opt; MI opt; TF;
       margin classes per base; qualities] ...]   (op: 0 = M, 3 = N)
   ttab = [] stands for ttab90 *)
Definition pc_of (tab : list Z) (q : Z) : Q :=
  if q <? 0 then 0%Q else Qmake (nth (Z.to_nat q) tab 0) two60.
Definition valid_tab (tab : list Z) : bool := forallb (fun n => (0 <=? n) && (n <? Zpos two60)) tab.
Definition ref_of (off : Z) (codes : list Z) (p : Z) : Z :=
  if p <? off then baseN else nth (Z.to_nat (p - off)) codes baseN.

Definition dec_opt {A} (f : Val -> A) (v : Val) : option A :=
  match getL v with [x] => Some (f x) | _ => None end.
Definition dec_read (v : Val) : read :=
  mkRead (getZ (nthV 0 v)) (map getPair (getL (nthV 1 v))) (getZs (nthV 2 v)) (getZs (nthV 3 v)).
Definition dec_meta (v : Val) : meta :=
  mkMeta (getZs (nthV 0 v)) (dec_opt getZs (nthV 1 v)) (dec_opt getZ (nthV 2 v)) (getZs (nthV 3 v))
         (getZ (nthV 4 v)) (getZ (nthV 5 v)) (dec_opt getB (nthV 6 v)) (getZs (nthV 7 v)).

Definition enc_cop (c : cop) : Val := match c with CM n => VL [VZ 0; VZ n] | CN n => VL [VZ 3; VZ n] end.
Definition enc_rec (classes : list Z) (r : crec) : Val :=
  VL [VZ (c_start r); VL (map enc_cop (c_cigar r)); ofZs (c_seq r); ofZs (c_md r);
      ofB (c_reverse r); VZ (c_mapq r); ofZs (c_SM r); ofOpt VZ (c_DS r); ofOpt ofZs (c_RX r);
      ofOpt ofZs (c_BC r); ofOpt ofZs (c_MI r); VZ (c_TF r); ofZs classes; ofZs (c_qual r)].
Definition enc_recs (pc : Z -> Q) (all : list obs) (recs : list crec) : Val :=
  VL (map (fun r => enc_rec (map (fun p => snd (call_fast pc (obs_at all p))) (expand (c_start r) (c_cigar r))) r) recs).
Definition ttab_in (v : Val) : list Z := match getZs v with [] => ttab90 | l => l end.

(* mode 4 input [ptab; [ref_off; ref codes]; [sample; site opt; bc; strand opt]; ops; ttab]
     op = [0; frag] | [1; [frag ...]] | [2; maxN opt];  frag = [umi; mapq; [read ...]]
   output: one mode-0 style answer per consensus request *)
Definition dec_frag (v : Val) : frag :=
  mkFrag (getZs (nthV 0 v)) (getZ (nthV 1 v)) (map dec_read (getL (nthV 2 v))).
Definition dec_op (v : Val) : mop :=
  let k := getZ (nthV 0 v) in
  if k =? 0 then AddFragment (dec_frag (nthV 1 v))
  else if k =? 1 then AddMolecule (map dec_frag (getL (nthV 1 v)))
  else Consensus (dec_opt getZ (nthV 1 v)).
Definition enc_answer (pc : Z -> Q) (ttab : list Z) (fs : list frag) (a : option (list crec)) : Val :=
  match a with
  | None => VL []
  | Some recs => enc_recs pc (all_obs (reads_of fs)) recs
  end.

(* the thresholds must decrease strictly and lie inside the clip bounds (then the quality is the
   band the clipped 1 - p falls into, 0 .. length ttab) *)
Fixpoint decreasing (l : list Z) : bool :=
  match l with
  | a :: ((b :: _) as t) => (b <? a) && decreasing t
  | _ => true
  end.
Definition valid_ttab (ttab : list Z) : bool :=
  decreasing ttab && forallb (fun T => qlt clip_lo (Qmake T two60) && negb (qlt clip_hi (Qmake T two60))) ttab.

Definition run_C15 (mode : Z) (v : Val) : Val :=
  let pc := pc_of (getZs (nthV 0 v)) in
  let ref := ref_of (getZ (nthV 0 (nthV 1 v))) (getZs (nthV 1 (nthV 1 v))) in
  let maxN := dec_opt getZ (nthV 2 v) in
  let m := dec_meta (nthV 3 v) in
  let reads := map dec_read (getL (nthV 4 v)) in
  match mode with
  | 0 =>
      let ttab := ttab_in (nthV 5 v) in
      if negb (valid_tab (getZs (nthV 0 v)) && valid_ttab ttab) then bad else
      match consensus (fun os => fst (call_fast pc os)) (col_qual_fast pc ttab) ref maxN m reads with
      | None => VL []
      | Some recs => enc_recs pc (all_obs reads) recs
      end
  | 1 => (* precondition of the theorems: some position aligned, qualities inside the table,
            reference bases are letters over the covered span *)
      ofB (match alignment_start (aligned_blocks reads) with Some _ => true | None => false end)
  | 2 => (* md_decode of a (md, query) pair: [md; query] -> [] or [reference bases] *)
      ofOpt ofZs (md_decode (getZs (nthV 0 v)) (getZs (nthV 1 v)))
  | 3 => (* read-back of a record: [start; cigar] -> [positions; query length] *)
      let c := map (fun x => let p := getPair x in if fst p =? 0 then CM (snd p) else CN (snd p))
                   (getL (nthV 1 v)) in
      VL [ofZs (expand (getZ (nthV 0 v)) c); VZ (query_len c)]
  | 4 =>
      let ttab := ttab_in (nthV 4 v) in
      if negb (valid_tab (getZs (nthV 0 v)) && valid_ttab ttab) then bad else
      let b := mkBase (getZs (nthV 0 (nthV 2 v))) (dec_opt getZ (nthV 1 (nthV 2 v)))
                      (getZs (nthV 2 (nthV 2 v))) (dec_opt getB (nthV 3 (nthV 2 v))) in
      VL (run_ops (fun mx fs => enc_answer pc ttab fs
                     (answer (fun os => fst (call_fast pc os)) (col_qual_fast pc ttab) ref b mx fs))
                  (map dec_op (getL (nthV 3 v))) [])
  | 5 => (* the whole request: [kind; contig opt; records]; kind 0 records, 1 ValueError (no aligned
            position), 2 AttributeError (no reference) *)
      let ttab := ttab_in (nthV 5 v) in
      if negb (valid_tab (getZs (nthV 0 v)) && valid_ttab ttab) then bad else
      let x := nthV 6 v in
      let contigs := getZs (nthV 2 x) in
      let creads := combine (contigs ++ repeat 0 (length reads - length contigs)) reads in
      match consensus_x (fun os => fst (call_fast pc os)) (col_qual_fast pc ttab)
                        (if getB (nthV 0 x) then Some ref else None) maxN m (dec_opt getZ (nthV 1 x)) creads with
      | Records k recs => VL [VZ 0; ofOpt VZ k; enc_recs pc (all_obs reads) recs]
      | RaiseNoCoverage => VL [VZ 1; VL []; VL []]
      | RaiseNoReference => VL [VZ 2; VL []; VL []]
      end
  | 6 => (* phred of a probability given as [num; den]: [.. ; ttab at 5; [num; den] at 6] -> [quality; floor(clipped (1 - p) * 2^60)] *)
      let ttab := ttab_in (nthV 5 v) in
      let p := Qmake (getZ (nthV 0 (nthV 6 v))) (Z.to_pos (getZ (nthV 1 (nthV 6 v)))) in
      VL [VZ (phred_floor ttab p); VZ (floor60 (clipq (1 - p)%Q))]
  | _ => bad
  end.
