(* C14 model, extension: THE MOLECULE ABSTRACTION.  The molecule is given as pysam gives it: per fragment the two
   mates (either may be None), per mate is_reverse, "has an MD tag", query_sequence, query_qualities and the entries
   of AlignedSegment.get_aligned_pairs(with_seq=True): (query index | None, reference position | None, MD reference
   character | None) -- soft clips / insertions have no reference position, deletions / reference skips no query
   index.  From these the file models, as coded in /repo,
     * what pysam derives: the matches_only view, reference_start, reference_end (first aligned reference position,
       one past the last one: deletions and skips count);
     * sequtils.read_to_consensus_dict / get_consensus_dictionaries incl. the dove-tail safe span, pick_best_base_call,
       Fragment.get_consensus, Molecule.get_consensus (strict majority), obtain_methylation_calls and the XM string,
       DIRECTLY on the raw entries (r-prefixed functions; Proofs/C14x.v proves them equal to Model/C14.v on the
       abstraction abs_frag);
     * the DECLARATIVE reading of the same (obs_list / fragcallb / nfrag / entryb / specb): which fragment calls
       which base where, and the boolean specification of a whole call dictionary, written without the dictionaries,
       the fold of pick_best_base_call and the argmax.  specb is what `search()` evaluates on the implementation's
       outputs (mode 2).
   Definitions only. *)
From Coq Require Import ZArith List Bool.
Import ListNotations.
From SCMO Require Import Lib.Val Gen.GenTaps Model.C14 Model.C14s.
Open Scope Z_scope.

(* ---- what pysam hands over *)
Record ap := mkAp { a_q : option Z; a_r : option Z; a_b : Z }.     (* a_b = 0 when the MD character is None *)
Record rread := mkRR { w_rev : bool; w_md : bool; w_seq : list Z; w_qual : list Z; w_ap : list ap }.
Definition rfrag := (option rread * option rread)%type.

Definition nthZ (l : list Z) (i : Z) : Z := nth (Z.to_nat i) l 0.      (* query_sequence[qpos] , qpos >= 0 *)

(* get_aligned_pairs(matches_only=True, with_seq=True) *)
Definition matched1 (w : rread) (a : ap) : list pair :=
  match a_q a, a_r a with
  | Some q, Some r => [mkPair r (nthZ (w_seq w) q) (nthZ (w_qual w) q) (a_b a)]
  | _, _ => []
  end.
Definition matched (w : rread) : list pair := flat_map (matched1 w) (w_ap w).

(* reference positions the alignment covers, in order (M/=/X, D, N) *)
Definition rpos1 (a : ap) : list Z := match a_r a with Some r => [r] | None => [] end.
Definition rpositions (w : rread) : list Z := flat_map rpos1 (w_ap w).
Definition ref_start (w : rread) : Z := hd 0 (rpositions w).                 (* AlignedSegment.reference_start *)
Definition ref_end (w : rread) : Z := last (rpositions w) (-1) + 1.          (* AlignedSegment.reference_end *)

(* the abstraction Model/C14.v works on *)
Definition abs_read (w : rread) : read := mkRead (w_rev w) (ref_start w) (ref_end w) (w_md w) (matched w).
Definition abs_frag (f : rfrag) : frag := (option_map abs_read (fst f), option_map abs_read (snd f)).

(* ---- read_to_consensus_dict on the raw entries *)
Definition rentry (lo hi : option Z) (only : Z) (minq : option Z) (w : rread) (a : ap) : list (Z * (Z * Z)) :=
  match a_q a, a_r a with
  | Some q, Some r =>
      if in_lo lo r && in_hi hi r &&
         (match minq with None => true | Some m => m <=? nthZ (w_qual w) q end) &&
         (upper (a_b a) =? only)
      then [(r, (nthZ (w_seq w) q, nthZ (w_qual w) q))] else []
  | _, _ => []
  end.
Definition rrdict (o : option rread) (lo hi : option Z) (only : Z) (minq : option Z) : list (Z * (Z * Z)) :=
  match o with
  | None => []
  | Some w => flat_map (rentry lo hi only minq w) (w_ap w)
  end.

Definition rhas (o : option rread) : bool := match o with Some _ => true | None => false end.
Definition rmd_ok (o : option rread) : bool := match o with Some w => w_md w | None => true end.

(* get_consensus_dictionaries: start, end of the mate-overlap-safe span; None = ValueError *)
Definition rsafe_span (c : cfg) (f : rfrag) : option (option Z * option Z) :=
  if c_unsafe c then Some (None, None)
  else match f with
       | (Some r1, Some r2) =>
           if w_rev r1 && negb (w_rev r2)
           then Some (Some (ref_start r2 + c_d2 c), Some (ref_end r1 - c_d1 c - 1))
           else if negb (w_rev r1) && w_rev r2
           then Some (Some (ref_start r1 + c_d1 c), Some (ref_end r2 - c_d2 c - 1))
           else None
       | _ => None
       end.

(* Fragment.get_consensus as Molecule.get_consensus uses it *)
Definition rfrag_cons (c : cfg) (f : rfrag) : option (list (Z * (Z * Z))) :=
  let '(o1, o2) := f in
  if negb (c_unsafe c) && (negb (rhas o2) || negb (rhas o1)) then None
  else match rsafe_span c f with
       | None => None
       | Some (lo, hi) =>
           if rmd_ok o1 && rmd_ok o2 then
             let d1 := rrdict o1 lo hi (expected c) (c_minq c) in
             let d2 := rrdict o2 lo hi (expected c) (c_minq c) in
             Some (map (fun k => (k, pick_best [dget k d1; dget k d2]))
                       (dedupe (map fst d1 ++ map fst d2)))
           else None
       end.

Definition rfrag_votes (c : cfg) (f : rfrag) : list (Z * Z) :=
  match rfrag_cons c f with
  | None => []
  | Some d => flat_map (fun e => if fst (snd e) =? cN then [] else [(fst e, fst (snd e))]) d
  end.
Definition rvotes (c : cfg) (fs : list rfrag) : list (Z * Z) := flat_map (rfrag_votes c) fs.

(* Molecule.get_consensus: strict majority per position (cons_at / winners / maxcount of Model/C14.v) *)
Definition rconsensus (c : cfg) (fs : list rfrag) : list (Z * Z * Z) :=
  let vs := rvotes c fs in flat_map (cons_at vs) (dedupe (map fst vs)).

(* obtain_methylation_calls *)
Definition rcalls (c : cfg) (ref : list Z) (fs : list rfrag) : result (list call) :=
  let cs := rconsensus c fs in
  match c_strand c, cs with
  | None, _ :: _ => Raise
  | _, _ => OK (map (mk_call c ref) cs)
  end.

(* set_methylation_call_tags: one XM character per entry of the matches_only view *)
Definition rxm1 (cs : list call) (a : ap) : list Z :=
  match a_q a, a_r a with Some _, Some r => [letter_at cs r] | _, _ => [] end.
Definition rxm (cs : list call) (w : rread) : list Z := flat_map (rxm1 cs) (w_ap w).

Definition rreads_of (fs : list rfrag) : list rread :=
  flat_map (fun f => (match fst f with Some r => [r] | None => [] end) ++
                     (match snd f with Some r => [r] | None => [] end)) fs.

(* ---- well-formed raw molecules: what every pysam alignment satisfies.  Aligned bases: reference position >= 0,
   query base in ACGTN, phred >= 0; no reference position twice among the aligned bases; the covered reference
   positions strictly increase *)
Fixpoint nodupb (l : list Z) : bool :=
  match l with [] => true | x :: t => negb (memZ x t) && nodupb t end.
Fixpoint increasing (l : list Z) : bool :=
  match l with
  | x :: t => (match t with y :: _ => x <? y | [] => true end) && increasing t
  | [] => true
  end.
Definition uniq_read (r : read) : bool := nodupb (map p_pos (r_pairs r)).
Definition rread_ok (w : rread) : bool :=
  read_ok (abs_read w) && uniq_read (abs_read w) && increasing (rpositions w).
Definition rwf (fs : list rfrag) : bool := forallb rread_ok (rreads_of fs).
(* the same on the abstraction *)
Definition wfx (fs : list frag) : bool := wf fs && forallb uniq_read (reads_of fs).

(* ======================================================================== the declarative reading
   (over the matches_only view; the safe span is the one of Model/C14.v safe_span, spelled out in the theorems) *)

(* the usable observations (base, phred) of a mate at pos: aligned there, inside [lo,hi], phred >= min_phred_score,
   MD reference character (upper-cased) = the base methylation is called on *)
Definition obs_list (c : cfg) (lo hi : option Z) (o : option read) (pos : Z) : list (Z * Z) :=
  match o with
  | None => []
  | Some r => map (fun p => (p_base p, p_qual p))
                  (filter (fun p => (p_pos p =? pos) && keep lo hi (expected c) (c_minq c) p) (r_pairs r))
  end.

(* (b, q) is not out-voted by the other mate: every observation of the other mate there has a lower phred, or the
   same phred and the same base *)
Definition beats (b q : Z) (l : list (Z * Z)) : bool :=
  forallb (fun e => (snd e <? q) || ((snd e =? q) && (fst e =? b))) l.
Definition mate_calls (c : cfg) (lo hi : option Z) (o o' : option read) (pos b : Z) : bool :=
  existsb (fun e => (fst e =? b) && beats b (snd e) (obs_list c lo hi o' pos)) (obs_list c lo hi o pos).

(* fragment f calls base b at pos *)
Definition fragcallb (c : cfg) (f : frag) (pos b : Z) : bool :=
  negb (b =? cN) && md_ok (fst f) && md_ok (snd f) &&
  match safe_span c f with
  | None => false
  | Some (lo, hi) => mate_calls c lo hi (fst f) (snd f) pos b || mate_calls c lo hi (snd f) (fst f) pos b
  end.

(* number of fragments calling b at pos *)
Definition nfrag (c : cfg) (fs : list frag) (pos b : Z) : Z :=
  Z.of_nat (length (filter (fun f => fragcallb c f pos b) fs)).

(* b is the strict majority at pos *)
Definition majority_at (c : cfg) (fs : list frag) (pos b : Z) : bool :=
  (0 <? nfrag c fs pos b) &&
  forallb (fun b' => (b' =? b) || (nfrag c fs pos b' <? nfrag c fs pos b)) bases.

(* a dictionary entry is right *)
Definition entryb (c : cfg) (ref : list Z) (fs : list frag) (k : call) : bool :=
  memZ (k_cons k) bases && majority_at c fs (k_pos k) (k_cons k) &&
  (k_cov k =? nfrag c fs (k_pos k) (k_cons k)) &&
  (k_letter k =? spec_letter ref (k_pos k) (expected c) (k_cons k)).

Definition cand_positions (fs : list frag) : list Z :=
  dedupe (flat_map (fun r => map p_pos (r_pairs r)) (reads_of fs)).
Definition any_majority (c : cfg) (fs : list frag) : bool :=
  existsb (fun pos => existsb (majority_at c fs pos) bases) (cand_positions fs).
Definition is_none (s : option bool) : bool := match s with None => true | Some _ => false end.

(* the specification of the outcome of obtain_methylation_calls, as a decision procedure *)
Definition specb (c : cfg) (ref : list Z) (fs : list frag) (res : result (list call)) : bool :=
  match res with
  | Raise => is_none (c_strand c) && any_majority c fs
  | OK out =>
      nodupb (map k_pos out) && forallb (entryb c ref fs) out &&
      forallb (fun pos => forallb (fun b => negb (majority_at c fs pos b) ||
                                            existsb (fun k => (k_pos k =? pos) && (k_cons k =? b)) out) bases)
              (cand_positions fs) &&
      (negb (is_none (c_strand c)) || negb (any_majority c fs))
  end.

(* ---- I/O glue.  raw read: [rev; md; seq codes; quals; [[q|-1; r|-1; MD char|0] ...]] *)
Definition dec_opt (z : Z) : option Z := if z <? 0 then None else Some z.
Definition dec_ap (v : Val) : ap := mkAp (dec_opt (getZ (nthV 0 v))) (dec_opt (getZ (nthV 1 v))) (getZ (nthV 2 v)).
Definition dec_rread (v : Val) : rread :=
  mkRR (getB (nthV 0 v)) (getB (nthV 1 v)) (getZs (nthV 2 v)) (getZs (nthV 3 v)) (map dec_ap (getL (nthV 4 v))).
Definition dec_orread (v : Val) : option rread :=
  match getL v with [] => None | r :: _ => Some (dec_rread r) end.
Definition dec_rfrag (v : Val) : rfrag := (dec_orread (nthV 0 v), dec_orread (nthV 1 v)).
Definition dec_rfrags (v : Val) : list rfrag := map dec_rfrag (getL (nthV 8 v)).

Definition renc_result (fs : list rfrag) (r : result (list call)) : Val :=
  match r with
  | Raise => VL [VZ (-1)]
  | OK cs => VL [VL (map enc_call cs);
                 VL (map (fun w => VL (ofZs (rxm cs w) :: enc_tot (tot cs))) (rreads_of fs))]
  end.

Definition enc_pair (p : pair) : Val := VL [VZ (p_pos p); VZ (p_base p); VZ (p_qual p); VZ (p_ref p)].
Definition enc_read (r : read) : Val :=
  VL [ofB (r_rev r); VZ (r_start r); VZ (r_end r); ofB (r_md r); VL (map enc_pair (r_pairs r))].
Definition enc_oread (o : option read) : Val := match o with None => VL [] | Some r => VL [enc_read r] end.
Definition enc_frag (f : frag) : Val := VL [enc_oread (fst f); enc_oread (snd f)].

Definition dec_call (v : Val) : call := mkCall (getZ (nthV 0 v)) (getZ (nthV 1 v)) (getZ (nthV 2 v)) (getZ (nthV 3 v)).
(* an outcome as the harness writes it: [-1] = AssertionError, otherwise [[pos; cons; letter; cov] ...] *)
Definition dec_outcome (v : Val) : result (list call) :=
  match v with
  | VL [VZ _] => Raise
  | _ => OK (map dec_call (getL v))
  end.

Definition run_C14x (mode : Z) (v : Val) : Val :=
  match mode with
  | 6 => (* the caller from the raw aligned pairs: v = the nine fields of mode 0, field 8 = raw fragments *)
         let c := dec_cfg v in let ref := dec_ref v in let fs := dec_rfrags v in
         if negb (rwf fs) then VL [VZ (-2)] else renc_result fs (rcalls c ref fs)
  | 7 => ofB (rwf (dec_rfrags v))
  | 8 => (* the abstraction alone: the fragments as Model/C14.v takes them (mode 0 field 8) *)
         VL (map (fun f => enc_frag (abs_frag f)) (dec_rfrags v))
  | 2 => (* specb: v = [raw input; outcome] *)
         let i := nthV 0 v in
         let fs := dec_rfrags i in
         if negb (rwf fs) then VZ (-2)
         else ofB (specb (dec_cfg i) (dec_ref i) (map abs_frag fs) (dec_outcome (nthV 1 v)))
  | _ => run_C14 mode v
  end.
