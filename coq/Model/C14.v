(* C14 model: TAPS methylation calling.
   Mirrors  TAPS.position_to_context, TAPSMolecule.obtain_methylation_calls (taps.py),
            Molecule.get_consensus, Molecule.set_methylation_call_tags (molecule.py),
            Fragment.get_consensus (fragment.py), get_consensus_dictionaries / read_to_consensus_dict /
            pick_best_base_call (utils/sequtils.py).
   The context tables ctx_unmeth / ctx_meth are GENERATED from the live TAPS() object (Gen/GenTaps.v).
   Characters are character codes (Z); coordinates are unbounded Z.  Definitions only. *)
From Coq Require Import ZArith List Bool.
Import ListNotations.
From SCMO Require Import Lib.Val Gen.GenTaps.
Open Scope Z_scope.

(* ---- characters *)
Definition cA := 65. Definition cC := 67. Definition cG := 71. Definition cT := 84. Definition cN := 78.
Definition cDot := 46.
Definition c_z := 122. Definition c_x := 120. Definition c_h := 104.
Definition c_Z := 90.  Definition c_X := 88.  Definition c_H := 72.

(* str.upper() on ASCII (FASTA / MD characters) *)
Definition upper (c : Z) : Z := if (97 <=? c) && (c <=? 122) then c - 32 else c.
(* str.translate(str.maketrans('ATGC','TACG')) *)
Definition compl (c : Z) : Z :=
  if c =? cA then cT else if c =? cT then cA else if c =? cG then cC else if c =? cC then cG else c.

Fixpoint list_eqb (a b : list Z) : bool :=
  match a, b with
  | [], [] => true
  | x :: a', y :: b' => (x =? y) && list_eqb a' b'
  | _, _ => false
  end.

(* dict.get on the generated table (keys are unique in a dict: first hit) *)
Fixpoint lookup (k : list Z) (t : list (list Z * Z)) : option Z :=
  match t with
  | [] => None
  | (k', v) :: t' => if list_eqb k k' then Some v else lookup k t'
  end.

(* ---- the reference handle.  cached = false : pysam.FastaFile.fetch (ValueError for start < 0 or
   start > end, silently truncated at the contig end);  cached = true : pysamiterators.CachedFasta.fetch,
   i.e. the python slice  seq[start:end]  (negative indices count from the end). *)
Definition slice (l : list Z) (s e : Z) : list Z := firstn (Z.to_nat (e - s)) (skipn (Z.to_nat s) l).

Definition pynorm (n i : Z) : Z := if i <? 0 then Z.max 0 (i + n) else Z.min i n.

Definition fetch (cached : bool) (ref : list Z) (s e : Z) : option (list Z) :=
  let n := Z.of_nat (length ref) in
  if cached then Some (slice ref (pynorm n s) (pynorm n e))
  else if s <? 0 then None else if e <? s then None else Some (slice ref s e).

(* ---- TAPS.position_to_context : (context, methylated) ; None = the except ValueError arm *)
Definition context (cached : bool) (ref : list Z) (pos refbase : Z) : option (list Z) :=
  if refbase =? cC then option_map (map upper) (fetch cached ref pos (pos + 3))
  else if refbase =? cG then
    option_map (fun o => rev (map compl (map upper o))) (fetch cached ref (pos - 2) (pos + 1))
  else None.

Definition methylated (refbase qbase : Z) : option bool :=
  if refbase =? cC then (if qbase =? cT then Some true else if qbase =? cC then Some false else None)
  else if refbase =? cG then (if qbase =? cA then Some true else if qbase =? cG then Some false else None)
  else None.

(* the state of a TAPS object that position_to_context reads: the two context tables built by __init__ *)
Record taps := mkTaps { tp_unmeth : list (list Z * Z); tp_meth : list (list Z * Z) }.
Definition taps0 : taps := mkTaps ctx_unmeth ctx_meth.            (* TAPS() *)
Definition table_of (t : taps) (m : bool) := if m then tp_meth t else tp_unmeth t.

(* the letter is a function of the TAPS tables, the reference OF THE MOLECULE'S CONTIG, the position on that contig,
   the expected reference base and the observed base -- nothing else *)
Definition symbol_t (t : taps) (cached : bool) (ref : list Z) (pos refbase obs : Z) : Z :=
  match context cached ref pos refbase with
  | None => cDot
  | Some ctx =>
      match methylated refbase (upper obs) with
      | None => cDot
      | Some m => match lookup ctx (table_of t m) with Some l => l | None => cDot end
      end
  end.
Definition symbol := symbol_t taps0.

(* ---- reads, fragments (abstraction of pysam.AlignedSegment: what get_aligned_pairs(matches_only=True,
   with_seq=True) yields, plus orientation and reference_start/reference_end) *)
Record pair := mkPair { p_pos : Z; p_base : Z; p_qual : Z; p_ref : Z }.
Record read := mkRead { r_rev : bool; r_start : Z; r_end : Z; r_md : bool; r_pairs : list pair }.
Definition frag := (option read * option read)%type.

Record cfg := mkCfg {
  c_cached : bool;
  c_strand : option bool;      (* molecule.strand : None / False (forward) / True (reverse) *)
  c_tapsF : bool;              (* taps_strand == 'F' *)
  c_unsafe : bool;             (* allow_unsafe_base_calls *)
  c_d1 : Z; c_d2 : Z;          (* dove_R1_distance, dove_R2_distance *)
  c_minq : option Z            (* min_phred_score *)
}.

(* expected_base_to_be_converted ; python truthiness: None counts as False *)
Definition truthy (s : option bool) : bool := match s with Some true => true | _ => false end.
Definition expected (c : cfg) : Z :=
  if c_tapsF c then (if truthy (c_strand c) then cG else cC)
  else (if truthy (c_strand c) then cC else cG).

(* read_to_consensus_dict : the filter of the comprehension *)
Definition in_lo (lo : option Z) (x : Z) := match lo with None => true | Some l => l <=? x end.
Definition in_hi (hi : option Z) (x : Z) := match hi with None => true | Some h => x <=? h end.
Definition keep (lo hi : option Z) (only : Z) (minq : option Z) (p : pair) : bool :=
  in_lo lo (p_pos p) && in_hi hi (p_pos p) &&
  (match minq with None => true | Some m => m <=? p_qual p end) &&
  (upper (p_ref p) =? only).

Definition rdict (o : option read) (lo hi : option Z) (only : Z) (minq : option Z) : list (Z * (Z * Z)) :=
  match o with
  | None => []
  | Some r => map (fun p => (p_pos p, (p_base p, p_qual p))) (filter (keep lo hi only minq) (r_pairs r))
  end.

(* dict.get on a dict built by a comprehension: a later duplicate key overwrites *)
Fixpoint dget {V} (k : Z) (l : list (Z * V)) : option V :=
  match l with
  | [] => None
  | (k', v) :: t => match dget k t with Some v' => Some v' | None => if k =? k' then Some v else None end
  end.

Fixpoint memZ (x : Z) (l : list Z) : bool :=
  match l with [] => false | y :: t => (x =? y) || memZ x t end.
Fixpoint dedupe (l : list Z) : list Z :=
  match l with [] => [] | x :: t => if memZ x t then dedupe t else x :: dedupe t end.

(* pick_best_base_call *)
Definition opt_eqb (o : option Z) (b : Z) : bool := match o with Some x => x =? b | None => false end.
Definition pb_step (st : option Z * Z * bool) (call : option (Z * Z)) : option Z * Z * bool :=
  match call with
  | None => st
  | Some (b, q) =>
      let '(bb, bq, tie) := st in
      if bq <? q then (Some b, q, false)
      else if (q =? bq) && negb (opt_eqb bb b) then (bb, bq, true)
      else st
  end.
Definition pick_best (calls : list (option (Z * Z))) : Z * Z :=
  let '(bb, bq, tie) := fold_left pb_step calls (None, -1, false) in
  match bb with
  | Some b => if tie then (cN, 0) else (b, bq)
  | None => (cN, 0)
  end.

Definition has (o : option read) : bool := match o with Some _ => true | None => false end.
Definition md_ok (o : option read) : bool := match o with Some r => r_md r | None => true end.

(* get_consensus_dictionaries: the dove-tail safe span; None = ValueError *)
Definition safe_span (c : cfg) (f : frag) : option (option Z * option Z) :=
  if c_unsafe c then Some (None, None)
  else match f with
       | (Some r1, Some r2) =>
           if r_rev r1 && negb (r_rev r2) then Some (Some (r_start r2 + c_d2 c), Some (r_end r1 - c_d1 c - 1))
           else if negb (r_rev r1) && r_rev r2 then Some (Some (r_start r1 + c_d1 c), Some (r_end r2 - c_d2 c - 1))
           else None
       | _ => None
       end.

(* Fragment.get_consensus as used by Molecule.get_consensus: None = fragment contributes nothing
   (skipped by `dove_safe and (not has_R2 or not has_R1)`, or a ValueError swallowed by the try) *)
Definition frag_cons (c : cfg) (f : frag) : option (list (Z * (Z * Z))) :=
  let '(o1, o2) := f in
  if negb (c_unsafe c) && (negb (has o2) || negb (has o1)) then None
  else match safe_span c f with
       | None => None
       | Some (lo, hi) =>
           if md_ok o1 && md_ok o2 then
             let d1 := rdict o1 lo hi (expected c) (c_minq c) in
             let d2 := rdict o2 lo hi (expected c) (c_minq c) in
             Some (map (fun k => (k, pick_best [dget k d1; dget k d2]))
                       (dedupe (map fst d1 ++ map fst d2)))
           else None
       end.

(* one vote (position, base) per fragment and position; 'N' (ties between mates) is skipped *)
Definition frag_votes (c : cfg) (f : frag) : list (Z * Z) :=
  match frag_cons c f with
  | None => []
  | Some d => flat_map (fun e => if fst (snd e) =? cN then [] else [(fst e, fst (snd e))]) d
  end.
Definition votes (c : cfg) (fs : list frag) : list (Z * Z) := flat_map (frag_votes c) fs.

Definition count (vs : list (Z * Z)) (pos b : Z) : Z :=
  Z.of_nat (length (filter (fun v => (fst v =? pos) && (snd v =? b)) vs)).

(* np.argmax over the (A,C,G,T,N) vector and the tie test `proper` *)
Definition bases : list Z := [cA; cC; cG; cT].
Definition maxcount (vs : list (Z * Z)) (pos : Z) : Z :=
  Z.max (count vs pos cA) (Z.max (count vs pos cC) (Z.max (count vs pos cG) (Z.max (count vs pos cT) 0))).
Definition winners (vs : list (Z * Z)) (pos : Z) : list Z :=
  filter (fun b => count vs pos b =? maxcount vs pos) bases ++ (if 0 =? maxcount vs pos then [cN] else []).

(* consensus entries (position, base, coverage of that base) *)
Definition cons_at (vs : list (Z * Z)) (pos : Z) : list (Z * Z * Z) :=
  match winners vs pos with
  | [b] => [(pos, b, maxcount vs pos)]
  | _ => []
  end.
Definition consensus (c : cfg) (fs : list frag) : list (Z * Z * Z) :=
  let vs := votes c fs in flat_map (cons_at vs) (dedupe (map fst vs)).

(* ---- obtain_methylation_calls *)
Record call := mkCall { k_pos : Z; k_cons : Z; k_letter : Z; k_cov : Z }.

Inductive result (A : Type) := OK (a : A) | Raise.   (* Raise: AssertionError (strand is None) *)
Arguments OK {A} a. Arguments Raise {A}.

Definition mk_call_t (t : taps) (c : cfg) (ref : list Z) (e : Z * Z * Z) : call :=
  let '(pos, b, cov) := e in mkCall pos b (symbol_t t (c_cached c) ref pos (expected c) b) cov.

Definition calls_t (t : taps) (c : cfg) (ref : list Z) (fs : list frag) : result (list call) :=
  let cs := consensus c fs in
  match c_strand c, cs with
  | None, _ :: _ => Raise
  | _, _ => OK (map (mk_call_t t c ref) cs)
  end.
Definition mk_call := mk_call_t taps0.
Definition calls := calls_t taps0.

(* ---- a history: molecules (each with the reference of ITS contig) processed one after the other by ONE TAPS
   object.  obtain_methylation_calls / position_to_context only READ the object: the state handed on is unchanged *)
Record molecule := mkMol { m_cfg : cfg; m_ref : list Z; m_frags : list frag }.
Definition process (t : taps) (m : molecule) : taps * result (list call) :=
  (t, calls_t t (m_cfg m) (m_ref m) (m_frags m)).
Fixpoint history (t : taps) (ms : list molecule) : list (result (list call)) :=
  match ms with
  | [] => []
  | m :: ms' => let '(t', r) := process t m in r :: history t' ms'
  end.

(* ---- a history on ONE molecule object: it grows by add_fragment (accepted fragments), add_molecule (all fragments
   of the other molecule, through _add_fragment) or _add_fragment, and is finalised (obtain_methylation_calls +
   set_methylation_call_tags) any number of times.  Molecule.get_consensus keeps no result between calls, so a
   finalise recomputes from the fragments held at that moment; methylation_call_dict keeps the last finalise's
   answer until the next one (a finalise that raises leaves it untouched). *)
Inductive mop :=
| MAdd (fs : list frag)      (* add_fragment: the fragments it accepted ([] when refused) *)
| MMerge (fs : list frag)    (* add_molecule(other): other's fragments *)
| MRaw (fs : list frag)      (* _add_fragment *)
| MFin (c : cfg).            (* __finalise__ ; c carries molecule.strand as it is at that moment *)
Definition grown (o : mop) : list frag :=
  match o with MAdd fs => fs | MMerge fs => fs | MRaw fs => fs | MFin _ => [] end.
Record mstate := mkMS { ms_frags : list frag; ms_dict : option (list call) }.
Definition mstep (ref : list Z) (st : mstate) (o : mop) : mstate * list (list frag * result (list call)) :=
  match o with
  | MFin c =>
      let r := calls c ref (ms_frags st) in
      (mkMS (ms_frags st) (match r with OK cs => Some cs | Raise => ms_dict st end), [(ms_frags st, r)])
  | _ => (mkMS (ms_frags st ++ grown o) (ms_dict st), [])
  end.
Fixpoint mol_history (ref : list Z) (st : mstate) (ops : list mop) : mstate * list (list frag * result (list call)) :=
  match ops with
  | [] => (st, [])
  | o :: ops' => let '(st', out) := mstep ref st o in
                 let '(st'', outs) := mol_history ref st' ops' in (st'', out ++ outs)
  end.

(* ---- set_methylation_call_tags *)
Fixpoint letter_at (cs : list call) (pos : Z) : Z :=
  match cs with
  | [] => cDot
  | k :: t => if k_pos k =? pos then k_letter k else letter_at t pos
  end.
Definition xm (cs : list call) (r : read) : list Z := map (fun p => letter_at cs (p_pos p)) (r_pairs r).

Fixpoint nocc (x : Z) (l : list Z) : Z :=
  match l with [] => 0 | y :: t => (if x =? y then 1 else 0) + nocc x t end.

Record totals := mkTot { t_MC : Z; t_uC : Z; t_sZ : Z; t_sz : Z; t_sX : Z; t_sx : Z; t_sH : Z; t_sh : Z }.
Definition tot (cs : list call) : totals :=
  let l := map k_letter cs in
  mkTot (nocc c_Z l + nocc c_X l + nocc c_H l) (nocc c_z l + nocc c_x l + nocc c_h l)
        (nocc c_Z l) (nocc c_z l) (nocc c_X l) (nocc c_x l) (nocc c_H l) (nocc c_h l).

Definition reads_of (fs : list frag) : list read :=
  flat_map (fun f => (match fst f with Some r => [r] | None => [] end) ++
                     (match snd f with Some r => [r] | None => [] end)) fs.

(* ---- well-formedness (precondition of the theorems) *)
Definition base_ok (b : Z) : bool := (b =? cA) || (b =? cC) || (b =? cG) || (b =? cT) || (b =? cN).
Definition read_ok (r : read) : bool :=
  forallb (fun p => (0 <=? p_pos p) && base_ok (p_base p) && (0 <=? p_qual p)) (r_pairs r).
Definition wf (fs : list frag) : bool := forallb read_ok (reads_of fs).

(* ---- I/O glue *)
Definition dec_pair (v : Val) : pair :=
  mkPair (getZ (nthV 0 v)) (getZ (nthV 1 v)) (getZ (nthV 2 v)) (getZ (nthV 3 v)).
Definition dec_read (v : Val) : read :=
  mkRead (getB (nthV 0 v)) (getZ (nthV 1 v)) (getZ (nthV 2 v)) (getB (nthV 3 v)) (map dec_pair (getL (nthV 4 v))).
Definition dec_oread (v : Val) : option read :=
  match getL v with [] => None | r :: _ => Some (dec_read r) end.
Definition dec_frag (v : Val) : frag := (dec_oread (nthV 0 v), dec_oread (nthV 1 v)).
Definition dec_cfg (v : Val) : cfg :=
  mkCfg (getB (nthV 0 v))
        (let s := getZ (nthV 1 v) in if s =? 0 then Some false else if s =? 1 then Some true else None)
        (getB (nthV 2 v)) (getB (nthV 3 v)) (getZ (nthV 4 v)) (getZ (nthV 5 v)) (getOptZ (nthV 6 v)).
(* input: [cached; strand(0/1/2=None); tapsF; unsafe; d1; d2; minq([]|[q]); ref codes; frags] *)
Definition dec_ref (v : Val) : list Z := getZs (nthV 7 v).
Definition dec_frags (v : Val) : list frag := map dec_frag (getL (nthV 8 v)).

Definition enc_call (k : call) : Val := VL [VZ (k_pos k); VZ (k_cons k); VZ (k_letter k); VZ (k_cov k)].
Definition enc_tot (t : totals) : list Val :=
  [VZ (t_MC t); VZ (t_uC t); VZ (t_sZ t); VZ (t_sz t); VZ (t_sX t); VZ (t_sx t); VZ (t_sH t); VZ (t_sh t)].

Definition dec_mol (v : Val) : molecule := mkMol (dec_cfg v) (dec_ref v) (dec_frags v).
Definition enc_result (fs : list frag) (r : result (list call)) : Val :=
  match r with
  | Raise => VL [VZ (-1)]
  | OK cs => VL [VL (map enc_call cs);
                 VL (map (fun r => VL (ofZs (xm cs r) :: enc_tot (tot cs))) (reads_of fs))]
  end.

Definition dec_mop (v : Val) : mop :=
  let k := getZ (nthV 0 v) in
  if k =? 3 then MFin (dec_cfg (nthV 1 v))
  else let fs := map dec_frag (getL (nthV 1 v)) in
       if k =? 0 then MAdd fs else if k =? 1 then MMerge fs else MRaw fs.

Definition run_C14 (mode : Z) (v : Val) : Val :=
  let c := dec_cfg v in let ref := dec_ref v in let fs := dec_frags v in
  match mode with
  | 0 => if negb (wf fs) then VL [VZ (-2)]           (* outside the modelled domain *)
         else enc_result fs (calls c ref fs)
  | 1 => ofB (wf fs)
  | 3 => (* the table alone: [context codes] -> [unmeth letter or 0; meth letter or 0] *)
         let k := getZs v in
         VL [VZ (match lookup k ctx_unmeth with Some l => l | None => 0 end);
             VZ (match lookup k ctx_meth with Some l => l | None => 0 end)]
  | 4 => (* a history of molecules through one TAPS object: v = list of mode-0 inputs *)
         let ms := map dec_mol (getL v) in
         if negb (forallb (fun m => wf (m_frags m)) ms) then VL [VZ (-2)]
         else VL (map (fun mr => enc_result (m_frags (fst mr)) (snd mr)) (combine ms (history taps0 ms)))
  | 5 => (* a history on one molecule object: v = [ref codes; ops], op = [0|1|2; frags] | [3; cfg fields] *)
         let mref := getZs (nthV 0 v) in
         let ops := map dec_mop (getL (nthV 1 v)) in
         if negb (forallb (fun o => wf (grown o)) ops) then VL [VZ (-2)]
         else VL (map (fun fr => enc_result (fst fr) (snd fr)) (snd (mol_history mref (mkMS [] None) ops)))
  | _ => bad
  end.
