(* C19 model: singlecellmultiomics/pyutils/handlelimiter.py (HandleLimiter.write / prune / close)
   as a state machine over an abstract file system, with the operating system's open() given by
   an oracle.  Definitions only.

   Abstractions (see tools/c19.py TRUSTED):
   - a path is a Z, a string is a list of character codes;
   - the file system maps a path to None (does not exist) or Some content, where "content" is what
     is on disk once the handle has been closed (buffering and gzip framing are not modelled);
     open(path,'w'/'wb') creates/truncates, open(path,'a'/'ab') creates/keeps, write appends;
   - time.time() is a strictly increasing logical clock;
   - the oracle  orc i p n  says whether the i-th call of open (counted over the whole run), for
     path p, made while n descriptors are open, FAILS (raises OSError).  A failed open has no effect
     on the file system.
   [fixed c = true] is the repaired retry path (fixes/C19-D27.patch: the placeholder entry is put
   back after close()); [fixed c = false] is the code as found (KeyError on the retry, D27). *)
From Coq Require Import ZArith List Bool.
Import ListNotations.
From SCMO Require Import Lib.Val Gen.GenHandles.
Open Scope Z_scope.

Definition str := list Z.

Record wop := { w_path : Z; w_str : str; w_fa : bool (* forceAppend *) }.

Record cfg := { maxHandles : Z; pruneEvery : Z; fixed : bool }.

Definition oracle := nat -> Z -> nat -> bool.

Inductive event :=
| EvOpen (p : Z) (append : bool) (nopen : nat) (ok : bool)
| EvClose (p : Z).

Record state := {
  opens : list (Z * Z);        (* openHandles entries holding a handle, insertion order: (path, lastw) *)
  seen : list Z;               (* self.seen *)
  ctr : Z;                     (* self.pruneIntervalCounter *)
  clock : Z;                   (* logical time.time() *)
  att : nat;                   (* number of OS open() calls made so far *)
  fs : Z -> option str;        (* abstract file system *)
  trace : list event           (* OS calls, most recent first *)
}.

Definition EOS : Z := 1.   (* the OSError of the failed open is re-raised *)
Definition EKEY : Z := 2.  (* KeyError: openHandles[path] after close() removed it (D27) *)

Inductive res :=
| Ok (s : state)
| Raise (e : Z) (s : state).

Definition memZ (x : Z) (l : list Z) : bool := existsb (Z.eqb x) l.

Definition content (f : Z -> option str) (p : Z) : str :=
  match f p with Some c => c | None => [] end.

(* open(p, 'w'|'a') succeeded *)
Definition fs_open (append : bool) (p : Z) (f : Z -> option str) : Z -> option str :=
  fun q => if q =? p then (if append then Some (content f p) else Some []) else f q.

(* handle.write(s) (as visible after the handle is closed) *)
Definition fs_append (p : Z) (s : str) (f : Z -> option str) : Z -> option str :=
  fun q => if q =? p then Some (content f p ++ s) else f q.

Definition paths (st : state) : list Z := map fst (opens st).

(* `path in self.seen or forceAppend` *)
Definition append_mode (st : state) (o : wop) : bool := memZ (w_path o) (seen st) || w_fa o.

(* one call of open(): counted, traced, and - when it succeeds - applied to the file system *)
Definition os_open (st : state) (p : Z) (a ok : bool) : state :=
  {| opens := opens st; seen := seen st; ctr := ctr st; clock := clock st; att := S (att st);
     fs := if ok then fs_open a p (fs st) else fs st;
     trace := EvOpen p a (length (opens st)) ok :: trace st |}.

(* self.openHandles[path]['handle'] = <handle>;  self.seen.add(path) in the 'w' branch *)
Definition register (st : state) (p : Z) (a : bool) : state :=
  {| opens := opens st ++ [(p, 0)]; seen := if a then seen st else p :: seen st; ctr := ctr st;
     clock := clock st; att := att st; fs := fs st; trace := trace st |}.

(* HandleLimiter.close(): every handle closed, every key popped *)
Definition close_all (st : state) : state :=
  {| opens := []; seen := seen st; ctr := ctr st; clock := clock st; att := att st; fs := fs st;
     trace := rev (map EvClose (paths st)) ++ trace st |}.

(* the `if path not in self.openHandles:` block of write() *)
Definition open_phase (c : cfg) (orc : oracle) (st : state) (o : wop) : res :=
  let p := w_path o in
  let a := append_mode st o in
  if orc (att st) p (length (opens st)) then
    let st1 := os_open st p a false in
    (* len(self.openHandles) > 1, the placeholder of p included *)
    if (0 <? Z.of_nat (length (opens st))) then
      let st2 := close_all st1 in
      if orc (att st2) p 0%nat then Raise EOS (os_open st2 p a false)
      else
        let st3 := os_open st2 p a true in
        if fixed c then Ok (register st3 p a)
        else Raise EKEY st3  (* open() was evaluated, then openHandles[path] raised: descriptor leaks *)
    else Raise EOS st1
  else Ok (register (os_open st p a true) p a).

Fixpoint set_lastw (p t : Z) (l : list (Z * Z)) : list (Z * Z) :=
  match l with
  | [] => []
  | (q, w) :: r => (if q =? p then (q, t) else (q, w)) :: set_lastw p t r
  end.

(* stable insertion sort by lastw = sorted(keys, key=lastw): h precedes everything in l in the
   original order, so it goes before the first element whose key is not smaller *)
Fixpoint ins_lastw (h : Z * Z) (l : list (Z * Z)) : list (Z * Z) :=
  match l with
  | [] => [h]
  | x :: r => if snd x <? snd h then x :: ins_lastw h r else h :: x :: r
  end.
Definition sort_lastw (l : list (Z * Z)) : list (Z * Z) := fold_right ins_lastw [] l.

Definition victims (c : cfg) (st : state) : list Z :=
  let n := Z.of_nat (length (opens st)) in
  if maxHandles c <? n
  then map fst (firstn (Z.to_nat (Z.min (n - maxHandles c) n)) (sort_lastw (opens st)))
  else [].

(* HandleLimiter.prune() *)
Definition prune (c : cfg) (st : state) : state :=
  let v := victims c st in
  {| opens := filter (fun h => negb (memZ (fst h) v)) (opens st); seen := seen st; ctr := 0;
     clock := clock st; att := att st; fs := fs st;
     trace := rev (map EvClose v) ++ trace st |}.

(* handle.write(...); lastw = time.time(); counter; prune *)
Definition write_phase (c : cfg) (st : state) (o : wop) : state :=
  let p := w_path o in
  let st1 := {| opens := set_lastw p (clock st) (opens st); seen := seen st; ctr := ctr st + 1;
                clock := clock st + 1; att := att st; fs := fs_append p (w_str o) (fs st);
                trace := trace st |} in
  if pruneEvery c <=? ctr st1 then prune c st1 else st1.

(* HandleLimiter.write(path, string, method, forceAppend) *)
Definition write (c : cfg) (orc : oracle) (st : state) (o : wop) : res :=
  if memZ (w_path o) (paths st) then Ok (write_phase c st o)
  else match open_phase c orc st o with
       | Ok st' => Ok (write_phase c st' o)
       | Raise e st' => Raise e st'
       end.

(* a sequence of write() calls; stops at the first call that raises.
   Returns the number of completed calls and the result. *)
Fixpoint run_from (c : cfg) (orc : oracle) (ops : list wop) (st : state) (n : nat) : nat * res :=
  match ops with
  | [] => (n, Ok st)
  | o :: r => match write c orc st o with
              | Ok st' => run_from c orc r st' (S n)
              | Raise e st' => (n, Raise e st')
              end
  end.

Definition init_state (init : Z -> option str) : state :=
  {| opens := []; seen := []; ctr := 0; clock := 0; att := 0%nat; fs := init; trace := [] |}.

Definition run_ops (c : cfg) (orc : oracle) (init : Z -> option str) (ops : list wop) : nat * res :=
  run_from c orc ops (init_state init) 0%nat.

Definition state_of (r : res) : state := match r with Ok s => s | Raise _ s => s end.

(* ==================================================================================================
   The model tied to the source: the same state machine, DEFINED WITH the decisions regenerated from
   handlelimiter.py on every run (Gen/GenHandles.v, tools/c19.py regen_handles).  run_C19 (K) runs
   these hl_* functions; Proofs/C19_tie.v proves the shape lemmas (g_retry n = (1 <? n), ...) and from
   them  hl_run_ops mh pe = run_ops {| maxHandles := mh; pruneEvery := pe; fixed := true |}, i.e. that the
   definitions above (the reference kernel the invariant proofs are about) are what the code does. *)
Definition ELOOP : Z := 3.  (* the handler would retry again with nothing left to close: never returns *)

(* `if path in self.seen or forceAppend:` *)
Definition hl_append_branch (st : state) (o : wop) : bool :=
  g_append_test (memZ (w_path o) (seen st)) (w_fa o).

(* one pass through the try body in branch a: the open() call (mode by branch; gz = true, the shape lemma
   g_opens_append a gz = a covers method 0), then whatever the branch does to self.seen *)
Definition hl_os_open (st : state) (p : Z) (a ok : bool) : state :=
  let m := g_opens_append a true in
  {| opens := opens st; seen := if g_seen_added a ok then p :: seen st else seen st; ctr := ctr st;
     clock := clock st; att := S (att st);
     fs := if ok then fs_open m p (fs st) else fs st;
     trace := EvOpen p m (length (opens st)) ok :: trace st |}.

Definition hl_register (st : state) (p : Z) : state :=
  {| opens := opens st ++ [(p, 0)]; seen := seen st; ctr := ctr st; clock := clock st; att := att st;
     fs := fs st; trace := trace st |}.

Definition hl_close_all (st : state) : state :=
  {| opens := []; seen := if g_close_clears_seen then [] else seen st;
     ctr := if g_close_resets_ctr then 0 else ctr st; clock := clock st; att := att st; fs := fs st;
     trace := rev (map EvClose (paths st)) ++ trace st |}.

Definition hl_open_phase (orc : oracle) (st : state) (o : wop) : res :=
  let p := w_path o in
  let a := hl_append_branch st o in
  if orc (att st) p (length (opens st)) then
    let st1 := hl_os_open st p a false in
    if g_handler_catches true && g_retry (Z.of_nat (length (opens st)) + 1) then
      let st2 := hl_close_all st1 in
      let a2 := hl_append_branch st2 o in        (* the test is evaluated again in the loop *)
      if orc (att st2) p 0%nat then
        let st3 := hl_os_open st2 p a2 false in
        if g_retry (if g_restores_placeholder then 1 else 0) then Raise ELOOP st3 else Raise EOS st3
      else
        let st3 := hl_os_open st2 p a2 true in
        if g_restores_placeholder then Ok (hl_register st3 p) else Raise EKEY st3
    else Raise EOS st1
  else Ok (hl_register (hl_os_open st p a true) p).

Definition hl_before (x h : Z * Z) : bool :=
  if g_sort_descending then g_victim_key (snd h) <? g_victim_key (snd x)
  else g_victim_key (snd x) <? g_victim_key (snd h).
Fixpoint hl_ins (h : Z * Z) (l : list (Z * Z)) : list (Z * Z) :=
  match l with
  | [] => [h]
  | x :: r => if hl_before x h then x :: hl_ins h r else h :: x :: r
  end.
Definition hl_sort (l : list (Z * Z)) : list (Z * Z) := fold_right hl_ins [] l.

(* l[:k] *)
Definition py_take {A} (k : Z) (l : list A) : list A :=
  let n := Z.of_nat (length l) in
  if k <? 0 then firstn (Z.to_nat (Z.max 0 (n + k))) l else firstn (Z.to_nat (Z.min k n)) l.

Definition hl_victims (mh : Z) (st : state) : list Z :=
  let n := Z.of_nat (length (opens st)) in
  if g_prune_needed n mh then map fst (py_take (g_to_prune n mh) (hl_sort (opens st))) else [].

Definition hl_prune (mh : Z) (st : state) : state :=
  let v := hl_victims mh st in
  {| opens := filter (fun h => negb (memZ (fst h) v)) (opens st);
     seen := if g_prune_keeps_seen then seen st else []; ctr := g_prune_ctr;
     clock := clock st; att := att st; fs := fs st;
     trace := rev (map EvClose v) ++ trace st |}.

Definition hl_write_phase (mh pe : Z) (st : state) (o : wop) : state :=
  let p := w_path o in
  let st1 := {| opens := set_lastw p (clock st) (opens st); seen := seen st; ctr := g_ctr_step (ctr st);
                clock := clock st + 1; att := att st; fs := fs_append p (w_str o) (fs st);
                trace := trace st |} in
  if g_prune_due (ctr st1) pe then hl_prune mh st1 else st1.

Definition hl_write (mh pe : Z) (orc : oracle) (st : state) (o : wop) : res :=
  if g_write_guard (memZ (w_path o) (paths st)) then
    match hl_open_phase orc st o with
    | Ok st' => Ok (hl_write_phase mh pe st' o)
    | Raise e st' => Raise e st'
    end
  else Ok (hl_write_phase mh pe st o).

Fixpoint hl_run_from (mh pe : Z) (orc : oracle) (ops : list wop) (st : state) (n : nat) : nat * res :=
  match ops with
  | [] => (n, Ok st)
  | o :: r => match hl_write mh pe orc st o with
              | Ok st' => hl_run_from mh pe orc r st' (S n)
              | Raise e st' => (n, Raise e st')
              end
  end.

Definition hl_init_state (init : Z -> option str) : state :=
  {| opens := []; seen := []; ctr := g_init_ctr; clock := 0; att := 0%nat; fs := init; trace := [] |}.

Definition hl_run_ops (mh pe : Z) (orc : oracle) (init : Z -> option str) (ops : list wop) : nat * res :=
  hl_run_from mh pe orc ops (hl_init_state init) 0%nat.

(* descriptor accounting on the OS-call trace *)
Definition n_opened (tr : list event) : nat :=
  length (filter (fun e => match e with EvOpen _ _ _ ok => ok | EvClose _ => false end) tr).
Definition n_closed (tr : list event) : nat :=
  length (filter (fun e => match e with EvOpen _ _ _ _ => false | EvClose _ => true end) tr).

(* ---- specification: what every file must contain *)
Definition writes_of (p : Z) (ops : list wop) : str :=
  concat (map w_str (filter (fun o => w_path o =? p) ops)).

Definition first_op (p : Z) (ops : list wop) : option wop := find (fun o => w_path o =? p) ops.

Definition expected (init : Z -> option str) (ops : list wop) (p : Z) : option str :=
  match first_op p ops with
  | None => init p
  | Some o => Some ((if w_fa o then content init p else []) ++ writes_of p ops)
  end.

(* forceAppend is used consistently per path *)
Definition fa_consistentb (ops : list wop) : bool :=
  forallb (fun o => match first_op (w_path o) ops with
                    | Some o1 => Bool.eqb (w_fa o1) (w_fa o)
                    | None => true end) ops.

(* ---- concrete fault scripts (K and examples) *)
Record script := {
  s_limit : Z;            (* EMFILE: open fails while >= s_limit descriptors are open; <= 0: no limit *)
  s_soft : list Z;        (* indices of open() calls that fail when at least one descriptor is open *)
  s_hard : list Z;        (* indices of open() calls that fail unconditionally *)
  s_perm : list Z         (* paths whose open always fails *)
}.

Definition script_oracle (s : script) : oracle :=
  fun i p n =>
    ((0 <? s_limit s) && (s_limit s <=? Z.of_nat n))
    || (memZ (Z.of_nat i) (s_soft s) && (0 <? Z.of_nat n))
    || memZ (Z.of_nat i) (s_hard s)
    || memZ p (s_perm s).

(* static precondition of C19_content for a script: an open can always succeed with nothing else open *)
Definition script_goodb (s : script) (ops : list wop) : bool :=
  match s_hard s with [] => true | _ => false end
  && forallb (fun o => negb (memZ (w_path o) (s_perm s))) ops.

Fixpoint assoc_fs (l : list (Z * str)) : Z -> option str :=
  match l with
  | [] => fun _ => None
  | (p, c) :: r => fun q => if q =? p then Some c else assoc_fs r q
  end.

(* boolean specification evaluated on an observed outcome:
   k calls completed, [files] = observed content of every path of [univ] after close().  *)
Definition str_eqb (a b : str) : bool :=
  (length a =? length b)%nat && forallb (fun xy => fst xy =? snd xy) (combine a b).
Definition ostr_eqb (a b : option str) : bool :=
  match a, b with
  | None, None => true
  | Some x, Some y => str_eqb x y
  | _, _ => false
  end.

Definition specb (good : bool) (init : Z -> option str) (ops : list wop) (univ : list Z)
           (k : nat) (files : Z -> option str) : bool :=
  (if good then (k =? length ops)%nat else (k <=? length ops)%nat)
  && forallb (fun p => ostr_eqb (files p) (expected init (firstn k ops) p)) univ.

(* ---- bamSplitByTag.py: split_bam_by_tag (head=None) and the loop of its __main__ block.
   A read is (sanitised tag value or None, record id); a file is the list of record ids written. *)
Definition bread := (option Z * Z)%type.
Definition bpass := (list Z * list Z * (Z -> option (list Z)))%type.   (* output_handles keys, waiting, files *)

Definition b_step (maxh : Z) (skip : list Z) (st : bpass) (r : bread) : bpass :=
  let '(hs, wt, f) := st in
  match fst r with
  | None => st                                            (* if not r.has_tag(tag): continue *)
  | Some v =>
      if memZ v skip || memZ v wt then st                 (* value in skip or value in waiting *)
      else if memZ v hs then (hs, wt, fs_append v [snd r] f)
      else if maxh <=? Z.of_nat (length hs) then (hs, v :: wt, f)    (* len(output_handles) >= max_handles *)
      else (hs ++ [v], wt, fs_append v [snd r] (fs_open false v f))  (* AlignmentFile(..., "wb") *)
  end.

Definition b_pass (maxh : Z) (skip : list Z) (reads : list bread) (f : Z -> option (list Z)) : bpass :=
  fold_left (b_step maxh skip) reads ([], [], f).

(* while len(waiting) > 0: done, waiting = split_bam_by_tag(..., skip=skip); skip.update(done) *)
Fixpoint b_loop (fuel : nat) (maxh : Z) (reads : list bread) (skip : list Z)
         (f : Z -> option (list Z)) (passes : nat) : option (list Z * (Z -> option (list Z)) * nat) :=
  match fuel with
  | O => None
  | S fuel' =>
      let '(hs, wt, f') := b_pass maxh skip reads f in
      match wt with
      | [] => Some (skip ++ hs, f', S passes)
      | _ :: _ => b_loop fuel' maxh reads (skip ++ hs) f' (S passes)
      end
  end.

Definition has_value (v : Z) (r : bread) : bool :=
  match fst r with Some w => w =? v | None => false end.
Definition recs_of (v : Z) (reads : list bread) : list Z := map snd (filter (has_value v) reads).

(* ---- I/O glue *)
Definition dec_op (v : Val) : wop :=
  {| w_path := getZ (nthV 0 v); w_str := getZs (nthV 1 v); w_fa := getB (nthV 2 v) |}.
Definition dec_script (v : Val) : script :=
  {| s_limit := getZ (nthV 0 v); s_soft := getZs (nthV 1 v); s_hard := getZs (nthV 2 v);
     s_perm := getZs (nthV 3 v) |}.
Definition dec_files (v : Val) : list (Z * str) :=
  map (fun e => (getZ (nthV 0 e), getZs (nthV 1 e))) (getL v).
Definition enc_event (e : event) : Val :=
  match e with
  | EvOpen p a n ok => VL [VZ 0; VZ p; ofB a; VZ (Z.of_nat n); ofB ok]
  | EvClose p => VL [VZ 1; VZ p]
  end.
Definition enc_file (f : Z -> option str) (p : Z) : Val :=
  VL [VZ p; ofOpt ofZs (f p)].

(* input: [fixed; maxHandles; pruneEvery; script; init files; ops; universe of paths] *)
Definition run_C19 (mode : Z) (v : Val) : Val :=
  let c := {| fixed := getB (nthV 0 v); maxHandles := getZ (nthV 1 v); pruneEvery := getZ (nthV 2 v) |} in
  let s := dec_script (nthV 3 v) in
  let init := assoc_fs (dec_files (nthV 4 v)) in
  let ops := map dec_op (getL (nthV 5 v)) in
  let univ := getZs (nthV 6 v) in
  match mode with
  | 0 => let '(k, r) := if fixed c then hl_run_ops (maxHandles c) (pruneEvery c) (script_oracle s) init ops
                        else run_ops c (script_oracle s) init ops in
         let st := state_of r in
         let fin := if fixed c then hl_close_all st else close_all st in
         VL [ VL [VZ (Z.of_nat k); VZ (match r with Ok _ => 0 | Raise e _ => e end)];
              VL (map enc_event (rev (trace fin)));
              ofZs (paths st);
              ofZs (seen st);
              VZ (ctr st);
              VL (map (enc_file (fs fin)) univ) ]
  | 1 => VL [ofB (script_goodb s ops); ofB (fa_consistentb ops)]
  | 2 => (* [input...; k; observed files] *)
         let k := Z.to_nat (getZ (nthV 7 v)) in
         let files := fun p => match find (fun e => getZ (nthV 0 e) =? p) (getL (nthV 8 v)) with
                               | Some e => match getL (nthV 1 e) with
                                           | [] => None
                                           | c0 :: _ => Some (getZs c0)
                                           end
                               | None => None
                               end in
         ofB (specb (script_goodb s ops && fa_consistentb ops) init ops univ k files)
  | 3 => (* bamSplitByTag: [max_handles; reads [[value] | [], id]; universe of values] *)
         let maxh := getZ (nthV 0 v) in
         let reads := map (fun e => (getOptZ (nthV 0 e), getZ (nthV 1 e))) (getL (nthV 1 v)) in
         match b_loop (S (length reads)) maxh reads [] (fun _ => None) 0%nat with
         | Some (done, f, n) => VL [VZ 1; ofZs done; VZ (Z.of_nat n); VL (map (enc_file f) (getZs (nthV 2 v)))]
         | None => VL [VZ 0]
         end
  | _ => bad
  end.
