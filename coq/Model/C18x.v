(* C18 model, extension: REGION-RESTRICTED loading (constructor options region_start / region_end).
   Definitions only.  Everything of Model/C18.v is reused (site rules, tables, cache file name and format); new here:

   * a window w = (region_start, region_end), each None or an integer, carried by every run next to its settings;
   * fetchChromosome reads `v.fetch(chrom, start=self.region_start, stop=self.region_end)`: pysam/htslib semantics
     (modelled, tied by K): 0-based half-open [start, stop), None = 0 / MAXPOS; the records returned are those that
     OVERLAP the window (a record occupies [pos-1, pos-1+len(REF))); coordinates with start < 0, start >= MAXPOS,
     stop > MAXPOS or start > stop raise ValueError (after the contig was checked); fetch(None, start, stop) - the
     eager load of all contigs - ignores the coordinates altogether;
   * read_cached keeps a cache line iff  not (region_start is not None and position < region_start)  and stops at the
     first line with  region_end is not None and position > region_end  (both tests are the regenerated g_read_skip /
     g_read_stop of Gen/GenAlleles.v);
   * the cache file NAME does not mention the window (Model/C18.cache_name is used unchanged, as the source does);
   * a fetch that raises leaves the sentinel-only table of that contig behind (lazy: swallowed by getAllelesAt /
     has_location; eager: the constructor raises) and writes no cache file.

   The faithful model.  What it refutes is stated in Props/C18.v (C18_window_*_refuted). *)
From Coq Require Import ZArith List Bool.
Import ListNotations.
From SCMO Require Import Lib.Val Gen.GenAlleles Model.C18.
Open Scope Z_scope.

Record win := { w_start : option Z; w_end : option Z }.
Definition nowin : win := {| w_start := None; w_end := None |}.
Record xcfg := { x_cf : cfg; x_win : win }.

Definition MAXPOS : Z := 2147483647.                       (* pysam MAX_POS = 2^31 - 1 *)
Definition oz (o : option Z) (d : Z) : Z := match o with Some z => z | None => d end.
Definition win_lo (w : win) : Z := oz (w_start w) 0.
Definition win_hi (w : win) : Z := oz (w_end w) MAXPOS.
(* HTSFile.parse_region accepts the coordinates *)
Definition win_valid (w : win) : bool :=
  (0 <=? win_lo w) && (win_lo w <? MAXPOS) && (win_hi w <=? MAXPOS) && (win_lo w <=? win_hi w).
(* the tabix iterator returns the record: [pos-1, pos-1+len(REF)) meets the non-empty [lo, hi) (an empty window
   yields nothing, also inside a long REF) *)
Definition rec_in_win (w : win) (r : vrec) : bool :=
  (win_lo w <? win_hi w) && (r_pos r - 1 <? win_hi w) && (win_lo w <? r_pos r - 1 + Z.of_nat (length (r_ref r))).
(* what v.fetch(c, start, stop) iterates over, for every c, when the coordinates are accepted *)
Definition vwin (v : vcf) (w : win) : vcf :=
  {| v_contigs := v_contigs v; v_recs := filter (rec_in_win w) (v_recs v) |}.
Definition vnone (v : vcf) : vcf := {| v_contigs := v_contigs v; v_recs := [] |}.

(* fetchChromosome(vcf, c) below the cache test, in an empty dict: sentinel, then the record loop over the window;
   v.fetch raises ValueError for a contig the file does not have or for unacceptable coordinates *)
Definition contig_table_x (v : vcf) (xc : xcfg) (c : str) : table :=
  if win_valid (x_win xc) then contig_table (vwin v (x_win xc)) (x_cf xc) c else add_sentinel [] c.

(* read_cached with self.region_start / self.region_end *)
Definition skipb (w : win) (p : Z) : bool := g_read_skip (is_some (w_start w)) p (oz (w_start w) 0).
Definition stopb (w : win) (p : Z) : bool := g_read_stop (is_some (w_end w)) p (oz (w_end w) 0).
Fixpoint read_lines_x (w : win) (ls : list str) (c : str) (t : table) : table :=
  match ls with
  | [] => t
  | l :: ls' => match parse_line l with
                | Some (p, b, ss) =>
                    if skipb w p then read_lines_x w ls' c t                  (* continue *)
                    else if stopb w p then t                                  (* break *)
                    else read_lines_x w ls' c (store3 t c p b ss)
                | None => t end
  end.
Definition read_cached_x (w : win) (content : str) (c : str) (t : table) : table :=
  read_lines_x w (lines_of (unl content)) c t.

(* fetchChromosome(self.vcffile, c, clear=True) *)
Definition fetch_lazy_x (v : vcf) (xc : xcfg) (fs : fsys) (c : str) : table * fsys :=
  let cf := x_cf xc in
  let cached := c_cache cf && cacheable c in
  let name := cache_name cf c in
  match (if cached then aget seqb fs name else None) with
  | Some content => (read_cached_x (x_win xc) content c [], fs)
  | None =>
      let t := contig_table_x v xc c in
      (t, if cached && valid_contig v c && win_valid (x_win xc) then aset seqb fs name (serialise (getd seqb t c)) else fs)
  end.

Definition ensure_x (v : vcf) (xc : xcfg) (st : table * fsys) (c : str) : table * fsys :=
  if self_lazy (x_cf xc) && negb (amem seqb (fst st) c) then fetch_lazy_x v xc (snd st) c else st.

(* has_location recognises only the 'invalid contig' ValueError (checked by pysam before the coordinates): fetch_raises
   of Model/C18.v does not depend on the window *)
Definition step_x (v : vcf) (xc : xcfg) (st : table * fsys) (q : query) : (table * fsys) * answer :=
  match q with
  | QGet c p b => let st' := ensure_x v xc st c in (st', answer_get (fst st') c p b)
  | QHas c p => let st' := ensure_x v xc st c in
                (st', if fetch_raises v (x_cf xc) st c then ABool g_has_invalid_contig else answer_has (fst st') c p)
  end.

Fixpoint run_queries_x (v : vcf) (xc : xcfg) (st : table * fsys) (qs : list query) : fsys * list answer :=
  match qs with
  | [] => (snd st, [])
  | q :: qs' => let '(st', a) := step_x v xc st q in
                let '(fs', ans) := run_queries_x v xc st' qs' in (fs', a :: ans)
  end.

(* __init__ : the eager load of all contigs is v.fetch(None, start, stop) = the whole file (coordinates ignored);
   the eager load of one contig raises for a contig the file does not have and for unacceptable coordinates *)
Definition init_table_x (v : vcf) (xc : xcfg) : option table :=
  let cf := x_cf xc in
  if is_lazy cf then Some []
  else match c_chrom cf with
       | None => Some (load_recs cf (v_recs v) [])
       | Some c => if valid_contig v c && win_valid (x_win xc) then Some (contig_table_x v xc c) else None
       end.

Definition run_one_x (v : vcf) (fs : fsys) (run : xcfg * list query) : fsys * list answer :=
  match init_table_x v (fst run) with
  | Some t => run_queries_x v (fst run) (t, fs) (snd run)
  | None => (fs, [ARaise])
  end.

Fixpoint run_history_x (v : vcf) (fs : fsys) (h : list (xcfg * list query)) : fsys * list (list answer) :=
  match h with
  | [] => (fs, [])
  | r :: h' => let '(fs1, a) := run_one_x v fs r in
               let '(fs2, rest) := run_history_x v fs1 h' in (fs2, a :: rest)
  end.

(* ------------------------------------------------------------------ specification *)
(* the eager load of all contigs *)
Definition eager_all (cf : cfg) : bool := negb (is_lazy cf) && negb (is_some (c_chrom cf)).
(* the records a run can see *)
Definition wv (v : vcf) (w : win) : vcf := if win_valid w then vwin v w else vnone v.
Definition veff (v : vcf) (xc : xcfg) : vcf := if eager_all (x_cf xc) then v else wv v (x_win xc).
Definition ctor_raises_win (xc : xcfg) : bool :=
  negb (is_lazy (x_cf xc)) && is_some (c_chrom (x_cf xc)) && negb (win_valid (x_win xc)).
(* a run answers as the specification of Model/C18.v does on the records it can see *)
Definition spec_run_x (v : vcf) (run : xcfg * list query) : list answer :=
  if ctor_raises_win (fst run) then [ARaise] else spec_run (veff v (fst run)) (x_cf (fst run), snd run).

(* a position inside the window *)
Definition in_win (w : win) (p : Z) : bool := (win_lo w <=? p) && (p <? win_hi w).

(* ------------------------------------------------------------------ preconditions *)
(* 1-based positions below 2^31, a non-empty REF *)
Definition pos_rec_ok (r : vrec) : bool := (1 <=? r_pos r) && (r_pos r <=? MAXPOS) && negb (length (r_ref r) =? 0)%nat.
Definition vcf_ok_x (v : vcf) : bool := vcf_ok v && forallb pos_rec_ok (v_recs v).

Definition oz_eqb (a b : option Z) : bool :=
  match a, b with Some x, Some y => x =? y | None, None => true | _, _ => false end.
Definition win_eqb (a b : win) : bool := oz_eqb (w_start a) (w_start b) && oz_eqb (w_end a) (w_end b).

Definition keys_of_x (h : list (xcfg * list query)) : list (xcfg * str) :=
  flat_map (fun run => map (fun q => (fst run, query_contig q)) (snd run)) h.
(* two uses of one cache file name: same contig, same settings (as names_ok of Model/C18.v) and - when both runs go
   through the cache - the same window *)
Definition names_ok_x (ks : list (xcfg * str)) : bool :=
  forallb (fun k1 => forallb (fun k2 =>
     negb (seqb (cache_name (x_cf (fst k1)) (snd k1)) (cache_name (x_cf (fst k2)) (snd k2)))
     || (seqb (snd k1) (snd k2) && same_sem (x_cf (fst k1)) (x_cf (fst k2))
         && (negb (c_cache (x_cf (fst k1))) || negb (c_cache (x_cf (fst k2))) || win_eqb (x_win (fst k1)) (x_win (fst k2))))) ks) ks.
(* a run through the cache is not asked about positions before its region_start (there the writing run and the reading
   runs differ: C18_window_long_ref_refuted) *)
Definition qpos_ok (xc : xcfg) (p : Z) : bool := (0 <=? p) && (negb (c_cache (x_cf xc)) || negb (skipb (x_win xc) p)).
Definition hist_ok_x (h : list (xcfg * list query)) : bool :=
  forallb (fun run => forallb (fun q => qpos_ok (fst run) (query_pos q)) (snd run)) h && names_ok_x (keys_of_x h).
(* every query of every run lies inside that run's (acceptable) window *)
Definition hist_inside (h : list (xcfg * list query)) : bool :=
  forallb (fun run => win_valid (x_win (fst run)) && forallb (fun q => in_win (x_win (fst run)) (query_pos q)) (snd run)) h.

Definition lift (run : cfg * list query) : xcfg * list query := ({| x_cf := fst run; x_win := nowin |}, snd run).
Definition unlift (run : xcfg * list query) : cfg * list query := (x_cf (fst run), snd run).

(* ------------------------------------------------------------------ I/O glue *)
Definition dec_oz (v : Val) : option Z := match getL v with [x] => Some (getZ x) | _ => None end.
Definition dec_xcfg (v : Val) : xcfg :=
  {| x_cf := dec_cfg v; x_win := {| w_start := dec_oz (nthV 6 v); w_end := dec_oz (nthV 7 v) |} |}.
Definition dec_hist_x (v : Val) : list (xcfg * list query) :=
  map (fun r => (dec_xcfg (nthV 0 r), map dec_query (getL (nthV 1 r)))) (getL v).

(* modes 0..9: Model/C18.run_C18 (settings without a window)
   mode 10: [vcf; history with windows] -> [answers per run; cache files left behind]
   mode 11: precondition of C18_window_history_spec   (vcf_ok_x && hist_ok_x)
   mode 12: [vcf; history] -> the answers spec_run_x demands
   mode 13: [[vcf; history]; answers] -> do the given answers equal spec_run_x ?
   mode 14: hist_inside (every query inside its run's window)
   mode 15: [content; [start]; [end]] -> what read_cached makes of a cache file for contig "c" under that window *)
Definition run_C18x (mode : Z) (x : Val) : Val :=
  match mode with
  | 10 => let v := dec_vcf (nthV 0 x) in
          let '(fs, ans) := run_history_x v [] (dec_hist_x (nthV 1 x)) in
          VL [enc_answers ans; VL (map (fun nc => VL [enc_str (fst nc); enc_str (snd nc)]) fs)]
  | 11 => ofB (vcf_ok_x (dec_vcf (nthV 0 x)) && hist_ok_x (dec_hist_x (nthV 1 x)))
  | 12 => enc_answers (map (spec_run_x (dec_vcf (nthV 0 x))) (dec_hist_x (nthV 1 x)))
  | 13 => let v := dec_vcf (nthV 0 (nthV 0 x)) in
          let h := dec_hist_x (nthV 1 (nthV 0 x)) in
          let got := map (fun a => map dec_answer (getL a)) (getL (nthV 1 x)) in
          ofB (list_eqb (list_eqb answer_eqb) got (map (spec_run_x v) h))
  | 14 => ofB (hist_inside (dec_hist_x (nthV 1 x)))
  | 15 => let w := {| w_start := dec_oz (nthV 1 x); w_end := dec_oz (nthV 2 x) |} in
          let t := read_cached_x w (dec_str (nthV 0 x)) [99] [] in
          VL (flat_map (fun pb => map (fun kv => VL [VZ (fst pb); enc_str (fst kv); VL (map enc_str (snd kv))]) (snd pb))
                       (getd seqb t [99]))
  | _ => run_C18 mode x
  end.
