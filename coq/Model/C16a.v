(* C16 extension: the attribute column of a GTF line at character level.
   loadGTF:  for part in parts[-1].split(';'): kv = part.strip().split(); if len(kv) == 2: keyValues[kv[0]] = kv[1] with the double quotes removed
   Definitions only (extracted). Characters are codes; whitespace = what str.split() / str.strip() treat as such in ASCII. *)
From Coq Require Import ZArith List Bool.
Import ListNotations.
Open Scope Z_scope.

Definition is_ws (c : Z) : bool := (c =? 32) || ((9 <=? c) && (c <=? 13)) || ((28 <=? c) && (c <=? 31)).

(* s.split(sep), sep one character; [cur] = the current piece, reversed *)
Fixpoint split_on (sep : Z) (s : list Z) (cur : list Z) : list (list Z) :=
  match s with
  | [] => [rev cur]
  | c :: t => if c =? sep then rev cur :: split_on sep t [] else split_on sep t (c :: cur)
  end.

(* s.split() (= s.strip().split()): maximal runs of non whitespace *)
Fixpoint words (s : list Z) (cur : list Z) : list (list Z) :=
  match s with
  | [] => match cur with [] => [] | _ => [rev cur] end
  | c :: t => if is_ws c then match cur with [] => words t [] | _ => rev cur :: words t [] end
              else words t (c :: cur)
  end.

Definition unquote (s : list Z) : list Z := filter (fun c => negb (c =? 34)) s.

Definition parse_attrs (s : list Z) : list (list Z * list Z) :=
  flat_map (fun part => match words part [] with [k; v] => [(k, unquote v)] | _ => [] end) (split_on 59 s []).

(* key, blank, quoted value, semicolon, blank - as GTF files are written *)
Definition print_attr (kv : list Z * list Z) : list Z := fst kv ++ [32; 34] ++ snd kv ++ [34; 59; 32].
Definition print_attrs (kvs : list (list Z * list Z)) : list Z := flat_map print_attr kvs.

(* a token the round trip is stated for: not empty, no whitespace, no semicolon, no double quote *)
Definition clean (s : list Z) : bool :=
  negb (match s with [] => true | _ => false end) && forallb (fun c => negb (is_ws c) && negb (c =? 59) && negb (c =? 34)) s.
