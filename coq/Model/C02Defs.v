(* C02 model: what a demultiplexing strategy does to a read pair.  Definitions only.

   Python side modelled (singlecellmultiomics/modularDemultiplexer):
     baseDemultiplexMethods.UmiBarcodeDemuxMethod.__init__      -> derive_capture
     baseDemultiplexMethods.UmiBarcodeDemuxMethod.demultiplex   -> demux_contig_base
     baseDemultiplexMethods.ScatteredUmiBarcodeDemuxMethod.demultiplex -> demux_scattered_base
     the demultiplex overrides of the single-protocol classes in demultiplexModules/*.py
       (len(records) != k -> NonMultiplexable; ligation bases -> lh/lq)       -> wrap
     phredToFastqHeaderSafeQualities(method=3)                                -> enc_q / enc_qs
   A read is a pair (bases, quality characters), both lists of character codes; a read pair is a
   list of reads of ANY length (0, 1, 2, 3 ... mates).  The barcode whitelist lookup
   (barcodeFileParser.getIndexCorrectedBarcodeAndHammingDistance, property C03) is a parameter.
   Python exceptions are explicit: Reject = NonMultiplexable, RaiseE k = any other exception.   *)
From Coq Require Import ZArith List Bool.
From Coq Require Strings.Byte.
Import ListNotations.
From SCMO Require Import Lib.Val Lib.PySlice.
Open Scope Z_scope.

(* ------------------------------------------------------------------ basic types *)
Definition mate := (list Z * list Z)%type.           (* (sequence, qual) *)

Inductive outcome (A : Type) : Type :=
| Accept (a : A)
| Reject                       (* NonMultiplexable *)
| RaiseE (kind : Z).           (* 1 IndexError 2 ValueError 3 AttributeError 4 NameError 5 TypeError *)
Arguments Accept {A} a.
Arguments Reject {A}.
Arguments RaiseE {A} kind.

Definition E_Index : Z := 1.
Definition E_Value : Z := 2.
Definition E_Attribute : Z := 3.

(* one TaggedRecord as far as the property observes it *)
Record orec := mkO {
  o_seq : list Z; o_qual : list Z;
  o_bc : list Z;                 (* raw barcode *)
  o_BC : list Z; o_bi : Z;       (* corrected barcode and its index, from the lookup *)
  o_RX : option (list Z); o_RQ : option (list Z);
  o_rS : option (list Z);
  o_lh : option (list Z); o_lq : option (list Z);
  o_extra : list (Z * list Z)    (* restriction-bisulfite only: 1 QT, 2 ES, 3 eq, 4 IS *)
}.

Definition lookup_t := list Z -> option (Z * list Z).   (* raw barcode -> (index, corrected) *)

(* ------------------------------------------------------------------ quality encoding *)
(* string.ascii_letters *)
Definition ascii_letters : list Z :=
  map (fun i => 97 + Z.of_nat i) (seq 0 26) ++ map (fun i => 65 + Z.of_nat i) (seq 0 26).

(* ascii_letters[min(max(0, ord(c) - 33), len(ascii_letters) - 1)] : phred 0..51 -> a..zA..Z, anything
   above is clamped to 'Z' (the clamp was len(ascii_letters) before the fix of defect D2 and raised
   IndexError for phred >= 52).  The option is kept so that a raising encoder stays expressible. *)
Definition enc_q (c : Z) : option Z :=
  nth_error ascii_letters (Z.to_nat (Z.min (Z.max 0 (c - 33)) 51)).

Fixpoint enc_qs (l : list Z) : option (list Z) :=
  match l with
  | [] => Some []
  | c :: t => match enc_q c, enc_qs t with
              | Some x, Some r => Some (x :: r)
              | _, _ => None
              end
  end.

(* the value the encoding has when it does not raise *)
Definition enc_total (c : Z) : Z := match enc_q c with Some x => x | None => 0 end.

(* ------------------------------------------------------------------ UmiBarcodeDemuxMethod.__init__ *)
Record cargs := mkArgs {
  a_umiRead : Z; a_umiStart : Z; a_umiLength : Z;
  a_bcRead : Z; a_bcStart : Z; a_bcLength : Z;
  a_rpRead : option Z;          (* random_primer_read *)
  a_rpLength : option Z;        (* random_primer_length (None is passed by several classes) *)
  a_rpEnd : bool                (* random_primer_end *)
}.

Fixpoint set_nth {A} (n : nat) (x : A) (l : list A) : option (list A) :=
  match l, n with
  | [], _ => None
  | _ :: t, O => Some (x :: t)
  | h :: t, S n' => match set_nth n' x t with Some t' => Some (h :: t') | None => None end
  end.

(* list item assignment l[i] = x, negative i counted from the end; None = IndexError *)
Definition py_set {A} (l : list A) (i : Z) (x : A) : option (list A) :=
  let n := Z.of_nat (length l) in
  if i <? 0 then (if i + n <? 0 then None else set_nth (Z.to_nat (i + n)) x l)
  else set_nth (Z.to_nat i) x l.

(* result: (sequenceCapture, random_primer_slice attribute if it gets defined);
   None = the constructor raises (NotImplementedError / IndexError / TypeError) *)
Definition derive_capture (a : cargs) : option (list pslice * option pslice) :=
  let cap0 := [slice_all; slice_all] in
  let cap1 :=
    if a_umiLength a =? 0 then
      (if negb (a_bcStart a =? 0) then None
       else py_set cap0 (a_bcRead a) (slice_from (a_bcLength a)))
    else
      (if negb (a_umiRead a =? a_bcRead a) then None
       else if negb ((a_umiStart a =? 0) || (a_bcStart a =? 0)) then None
       else py_set cap0 (a_bcRead a) (slice_from (a_bcLength a + a_umiLength a))) in
  match cap1 with
  | None => None
  | Some cap =>
    match a_rpRead a with
    | None => Some (cap, None)
    | Some r =>
      match pyindex cap r with
      | None => None
      | Some cur =>
        match ps_stop cur with
        | Some _ => None
        | None =>
          match a_rpLength a with
          | None => None                                   (* -None / slice bound None: see note *)
          | Some k =>
            if a_rpEnd a then
              match py_set cap r (mkSlice (ps_start cur) (Some (- k))) with
              | Some cap' => Some (cap', Some (mkSlice (Some (- k)) None))
              | None => None
              end
            else
              match py_set cap r (slice_from k) with
              | Some cap' => Some (cap', Some (slice_range 0 k))
              | None => None
              end
          end
        end
      end
    end
  end.
(* note: random_primer_read not None with random_primer_length None: with random_primer_end the
   unary minus raises TypeError; without it slice(None, None) / slice(0, None) are built silently.
   No class does this; the model maps both to None and K never generates it. *)

(* ------------------------------------------------------------------ layouts as found on the objects *)
Record clayout := mkC {
  c_umiRead : Z; c_umiStart : Z; c_umiLength : Z;
  c_bcRead : Z; c_bcStart : Z; c_bcLength : Z;
  c_rpRead : option Z;
  c_rpSlice : option pslice;      (* self.random_primer_slice, defined only with a primer *)
  c_capture : list pslice         (* self.sequenceCapture, after any subclass override *)
}.

Record slayout := mkS {
  s_bc : list (list pslice);      (* barcode_slices, one list per mate *)
  s_umi : list (list pslice);     (* umi_slices *)
  s_cap : list pslice;            (* capture_slices *)
  s_rpRead : option Z;
  s_rpSlice : option pslice       (* never defined by ScatteredUmiBarcodeDemuxMethod.__init__ *)
}.

(* what the demultiplex override of a single-protocol subclass adds *)
Record wrapper := mkW {
  w_exact : option Z;             (* if len(records) != k: raise NonMultiplexable *)
  w_lig : option (Z * Z);         (* ligation_start, length : records[0][start:start+len] -> lh, lq *)
  w_need2 : bool                  (* lh/lq are set on taggedRecords[0] and taggedRecords[1] explicitly *)
}.

(* ------------------------------------------------------------------ helpers *)
Definition bind {A B} (o : outcome A) (f : A -> outcome B) : outcome B :=
  match o with Accept a => f a | Reject => Reject | RaiseE k => RaiseE k end.

Definition idx_or_raise {A} (l : list A) (i : Z) : outcome A :=
  match pyindex l i with Some x => Accept x | None => RaiseE E_Index end.

Definition enc_or_raise (l : list Z) : outcome (list Z) :=
  match enc_qs l with Some r => Accept r | None => RaiseE E_Index end.

Definition list_eqb (a b : list Z) : bool :=
  (Nat.eqb (length a) (length b)) && forallb (fun p => fst p =? snd p) (combine a b).

Definition is_nil {A} (l : list A) : bool := match l with [] => true | _ => false end.

(* the final loop:  for rid, (record, taggedRecord) in enumerate(zip(records, taggedRecords)) *)
Fixpoint capture_all (caps : list pslice) (rid : nat) (recs : list mate)
         (mk : list Z -> list Z -> orec) : outcome (list orec) :=
  match recs with
  | [] => Accept []
  | r :: t =>
    match nth_error caps rid with
    | None => RaiseE E_Index
    | Some sl =>
      bind (capture_all caps (S rid) t mk)
           (fun rest => Accept (mk (pyslice sl (fst r)) (pyslice sl (snd r)) :: rest))
    end
  end.

(* ------------------------------------------------------------------ UmiBarcodeDemuxMethod.demultiplex *)
Definition demux_contig_base (L : clayout) (lookup : lookup_t) (recs : list mate) : outcome (list orec) :=
  let n := Z.of_nat (length recs) in
  if negb ((n =? 1) || (n =? 2)) then Reject else
  bind (idx_or_raise recs (c_bcRead L)) (fun rb =>
  let bsl := slice_range (c_bcStart L) (c_bcStart L + c_bcLength L) in
  let rawbc := pyslice bsl (fst rb) in
  let bcq := pyslice bsl (snd rb) in
  match lookup rawbc with
  | None => Reject
  | Some (bi, BC) =>
    bind (match c_rpRead L with
          | None => Accept None
          | Some r => bind (idx_or_raise recs r) (fun m =>
                      match c_rpSlice L with
                      | None => RaiseE E_Attribute
                      | Some sl => Accept (Some (pyslice sl (fst m)))
                      end)
          end) (fun rS =>
    bind (if c_umiLength L =? 0 then Accept None
          else bind (idx_or_raise recs (c_umiRead L)) (fun ru =>
               let usl := slice_range (c_umiStart L) (c_umiStart L + c_umiLength L) in
               Accept (Some (pyslice usl (fst ru), pyslice usl (snd ru))))) (fun umi =>
    bind (match umi with
          | None => Accept None
          | Some (u, uq) => bind (enc_or_raise uq) (fun rq => Accept (Some rq))
          end) (fun RQ =>
    if negb (Nat.eqb (length BC) (length bcq)) then RaiseE E_Value else
    capture_all (c_capture L) 0 recs
      (fun s q => mkO s q rawbc BC bi (option_map fst umi) RQ rS None None []))))
  end).

(* ------------------------------------------------------------------ Base_RestrictionBisulfiteDemuxMethod.demultiplex *)
Record rbextra := mkRB {
  rb_enzRead : Z; rb_enzStart : Z; rb_enzLength : Z;       (* enzyme id  -> ES, eq *)
  rb_isRead : Z; rb_isStart : Z; rb_isLength : Z           (* ISPCR      -> IS *)
}.
Definition E_Name : Z := 4.

(* own demultiplex: pairs only; no random primer; further tags QT (barcode qualities), ES/eq, IS.
   enz / ispcr are bound only when their length is non-zero: NameError otherwise *)
Definition demux_rb (L : clayout) (R : rbextra) (lookup : lookup_t) (recs : list mate) : outcome (list orec) :=
  let n := Z.of_nat (length recs) in
  if negb (n =? 2) then Reject else
  bind (idx_or_raise recs (c_bcRead L)) (fun rb =>
  let bsl := slice_range (c_bcStart L) (c_bcStart L + c_bcLength L) in
  let rawbc := pyslice bsl (fst rb) in
  let bcq := pyslice bsl (snd rb) in
  match lookup rawbc with
  | None => Reject
  | Some (bi, BC) =>
    bind (if c_umiLength L =? 0 then Accept None
          else bind (idx_or_raise recs (c_umiRead L)) (fun ru =>
               let usl := slice_range (c_umiStart L) (c_umiStart L + c_umiLength L) in
               Accept (Some (pyslice usl (fst ru), pyslice usl (snd ru))))) (fun umi =>
    bind (if rb_enzLength R =? 0 then Accept None
          else bind (idx_or_raise recs (rb_enzRead R)) (fun re =>
               let esl := slice_range (rb_enzStart R) (rb_enzStart R + rb_enzLength R) in
               Accept (Some (pyslice esl (fst re), pyslice esl (snd re))))) (fun enz =>
    bind (if rb_isLength R =? 0 then Accept None
          else bind (idx_or_raise recs (rb_isRead R)) (fun ri =>
               let isl := slice_range (rb_isStart R) (rb_isStart R + rb_isLength R) in
               Accept (Some (pyslice isl (fst ri))))) (fun ispcr =>
    bind (match umi with
          | None => Accept None
          | Some (u, uq) => bind (enc_or_raise uq) (fun rq => Accept (Some rq))
          end) (fun RQ =>
    bind (enc_or_raise bcq) (fun QT =>
    if negb (Nat.eqb (length BC) (length bcq)) then RaiseE E_Value else
    match enz with
    | None => RaiseE E_Name
    | Some (es, eqraw) =>
      bind (enc_or_raise eqraw) (fun eq_ =>
      match ispcr with
      | None => RaiseE E_Name
      | Some is_ =>
        capture_all (c_capture L) 0 recs
          (fun s q => mkO s q rawbc BC bi (option_map fst umi) RQ None None None
                          [(1, QT); (2, es); (3, eq_); (4, is_)])
      end)
    end)))))
  end).

(* ------------------------------------------------------------------ ScatteredUmiBarcodeDemuxMethod.demultiplex *)
Definition apply_slices (sls : list pslice) (s : list Z) : list Z :=
  concat (map (fun sl => pyslice sl s) sls).

(* ''.join(apply_slices_seq(record, slicer) for record, slicer in zip(records, slices)) *)
Definition scatter_seq (recs : list mate) (sls : list (list pslice)) : list Z :=
  concat (map (fun p => apply_slices (snd p) (fst (fst p))) (combine recs sls)).
Definition scatter_qual (recs : list mate) (sls : list (list pslice)) : list Z :=
  concat (map (fun p => apply_slices (snd p) (snd (fst p))) (combine recs sls)).

Definition demux_scattered_base (L : slayout) (lookup : lookup_t) (recs : list mate) : outcome (list orec) :=
  let n := Z.of_nat (length recs) in
  if negb ((n =? 1) || (n =? 2)) then Reject else
  let umi := scatter_seq recs (s_umi L) in
  let umiq := scatter_qual recs (s_umi L) in
  let rawbc := scatter_seq recs (s_bc L) in
  match lookup rawbc with
  | None => Reject
  | Some (bi, BC) =>
    bind (match s_rpRead L with
          | None => Accept None
          | Some r => bind (idx_or_raise recs r) (fun m =>
                      match s_rpSlice L with
                      | None => RaiseE E_Attribute
                      | Some sl => Accept (Some (pyslice sl (fst m)))
                      end)
          end) (fun rS =>
    bind (if is_nil umi then Accept None
          else bind (enc_or_raise umiq) (fun rq => Accept (Some rq))) (fun RQ =>
    capture_all (s_cap L) 0 recs
      (fun s q => mkO s q rawbc BC bi (if is_nil umi then None else Some umi) RQ rS None None [])))
  end.

(* ------------------------------------------------------------------ subclass overrides *)
Definition set_lig (lh lq : list Z) (o : orec) : orec :=
  mkO (o_seq o) (o_qual o) (o_bc o) (o_BC o) (o_bi o) (o_RX o) (o_RQ o) (o_rS o) (Some lh) (Some lq)
      (o_extra o).

Definition wrap (W : wrapper) (base : list mate -> outcome (list orec)) (recs : list mate)
  : outcome (list orec) :=
  if (match w_exact W with Some k => negb (Z.of_nat (length recs) =? k) | None => false end)
  then Reject else
  match w_lig W with
  | None => base recs
  | Some (ls, ll) =>
    bind (idx_or_raise recs 0) (fun r0 =>
    let sl := slice_range ls (ls + ll) in
    bind (base recs) (fun out =>
    bind (enc_or_raise (pyslice sl (snd r0))) (fun lq =>
    if w_need2 W && (Nat.ltb (length out) 2) then RaiseE E_Index
    else Accept (map (set_lig (pyslice sl (fst r0)) lq) out))))
  end.

Definition demux_contig (L : clayout) (W : wrapper) (lookup : lookup_t) (recs : list mate) :=
  wrap W (demux_contig_base L lookup) recs.
Definition demux_scattered (L : slayout) (W : wrapper) (lookup : lookup_t) (recs : list mate) :=
  wrap W (demux_scattered_base L lookup) recs.

(* ------------------------------------------------------------------ the protocol's positions *)
Definition region := (Z * Z * Z)%type.      (* mate, first position, length *)

Record playout := mkP {
  p_bc : list region;            (* barcode pieces, in the order they are concatenated *)
  p_umi : list region;
  p_primer : option region;
  p_lig : option region;
  p_insert : list Z;             (* where the emitted stretch starts: [read 1; read 2] *)
  p_min : Z; p_max : Z           (* number of mates of an accepted input *)
}.

Definition region_eqb (a b : region) : bool :=
  let '(a1, a2, a3) := a in let '(b1, b2, b3) := b in (a1 =? b1) && (a2 =? b2) && (a3 =? b3).
Fixpoint regions_eqb (a b : list region) : bool :=
  match a, b with
  | [], [] => true
  | x :: a', y :: b' => region_eqb x y && regions_eqb a' b'
  | _, _ => false
  end.
Definition oregion_eqb (a b : option region) : bool :=
  match a, b with
  | None, None => true
  | Some x, Some y => region_eqb x y
  | _, _ => false
  end.
Definition playout_eqb (a b : playout) : bool :=
  regions_eqb (p_bc a) (p_bc b) && regions_eqb (p_umi a) (p_umi b) &&
  oregion_eqb (p_primer a) (p_primer b) && oregion_eqb (p_lig a) (p_lig b) &&
  list_eqb (p_insert a) (p_insert b) && (p_min a =? p_min b) && (p_max a =? p_max b).

(* start of slice(a, None) / slice(None); None for any other shape *)
Definition cap_start (s : pslice) : option Z :=
  match ps_start s, ps_stop s with
  | None, None => Some 0
  | Some a, None => if a <? 0 then None else Some a
  | _, _ => None
  end.
(* slice(a, b) with 0 <= a <= b as a (start, length) pair *)
Definition range_of (s : pslice) : option (Z * Z) :=
  match ps_start s, ps_stop s with
  | Some a, Some b => if (0 <=? a) && (a <=? b) then Some (a, b - a) else None
  | _, _ => None
  end.

Fixpoint all_some {A} (l : list (option A)) : option (list A) :=
  match l with
  | [] => Some []
  | Some x :: t => match all_some t with Some r => Some (x :: r) | None => None end
  | None :: _ => None
  end.

Definition uses_mate1 (rs : list region) : bool := existsb (fun r => let '(m, _, _) := r in m =? 1) rs.

Definition mk_playout (bc umi : list region) (primer lig : option region) (ins : list Z) (W : wrapper) : playout :=
  let tags := bc ++ umi ++ (match primer with Some r => [r] | None => [] end) in
  let lo := match w_exact W with
            | Some k => k
            | None => if uses_mate1 tags || (w_need2 W && (match w_lig W with Some _ => true | None => false end))
                      then 2 else 1
            end in
  let hi := match w_exact W with Some k => k | None => 2 end in
  mkP bc umi primer lig ins lo hi.

(* the positions a contiguous layout takes its tags and the insert from; None = not of the
   plain shape (negative or from-the-end bounds, primer at the read end, mate index not 0/1) *)
Definition positions_c (L : clayout) (W : wrapper) : option playout :=
  let okm := fun m => (0 <=? m) && (m <? 2) in
  if negb (okm (c_bcRead L) && (0 <=? c_bcStart L) && (0 <=? c_bcLength L)) then None else
  if negb ((c_umiLength L =? 0) || (okm (c_umiRead L) && (0 <=? c_umiStart L) && (0 <? c_umiLength L))) then None else
  match all_some (map cap_start (c_capture L)) with
  | None => None
  | Some ins =>
    if negb (Nat.eqb (length ins) 2) then None else
    match (match c_rpRead L, c_rpSlice L with
           | None, _ => Some None
           | Some r, Some sl =>
             match range_of sl with
             | Some (0, k) => if okm r then Some (Some (r, 0, k)) else None
             | _ => None
             end
           | Some _, None => None
           end) with
    | None => None
    | Some primer =>
      match (match w_lig W with
             | None => Some None
             | Some (ls, ll) => if (0 <=? ls) && (0 <=? ll) then Some (Some (0, ls, ll)) else None
             end) with
      | None => None
      | Some lig =>
        Some (mk_playout [(c_bcRead L, c_bcStart L, c_bcLength L)]
                         (if c_umiLength L =? 0 then [] else [(c_umiRead L, c_umiStart L, c_umiLength L)])
                         primer lig ins W)
      end
    end
  end.

Definition regions_of_slices (m : Z) (sls : list pslice) : option (list region) :=
  all_some (map (fun sl => match range_of sl with Some (a, k) => Some (m, a, k) | None => None end) sls).

(* scattered layouts: every barcode / UMI piece on read 1 (the only shape registered); pieces on
   read 2 would be skipped silently for single-end input (zip), so they are not "plain" *)
Definition positions_s (L : slayout) (W : wrapper) : option playout :=
  match s_bc L, s_umi L, s_rpRead L with
  | [b0; []], [u0; []], None =>
    match regions_of_slices 0 b0, regions_of_slices 0 u0, all_some (map cap_start (s_cap L)) with
    | Some rb0, Some ru0, Some ins =>
      if negb (Nat.eqb (length ins) 2) then None else
      match (match w_lig W with
             | None => Some None
             | Some (ls, ll) => if (0 <=? ls) && (0 <=? ll) then Some (Some (0, ls, ll)) else None
             end) with
      | None => None
      | Some lig => Some (mk_playout rb0 ru0 None lig ins W)
      end
    | _, _, _ => None
    end
  | _, _, _ => None
  end.

(* ------------------------------------------------------------------ well-formedness of the positions *)
Definition in_region (m p : Z) (r : region) : bool :=
  let '(rm, a, k) := r in (rm =? m) && (a <=? p) && (p <? a + k).
Definition tag_regions (P : playout) : list region :=
  p_bc P ++ p_umi P ++ (match p_primer P with Some r => [r] | None => [] end)
         ++ (match p_lig P with Some r => [r] | None => [] end).
Definition covered (P : playout) (m p : Z) : bool := existsb (in_region m p) (tag_regions P).

Definition zseq (n : Z) : list Z := map Z.of_nat (seq 0 (Z.to_nat n)).

Definition overlap (a b : region) : bool :=
  let '(am, a1, ak) := a in let '(bm, b1, bk) := b in
  (am =? bm) && (a1 <? b1 + bk) && (b1 <? a1 + ak).

Definition wf_p (P : playout) : bool :=
  (* regions are non-negative stretches on read 1 or read 2 *)
  forallb (fun r => let '(m, a, k) := r in (0 <=? m) && (m <? 2) && (0 <=? a) && (0 <=? k)) (tag_regions P)
  && Nat.eqb (length (p_insert P)) 2
  && forallb (fun s => 0 <=? s) (p_insert P)
  (* every position before the insert start lies in a tag region of that mate *)
  && forallb (fun m => forallb (covered P m) (zseq (nth (Z.to_nat m) (p_insert P) 0))) [0; 1]
  (* random primer never overlaps barcode or UMI bases *)
  && (match p_primer P with
      | None => true
      | Some r => negb (existsb (overlap r) (p_bc P ++ p_umi P))
      end)
  (* barcode and UMI pieces do not overlap each other *)
  && forallb (fun b => negb (existsb (overlap b) (p_umi P))) (p_bc P)
  (* a layout restricted to single-end input has nothing on read 2 *)
  && ((2 <=? p_max P) || negb (uses_mate1 (tag_regions P)))
  && (1 <=? p_min P) && (p_min P <=? p_max P) && (p_max P <=? 2)
  && negb (is_nil (p_bc P)).

Definition wf_c (L : clayout) (W : wrapper) : bool :=
  match positions_c L W with Some P => wf_p P | None => false end.
Definition wf_s (L : slayout) (W : wrapper) : bool :=
  match positions_s L W with Some P => wf_p P | None => false end.

(* ------------------------------------------------------------------ the specification: expected records *)
Definition mate_seq (recs : list mate) (m : Z) : list Z :=
  match nth_error recs (Z.to_nat m) with Some r => fst r | None => [] end.
Definition mate_qual (recs : list mate) (m : Z) : list Z :=
  match nth_error recs (Z.to_nat m) with Some r => snd r | None => [] end.
(* the bases / quality characters at the positions of a region (those the read has) *)
Definition reg_seq (recs : list mate) (r : region) : list Z :=
  let '(m, a, k) := r in sub (Z.to_nat a) (Z.to_nat k) (mate_seq recs m).
Definition reg_qual (recs : list mate) (r : region) : list Z :=
  let '(m, a, k) := r in sub (Z.to_nat a) (Z.to_nat k) (mate_qual recs m).
Definition cat_seq (recs : list mate) (rs : list region) : list Z := concat (map (reg_seq recs) rs).
Definition cat_qual (recs : list mate) (rs : list region) : list Z := concat (map (reg_qual recs) rs).

Fixpoint emit_all (ins : list Z) (rid : nat) (recs : list mate) (mk : list Z -> list Z -> orec) : list orec :=
  match recs with
  | [] => []
  | r :: t => let s := Z.to_nat (nth rid ins 0) in
              mk (skipn s (fst r)) (skipn s (snd r)) :: emit_all ins (S rid) t mk
  end.

(* rx_if_nonempty: the scattered base class writes RX/RQ only when the UMI string is non-empty,
   the contiguous one whenever the layout has a UMI *)
Definition expected (P : playout) (rx_if_nonempty : bool) (lookup : lookup_t) (recs : list mate)
  : option (list orec) :=
  let rawbc := cat_seq recs (p_bc P) in
  match lookup rawbc with
  | None => None
  | Some (bi, BC) =>
    let umi := cat_seq recs (p_umi P) in
    let has_rx := if rx_if_nonempty then negb (is_nil umi) else negb (is_nil (p_umi P)) in
    Some (emit_all (p_insert P) 0 recs (fun s q =>
      mkO s q rawbc BC bi
          (if has_rx then Some umi else None)
          (if has_rx then Some (map enc_total (cat_qual recs (p_umi P))) else None)
          (option_map (reg_seq recs) (p_primer P))
          (option_map (reg_seq recs) (p_lig P))
          (option_map (fun r => map enc_total (reg_qual recs r)) (p_lig P))
          []))
  end.

(* restriction-bisulfite: positions of the plain shape and the further tags *)
Definition positions_rb (L : clayout) (R : rbextra) : option (playout * list (Z * region)) :=
  let okm := fun m => (0 <=? m) && (m <? 2) in
  if negb (okm (rb_enzRead R) && (0 <=? rb_enzStart R) && (0 <? rb_enzLength R)
           && okm (rb_isRead R) && (0 <=? rb_isStart R) && (0 <? rb_isLength R)) then None else
  match c_rpRead L, positions_c (mkC (c_umiRead L) (c_umiStart L) (c_umiLength L) (c_bcRead L) (c_bcStart L)
                                     (c_bcLength L) None None (c_capture L)) (mkW (Some 2) None false) with
  | None, Some P =>
    let enz := (rb_enzRead R, rb_enzStart R, rb_enzLength R) in
    Some (P, [(1, (c_bcRead L, c_bcStart L, c_bcLength L)); (2, enz); (3, enz);
              (4, (rb_isRead R, rb_isStart R, rb_isLength R))])
  | _, _ => None
  end.

(* tag 1 (QT) and 3 (eq) are encoded qualities, 2 (ES) and 4 (IS) bases *)
Definition extra_value (recs : list mate) (x : Z * region) : Z * list Z :=
  (fst x, if (fst x =? 1) || (fst x =? 3) then map enc_total (reg_qual recs (snd x)) else reg_seq recs (snd x)).

Definition set_extra (e : list (Z * list Z)) (o : orec) : orec :=
  mkO (o_seq o) (o_qual o) (o_bc o) (o_BC o) (o_bi o) (o_RX o) (o_RQ o) (o_rS o) (o_lh o) (o_lq o) e.

Definition expected_rb (P : playout) (X : list (Z * region)) (lookup : lookup_t) (recs : list mate)
  : option (list orec) :=
  match expected P false lookup recs with
  | Some out => Some (map (set_extra (map (extra_value recs) X)) out)
  | None => None
  end.

(* ------------------------------------------------------------------ boolean equality of outputs (mode 2) *)
Definition olist_eqb (a b : option (list Z)) : bool :=
  match a, b with
  | None, None => true
  | Some x, Some y => list_eqb x y
  | _, _ => false
  end.
Definition orec_eqb (a b : orec) : bool :=
  list_eqb (o_seq a) (o_seq b) && list_eqb (o_qual a) (o_qual b) && list_eqb (o_bc a) (o_bc b) &&
  list_eqb (o_BC a) (o_BC b) && (o_bi a =? o_bi b) && olist_eqb (o_RX a) (o_RX b) &&
  olist_eqb (o_RQ a) (o_RQ b) && olist_eqb (o_rS a) (o_rS b) && olist_eqb (o_lh a) (o_lh b) &&
  olist_eqb (o_lq a) (o_lq b) &&
  Nat.eqb (length (o_extra a)) (length (o_extra b)) &&
  forallb (fun p => (fst (fst p) =? fst (snd p)) && list_eqb (snd (fst p)) (snd (snd p)))
          (combine (o_extra a) (o_extra b)).
Fixpoint orecs_eqb (a b : list orec) : bool :=
  match a, b with
  | [], [] => true
  | x :: a', y :: b' => orec_eqb x y && orecs_eqb a' b'
  | _, _ => false
  end.

(* ------------------------------------------------------------------ tables *)
(* strategy names: byte strings with a string notation ("CS2C8U6"%sname); Coq's own string type is
   avoided because its extracted name would shadow OCaml's string in the shared driver *)
Inductive sname := SName (l : list Byte.byte).
Definition sname_of (l : list Byte.byte) : sname := SName l.
Definition sname_to (s : sname) : list Byte.byte := match s with SName l => l end.
Declare Scope sname_scope.
String Notation sname sname_of sname_to : sname_scope.
Delimit Scope sname_scope with sname.
Fixpoint bytes_eqb (a b : list Byte.byte) : bool :=
  match a, b with
  | [], [] => true
  | x :: a', y :: b' => Byte.eqb x y && bytes_eqb a' b'
  | _, _ => false
  end.
Definition sname_eqb (a b : sname) : bool := bytes_eqb (sname_to a) (sname_to b).

(* one registered strategy as regenerated from the live objects (Gen/GenLayouts.v) *)
Record gen := mkG {
  g_name : sname;               (* shortName *)
  g_kind : Z;                    (* 0 bulk  1 contiguous  2 scattered  3 composite  4 restriction-bisulfite  9 unknown *)
  g_args : cargs;                (* constructor arguments as stored on the object (kind 1, 4) *)
  g_c : clayout;                 (* kind 1, 4 *)
  g_s : slayout;                 (* kind 2 *)
  g_w : wrapper;                 (* traced: exact arity, ligation bases *)
  g_rb : rbextra;                (* kind 4: enzyme / ISPCR attributes *)
  g_traced : option playout      (* positions observed by demultiplexing one pair of reads whose
                                    characters are all distinct (kinds 1, 2, 4) *)
}.

(* one line of the pinned protocol table (Model/C02Protocols.v) *)
Record protocol := mkProto {
  pr_name : sname;
  pr_kind : Z;
  pr_layout : playout;
  pr_extra : list (Z * region)   (* further positional tags (restriction-bisulfite): 1 QT 2 ES 3 eq 4 IS *)
}.
