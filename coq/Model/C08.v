(* C08 model: serial tagging vs. jobs of tasks (contig-per-process and region tiled).
   The region gate [region_action] is GENERATED from tagging.run_tagging_task (Gen/GenOwner.v).
   Definitions only.

   reads      : aligned records [r_lo, r_hi) with an identity
   fragments  : what MatePairIterator + the fragment class make of one or two reads: hash group key
                (match_hash), contig, site (get_site_location, None when there is none), its reads
   molecules  : lists of fragments, made per hash group by an arbitrary assignment function [g]
   tasks      : (contig, start, end, fetch_start, fetch_end); t_region = false is the
                (contig, None, None, None, None) form (whole contig, nothing filtered)            *)
From Coq Require Import ZArith List Bool.
Import ListNotations.
From SCMO Require Import Lib.Val Gen.GenOwner.
Open Scope Z_scope.

Record read := { r_id : Z; r_lo : Z; r_hi : Z }.
Record frag := { f_id : Z; f_key : Z; f_contig : Z; f_site : option Z; f_reads : list read }.
Definition mol := list frag.
Record task := { t_contig : Z; t_region : bool; t_start : Z; t_end : Z; t_fs : Z; t_fe : Z }.

(* ---- run_tagging_task: site of a molecule = site of its first fragment that has one *)
Fixpoint mol_site (m : mol) : option (Z * Z) :=
  match m with
  | [] => None
  | f :: r => match f_site f with Some s => Some (f_contig f, s) | None => mol_site r end
  end.

(* the molecule loop, generic in the gate so that the historical gate (with the stopping
   criterion) can be stated next to the generated one *)
Definition gate := option (Z * Z) -> Z -> Z -> Z -> Z -> Z -> action.

Fixpoint job_loop_gen (act : gate) (t : task) (ms : list mol) : list mol :=
  match ms with
  | [] => []
  | m :: r =>
      if t_region t then
        match act (mol_site m) (t_contig t) (t_start t) (t_end t) (t_fs t) (t_fe t) with
        | AWrite => m :: job_loop_gen act t r
        | ASkip => job_loop_gen act t r
        | AStop => []
        end
      else m :: job_loop_gen act t r
  end.

Definition job_loop := job_loop_gen region_action.

(* the gate as it was before the stopping criterion was removed (kept for the C08_break theorems) *)
Definition act_with_stop : gate := fun site contig start end_ fetch_start fetch_end =>
  match site with
  | None => ASkip
  | Some (c, p) =>
      if p >=? fetch_end then AStop
      else if negb (c =? contig) || (p <? start) || (p >=? end_) then ASkip else AWrite
  end.

(* ---- what a job sees: alignments.fetch(contig, fetch_start, fetch_end) returns the records that
   overlap the window (pysam / htslib contract, modelled) *)
Definition overlaps (t : task) (r : read) : bool := (r_lo r <? t_fe t) && (t_fs t <? r_hi r).
Definition fetched_reads (t : task) (f : frag) : list read := filter (overlaps t) (f_reads f).
Definition fully_fetched (t : task) (f : frag) : bool := forallb (overlaps t) (f_reads f).

(* fragments of the job: a fragment all of whose reads are fetched is the serial fragment; one
   with no fetched read is absent; one that lost a mate is some other fragment [partial t f] *)
Definition job_frag (partial : task -> frag -> frag) (t : task) (f : frag) : list frag :=
  if negb (f_contig f =? t_contig t) then []
  else if negb (t_region t) then [f]
  else if fully_fetched t f then [f]
  else match fetched_reads t f with [] => [] | _ :: _ => [partial t f] end.

Definition job_frags (partial : task -> frag -> frag) (t : task) (fs : list frag) : list frag :=
  flat_map (job_frag partial t) fs.

(* ---- MoleculeIterator, pooling by match_hash: per hash group an arbitrary assignment [g] *)
Definition has_key (k : Z) (f : frag) : bool := f_key f =? k.
Definition keys (fs : list frag) : list Z := nodup Z.eq_dec (map f_key fs).
Definition group (g : list frag -> list mol) (fs : list frag) : list mol :=
  flat_map (fun k => g (filter (has_key k) fs)) (keys fs).

Definition serial (g : list frag -> list mol) (fs : list frag) : list mol := group g fs.

Definition job_run (g : list frag -> list mol) (partial : task -> frag -> frag) (t : task) (fs : list frag) : list mol :=
  job_loop t (group g (job_frags partial t fs)).

(* a job is a list of tasks run one after the other into one file; the files are merged *)
Definition parallel (g : list frag -> list mol) (partial : task -> frag -> frag)
           (jobs : list (list task)) (fs : list frag) : list mol :=
  flat_map (fun job => flat_map (fun t => job_run g partial t fs) job) jobs.

(* records written for a molecule: every read with the tags computed from the molecule *)
Definition write (tagf : mol -> frag -> read -> Z) (m : mol) : list (Z * Z) :=
  flat_map (fun f => map (fun r => (r_id r, tagf m f r)) (f_reads f)) m.

(* ---- ownership *)
Definition owns (t : task) (c s : Z) : bool :=
  match region_action (Some (c, s)) (t_contig t) (t_start t) (t_end t) (t_fs t) (t_fe t) with
  | AWrite => true | _ => false end.

(* does task t write the molecules of a hash group with contig c and site s *)
Definition accepts (t : task) (c : Z) (s : option Z) : bool :=
  if t_region t then match s with Some p => owns t c p | None => false end
  else c =? t_contig t.

Definition n_accept (ts : list task) (c : Z) (s : option Z) : nat :=
  length (filter (fun t => accepts t c s) ts).

(* region tasks of one contig tile [lo, hi): consecutive, non-empty, disjoint, covering *)
Fixpoint chain (c lo hi : Z) (ts : list task) : bool :=
  match ts with
  | [] => lo =? hi
  | t :: r => t_region t && (t_contig t =? c) && (t_start t =? lo) && (lo <? t_end t) && chain c (t_end t) hi r
  end.

(* fetch margins: at least L on each side, or clipped at the contig ends (0 / len); the window
   does not start before the contig (pysam refuses a negative start) *)
Definition margin_ok (L len : Z) (t : task) : bool :=
  ((t_fs t <=? t_start t - L) || (t_fs t <=? 0)) && ((t_end t + L <=? t_fe t) || (len <=? t_fe t)) &&
  (0 <=? t_fs t).

(* a job list in region mode / contig mode: a list of (contig, length, tasks-of-that-contig);
   region contigs are tiled [0,len); a non-region contig has exactly one whole-contig task *)
Definition contig_plan := (Z * Z * list task)%type.
Definition plan_ok (L : Z) (p : contig_plan) : bool :=
  let '(c, len, ts) := p in
  match ts with
  | [t] => if t_region t then chain c 0 len ts && forallb (margin_ok L len) ts
           else t_contig t =? c
  | _ => chain c 0 len ts && forallb (margin_ok L len) ts
  end.
Definition plan_tasks (ps : list contig_plan) : list task := flat_map (fun p => snd p) ps.
Definition plan_contigs (ps : list contig_plan) : list Z := map (fun p => fst (fst p)) ps.
Fixpoint distinct (l : list Z) : bool :=
  match l with [] => true | x :: r => negb (existsb (Z.eqb x) r) && distinct r end.
Definition plans_ok (L : Z) (ps : list contig_plan) : bool :=
  forallb (plan_ok L) ps && distinct (plan_contigs ps).

(* fragment geometry: every read is a non-empty interval inside the contig and the extent of the
   fragment (its reads and its site) is at most L *)
Definition read_ok (len : Z) (r : read) : bool := (0 <=? r_lo r) && (r_lo r <? r_hi r) && (r_hi r <=? len).
Definition frag_ok (L len : Z) (f : frag) : bool :=
  forallb (read_ok len) (f_reads f) &&
  forallb (fun r => forallb (fun r' => r_hi r - r_lo r' <=? L) (f_reads f)) (f_reads f) &&
  match f_site f with
  | None => true
  | Some s => forallb (fun r => (s + 1 - r_lo r <=? L) && (r_hi r - s <=? L)) (f_reads f)
  end.

(* ---- utils.binning.bp_chunked (hand model; K compares it with the real generator) *)
Fixpoint bp_chunked_go (bp_per_job : Z) (jobs : list task) (bp_current : Z) (cur : list task) : list (list task) :=
  match jobs with
  | [] => [cur]
  | j :: r =>
      let bp := bp_current + Z.abs (t_end j - t_start j) in
      if bp >=? bp_per_job then (cur ++ [j]) :: bp_chunked_go bp_per_job r 0 []
      else bp_chunked_go bp_per_job r bp (cur ++ [j])
  end.
Definition bp_chunked (jobs : list task) (bp_per_job : Z) : list (list task) := bp_chunked_go bp_per_job jobs 0 [].

(* ---- concrete instances for the executable model (the theorems hold for every g / partial) *)
Definition g_one (l : list frag) : list mol := match l with [] => [] | _ => [l] end.
(* a fragment that lost a mate: with its first read (R1) it keeps hash and site; without it the
   fragment class rejects it and anchors it at the start of the first remaining read *)
Definition partial_nla (t : task) (f : frag) : frag :=
  match f_reads f with
  | r1 :: _ =>
      if overlaps t r1 then {| f_id := f_id f; f_key := f_key f; f_contig := f_contig f; f_site := f_site f;
                               f_reads := fetched_reads t f |}
      else {| f_id := f_id f; f_key := - (f_id f) - 1; f_contig := f_contig f;
              f_site := match fetched_reads t f with r :: _ => Some (r_lo r) | [] => None end;
              f_reads := fetched_reads t f |}
  | [] => f
  end.

(* ---- I/O glue *)
Definition dec_read (v : Val) : read :=
  {| r_id := getZ (nthV 0 v); r_lo := getZ (nthV 1 v); r_hi := getZ (nthV 2 v) |}.
Definition dec_frag (v : Val) : frag :=
  {| f_id := getZ (nthV 0 v); f_key := getZ (nthV 1 v); f_contig := getZ (nthV 2 v);
     f_site := getOptZ (nthV 3 v); f_reads := map dec_read (getL (nthV 4 v)) |}.
Definition dec_task (v : Val) : task :=
  {| t_contig := getZ (nthV 0 v); t_region := getB (nthV 1 v); t_start := getZ (nthV 2 v);
     t_end := getZ (nthV 3 v); t_fs := getZ (nthV 4 v); t_fe := getZ (nthV 5 v) |}.
Definition enc_task (t : task) : Val :=
  VL [VZ (t_contig t); ofB (t_region t); VZ (t_start t); VZ (t_end t); VZ (t_fs t); VZ (t_fe t)].
Definition dec_plan (v : Val) : contig_plan :=
  (getZ (nthV 0 v), getZ (nthV 1 v), map dec_task (getL (nthV 2 v))).
Definition mol_read_ids (ms : list mol) : list Z :=
  flat_map (fun m => flat_map (fun f => map r_id (f_reads f)) m) ms.

(* precondition of C08_equiv on a concrete input: the plans are well formed and the fragments of
   every planned contig are compact; and every task appears in the plans *)
Definition frags_ok (L : Z) (ps : list contig_plan) (fs : list frag) : bool :=
  forallb (fun f => forallb (fun p => let '(c, len, ts) := p in
                                      negb (f_contig f =? c) || negb (existsb t_region ts) || frag_ok L len f) ps) fs.

(* mode 0: [jobs; frags; gatekind]       -> read ids written by every task, per job, in loop order
                                            (gatekind 0 = generated gate, 1 = historical gate with stop)
   mode 1: [L; plans; frags]             -> [plans_ok; frags_ok; per fragment number of accepting tasks]
   mode 2: [tasks; bp_per_job]           -> bp_chunked
   mode 3: [site opt (contig,pos); task] -> action code of the generated gate (0 write 1 skip 2 stop)
   mode 4: [task; molecules]             -> ids (f_id of the first fragment) of the molecules the loop
                                            of run_tagging_task writes, in order *)
Definition run_C08 (mode : Z) (v : Val) : Val :=
  match mode with
  | 0 => let jobs := map (fun j => map dec_task (getL j)) (getL (nthV 0 v)) in
         let fs := map dec_frag (getL (nthV 1 v)) in
         let act := if getZ (nthV 2 v) =? 0 then region_action else act_with_stop in
         VL (map (fun job => VL (map (fun t =>
               ofZs (mol_read_ids (job_loop_gen act t (group g_one (job_frags partial_nla t fs))))) job)) jobs)
  | 1 => let L := getZ (nthV 0 v) in
         let ps := map dec_plan (getL (nthV 1 v)) in
         let fs := map dec_frag (getL (nthV 2 v)) in
         VL [ofB (plans_ok L ps); ofB (frags_ok L ps fs);
             VL (map (fun f => VZ (Z.of_nat (n_accept (plan_tasks ps) (f_contig f) (f_site f)))) fs)]
  | 2 => VL (map (fun job => VL (map enc_task job))
                 (bp_chunked (map dec_task (getL (nthV 0 v))) (getZ (nthV 1 v))))
  | 3 => let site := match getL (nthV 0 v) with [VZ c; VZ p] => Some (c, p) | _ => None end in
         let t := dec_task (nthV 1 v) in
         VZ (match region_action site (t_contig t) (t_start t) (t_end t) (t_fs t) (t_fe t) with
             | AWrite => 0 | ASkip => 1 | AStop => 2 end)
  | 4 => let t := dec_task (nthV 0 v) in
         let ms := map (fun m => map dec_frag (getL m)) (getL (nthV 1 v)) in
         ofZs (map (fun m => match m with f :: _ => f_id f | [] => -1 end) (job_loop t ms))
  | _ => bad
  end.
