(* C01: the SPECIFICATION as a decision procedure (specb_C01) over what can be observed of one run:
   the lines of the input files, the records the reader yielded, the records of every output file (each attributed to
   the input pair it stems from and, for demultiplexed records, to the strategy that wrote it), the returned counters
   and the counters in the log.  It is evaluated by the extracted binary (run_C01 mode 2, Model/C01x.v) on the REAL
   output files of the implementation; Proofs/C01Spec.v proves  specb = true <-> spec  (spec_C01: the propositional
   statement) and that the model's run satisfies spec (model_satisfies_spec).  Definitions only.

   The clauses restate Props/C01.v on observables:
     stop / reader   C01_stop_rule        the reader yields the rows before the first exhausted index, and only those
     processed       C01_processed        processedReadPairs = c, the consumed pairs are the first c; fewer than all only
                                          at a maxReadPairs cut-off (free: whether a cut-off <= 0 consumes one pair or none)
     order           C01_order            the records of every R1 file are in input order
     sync            C01_mate_sync        R1 and R2 of a sink (and cell) stem from the same pairs, index by index
     beyond          C01_nothing_beyond   no record stems from a pair that was not consumed
     partition       C01_exactly_once     every consumed pair: demultiplexed + rejected = number of strategies (with a
                                          rejects handle; without: rejected = 0, demultiplexed <= number of strategies)
     twice           C01_exactly_once     no pair is demultiplexed twice by the same strategy
     reject content / reason  C01_partition  a rejected record is header / ORIGINAL bases / plus / ORIGINAL qualities, its
                                          header carries a rejection reason (RR:)
     yields          C01_counters_written the yield counters are the numbers of demultiplexed R1 records
     log                                  the log reports the returned counters *)
From Coq Require Import ZArith List Bool.
Import ListNotations.
From SCMO Require Import Lib.Val Model.C01.
Open Scope Z_scope.

(* ------------------------------------------------------------------ observations *)
Record orec := mkOrec {
  o_pair : Z;             (* index of the input pair the record stems from *)
  o_strat : option nat;   (* demultiplexed records: index of the strategy that wrote it, when known *)
  o_text : str            (* the record: four lines, each terminated by a newline *)
}.

Record ofile := mkOfile { f_target : bool; f_cell : str; f_mate : nat; f_recs : list orec }.

Record sconf := mkSconf {
  s_ns : nat;             (* number of selected strategies *)
  s_rejects : bool;       (* a rejects handle was given *)
  s_width : nat;          (* mate files per sink: min(handles of the joint FastqHandle, input files) *)
  s_max : option Z        (* maxReadPairs *)
}.

Record obs := mkObs {
  ob_in : list (list str);         (* the lines of the mate files *)
  ob_pairs : list pair;            (* what the reader yielded *)
  ob_out : list ofile;
  ob_processed : Z;
  ob_yields : list Z;              (* per selected strategy (a trailing entry: all other keys together) *)
  ob_log : option (Z * list Z)
}.

(* ------------------------------------------------------------------ helpers *)
Definition NLc : Z := 10.

(* split at newlines: lines "a\nb\n" = ["a"; "b"; ""] *)
Fixpoint lines (s : str) : list str :=
  match s with
  | [] => [[]]
  | c :: t => if c =? NLc then [] :: lines t
              else match lines t with l :: ls => (c :: l) :: ls | [] => [[c]] end
  end.

Fixpoint prefixb (a b : str) : bool :=
  match a, b with
  | [], _ => true
  | x :: a', y :: b' => (x =? y) && prefixb a' b'
  | _ :: _, [] => false
  end.

Fixpoint containsb (needle hay : str) : bool :=
  prefixb needle hay || match hay with [] => false | _ :: t => containsb needle t end.

Definition tagR : str := [82; 82; 58].    (* "RR:" *)

Fixpoint list_eqb {A} (eqb : A -> A -> bool) (a b : list A) : bool :=
  match a, b with
  | [], [] => true
  | x :: a', y :: b' => eqb x y && list_eqb eqb a' b'
  | _, _ => false
  end.

Fixpoint sortedb (l : list Z) : bool :=
  match l with
  | a :: (b :: _) as t => (a <=? b) && sortedb t
  | _ => true
  end.

Fixpoint nodupb (l : list nat) : bool :=
  match l with
  | [] => true
  | x :: t => negb (existsb (Nat.eqb x) t) && nodupb t
  end.

Fixpoint somes {A} (l : list (option A)) : list A :=
  match l with
  | [] => []
  | Some x :: t => x :: somes t
  | None :: t => somes t
  end.

Definition sumZ (l : list Z) : Z := fold_right Z.add 0 l.

Definition at_sink (t : bool) (m : nat) (f : ofile) : bool := Bool.eqb (f_target f) t && Nat.eqb (f_mate f) m.
Definition at_file (t : bool) (cell : str) (m : nat) (f : ofile) : bool :=
  Bool.eqb (f_target f) t && str_eqb (f_cell f) cell && Nat.eqb (f_mate f) m.

(* all records of mate file m of a sink (all cells) / of one (sink, cell, mate) file *)
Definition recs_at (o : list ofile) (t : bool) (m : nat) : list orec := concat (map f_recs (filter (at_sink t m) o)).
Definition recs_of (o : list ofile) (t : bool) (cell : str) (m : nat) : list orec :=
  concat (map f_recs (filter (at_file t cell m) o)).

Definition from_pair (u : Z) (r : orec) : bool := o_pair r =? u.
Definition count_pair (u : Z) (l : list orec) : nat := length (filter (from_pair u) l).
Definition by_strat (j : nat) (r : orec) : bool := match o_strat r with Some k => Nat.eqb k j | None => false end.
Definition count_strat (j : nat) (l : list orec) : nat := length (filter (by_strat j) l).

Definition zrange0 (n : Z) : list Z := map Z.of_nat (seq 0 (Z.to_nat n)).

(* ------------------------------------------------------------------ the clauses, as booleans *)
Section Clauses.
  Variable sc : sconf.
  Variable ob : obs.

  Let n : nat := length (ob_pairs ob).
  Let c : Z := ob_processed ob.
  Let tgt : list orec := recs_at (ob_out ob) true 0.
  Let rej : list orec := recs_at (ob_out ob) false 0.

  Definition stopb : bool :=
    forallb (fun k => negb (exhausted k (ob_in ob))) (seq 0 n) && exhausted n (ob_in ob).

  Definition readerb : bool :=
    forallb (fun k => pair_eqb (nth k (ob_pairs ob) []) (row k (ob_in ob))) (seq 0 n).

  Definition processedb : bool :=
    (0 <=? c) && (c <=? Z.of_nat n)
    && (negb (c <? Z.of_nat n) || match s_max sc with Some m => m <=? c | None => false end)
    && match s_max sc with Some m => c <=? Z.max 1 m | None => true end.

  Definition orderb : bool :=
    forallb (fun f => sortedb (map o_pair (recs_of (ob_out ob) (f_target f) (f_cell f) 0))) (ob_out ob).

  Definition syncb : bool :=
    negb (Nat.eqb (s_width sc) 2) ||
    forallb (fun f => list_eqb Z.eqb (map o_pair (recs_of (ob_out ob) (f_target f) (f_cell f) 0))
                                     (map o_pair (recs_of (ob_out ob) (f_target f) (f_cell f) 1))) (ob_out ob).

  Definition beyondb : bool := forallb (fun r => (0 <=? o_pair r) && (o_pair r <? c)) (tgt ++ rej).

  Definition partitionb : bool :=
    forallb (fun u => let a := count_pair u tgt in let b := count_pair u rej in
                      if s_rejects sc then Nat.eqb (a + b) (s_ns sc) else Nat.eqb b 0 && Nat.leb a (s_ns sc))
            (zrange0 c).

  Definition twiceb : bool :=
    forallb (fun r => nodupb (somes (map o_strat (filter (from_pair (o_pair r)) tgt)))) tgt.

  (* the input record a reject record must repeat: pair o_pair, mate file f_mate *)
  Definition original (f : ofile) (r : orec) : option read :=
    nth_error (nth (Z.to_nat (o_pair r)) (ob_pairs ob) []) (f_mate f).

  Definition in_input (r : orec) : bool := (0 <=? o_pair r) && (o_pair r <? Z.of_nat n).

  Definition reject_contentb : bool :=
    forallb (fun f => f_target f ||
                      forallb (fun r => negb (in_input r) ||
                                        match original f r, lines (o_text r) with
                                        | Some orig, [_; s; _; q; []] => str_eqb s (r_seq orig) && str_eqb q (r_qual orig)
                                        | _, _ => false
                                        end) (f_recs f)) (ob_out ob).

  Definition reject_reasonb : bool :=
    forallb (fun f => f_target f ||
                      forallb (fun r => negb (in_input r) || containsb tagR (hd [] (lines (o_text r)))) (f_recs f)) (ob_out ob).

  Definition yieldsb : bool :=
    (sumZ (ob_yields ob) =? Z.of_nat (length tgt))
    && forallb (fun j => Nat.eqb (count_strat j tgt) 0 || (nth j (ob_yields ob) 0 =? Z.of_nat (count_strat j tgt)))
               (seq 0 (s_ns sc)).

  Definition logb : bool :=
    match ob_log ob with
    | None => true
    | Some (lp, lys) => (lp =? c) && list_eqb Z.eqb lys (ob_yields ob)
    end.

  Definition spec_clauses : list bool :=
    [stopb; readerb; processedb; orderb; syncb; beyondb; partitionb; twiceb; reject_contentb; reject_reasonb; yieldsb; logb].

  Definition specb_C01 : bool := forallb (fun b => b) spec_clauses.
End Clauses.

(* ------------------------------------------------------------------ reading the real output files (glue of run_C01 mode 2)
   An output file arrives as its text.  It is cut into 4-line records here; a record is attributed to its input pair by
   the unique 5-digit id 1xxxx the generator of the correspondence check puts into every header (a maximal run of
   digits of length 5 starting with 1; all such runs of a header must agree), and to a strategy as mx_of says. *)
Definition is_digit (c : Z) : bool := (48 <=? c) && (c <=? 57).

(* maximal digit runs of a string *)
Fixpoint digit_runs (s : str) (cur : str) : list str :=
  match s with
  | [] => match cur with [] => [] | _ => [rev cur] end
  | c :: t => if is_digit c then digit_runs t (c :: cur)
              else match cur with [] => digit_runs t [] | _ => rev cur :: digit_runs t [] end
  end.

Definition is_uid (r : str) : bool := Nat.eqb (length r) 5 && match r with c :: _ => c =? 49 | [] => false end.

Definition dec_value (r : str) : Z := fold_left (fun acc c => 10 * acc + (c - 48)) r 0.

Definition uid_of (header : str) : option Z :=
  match filter is_uid (digit_runs header []) with
  | [] => None
  | r :: rest => if forallb (str_eqb r) rest then Some (dec_value r - 10000) else None
  end.

(* fields of a header separated by ';' *)
Fixpoint split_on (sep : Z) (s : str) : list str :=
  match s with
  | [] => [[]]
  | c :: t => if c =? sep then [] :: split_on sep t
              else match split_on sep t with l :: ls => (c :: l) :: ls | [] => [[c]] end
  end.

Definition tagMX : str := [77; 88; 58].   (* "MX:" *)

(* the strategy a demultiplexed record is attributed to: with one selected strategy, that one; with several, by the value of
   its first header field  MX:<name>  (fields separated by ';').  names = per selected strategy the MX values only IT emits
   (measured by the harness on the real strategies: a composite strategy tags its records with the name of the component
   it delegates to, so a name emitted by two selected strategies attributes nothing) *)
Fixpoint index_in (x : str) (l : list (list str)) (k : nat) : option nat :=
  match l with
  | [] => None
  | ys :: t => if existsb (str_eqb x) ys then Some k else index_in x t (S k)
  end.

Definition mx_of (single : bool) (names : list (list str)) (header : str) : option nat :=
  if single then Some 0%nat
  else match filter (prefixb tagMX) (split_on 59 (tl header)) with
       | f :: _ => index_in (skipn 3 f) names 0
       | [] => None
       end.

Definition nl_join (ls : list str) : str := concat (map (fun l => l ++ [NLc]) ls).

(* lines of a file -> groups of four; None: not a sequence of 4-line records with '@' headers *)
Fixpoint group4 (fuel : nat) (ls : list str) : option (list (list str)) :=
  match fuel with
  | O => None
  | S f =>
      match ls with
      | [] => Some []
      | h :: s :: p :: q :: rest =>
          match h with
          | 64 :: _ => match group4 f rest with Some g => Some ([h; s; p; q] :: g) | None => None end
          | _ => None
          end
      | _ => None
      end
  end.

Definition parse_file (text : str) : option (list (list str)) :=
  match text with
  | [] => Some []
  | _ => let ls := lines text in
         match rev ls with
         | [] :: body => group4 (S (length ls)) (rev body)     (* the text ends with a newline *)
         | _ => None
         end
  end.

(* one output file: (target cell mate text) -> (format ok, attribution ok, file) *)
Definition dec_ofile (single : bool) (names : list (list str)) (v : Val) : bool * bool * ofile :=
  let t := getB (nthV 0 v) in
  let cell := dec_str (nthV 1 v) in
  let m := Z.to_nat (getZ (nthV 2 v)) in
  match parse_file (dec_str (nthV 3 v)) with
  | None => (false, true, mkOfile t cell m [])
  | Some groups =>
      let recs := map (fun g => let h := hd [] g in
                                (uid_of h, mkOrec (match uid_of h with Some u => u | None => -1 end)
                                                  (if t then mx_of single names h else None) (nl_join g))) groups in
      (true, forallb (fun ur => match fst ur with Some _ => true | None => false end) recs, mkOfile t cell m (map snd recs))
  end.

Definition dec_sconf (v : Val) : sconf :=
  mkSconf (Z.to_nat (getZ (nthV 0 v))) (getB (nthV 1 v)) (Z.to_nat (getZ (nthV 2 v))) (getOptZ (nthV 3 v)).

Definition dec_pairs (v : Val) : list pair := map (fun p => map dec_read (getL p)) (getL v).

Definition dec_log (v : Val) : option (Z * list Z) :=
  match getL v with
  | [p; ys] => Some (getZ p, getZs ys)
  | _ => None
  end.

(* input: (sconf in_files pairs_read out_files processed yields log names single)
   output: ((format_ok attribution_ok) (clause ...))   clause order = spec_clauses *)
Definition run_spec (v : Val) : Val :=
  let names := map (fun l => map dec_str (getL l)) (getL (nthV 7 v)) in
  let fs := map (dec_ofile (getB (nthV 8 v)) names) (getL (nthV 3 v)) in
  let ob := mkObs (dec_files (nthV 1 v)) (dec_pairs (nthV 2 v)) (map snd fs) (getZ (nthV 4 v)) (getZs (nthV 5 v))
                  (dec_log (nthV 6 v)) in
  VL [VL [ofB (forallb (fun x => fst (fst x)) fs); ofB (forallb (fun x => snd (fst x)) fs)];
      VL (map ofB (spec_clauses (dec_sconf (nthV 0 v)) ob))].
