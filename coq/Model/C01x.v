(* C01: the modes of the extracted binary.  The loader of Model/C01.v is instantiated with the shape of the loop that
   tools/c01.py regenerates from the current source (Gen/GenLoader.v : loader_shape); mode 2 is the boolean
   specification of Model/C01Spec.v evaluated on observations of the implementation.  Definitions only. *)
From Coq Require Import ZArith List Bool.
Import ListNotations.
From SCMO Require Import Lib.Val Lib.C01Shape Gen.GenLoader Model.C01 Model.C01Spec.
Open Scope Z_scope.

Definition enc_sink (s : sink) : Val := VZ (match s with SNone => 0 | STarget => 1 | SReject => 2 end).
Definition enc_arm (a : arm) : Val := VL [enc_sink (arm_sink a); ofB (arm_guarded a); ofB (arm_counts a)].
Definition enc_shape (s : shape) : Val :=
  VL [enc_arm (sh_accept s); enc_arm (sh_reject s); enc_arm (sh_generic s); ofB (sh_count_early s);
      ofB (sh_incr_before_test s); ofB (sh_strat_before_test s); ofB (wf_shape s)].

Definition run_loader (v : Val) : result :=
  demultiplex loader_shape (map dec_strategy (getL (nthV 2 v))) (dec_rejhdr (nthV 3 v))
              (dec_config (nthV 0 v)) (dec_files (nthV 1 v)).

(* mode 0: input (config files strategies rejhdr) -> the whole run: (crashed processed yields files)
   mode 1: same input -> precondition of the theorems: the run did not crash
   mode 2: input (sconf in_files pairs_read out_files processed yields log names single) -> the specification on an observed
           run: ((format_ok attribution_ok) (clause ...)), see Model/C01Spec.v
   mode 3: input (_ files ...) -> the reader alone: the records FastqIterator yields
   mode 4: the regenerated shape of the loop and whether it is well-formed *)
Definition run_C01 (mode : Z) (v : Val) : Val :=
  match mode with
  | 0 => enc_result (run_loader v)
  | 1 => ofB (negb (res_crashed (run_loader v)))
  | 2 => run_spec v
  | 3 => VL (map (fun p => VL (map enc_read p)) (fastq_iter (dec_files (nthV 1 v))))
  | 4 => enc_shape loader_shape
  | _ => bad
  end.
