(* C16 extension: the feature LOADERS (loadGTF / loadBED, tokenised columns) and the remaining lookup entry points of
   FeatureContainer (findNearestLeftFeature / findNearestRightFeature / findNearestFeature / findFeaturesBetweenBRK)
   on top of the state machine of Model/C16.v.  Definitions only (extracted).
   Strings are [list Z] (character codes).  The container keys features by Python strings (contig, name, data); the
   machine of Model/C16.v uses integers: every loader takes [code : str -> Z], the (injective, for K order preserving)
   numbering of the strings - the theorems hold for every [code]; K uses the position in the sorted table of all
   strings of the case ([intern]).
   As coded (modelled faithfully, see Props/C16.v for what holds and what is refuted):
     findNearestLeftFeature   clips the searchsorted index with len(self.endCoordinates) = the NUMBER OF CONTIGS, uses the
                              position in the end-sorted array as position in the start-sorted list, and returns features[0]
                              whatever its strand when the strand walk reaches index 0
     findFeaturesBetweenBRK   tests `chromosome not in self.startCoordinates` BEFORE any re-index ([g_autosort_brk] = false at HEAD)
     findNearestFeature       lru_cache of its own (cleared together with the findFeaturesAt cache: [g_clear_near]); the
                              strand argument is ignored when the coordinate lies inside a feature *)
From Coq Require Import ZArith List Bool.
Import ListNotations.
From SCMO Require Import Lib.Val Gen.GenFeatures Model.C16 Model.C16a.
Open Scope Z_scope.

(* ------------------------------------------------------------------ strings *)
Definition str := list Z.
Fixpoint str_eqb (a b : str) : bool :=
  match a, b with
  | [], [] => true
  | x :: a', y :: b' => (x =? y) && str_eqb a' b'
  | _, _ => false
  end.
Definition str_in (s : str) (l : list str) : bool := existsb (str_eqb s) l.
Definition opt_in (s : str) (o : option (list str)) : bool := match o with None => true | Some l => str_in s l end.

(* s.replace('chr', ''): left to right, non overlapping, the result is not rescanned *)
Fixpoint strip_chr (s : str) : str :=
  match s with
  | [] => []
  | a :: t =>
      match t with
      | b :: c :: t' => if (a =? 99) && (b =? 104) && (c =? 114) then strip_chr t' else a :: strip_chr t
      | _ => a :: strip_chr t
      end
  end.

(* ','.join(l) *)
Definition join (sep : Z) (l : list str) : str :=
  match l with [] => [] | a :: t => a ++ flat_map (fun s => sep :: s) t end.

Fixpoint assoc_str (k : str) (l : list (str * str)) : option str :=
  match l with
  | [] => None
  | (k', v) :: t => if str_eqb k k' then Some v else assoc_str k t
  end.
(* keyValues[key] = value in file order: the last occurrence wins *)
Definition kv_get (k : str) (attrs : list (str * str)) : option str := assoc_str k (rev attrs).
(* self.remapKeys.get(c, c) *)
Definition remap (m : list (str * str)) (c : str) : str := match assoc_str c m with Some v => v | None => c end.

(* position (from 1) in a table; K: the sorted table of all strings of a case.  0 is None *)
Fixpoint index_of (s : str) (tab : list str) (i : Z) : Z :=
  match tab with
  | [] => -1
  | t :: r => if str_eqb s t then i else index_of s r (i + 1)
  end.
Definition intern (tab : list str) (s : str) : Z := index_of s tab 1.

Definition s_gene_id : str := [103; 101; 110; 101; 95; 105; 100].          (* "gene_id" *)
Definition s_type_colon : str := [116; 121; 112; 101; 58].                  (* "type:" *)
Definition s_comma_gene_id_colon : str := 44 :: s_gene_id ++ [58].          (* ",gene_id:" *)
(* strand column -> strand of the feature tuple; anything but '+' / '-' makes addFeature raise ValueError (3 = invalid) *)
Definition strand_code (s : str) : Z :=
  if str_eqb s [43] then 1 else if str_eqb s [45] then 2 else 3.

(* ------------------------------------------------------------------ loadGTF, one tokenised line *)
(* line.rstrip().split(None, 8): chrom, source, type, start, end, score, strand, frame, attributes; the attribute column
   as the list of its `key "value"` pairs (two whitespace separated tokens, quotes removed), in file order;
   start / end are the integers int() reads.  gr_comment: line[0] == '#'. *)
Record grec := mkG { gr_comment : bool; gr_chrom : str; gr_type : str; gr_start : Z; gr_end : Z;
                     gr_strand : str; gr_frame : str; gr_attrs : list (str * str) }.
(* keyword arguments of loadGTF (store_all = False, identifierFields a list): contig, thirdOnly, select_feature_type,
   exon_select, identifierFields, ignChr, offset, (region_start, region_end), head; and self.remapKeys *)
Record gpar := mkGP { gp_contig : option str; gp_third : option (list str); gp_select : option (list str);
                      gp_exon : option (list str); gp_ident : list str; gp_ignchr : bool; gp_offset : Z;
                      gp_region : option (Z * Z); gp_head : option Z; gp_remap : list (str * str) }.
Definition gpar_default : gpar := mkGP None None None None [s_gene_id] false (-1) None None [].

Inductive lres := LSkip | LAdd (c : Z) (f : feat) | LErr (e : Z).      (* e = 5: KeyError *)

Definition gtf_name (p : gpar) (r : grec) : str :=
  join 44 (flat_map (fun i => match kv_get i (gr_attrs r) with Some v => [v] | None => [] end) (gp_ident p)).

Definition gtf_line (code : str -> Z) (p : gpar) (r : grec) : lres :=
  if gr_comment r then LSkip else
  if negb (match gp_contig p with None => true | Some c => str_eqb (gr_chrom r) c end) then LSkip else
  if negb (opt_in (gr_type r) (gp_third p)) then LSkip else
  if negb (opt_in (gr_type r) (gp_select p)) then LSkip else
  if negb (opt_in (gr_frame r) (gp_exon p)) then LSkip else
  let chrom := remap (gp_remap p) (gr_chrom r) in
  let chromosome := if gp_ignchr p then strip_chr chrom else chrom in
  let s := gr_start r + gp_offset p in
  let e := gr_end r + gp_offset p in
  if (match gp_region p with Some (rs, re) => (e <? rs) || (s >? re) | None => false end) then LSkip else
  match kv_get s_gene_id (gr_attrs r) with
  | None => LErr 5
  | Some gid =>
      LAdd (code (remap (gp_remap p) chromosome))
           (mkF s e (code (gtf_name p r)) (strand_code (gr_strand r))
                (code (s_type_colon ++ gr_type r ++ s_comma_gene_id_colon ++ gid)))
  end.

(* the loop over the lines: the addFeature calls it makes, and the exception (if any) that ends it before sort();
   `if head is not None and added > head: break` is tested before every line *)
Fixpoint gtf_compile (code : str -> Z) (p : gpar) (added : Z) (recs : list grec) : list op * option Z :=
  match recs with
  | [] => ([], None)
  | r :: t =>
      if (match gp_head p with Some h => added >? h | None => false end) then ([], None) else
      match gtf_line code p r with
      | LSkip => gtf_compile code p added t
      | LErr e => ([], Some e)
      | LAdd c f => let '(ops, e) := gtf_compile code p (added + 1) t in (Add c f :: ops, e)
      end
  end.

(* printing a feature as a GTF line (1 based inclusive coordinates, default offset -1) *)
Record frec := mkR { r_contig : str; r_start : Z; r_end : Z; r_plus : bool; r_gene : str; r_type : str; r_more : list (str * str) }.
Definition print_gtf (r : frec) : grec :=
  mkG false (r_contig r) (r_type r) (r_start r + 1) (r_end r + 1) (if r_plus r then [43] else [45]) [46]
      (r_more r ++ [(s_gene_id, r_gene r)]).
Definition frec_feat (code : str -> Z) (r : frec) : Z * feat :=
  (code (r_contig r),
   mkF (r_start r) (r_end r) (code (r_gene r)) (if r_plus r then 1 else 2)
       (code (s_type_colon ++ r_type r ++ s_comma_gene_id_colon ++ r_gene r))).

(* ------------------------------------------------------------------ loadBED, one tokenised line (parseBlocks = False,
   or lines without block columns) *)
(* b_track: first token is "track"; b_n: number of columns; b_idx: line index (name of 2 / 3 column lines) *)
Record brec := mkB { b_track : bool; b_n : Z; b_idx : Z; b_chrom : str; b_start : Z; b_end : Z; b_name : str; b_strand : str }.

Fixpoint digits (fuel : nat) (n : Z) (acc : str) : str :=
  match fuel with
  | O => acc
  | S k => let acc' := (48 + n mod 10) :: acc in if n <? 10 then acc' else digits k (n / 10) acc'
  end.
Definition dec_str (n : Z) : str := digits 40 n [].     (* str(line_idx), line_idx >= 0 *)

(* e = 6: ValueError('Could not read the supplied bed file ...') *)
Definition bed_line (code : str -> Z) (ignchr : bool) (m : list (str * str)) (r : brec) : lres :=
  if b_track r then LSkip else
  if b_n r <? 2 then LErr 6 else
  let has_strand := (b_n r =? 6) || (b_n r =? 10) || (b_n r =? 12) in
  let name := if 4 <=? b_n r then b_name r else dec_str (b_idx r) in
  let e := if b_n r =? 2 then b_start r + 1 else b_end r in
  let chrom := remap m (b_chrom r) in
  let chrom := if ignchr then strip_chr chrom else chrom in
  LAdd (code chrom) (mkF (b_start r) e (code name) (if has_strand then strand_code (b_strand r) else 0) 0).

Fixpoint bed_compile (code : str -> Z) (ignchr : bool) (m : list (str * str)) (recs : list brec) : list op * option Z :=
  match recs with
  | [] => ([], None)
  | r :: t =>
      match bed_line code ignchr m r with
      | LSkip => bed_compile code ignchr m t
      | LErr e => ([], Some e)
      | LAdd c f => let '(ops, e) := bed_compile code ignchr m t in (Add c f :: ops, e)
      end
  end.

(* ------------------------------------------------------------------ nearest lookups on an indexed contig *)
Definition nth_feat (fs : list feat) (i : nat) : feat := nth i fs (mkF 0 0 0 0 0).

(* while strand is not None and hitStrand != strand and index > 0: index -= 1; if index > 0: hitStrand = features[index][3] *)
Fixpoint nl_walk (fs : list feat) (q hs : Z) (i : nat) : nat :=
  match i with
  | O => O
  | S k => if negb (q =? 0) && negb (hs =? q)
           then nl_walk fs q (if (0 <? k)%nat then f_strand (nth_feat fs k) else hs) k
           else S k
  end.

(* ncontigs = len(self.endCoordinates), the dict of per contig arrays *)
Definition near_left_rec (ncontigs : nat) (r : crec) (x q : Z) : list feat :=
  let fs := c_feats r in
  let i0 := Nat.min (ss_left (c_ends r) x) ncontigs in
  let i1 := if (length fs - 1 <? i0)%nat then (i0 - 1)%nat else i0 in
  if f_start (nth_feat fs i1) >? x then [] else
  [nth_feat fs (nl_walk fs q (f_strand (nth_feat fs i1)) i1)].

Fixpoint find_strand (q : Z) (l : list feat) : list feat :=
  match l with
  | [] => []
  | f :: t => if smatch q f then [f] else find_strand q t
  end.

Definition near_right_rec (r : crec) (x q : Z) : list feat :=
  let fs := skipn (ss_left (c_starts r) (x + 1)) (c_feats r) in
  match fs with
  | [] => []
  | f :: _ => if f_end f <? x then [] else find_strand q fs
  end.

Definition near_combine (x : Z) (fr fl : list feat) : list feat :=
  match fr, fl with
  | [], [] => []
  | [], _ => fl
  | _, [] => fr
  | r0 :: _, l0 :: _ =>
      let dR := f_start r0 - x in
      let dL := x - f_end l0 in
      if dR <? dL then [r0] else if dL <? dR then [l0] else [l0; r0]
  end.

(* ------------------------------------------------------------------ the extended machine *)
(* xf_brk: findFeaturesBetweenBRK re-indexes first (false at HEAD); xf_near: addFeature / sort clear the cache of findNearestFeature *)
Record xcfg := mkXC { x_cfg : cfg; xf_brk : bool; xf_near : bool }.
Definition xcfg_src : xcfg := mkXC cfg_fixed g_autosort_brk g_clear_near.
Definition xcfg_ref : xcfg := mkXC cfg_ref true true.
Definition xcfg_brk : xcfg := mkXC cfg_ref false true.          (* the code as it is: everything repaired but BRK *)

Record xstate := mkX { x_st : state; x_near : memo }.
Definition xinit : xstate := mkX init [].

(* sort() starts by clearing both caches; a re-index ran inside a lookup iff `sorted` went from False to True *)
Definition sync_near (xg : xcfg) (before after : state) (m : memo) : memo :=
  if xf_near xg && negb (st_sorted before) && st_sorted after then [] else m.
Definition xlift (xg : xcfg) (xs : xstate) (f : state -> state * res) : xstate * res :=
  let '(st1, r) := f (x_st xs) in (mkX st1 (sync_near xg (x_st xs) st1 (x_near xs)), r).

Definition near_left (g : cfg) (st : state) (c x q : Z) : state * res :=
  match find_contig c (st_contigs st) with
  | None => (st, ROk [])
  | Some _ =>
      match ensure_sorted g st with
      | (st1, Some e) => (st1, RRaise e)
      | (st1, None) =>
          match find_contig c (st_contigs st1) with
          | Some r => (st1, ROk (near_left_rec (length (st_contigs st1)) r x q))
          | None => (st1, ROk [])
          end
      end
  end.

Definition near_right (g : cfg) (st : state) (c x q : Z) : state * res :=
  match find_contig c (st_contigs st) with
  | None => (st, ROk [])
  | Some _ =>
      match ensure_sorted g st with
      | (st1, Some e) => (st1, RRaise e)
      | (st1, None) =>
          match find_contig c (st_contigs st1) with
          | Some r => (st1, ROk (near_right_rec r x q))
          | None => (st1, ROk [])
          end
      end
  end.

(* the body of findNearestFeature (behind its lru_cache) *)
Definition near_body (g : cfg) (st : state) (c x q : Z) : state * res :=
  match at_cached g st (c, x, 0, 0) with
  | (st1, RRaise e) => (st1, RRaise e)
  | (st1, ROk (f :: s)) => (st1, ROk (f :: s))
  | (st1, ROk []) =>
      match near_right g st1 c x q with
      | (st2, RRaise e) => (st2, RRaise e)
      | (st2, ROk fr) =>
          match near_left g st2 c x q with
          | (st3, RRaise e) => (st3, RRaise e)
          | (st3, ROk fl) => (st3, ROk (near_combine x fr fl))
          end
      end
  end.

Definition near (xg : xcfg) (xs : xstate) (c x q : Z) : xstate * res :=
  let k := (c, x, q, 0) in
  match memo_find k (x_near xs) with
  | Some v => (mkX (x_st xs) (memo_touch k v (x_near xs)), ROk v)
  | None =>
      match xlift xg xs (fun st => near_body (x_cfg xg) st c x q) with
      | (xs1, ROk v) => (mkX (x_st xs1) (memo_put k v (x_near xs1)), ROk v)
      | (xs1, RRaise e) => (xs1, RRaise e)
      end
  end.

Definition brk (xg : xcfg) (st : state) (c a b q : Z) : state * res :=
  let g := x_cfg xg in
  match (if xf_brk xg then ensure_sorted g st else (st, None)) with
  | (st0, Some e) => (st0, RRaise e)
  | (st0, None) =>
      match find_contig c (st_contigs st0) with
      | None => (st0, ROk [])
      | Some r =>
          if negb (c_indexed r) then (st0, ROk []) else
          match at_cached g st0 (c, a, q, 0) with
          | (st1, RRaise e) => (st1, RRaise e)
          | (st1, ROk l1) =>
              match at_cached g st1 (c, b, q, 0) with
              | (st2, RRaise e) => (st2, RRaise e)
              | (st2, ROk l2) => (st2, ROk (dedup (filter (fun f => memf f l2) l1)))
              end
          end
      end
  end.

(* the addFeature calls of a loader, then (unless an exception ended the loop) sort() *)
Fixpoint run_adds (g : cfg) (st : state) (ops : list op) : state * option Z :=
  match ops with
  | [] => (st, None)
  | o :: t => match step g st o with
              | (st1, RRaise e) => (st1, Some e)
              | (st1, ROk _) => run_adds g st1 t
              end
  end.
Definition load (g : cfg) (st : state) (ops : list op) (err : option Z) : state * res :=
  match run_adds g st ops with
  | (st1, Some e) => (st1, RRaise e)
  | (st1, None) => match err with Some e => (st1, RRaise e) | None => step g st1 Sort end
  end.

Inductive xop :=
| XB (o : op)
| XNearL (c x q : Z)
| XNearR (c x q : Z)
| XNear (c x q : Z)
| XBrk (c a b q : Z)
| XLoad (ops : list op) (err : option Z).

Definition xstep (xg : xcfg) (xs : xstate) (o : xop) : xstate * res :=
  let g := x_cfg xg in
  match o with
  | XB b =>
      let '(st1, r) := step g (x_st xs) b in
      let clr := xf_near xg && (match b, r with Add _ _, ROk _ => true | Sort, _ => true | _, _ => false end) in
      (mkX st1 (if clr then [] else sync_near xg (x_st xs) st1 (x_near xs)), r)
  | XNearL c x q => xlift xg xs (fun st => near_left g st c x q)
  | XNearR c x q => xlift xg xs (fun st => near_right g st c x q)
  | XNear c x q => near xg xs c x q
  | XBrk c a b q => xlift xg xs (fun st => brk xg st c a b q)
  | XLoad ops err =>
      let '(st1, r) := load g (x_st xs) ops err in
      (mkX st1 (if xf_near xg then [] else x_near xs), r)
  end.

Fixpoint xrun (xg : xcfg) (xs : xstate) (ops : list xop) : list res :=
  match ops with
  | [] => []
  | o :: t => let '(xs1, r) := xstep xg xs o in r :: xrun xg xs1 t
  end.

(* ------------------------------------------------------------------ specification: a FRESH container over everything added *)
Fixpoint contig_keys (all : list (Z * feat)) (acc : list Z) : list Z :=
  match all with
  | [] => acc
  | (c, _) :: t => contig_keys t (if existsb (Z.eqb c) acc then acc else acc ++ [c])
  end.
Definition fresh_rec (fs : list feat) : crec := pre_rec (sort_feats fs).

(* a loader that raised has added the features before the offending line *)
Fixpoint adds_until_bad (ops : list op) : list op :=
  match ops with
  | [] => []
  | o :: t => match o with
              | Add _ f => if strand_ok f then o :: adds_until_bad t else []
              | _ => o :: adds_until_bad t
              end
  end.
Definition xabs_step (all : list (Z * feat)) (o : xop) : list (Z * feat) :=
  match o with
  | XB b => abs_step all b
  | XLoad ops _ => fold_left abs_step (adds_until_bad ops) all
  | _ => all
  end.

Definition hit0 (x : Z) (f : feat) : bool := contains x f && smatch 0 f.
(* brute force: nearest feature to the right = the first, in tuple order, of the features that start after x on the strand *)
Definition spec_near_right (all : list (Z * feat)) (c x q : Z) : list feat :=
  match filter (fun f => (x <? f_start f) && smatch q f) (sort_feats (feats_of c all)) with
  | [] => []
  | f :: _ => [f]
  end.
(* what the code computes, on a fresh index over everything added so far ([known]: the contig has been added to) *)
Definition known (all : list (Z * feat)) (c : Z) : bool := existsb (Z.eqb c) (contig_keys all []).
Definition spec_near_left (all : list (Z * feat)) (c x q : Z) : list feat :=
  if known all c then near_left_rec (length (contig_keys all [])) (fresh_rec (feats_of c all)) x q else [].
Definition spec_near (all : list (Z * feat)) (c x q : Z) : list feat :=
  match filter (hit0 x) (sort_feats (feats_of c all)) with
  | f :: s => f :: s
  | [] => if known all c
          then near_combine x (near_right_rec (fresh_rec (feats_of c all)) x q)
                              (near_left_rec (length (contig_keys all [])) (fresh_rec (feats_of c all)) x q)
          else []
  end.
(* features containing both coordinates *)
Definition spec_brk (all : list (Z * feat)) (c a b q : Z) : list feat :=
  filter (fun f => contains a f && contains b f && smatch q f) (feats_of c all).

(* the brute force a user expects from "nearest feature left of x" (refuted, Props/C16.v): a feature that ends before x
   such that no feature of the contig ends strictly between it and x *)
Definition is_nearest_left (fs : list feat) (x : Z) (f : feat) : bool :=
  memf f fs && (f_end f <? x) && forallb (fun g => negb ((f_end f <? f_end g) && (f_end g <? x))) fs.

Definition xspec_step (all : list (Z * feat)) (o : xop) : res :=
  match o with
  | XB b => spec_step all b
  | XNearL c x q => ROk (spec_near_left all c x q)
  | XNearR c x q => ROk (spec_near_right all c x q)
  | XNear c x q => ROk (spec_near all c x q)
  | XBrk c a b q => ROk (sort_feats (dedup (spec_brk all c a b q)))
  | XLoad ops err =>
      match find (fun o => match o with Add _ f => negb (strand_ok f) | _ => false end) ops, err with
      | Some _, _ => RRaise 4
      | None, Some e => RRaise e
      | None, None => ROk []
      end
  end.
Fixpoint xspec_run (all : list (Z * feat)) (ops : list xop) : list res :=
  match ops with
  | [] => []
  | o :: t => xspec_step all o :: xspec_run (xabs_step all o) t
  end.

(* precondition of the extended history theorem.  [clean] = no addFeature since the last re-index; with the code as it is
   (brk_fixed = false) a findFeaturesBetweenBRK call is inside the theorem only on a clean container *)
Definition xop_wfb (o : xop) : bool :=
  match o with
  | XB b => op_wfb b
  | XLoad ops None => forallb (fun o => match o with Add _ f => wf_feat f && strand_ok f | _ => false end) ops
  | XLoad _ (Some _) => false
  | _ => true
  end.
Definition has_feats (all : list (Z * feat)) (c : Z) : bool := existsb (fun p => fst p =? c) all.
Definition xclean_step (all : list (Z * feat)) (clean : bool) (o : xop) : bool :=
  match o with
  | XB (Add _ f) => if strand_ok f then false else clean
  | XB _ => true
  | XNearL c _ _ | XNearR c _ _ => clean || has_feats all c
  | XNear _ _ _ => true
  | XBrk c _ _ _ => clean
  | XLoad _ _ => true
  end.
Fixpoint xguard (brk_fixed : bool) (all : list (Z * feat)) (clean : bool) (ops : list xop) : bool :=
  match ops with
  | [] => true
  | o :: t => (match o with XBrk _ _ _ _ => brk_fixed || clean | _ => true end)
              && xguard brk_fixed (xabs_step all o) (xclean_step all clean o) t
  end.
Definition xfinal_all (ops : list xop) : list (Z * feat) := fold_left xabs_step ops [].
Definition xhist_wfb (brk_fixed : bool) (ops : list xop) : bool :=
  forallb xop_wfb ops && orderableb (xfinal_all ops) && xguard brk_fixed [] true ops.

(* ------------------------------------------------------------------ I/O glue *)
Definition dec_str_v (v : Val) : str := getZs v.
Definition dec_opt {A} (f : Val -> A) (v : Val) : option A := match getL v with [x] => Some (f x) | _ => None end.
Definition dec_strs (v : Val) : list str := map dec_str_v (getL v).
Definition dec_kvs (v : Val) : list (str * str) := map (fun p => (dec_str_v (nthV 0 p), dec_str_v (nthV 1 p))) (getL v).
Definition dec_grec (v : Val) : grec :=
  mkG (getB (nthV 0 v)) (dec_str_v (nthV 1 v)) (dec_str_v (nthV 2 v)) (getZ (nthV 3 v)) (getZ (nthV 4 v))
      (dec_str_v (nthV 5 v)) (dec_str_v (nthV 6 v)) (dec_kvs (nthV 7 v)).
Definition dec_gpar (v : Val) : gpar :=
  mkGP (dec_opt dec_str_v (nthV 0 v)) (dec_opt dec_strs (nthV 1 v)) (dec_opt dec_strs (nthV 2 v)) (dec_opt dec_strs (nthV 3 v))
       (dec_strs (nthV 4 v)) (getB (nthV 5 v)) (getZ (nthV 6 v)) (dec_opt getPair (nthV 7 v)) (dec_opt getZ (nthV 8 v))
       (dec_kvs (nthV 9 v)).
Definition dec_brec (v : Val) : brec :=
  mkB (getB (nthV 0 v)) (getZ (nthV 1 v)) (getZ (nthV 2 v)) (dec_str_v (nthV 3 v)) (getZ (nthV 4 v)) (getZ (nthV 5 v))
      (dec_str_v (nthV 6 v)) (dec_str_v (nthV 7 v)).

(* tags 0..4: the operations of Model/C16.v; 5 nearest left, 6 nearest right, 7 nearest, 8 BRK,
   10 loadGTF [par; records], 11 loadBED [ignChr; remapKeys; records] *)
Definition dec_xop (tab : list str) (v : Val) : xop :=
  let t := getZ (nthV 0 v) in
  if t <? 5 then XB (dec_op v)
  else if t =? 5 then XNearL (getZ (nthV 1 v)) (getZ (nthV 2 v)) (getZ (nthV 3 v))
  else if t =? 6 then XNearR (getZ (nthV 1 v)) (getZ (nthV 2 v)) (getZ (nthV 3 v))
  else if t =? 7 then XNear (getZ (nthV 1 v)) (getZ (nthV 2 v)) (getZ (nthV 3 v))
  else if t =? 8 then XBrk (getZ (nthV 1 v)) (getZ (nthV 2 v)) (getZ (nthV 3 v)) (getZ (nthV 4 v))
  else if t =? 10 then
    let '(ops, e) := gtf_compile (intern tab) (dec_gpar (nthV 1 v)) 0 (map dec_grec (getL (nthV 2 v))) in XLoad ops e
  else
    let '(ops, e) := bed_compile (intern tab) (getB (nthV 1 v)) (dec_kvs (nthV 2 v)) (map dec_brec (getL (nthV 3 v))) in XLoad ops e.

(* input: [string table; operations].  modes 0-3: Model/C16.v; 10: trace of the machine with the switches of the current
   source; 11: precondition (with the BRK switch of the current source); 12: specification trace; 13: the repaired machine;
   14: input = the attribute column of a GTF line (characters), output = its key / value pairs (Model/C16a.v) *)
Definition run_C16x (mode : Z) (v : Val) : Val :=
  let ops := map (dec_xop (dec_strs (nthV 0 v))) (getL (nthV 1 v)) in
  match mode with
  | 10 => VL (map enc_res (xrun xcfg_src xinit ops))
  | 11 => ofB (xhist_wfb g_autosort_brk ops)
  | 12 => VL (map enc_res (xspec_run [] ops))
  | 13 => VL (map enc_res (xrun xcfg_ref xinit ops))
  | 14 => VL (map (fun kv => VL [ofZs (fst kv); ofZs (snd kv)]) (parse_attrs (getZs v)))
  | _ => run_C16 mode v
  end.
