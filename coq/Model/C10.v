(* C10 model: the binning kernel is GENERATED (Gen/GenBins.v); the table accumulation is hand-written.
   Definitions only. *)
From Coq Require Import ZArith List Bool.
Import ListNotations.
From SCMO Require Import Lib.Val Lib.PyInt Gen.GenBins.
Open Scope Z_scope.

Definition bins_u := u_coordinate_to_bins.   (* singlecellmultiomics.utils.binning *)
Definition bins_t := t_coordinate_to_bins.   (* bamToCountTable's own copy, used by assignReads *)

(* bins a read with bin-tag value dp is counted in (assignReads, bin branch) *)
Definition counted_bins (keep : bool) (reflen dp b s : Z) : list (Z * Z) :=
  filter (fun p => negb (skip_bin keep (fst p) (snd p) reflen)) (bins_t dp b s).

(* count table: cells keyed by (key, lo, hi); weights in half units (0.5 -> 1, 1 -> 2) *)
Definition tkey := (Z * Z * Z)%type.
Definition tkey_eqb (a b : tkey) : bool :=
  let '(a1, a2, a3) := a in let '(b1, b2, b3) := b in (a1 =? b1) && (a2 =? b2) && (a3 =? b3).

Fixpoint add_cell (k : tkey) (w : Z) (t : list (tkey * Z)) : list (tkey * Z) :=
  match t with
  | [] => [(k, w)]
  | (k', w') :: t' => if tkey_eqb k k' then (k', w' + w) :: t' else (k', w') :: add_cell k w t'
  end.

(* r_reflen: length of the contig of the read's OWN alignment file header (assignReads looks it up in
   args.ref_lengths, which create_count_table recomputes for every alignment file) *)
Record read := { r_dp : Z; r_w : Z; r_key : Z; r_reflen : Z }.

Definition add_read (keep : bool) (b s : Z) (t : list (tkey * Z)) (r : read) :=
  fold_left (fun t p => add_cell (r_key r, fst p, snd p) (r_w r) t) (counted_bins keep (r_reflen r) (r_dp r) b s) t.

Definition table (keep : bool) (b s : Z) (reads : list read) : list (tkey * Z) :=
  fold_left (add_read keep b s) reads [].

(* a history of calls in one process: every call starts from an empty table *)
Definition history (calls : list (bool * Z * Z * list read)) : list (list (tkey * Z)) :=
  map (fun c => let '(keep, b, s, reads) := c in table keep b s reads) calls.

Definition total (t : list (tkey * Z)) : Z := fold_right (fun c acc => snd c + acc) 0 t.
Definition cell (k : tkey) (t : list (tkey * Z)) : Z :=
  fold_right (fun c acc => (if tkey_eqb k (fst c) then snd c else 0) + acc) 0 t.

Definition pre (b s : Z) : bool := (0 <? s) && (s <=? b).

(* ---- I/O glue *)
Definition dec_read (v : Val) : read :=
  {| r_dp := getZ (nthV 0 v); r_w := getZ (nthV 1 v); r_key := getZ (nthV 2 v); r_reflen := getZ (nthV 3 v) |}.

Definition run_C10 (mode : Z) (v : Val) : Val :=
  match mode with
  | 0 => let w := getZ (nthV 0 v) in
         let dp := getZ (nthV 1 v) in let b := getZ (nthV 2 v) in let s := getZ (nthV 3 v) in
         VL (map ofPair (if w =? 0 then bins_u dp b s else bins_t dp b s))
  | 1 => ofB (pre (getZ (nthV 2 v)) (getZ (nthV 3 v)))
  | 2 => let keep := getB (nthV 0 v) in
         let b := getZ (nthV 1 v) in let s := getZ (nthV 2 v) in
         let reads := map dec_read (getL (nthV 3 v)) in
         VL (map (fun c => let '((k, lo, hi), w) := c in VL [VZ k; VZ lo; VZ hi; VZ w])
                 (table keep b s reads))
  | _ => bad
  end.
