(* C01 model: the demultiplexing LOADER (DemultiplexingStrategyLoader.demultiplex), the lock-step
   FASTQ reader (FastqIterator) and the writers (FastqHandle.write, joint and one-file-per-cell),
   parametric in the demultiplexing strategies.  Definitions only.

   Strings are lists of character codes.  A strategy is a function  pair -> outcome  with the three
   outcome classes of the loader's try/except:  Accept (the serialised records, one per mate, each with
   the cell key FastqHandle derives in per-cell mode) | Reject reason (NonMultiplexable) | Raise kind
   (any other Exception).  The reject formatter (IlluminaBaseDemultiplexer.demultiplex of the loader's
   own baseDemux -> TaggedRecord header) is the parameter  rejhdr : read -> reason -> hout.

   The STRUCTURE of the loop is not written down here: the loader is defined from a value [sh : shape]
   (Lib/C01Shape.v: which sink each of the three arms of the try statement writes to, under which
   handle-is-None guard, whether the arm reaches the yield increment, where the increment of processedReadPairs
   and the strategy loop stand relative to the maxReadPairs test).  tools/c01.py regenerates that value from the
   current source into Gen/GenLoader.v; Model/C01x.v instantiates the loader with it.  What an arm writes is
   fixed by the role the translator checks:
     accept  : the records strategy.demultiplex returned; a write() that raises half-way enters the generic arm
     reject  : the formatted record, or (header not parseable) the raw record with ;RR:reason;Rr:why -- every
               record terminated by a newline; any other exception raised while formatting leaves the loop (Crashed)
     generic : the raw record with ;RR:ExceptionName
   An exception raised INSIDE an except arm (a write to a handle that is None without a guard) leaves the loop.
   [repaired_shape] is the loop of the repaired tree (fixes/C01-D1.patch), [legacy_shape] the loop before the repair
   (generic arm: nothing written, counter + 1), kept to state what was wrong (C01_legacy_generic_arm_refuted). *)
From Coq Require Import ZArith List Bool.
Import ListNotations.
From SCMO Require Import Lib.Val Lib.C01Shape.
Open Scope Z_scope.

Definition str := list Z.

Record read := mkRead { r_header : str; r_seq : str; r_plus : str; r_qual : str }.
Definition pair := list read.            (* one record per mate file: (R1,) or (R1, R2) ... *)

(* ------------------------------------------------------------------ FastqIterator *)
(* str.rstrip() on ASCII text: \t \n \v \f \r, FS GS RS US, space *)
Definition is_space (c : Z) : bool := ((9 <=? c) && (c <=? 13)) || ((28 <=? c) && (c <=? 32)).

Fixpoint dropwhile {A} (f : A -> bool) (l : list A) : list A :=
  match l with
  | [] => []
  | x :: t => if f x then dropwhile f t else l
  end.

Definition rstrip (s : str) : str := rev (dropwhile is_space (rev s)).

(* handle.readline().rstrip(): a missing line (end of file) reads as '' *)
Definition line_at (n : nat) (ls : list str) : str := rstrip (nth n ls []).

Definition read_record (ls : list str) : read :=
  mkRead (line_at 0 ls) (line_at 1 ls) (line_at 2 ls) (line_at 3 ls).

Definition empty_header (r : read) : bool := match r_header r with [] => true | _ => false end.

(* __next__: one record from every handle; StopIteration when ANY header is empty *)
Fixpoint read_all (fuel : nat) (files : list (list str)) : list pair :=
  match fuel with
  | O => []
  | S f =>
      let recs := map read_record files in
      if existsb empty_header recs then []
      else recs :: read_all f (map (skipn 4) files)
  end.

(* every round consumes at least one line of the first file, so this fuel never runs out
   (Proofs: read_all_fuel).  Zero files would iterate forever in Python; excluded (files <> []). *)
Definition fastq_iter (files : list (list str)) : list pair :=
  read_all (S (length (hd [] files))) files.

(* the k-th record of a mate file / of all mate files; the reader is exhausted at k when some file has no header there *)
Definition record_at (k : nat) (ls : list str) : read := read_record (skipn (4 * k) ls).
Definition row (k : nat) (files : list (list str)) : pair := map (record_at k) files.
Definition exhausted (k : nat) (files : list (list str)) : bool := existsb empty_header (row k files).

(* ------------------------------------------------------------------ strategies and outcomes *)
(* one record of an accepted list as FastqHandle.write meets it: a_ok = the cell key (per-cell mode) and str(record)
   can be computed; then a_text = str(record), a_cell = f"{bi}.{MX}".  a_ok = false: serialising it raises, a_text =
   the exception class name *)
Record arec := mkArec { a_ok : bool; a_cell : str; a_text : str }.

Inductive outcome :=
| Accept (recs : list arec)
| Reject (reason : str)
| Raise (kind : str).

Definition strategy := pair -> outcome.

Inductive hout :=
| HOk (h : str)          (* header line without the leading '@' *)
| HNonMux (why : str)    (* NonMultiplexable while parsing the header *)
| HRaise.                (* any other exception (e.g. header too long) *)

Record config := mkConfig {
  c_max : option Z;      (* maxReadPairs *)
  c_rejects : bool;      (* rejectHandle is not None *)
  c_sc : bool;           (* FastqHandle(single_cell=True) for the target *)
  c_nh : nat;            (* number of handles of the joint FastqHandles: 2 if pairedEnd else 1 *)
  c_log : bool           (* log_handle is not None: only decides whether the counters / tracebacks are ALSO written to the
                            log; no write to a sink and no counter depends on it (Props: C01_log_independent) *)
}.

Definition set_log (b : bool) (cfg : config) : config :=
  mkConfig (c_max cfg) (c_rejects cfg) (c_sc cfg) (c_nh cfg) b.

(* one write of one record to one file.  e_pair / e_strat are ghost labels (which input pair and which
   strategy caused the write); the bytes of a file are the concatenation of e_text. *)
Record event := mkEv {
  e_target : bool;       (* true: demultiplexed output, false: rejects output *)
  e_cell : str;          (* per-cell mode: the cell key in the file name; [] otherwise *)
  e_mate : nat;          (* 0 -> R1 file, 1 -> R2 file *)
  e_pair : nat;
  e_strat : nat;
  e_text : str
}.

(* FastqHandle.write: zip(self.handles, records) / zip(('R1','R2'), records) *)
Definition write_target (cfg : config) (p j : nat) (recs : list arec) : list event :=
  if c_sc cfg
  then map (fun mr => mkEv true (a_cell (snd mr)) (fst mr) p j (a_text (snd mr))) (combine (seq 0 2) recs)
  else map (fun mr => mkEv true [] (fst mr) p j (a_text (snd mr))) (combine (seq 0 (c_nh cfg)) recs).

(* write() serialises and writes record by record: the records zip() pairs with a handle, up to the first one that
   cannot be serialised (None: all could) *)
Definition touched (cfg : config) (recs : list arec) : list arec :=
  firstn (if c_sc cfg then 2%nat else c_nh cfg) recs.

Fixpoint ok_prefix (l : list arec) : list arec * option str :=
  match l with
  | [] => ([], None)
  | r :: t => if a_ok r then (let (pre, k) := ok_prefix t in (r :: pre, k)) else ([], Some (a_text r))
  end.

Definition write_reject (cfg : config) (p j : nat) (texts : list str) : list event :=
  map (fun mt => mkEv false [] (fst mt) p j (snd mt)) (combine (seq 0 (c_nh cfg)) texts).

Definition NL : Z := 10.
Definition fastq_text (h s pl q : str) : str := h ++ NL :: s ++ NL :: pl ++ NL :: q ++ [NL].
Definition tagRR : str := [59; 82; 82; 58].   (* ";RR:" *)
Definition tagRr : str := [59; 82; 114; 58].  (* ";Rr:" *)

(* baseDemux.demultiplex(reads, reason=reason): the records are formatted in order, the first header
   that cannot be produced decides *)
Inductive hdrs := HsOk (hs : list str) | HsNonMux (why : str) | HsRaise.

Fixpoint base_headers (rejhdr : read -> str -> hout) (reads : pair) (reason : str) : hdrs :=
  match reads with
  | [] => HsOk []
  | r :: rest =>
      match rejhdr r reason with
      | HOk h => match base_headers rejhdr rest reason with
                 | HsOk hs => HsOk (h :: hs)
                 | other => other
                 end
      | HNonMux why => HsNonMux why
      | HRaise => HsRaise
      end
  end.

(* TaggedRecord.asFastq(record.sequence, record.plus, record.qual): '@' header, ORIGINAL bases/qualities *)
Definition formatted_text (hr : str * read) : str :=
  fastq_text (64 :: fst hr) (r_seq (snd hr)) (r_plus (snd hr)) (r_qual (snd hr)).

(* raw fall-back: read.header + suffix, original bases/qualities *)
Definition raw_text (suffix : str) (r : read) : str :=
  fastq_text (r_header r ++ suffix) (r_seq r) (r_plus r) (r_qual r).

Inductive rejres := RTexts (ts : list str) | RCrash.

Definition reject_texts (rejhdr : read -> str -> hout) (reads : pair) (reason : str) : rejres :=
  match base_headers rejhdr reads reason with
  | HsOk hs => RTexts (map formatted_text (combine hs reads))
  | HsNonMux why => RTexts (map (raw_text (tagRR ++ reason ++ tagRr ++ why)) reads)
  | HsRaise => RCrash
  end.

Definition generic_texts (reads : pair) (kind : str) : list str := map (raw_text (tagRR ++ kind)) reads.

Fixpoint bump (j : nat) (ys : list Z) : list Z :=
  match ys with
  | [] => []
  | y :: t => match j with O => (y + 1) :: t | S j' => y :: bump j' t end
  end.

Definition attrErr : str := [65;116;116;114;105;98;117;116;101;69;114;114;111;114].   (* "AttributeError" *)

Section Loader.
  Variable sh : shape.
  Variable strats : list strategy.
  Variable rejhdr : read -> str -> hout.
  Variable cfg : config.

  (* the handle of a sink is not None.  A target handle always exists in the modelled configurations (targetFile=None
     is the probing mode of the auto-detection, outside the property) *)
  Definition present (s : sink) : bool := match s with SReject => c_rejects cfg | _ => true end.

  (* <handle of s>.write(recs) for a list of TaggedRecords -> (events, exception raised).
     FastqHandle.write serialises and writes record by record: a record that cannot be serialised raises after the
     earlier ones were written.  None.write raises AttributeError unless the statement is guarded. *)
  Definition write_recs (s : sink) (guarded : bool) (p j : nat) (recs : list arec) : list event * option str :=
    match s with
    | SNone => ([], None)
    | STarget =>
        match ok_prefix (touched cfg recs) with
        | (_, None) => (write_target cfg p j recs, None)
        | (pre, Some kind) => (write_target cfg p j pre, Some kind)
        end
    | SReject =>
        if c_rejects cfg then
          match ok_prefix (firstn (c_nh cfg) recs) with
          | (pre, k) => (write_reject cfg p j (map a_text pre), k)
          end
        else if guarded then ([], None) else ([], Some attrErr)
    end.

  (* <handle of s>.write(texts) for a list of strings (the reject records).  A per-cell target handle asks every
     record for its tags: AttributeError on a string *)
  Definition write_texts (s : sink) (guarded : bool) (p j : nat) (ts : list str) : list event * option str :=
    match s with
    | SNone => ([], None)
    | STarget =>
        if c_sc cfg then ([], Some attrErr)
        else (map (fun mt => mkEv true [] (fst mt) p j (snd mt)) (combine (seq 0 (c_nh cfg)) ts), None)
    | SReject =>
        if c_rejects cfg then (write_reject cfg p j ts, None)
        else if guarded then ([], None) else ([], Some attrErr)
    end.

  Definition counted (a : arm) (j : nat) (ys : list Z) : list Z := if arm_counts a then bump j ys else ys.

  (* except Exception as e: ... <write the raw records> ... [continue]      -> (trace, yields, left the loop) *)
  Definition generic_arm (p j : nat) (reads : pair) (kind : str) (tr : list event) (ys : list Z)
    : list event * list Z * bool :=
    let g := sh_generic sh in
    match write_texts (arm_sink g) (arm_guarded g) p j (generic_texts reads kind) with
    | (evs, None) => (tr ++ evs, counted g j ys, false)
    | (evs, Some _) => (tr ++ evs, ys, true)
    end.

  (* except NonMultiplexable as reason: [if handle is not None:] format, write (raw fall-back) ... [continue] *)
  Definition reject_arm (p j : nat) (reads : pair) (reason : str) (tr : list event) (ys : list Z)
    : list event * list Z * bool :=
    let r := sh_reject sh in
    match arm_sink r with
    | SNone => (tr, counted r j ys, false)
    | s =>
        if arm_guarded r && negb (present s) then (tr, counted r j ys, false)
        else
          match reject_texts rejhdr reads reason with
          | RCrash => (tr, ys, true)
          | RTexts ts =>
              match write_texts s (arm_guarded r) p j ts with
              | (evs, None) => (tr ++ evs, counted r j ys, false)
              | (evs, Some _) => (tr ++ evs, ys, true)
              end
          end
    end.

  (* one (pair, strategy) step: try: records = strategy.demultiplex(reads); <write> except ... *)
  Definition step (p j : nat) (reads : pair) (f : strategy) (tr : list event) (ys : list Z)
    : list event * list Z * bool :=
    match f reads with
    | Accept recs =>
        let a := sh_accept sh in
        let ys1 := if arm_counts a && sh_count_early sh then bump j ys else ys in
        match write_recs (arm_sink a) (arm_guarded a) p j recs with
        | (evs, None) => (tr ++ evs, if arm_counts a && negb (sh_count_early sh) then bump j ys1 else ys1, false)
        | (evs, Some kind) => generic_arm p j reads kind (tr ++ evs) ys1
        end
    | Reject reason => reject_arm p j reads reason tr ys
    | Raise kind => generic_arm p j reads kind tr ys
    end.

  (* for strategy in useStrategies: *)
  Fixpoint strat_loop (p : nat) (reads : pair) (j : nat) (ss : list strategy)
           (tr : list event) (ys : list Z) : list event * list Z * bool :=
    match ss with
    | [] => (tr, ys, false)
    | f :: ss' =>
        match step p j reads f tr ys with
        | (tr', ys', true) => (tr', ys', true)
        | (tr', ys', false) => strat_loop p reads (S j) ss' tr' ys'
        end
    end.

  (* if maxReadPairs is not None and processedReadPairs >= maxReadPairs: break *)
  Definition stop_after (processed : Z) : bool :=
    match c_max cfg with Some m => m <=? processed | None => false end.

  Record result := mkRes { res_trace : list event; res_yields : list Z; res_processed : Z; res_crashed : bool }.

  (* for reads in FastqIterator(...): the body holds the increment of processedReadPairs, the strategy loop and the
     maxReadPairs test; [proc] = processedReadPairs before the iteration *)
  Fixpoint pair_loop (p : nat) (pairs : list pair) (tr : list event) (ys : list Z) (proc : Z) : result :=
    match pairs with
    | [] => mkRes tr ys proc false
    | reads :: rest =>
        let proc1 := if sh_incr_before_test sh then proc + 1 else proc in
        if sh_strat_before_test sh then
          match strat_loop p reads 0 strats tr ys with
          | (tr', ys', true) => mkRes tr' ys' proc1 true
          | (tr', ys', false) =>
              if stop_after proc1 then mkRes tr' ys' proc1 false
              else pair_loop (S p) rest tr' ys' (proc + 1)
          end
        else
          if stop_after proc1 then mkRes tr ys proc1 false
          else
            match strat_loop p reads 0 strats tr ys with
            | (tr', ys', true) => mkRes tr' ys' proc1 true
            | (tr', ys', false) => pair_loop (S p) rest tr' ys' (proc + 1)
            end
    end.

  Definition loader (pairs : list pair) : result :=
    pair_loop 0 pairs [] (repeat 0 (length strats)) 0.

  Definition demultiplex (files : list (list str)) : result := loader (fastq_iter files).
End Loader.

(* ------------------------------------------------------------------ observation of the sinks *)
Definition str_eqb (a b : str) : bool :=
  (fix go (a b : str) : bool :=
     match a, b with
     | [], [] => true
     | x :: a', y :: b' => (x =? y) && go a' b'
     | _, _ => false
     end) a b.

Definition in_file (target : bool) (cell : str) (m : nat) (e : event) : bool :=
  Bool.eqb (e_target e) target && str_eqb (e_cell e) cell && Nat.eqb (e_mate e) m.

Definition file_events (tr : list event) (target : bool) (cell : str) (m : nat) : list event :=
  filter (in_file target cell m) tr.

Definition file_bytes (tr : list event) (target : bool) (cell : str) (m : nat) : str :=
  concat (map e_text (file_events tr target cell m)).

(* ------------------------------------------------------------------ I/O glue for the correspondence *)
Definition dec_str (v : Val) : str := getZs v.
Definition enc_str (s : str) : Val := ofZs s.

Definition dec_read (v : Val) : read :=
  mkRead (dec_str (nthV 0 v)) (dec_str (nthV 1 v)) (dec_str (nthV 2 v)) (dec_str (nthV 3 v)).
Definition enc_read (r : read) : Val :=
  VL [enc_str (r_header r); enc_str (r_seq r); enc_str (r_plus r); enc_str (r_qual r)].

Definition read_eqb (a b : read) : bool :=
  str_eqb (r_header a) (r_header b) && str_eqb (r_seq a) (r_seq b)
  && str_eqb (r_plus a) (r_plus b) && str_eqb (r_qual a) (r_qual b).

Fixpoint pair_eqb (a b : pair) : bool :=
  match a, b with
  | [], [] => true
  | x :: a', y :: b' => read_eqb x y && pair_eqb a' b'
  | _, _ => false
  end.

(* outcome: (0 recs) | (1 reason) | (2 kind);  rec = (ok cell text) *)
Definition dec_outcome (v : Val) : outcome :=
  match getZ (nthV 0 v) with
  | 0 => Accept (map (fun r => mkArec (getB (nthV 0 r)) (dec_str (nthV 1 r)) (dec_str (nthV 2 r))) (getL (nthV 1 v)))
  | 1 => Reject (dec_str (nthV 1 v))
  | _ => Raise (dec_str (nthV 1 v))
  end.

(* a strategy given as its graph on the pairs of the library: list of (pair, outcome); a pair that is not
   in the table (the model's reader produced something the real reader did not) raises "?" *)
Fixpoint lookup_outcome (tbl : list (pair * outcome)) (p : pair) : outcome :=
  match tbl with
  | [] => Raise [63]
  | (k, o) :: t => if pair_eqb k p then o else lookup_outcome t p
  end.

Definition dec_strategy (v : Val) : strategy :=
  lookup_outcome (map (fun e => (map dec_read (getL (nthV 0 e)), dec_outcome (nthV 1 e))) (getL v)).

Definition dec_hout (v : Val) : hout :=
  match getZ (nthV 0 v) with
  | 0 => HOk (dec_str (nthV 1 v))
  | 1 => HNonMux (dec_str (nthV 1 v))
  | _ => HRaise
  end.

Fixpoint lookup_hout (tbl : list (read * str * hout)) (r : read) (reason : str) : hout :=
  match tbl with
  | [] => HRaise
  | (k, rs, h) :: t => if read_eqb k r && str_eqb rs reason then h else lookup_hout t r reason
  end.

Definition dec_rejhdr (v : Val) : read -> str -> hout :=
  lookup_hout (map (fun e => (dec_read (nthV 0 e), dec_str (nthV 1 e), dec_hout (nthV 2 e))) (getL v)).

Definition dec_config (v : Val) : config :=
  mkConfig (getOptZ (nthV 0 v)) (getB (nthV 1 v)) (getB (nthV 2 v)) (Z.to_nat (getZ (nthV 3 v))) (getB (nthV 4 v)).

(* the files that received at least one record, in order of first write, with their bytes *)
Definition file_key := (bool * str * nat)%type.
Definition key_of (e : event) : file_key := (e_target e, e_cell e, e_mate e).
Definition key_eqb (a b : file_key) : bool :=
  let '(t1, c1, m1) := a in let '(t2, c2, m2) := b in Bool.eqb t1 t2 && str_eqb c1 c2 && Nat.eqb m1 m2.

Fixpoint keys_of (tr : list event) (seen : list file_key) : list file_key :=
  match tr with
  | [] => rev seen
  | e :: t => if existsb (key_eqb (key_of e)) seen then keys_of t seen else keys_of t (key_of e :: seen)
  end.

Definition enc_files (tr : list event) : Val :=
  VL (map (fun k => let '(t, c, m) := k in
                    VL [ofB t; enc_str c; VZ (Z.of_nat m); enc_str (file_bytes tr t c m);
                        VL (map (fun e => VL [VZ (Z.of_nat (e_pair e)); VZ (Z.of_nat (e_strat e))])
                                (file_events tr t c m))])
          (keys_of tr [])).

Definition enc_result (r : result) : Val :=
  VL [ofB (res_crashed r); VZ (res_processed r); ofZs (res_yields r); enc_files (res_trace r)].

(* precondition of the theorems, evaluated on a run: no reject formatting crashed *)
Definition dec_files (v : Val) : list (list str) := map (fun f => map dec_str (getL f)) (getL v).

(* run_C01 (the modes of the extracted binary) is in Model/C01x.v: it instantiates the loader with the regenerated
   shape Gen.GenLoader.loader_shape and adds the boolean specification of Model/C01Spec.v *)
