(* C01 model: the demultiplexing LOADER (DemultiplexingStrategyLoader.demultiplex), the lock-step
   FASTQ reader (FastqIterator) and the writers (FastqHandle.write, joint and one-file-per-cell),
   parametric in the demultiplexing strategies.  Definitions only.

   Strings are lists of character codes.  A strategy is a function  pair -> outcome  with the three
   outcome classes of the loader's try/except:  Accept (the serialised records, one per mate, each with
   the cell key FastqHandle derives in per-cell mode) | Reject reason (NonMultiplexable) | Raise kind
   (any other Exception).  The reject formatter (IlluminaBaseDemultiplexer.demultiplex of the loader's
   own baseDemux -> TaggedRecord header) is the parameter  rejhdr : read -> reason -> hout.

   The loader reproduces the three except arms of the REPAIRED code (fixes/C01-D1.patch):
     accept  : targetFile.write(records); yield counter + 1
     reject  : if a reject handle exists: formatted record, or (header not parseable) the raw record with
               ;RR:reason;Rr:why  -- every record terminated by a newline; any other exception raised
               while formatting leaves the loop (Crashed)
     generic : if a reject handle exists: raw record with ;RR:ExceptionName; NOT counted as a yield
   [c_legacy = true] gives the generic arm of the unrepaired code (nothing written, counter + 1), kept to
   state what was wrong (C01_legacy_generic_arm_refuted). *)
From Coq Require Import ZArith List Bool.
Import ListNotations.
From SCMO Require Import Lib.Val.
Open Scope Z_scope.

Definition str := list Z.

Record read := mkRead { r_header : str; r_seq : str; r_plus : str; r_qual : str }.
Definition pair := list read.            (* one record per mate file: (R1,) or (R1, R2) ... *)

(* ------------------------------------------------------------------ FastqIterator *)
(* str.rstrip() on ASCII text: \t \n \v \f \r, FS GS RS US, space *)
Definition is_space (c : Z) : bool := ((9 <=? c) && (c <=? 13)) || ((28 <=? c) && (c <=? 32)).

Fixpoint dropwhile {A} (f : A -> bool) (l : list A) : list A :=
  match l with
  | [] => []
  | x :: t => if f x then dropwhile f t else l
  end.

Definition rstrip (s : str) : str := rev (dropwhile is_space (rev s)).

(* handle.readline().rstrip(): a missing line (end of file) reads as '' *)
Definition line_at (n : nat) (ls : list str) : str := rstrip (nth n ls []).

Definition read_record (ls : list str) : read :=
  mkRead (line_at 0 ls) (line_at 1 ls) (line_at 2 ls) (line_at 3 ls).

Definition empty_header (r : read) : bool := match r_header r with [] => true | _ => false end.

(* __next__: one record from every handle; StopIteration when ANY header is empty *)
Fixpoint read_all (fuel : nat) (files : list (list str)) : list pair :=
  match fuel with
  | O => []
  | S f =>
      let recs := map read_record files in
      if existsb empty_header recs then []
      else recs :: read_all f (map (skipn 4) files)
  end.

(* every round consumes at least one line of the first file, so this fuel never runs out
   (Proofs: read_all_fuel).  Zero files would iterate forever in Python; excluded (files <> []). *)
Definition fastq_iter (files : list (list str)) : list pair :=
  read_all (S (length (hd [] files))) files.

(* ------------------------------------------------------------------ strategies and outcomes *)
(* one record of an accepted list as FastqHandle.write meets it: a_ok = the cell key (per-cell mode) and str(record)
   can be computed; then a_text = str(record), a_cell = f"{bi}.{MX}".  a_ok = false: serialising it raises, a_text =
   the exception class name *)
Record arec := mkArec { a_ok : bool; a_cell : str; a_text : str }.

Inductive outcome :=
| Accept (recs : list arec)
| Reject (reason : str)
| Raise (kind : str).

Definition strategy := pair -> outcome.

Inductive hout :=
| HOk (h : str)          (* header line without the leading '@' *)
| HNonMux (why : str)    (* NonMultiplexable while parsing the header *)
| HRaise.                (* any other exception (e.g. header too long) *)

Record config := mkConfig {
  c_max : option Z;      (* maxReadPairs *)
  c_rejects : bool;      (* rejectHandle is not None *)
  c_sc : bool;           (* FastqHandle(single_cell=True) for the target *)
  c_nh : nat;            (* number of handles of the joint FastqHandles: 2 if pairedEnd else 1 *)
  c_legacy : bool;       (* generic-exception arm of the unrepaired loader *)
  c_log : bool           (* log_handle is not None: only decides whether the counters / tracebacks are ALSO written to the
                            log; no write to a sink and no counter depends on it (Props: C01_log_independent) *)
}.

Definition set_log (b : bool) (cfg : config) : config :=
  mkConfig (c_max cfg) (c_rejects cfg) (c_sc cfg) (c_nh cfg) (c_legacy cfg) b.

(* one write of one record to one file.  e_pair / e_strat are ghost labels (which input pair and which
   strategy caused the write); the bytes of a file are the concatenation of e_text. *)
Record event := mkEv {
  e_target : bool;       (* true: demultiplexed output, false: rejects output *)
  e_cell : str;          (* per-cell mode: the cell key in the file name; [] otherwise *)
  e_mate : nat;          (* 0 -> R1 file, 1 -> R2 file *)
  e_pair : nat;
  e_strat : nat;
  e_text : str
}.

(* FastqHandle.write: zip(self.handles, records) / zip(('R1','R2'), records) *)
Definition write_target (cfg : config) (p j : nat) (recs : list arec) : list event :=
  if c_sc cfg
  then map (fun mr => mkEv true (a_cell (snd mr)) (fst mr) p j (a_text (snd mr))) (combine (seq 0 2) recs)
  else map (fun mr => mkEv true [] (fst mr) p j (a_text (snd mr))) (combine (seq 0 (c_nh cfg)) recs).

(* write() serialises and writes record by record: the records zip() pairs with a handle, up to the first one that
   cannot be serialised (None: all could) *)
Definition touched (cfg : config) (recs : list arec) : list arec :=
  firstn (if c_sc cfg then 2%nat else c_nh cfg) recs.

Fixpoint ok_prefix (l : list arec) : list arec * option str :=
  match l with
  | [] => ([], None)
  | r :: t => if a_ok r then (let (pre, k) := ok_prefix t in (r :: pre, k)) else ([], Some (a_text r))
  end.

Definition write_reject (cfg : config) (p j : nat) (texts : list str) : list event :=
  map (fun mt => mkEv false [] (fst mt) p j (snd mt)) (combine (seq 0 (c_nh cfg)) texts).

Definition NL : Z := 10.
Definition fastq_text (h s pl q : str) : str := h ++ NL :: s ++ NL :: pl ++ NL :: q ++ [NL].
Definition tagRR : str := [59; 82; 82; 58].   (* ";RR:" *)
Definition tagRr : str := [59; 82; 114; 58].  (* ";Rr:" *)

(* baseDemux.demultiplex(reads, reason=reason): the records are formatted in order, the first header
   that cannot be produced decides *)
Inductive hdrs := HsOk (hs : list str) | HsNonMux (why : str) | HsRaise.

Fixpoint base_headers (rejhdr : read -> str -> hout) (reads : pair) (reason : str) : hdrs :=
  match reads with
  | [] => HsOk []
  | r :: rest =>
      match rejhdr r reason with
      | HOk h => match base_headers rejhdr rest reason with
                 | HsOk hs => HsOk (h :: hs)
                 | other => other
                 end
      | HNonMux why => HsNonMux why
      | HRaise => HsRaise
      end
  end.

(* TaggedRecord.asFastq(record.sequence, record.plus, record.qual): '@' header, ORIGINAL bases/qualities *)
Definition formatted_text (hr : str * read) : str :=
  fastq_text (64 :: fst hr) (r_seq (snd hr)) (r_plus (snd hr)) (r_qual (snd hr)).

(* raw fall-back: read.header + suffix, original bases/qualities *)
Definition raw_text (suffix : str) (r : read) : str :=
  fastq_text (r_header r ++ suffix) (r_seq r) (r_plus r) (r_qual r).

Inductive rejres := RTexts (ts : list str) | RCrash.

Definition reject_texts (rejhdr : read -> str -> hout) (reads : pair) (reason : str) : rejres :=
  match base_headers rejhdr reads reason with
  | HsOk hs => RTexts (map formatted_text (combine hs reads))
  | HsNonMux why => RTexts (map (raw_text (tagRR ++ reason ++ tagRr ++ why)) reads)
  | HsRaise => RCrash
  end.

Definition generic_texts (reads : pair) (kind : str) : list str := map (raw_text (tagRR ++ kind)) reads.

Fixpoint bump (j : nat) (ys : list Z) : list Z :=
  match ys with
  | [] => []
  | y :: t => match j with O => (y + 1) :: t | S j' => y :: bump j' t end
  end.

Section Loader.
  Variable strats : list strategy.
  Variable rejhdr : read -> str -> hout.
  Variable cfg : config.

  (* for strategy in useStrategies: try ... except NonMultiplexable ... except Exception ... *)
  Fixpoint strat_loop (p : nat) (reads : pair) (j : nat) (ss : list strategy)
           (tr : list event) (ys : list Z) : list event * list Z * bool :=
    match ss with
    | [] => (tr, ys, false)
    | f :: ss' =>
        match f reads with
        | Accept recs =>
            match ok_prefix (touched cfg recs) with
            | (_, None) => strat_loop p reads (S j) ss' (tr ++ write_target cfg p j recs) (bump j ys)
            | (pre, Some kind) =>
                (* targetFile.write raised after writing pre: the generic-exception arm *)
                if c_legacy cfg then strat_loop p reads (S j) ss' (tr ++ write_target cfg p j pre) (bump j ys)
                else strat_loop p reads (S j) ss'
                       (tr ++ write_target cfg p j pre ++
                        (if c_rejects cfg then write_reject cfg p j (generic_texts reads kind) else [])) ys
            end
        | Reject reason =>
            if c_rejects cfg then
              match reject_texts rejhdr reads reason with
              | RTexts ts => strat_loop p reads (S j) ss' (tr ++ write_reject cfg p j ts) ys
              | RCrash => (tr, ys, true)
              end
            else strat_loop p reads (S j) ss' tr ys
        | Raise kind =>
            if c_legacy cfg then strat_loop p reads (S j) ss' tr (bump j ys)
            else strat_loop p reads (S j) ss'
                   (if c_rejects cfg then tr ++ write_reject cfg p j (generic_texts reads kind) else tr) ys
        end
    end.

  (* if maxReadPairs is not None and processedReadPairs >= maxReadPairs: break *)
  Definition stop_after (processed : Z) : bool :=
    match c_max cfg with Some m => m <=? processed | None => false end.

  Record result := mkRes { res_trace : list event; res_yields : list Z; res_processed : Z; res_crashed : bool }.

  (* for p, reads in enumerate(FastqIterator(fastqfiles...)): processedReadPairs = p + 1 ... *)
  Fixpoint pair_loop (p : nat) (pairs : list pair) (tr : list event) (ys : list Z) (proc : Z) : result :=
    match pairs with
    | [] => mkRes tr ys proc false
    | reads :: rest =>
        let proc' := Z.of_nat p + 1 in
        match strat_loop p reads 0 strats tr ys with
        | (tr', ys', true) => mkRes tr' ys' proc' true
        | (tr', ys', false) =>
            if stop_after proc' then mkRes tr' ys' proc' false
            else pair_loop (S p) rest tr' ys' proc'
        end
    end.

  Definition loader (pairs : list pair) : result :=
    pair_loop 0 pairs [] (repeat 0 (length strats)) 0.

  Definition demultiplex (files : list (list str)) : result := loader (fastq_iter files).
End Loader.

(* ------------------------------------------------------------------ observation of the sinks *)
Definition str_eqb (a b : str) : bool :=
  (fix go (a b : str) : bool :=
     match a, b with
     | [], [] => true
     | x :: a', y :: b' => (x =? y) && go a' b'
     | _, _ => false
     end) a b.

Definition in_file (target : bool) (cell : str) (m : nat) (e : event) : bool :=
  Bool.eqb (e_target e) target && str_eqb (e_cell e) cell && Nat.eqb (e_mate e) m.

Definition file_events (tr : list event) (target : bool) (cell : str) (m : nat) : list event :=
  filter (in_file target cell m) tr.

Definition file_bytes (tr : list event) (target : bool) (cell : str) (m : nat) : str :=
  concat (map e_text (file_events tr target cell m)).

(* ------------------------------------------------------------------ I/O glue for the correspondence *)
Definition dec_str (v : Val) : str := getZs v.
Definition enc_str (s : str) : Val := ofZs s.

Definition dec_read (v : Val) : read :=
  mkRead (dec_str (nthV 0 v)) (dec_str (nthV 1 v)) (dec_str (nthV 2 v)) (dec_str (nthV 3 v)).
Definition enc_read (r : read) : Val :=
  VL [enc_str (r_header r); enc_str (r_seq r); enc_str (r_plus r); enc_str (r_qual r)].

Definition read_eqb (a b : read) : bool :=
  str_eqb (r_header a) (r_header b) && str_eqb (r_seq a) (r_seq b)
  && str_eqb (r_plus a) (r_plus b) && str_eqb (r_qual a) (r_qual b).

Fixpoint pair_eqb (a b : pair) : bool :=
  match a, b with
  | [], [] => true
  | x :: a', y :: b' => read_eqb x y && pair_eqb a' b'
  | _, _ => false
  end.

(* outcome: (0 recs) | (1 reason) | (2 kind);  rec = (ok cell text) *)
Definition dec_outcome (v : Val) : outcome :=
  match getZ (nthV 0 v) with
  | 0 => Accept (map (fun r => mkArec (getB (nthV 0 r)) (dec_str (nthV 1 r)) (dec_str (nthV 2 r))) (getL (nthV 1 v)))
  | 1 => Reject (dec_str (nthV 1 v))
  | _ => Raise (dec_str (nthV 1 v))
  end.

(* a strategy given as its graph on the pairs of the library: list of (pair, outcome); a pair that is not
   in the table (the model's reader produced something the real reader did not) raises "?" *)
Fixpoint lookup_outcome (tbl : list (pair * outcome)) (p : pair) : outcome :=
  match tbl with
  | [] => Raise [63]
  | (k, o) :: t => if pair_eqb k p then o else lookup_outcome t p
  end.

Definition dec_strategy (v : Val) : strategy :=
  lookup_outcome (map (fun e => (map dec_read (getL (nthV 0 e)), dec_outcome (nthV 1 e))) (getL v)).

Definition dec_hout (v : Val) : hout :=
  match getZ (nthV 0 v) with
  | 0 => HOk (dec_str (nthV 1 v))
  | 1 => HNonMux (dec_str (nthV 1 v))
  | _ => HRaise
  end.

Fixpoint lookup_hout (tbl : list (read * str * hout)) (r : read) (reason : str) : hout :=
  match tbl with
  | [] => HRaise
  | (k, rs, h) :: t => if read_eqb k r && str_eqb rs reason then h else lookup_hout t r reason
  end.

Definition dec_rejhdr (v : Val) : read -> str -> hout :=
  lookup_hout (map (fun e => (dec_read (nthV 0 e), dec_str (nthV 1 e), dec_hout (nthV 2 e))) (getL v)).

Definition dec_config (v : Val) : config :=
  mkConfig (getOptZ (nthV 0 v)) (getB (nthV 1 v)) (getB (nthV 2 v)) (Z.to_nat (getZ (nthV 3 v))) (getB (nthV 4 v))
           (getB (nthV 5 v)).

(* the files that received at least one record, in order of first write, with their bytes *)
Definition file_key := (bool * str * nat)%type.
Definition key_of (e : event) : file_key := (e_target e, e_cell e, e_mate e).
Definition key_eqb (a b : file_key) : bool :=
  let '(t1, c1, m1) := a in let '(t2, c2, m2) := b in Bool.eqb t1 t2 && str_eqb c1 c2 && Nat.eqb m1 m2.

Fixpoint keys_of (tr : list event) (seen : list file_key) : list file_key :=
  match tr with
  | [] => rev seen
  | e :: t => if existsb (key_eqb (key_of e)) seen then keys_of t seen else keys_of t (key_of e :: seen)
  end.

Definition enc_files (tr : list event) : Val :=
  VL (map (fun k => let '(t, c, m) := k in
                    VL [ofB t; enc_str c; VZ (Z.of_nat m); enc_str (file_bytes tr t c m);
                        VL (map (fun e => VL [VZ (Z.of_nat (e_pair e)); VZ (Z.of_nat (e_strat e))])
                                (file_events tr t c m))])
          (keys_of tr [])).

Definition enc_result (r : result) : Val :=
  VL [ofB (res_crashed r); VZ (res_processed r); ofZs (res_yields r); enc_files (res_trace r)].

(* precondition of the theorems, evaluated on a run: no reject formatting crashed *)
Definition dec_files (v : Val) : list (list str) := map (fun f => map dec_str (getL f)) (getL v).

(* input: (config files strategies rejhdr)
   mode 0: the whole run: (crashed processed yields files)
   mode 1: precondition: the run did not crash
   mode 3: the reader alone: the records FastqIterator yields *)
Definition run_C01 (mode : Z) (v : Val) : Val :=
  match mode with
  | 0 => enc_result (demultiplex (map dec_strategy (getL (nthV 2 v))) (dec_rejhdr (nthV 3 v))
                                 (dec_config (nthV 0 v)) (dec_files (nthV 1 v)))
  | 1 => ofB (negb (res_crashed (demultiplex (map dec_strategy (getL (nthV 2 v))) (dec_rejhdr (nthV 3 v))
                                             (dec_config (nthV 0 v)) (dec_files (nthV 1 v)))))
  | 3 => VL (map (fun p => VL (map enc_read p)) (fastq_iter (dec_files (nthV 1 v))))
  | _ => bad
  end.
