(* C02 model of the composite strategies and the bulk strategy.  Definitions only.

   Python side modelled (singlecellmultiomics/modularDemultiplexer/demultiplexModules):
     scCHIC.SCCHIC_384w_c8_u3_cs2.demultiplex / trim_r2 / extract_vasa_umi  (TCHIC)      -> demux_tchic
     scCHIC.SCCHIC_384w_c8_u3_pdt.demultiplex                                (CHICTV)     -> demux_chictv
     DamID.DamID2_c8_u3_cs2 / DamID2andT_SCA / DamID2andT_SCA6 .demultiplex  (DamAndT,
        DamID2andT_3u4b3u4b, DamID2andT_3u4b3u6b)                                         -> demux_dual
     baseDemultiplexMethods.IlluminaBaseDemultiplexer.demultiplex            (ILLU)       -> demux_bulk
     str.find / in, re.sub('[GA]*$', ''), utils.reverse_complement, the poly-T pruning loop
   The sub-demultiplexers ("arms") are the single-protocol models of Model/C02Defs.v.
   Every literal (oligos, poly lengths, the 3 of [:-3], UMI lengths, dt strings, the complement table)
   is a field of the records below and is REGENERATED from the source into Gen/GenComp.v.             *)
From Coq Require Import ZArith List Bool.
Import ListNotations.
From SCMO Require Import Lib.Val Lib.PySlice Model.C02Defs.
Open Scope Z_scope.

(* ------------------------------------------------------------------ strings *)
Fixpoint prefixb (p s : list Z) : bool :=
  match p, s with
  | [], _ => true
  | x :: p', y :: s' => (x =? y) && prefixb p' s'
  | _ :: _, [] => false
  end.

(* str.find(p): index of the first occurrence, None for -1 *)
Fixpoint find_sub (p s : list Z) {struct s} : option nat :=
  match s with
  | [] => if prefixb p [] then Some O else None
  | _ :: t => if prefixb p s then Some O else option_map S (find_sub p t)
  end.

Definition contains (p s : list Z) : bool := match find_sub p s with Some _ => true | None => false end.

(* str.translate(table)[::-1] *)
Definition translate (tbl : list (Z * Z)) (c : Z) : Z :=
  match find (fun e => fst e =? c) tbl with Some e => snd e | None => c end.
Definition revcomp (tbl : list (Z * Z)) (s : list Z) : list Z := rev (map (translate tbl) s).

(* re.sub('[chars]*$', '', s): drop the longest suffix made of chars *)
Definition in_chars (chars : list Z) (c : Z) : bool := existsb (fun x => x =? c) chars.
Fixpoint drop_while_end (f : Z -> bool) (l : list Z) : list Z :=
  match l with
  | [] => []
  | x :: t => let r := drop_while_end f t in if is_nil r && f x then [] else x :: r
  end.

(* pos = 0
   for pos, base in enumerate(seq):
       if base != c: break                      -> the value of pos after the loop *)
Fixpoint prune_pos (c : Z) (s : list Z) : nat :=
  match s with
  | [] => O
  | x :: t => if x =? c then (match t with [] => O | _ :: _ => S (prune_pos c t) end) else O
  end.

(* length of the maximal prefix made of c *)
Fixpoint run_len (c : Z) (s : list Z) : nat :=
  match s with
  | x :: t => if x =? c then S (run_len c t) else O
  | [] => O
  end.

(* ------------------------------------------------------------------ arms *)
Inductive arm :=
| ArmC (L : clayout) (W : wrapper)
| ArmS (L : slayout) (W : wrapper).

Definition run_arm (a : arm) (lookup : lookup_t) (recs : list mate) : outcome (list orec) :=
  match a with
  | ArmC L W => demux_contig L W lookup recs
  | ArmS L W => demux_scattered L W lookup recs
  end.
Definition arm_positions (a : arm) : option playout :=
  match a with ArmC L W => positions_c L W | ArmS L W => positions_s L W end.
Definition arm_rxb (a : arm) : bool := match a with ArmC _ _ => false | ArmS _ _ => true end.

(* a record of a composite strategy: the positional record plus the string tags MX dt rx RR tu *)
Record crec := mkCR {
  cr_o : orec;
  cr_mx : list Z;
  cr_dt : option (list Z);
  cr_rx : option (list Z);
  cr_rr : option (list Z);
  cr_tu : option (list Z)
}.

Definition with_sq (s q : list Z) (o : orec) : orec :=
  mkO s q (o_bc o) (o_BC o) (o_bi o) (o_RX o) (o_RQ o) (o_rS o) (o_lh o) (o_lq o) (o_extra o).

(* ------------------------------------------------------------------ DamID + transcriptome *)
Record dual := mkDual {
  d_damid : arm; d_tx : arm;
  d_mx_damid : list Z; d_mx_tx : list Z;        (* shortName of each arm -> MX *)
  d_merge : bool;                               (* both arms accept: tx records updated with the DamID tags *)
  d_dt_both : option (list Z); d_dt_tx : list Z; d_dt_damid : list Z;
  d_prune : Z                                   (* 'T' *)
}.

(* try: ... except NonMultiplexable: None   (any other exception propagates) *)
Definition try_arm (o : outcome (list orec)) : outcome (option (list orec)) :=
  match o with
  | Accept x => Accept (Some x)
  | Reject => Accept None
  | RaiseE k => RaiseE k
  end.

Definition prune_rec (c : Z) (o : orec) : orec :=
  let a := prune_pos c (o_seq o) in with_sq (skipn a (o_seq o)) (skipn a (o_qual o)) o.

Definition or_else {A} (a b : option A) : option A := match a with Some _ => a | None => b end.

(* tx_tagged_record.tags.update(damid_tagged_record.tags): every tag the DamID record has wins *)
Definition merge_rec (t d : orec) : orec :=
  mkO (o_seq t) (o_qual t) (o_bc d) (o_BC d) (o_bi d) (or_else (o_RX d) (o_RX t)) (or_else (o_RQ d) (o_RQ t))
      (or_else (o_rS d) (o_rS t)) (or_else (o_lh d) (o_lh t)) (or_else (o_lq d) (o_lq t)) (o_extra t).

Definition demux_dual (D : dual) (lk_damid lk_tx : lookup_t) (recs : list mate) : outcome (list crec) :=
  if negb (Z.of_nat (length recs) =? 2) then Reject else
  bind (try_arm (run_arm (d_damid D) lk_damid recs)) (fun dam =>
  bind (match run_arm (d_tx D) lk_tx recs with
        | Accept [] => RaiseE E_Index
        | Accept (r1 :: rest) => Accept (Some (prune_rec (d_prune D) r1 :: rest))
        | Reject => Accept None
        | RaiseE k => RaiseE k
        end) (fun tx =>
  match tx, dam with
  | Some t, Some d =>
    if d_merge D
    then Accept (map (fun p => mkCR (merge_rec (fst p) (snd p)) (d_mx_damid D) None None None None) (combine t d))
    else Accept (map (fun o => mkCR o (d_mx_damid D) (d_dt_both D) None None None) d)
  | Some t, None => Accept (map (fun o => mkCR o (d_mx_tx D) (Some (d_dt_tx D)) None None None) t)
  | None, Some d => Accept (map (fun o => mkCR o (d_mx_damid D) (Some (d_dt_damid D)) None None None) d)
  | None, None => Reject
  end)).

(* ------------------------------------------------------------------ TCHIC *)
Record tchic := mkTchic {
  t_L : clayout; t_W : wrapper; t_mx : list Z;
  t_comp : list (Z * Z);                 (* complement table *)
  t_cuts : list (list Z);                (* poly_A, poly_G: read 2 is cut at the first occurrence, in this order *)
  t_umi_len : Z;                         (* tx_umi_len *)
  t_trim_chars : list Z;                 (* [GA] *)
  t_trim_drop : Z;                       (* the 3 of [:-3] *)
  t_polyT : list Z;
  t_t7 : list (list Z * option Z);       (* (oligo, window of read 1 it is searched in) *)
  t_suffix : list Z;                     (* 'TTTTT' appended to the CEL-Seq2 barcode of the same index *)
  t_dt_chic : list Z; t_dt_vasa : list Z; t_dt_t7 : list Z; t_rr : list Z
}.

(* extract_vasa_umi *)
Definition extract_umi (n : Z) (s eb : list Z) : option (list Z) :=
  match find_sub eb s with
  | None => None        (* not reached: called only when eb occurs *)
  | Some e => let st := (e - Z.to_nat n)%nat in
              if Nat.ltb 0 (e - st) then Some (sub st (e - st) s) else None
  end.

Definition cut_at (p : list Z) (sq : list Z * list Z) : list Z * list Z :=
  match find_sub p (fst sq) with
  | Some i => (firstn i (fst sq), firstn i (snd sq))
  | None => sq
  end.

(* trim_r2 *)
Definition trim_r2 (T : tchic) (s q : list Z) : list Z * list Z :=
  let sq := fold_left (fun acc p => cut_at p acc) (t_cuts T) (s, q) in
  let s' := pyslice (mkSlice None (Some (- t_trim_drop T))) (drop_while_end (in_chars (t_trim_chars T)) (fst sq)) in
  (s', firstn (length s') (snd sq)).

Definition demux_tchic (T : tchic) (lookup : lookup_t) (cs2 : Z -> option (list Z)) (recs : list mate)
  : outcome (list crec) :=
  if negb (Z.of_nat (length recs) =? 2) then Reject else
  bind (demux_contig (t_L T) (t_W T) lookup recs) (fun out =>
  match out with
  | [r1; r2] =>
    match cs2 (o_bi r1) with
    | None => RaiseE E_Value
    | Some bc0 =>
      let eb := bc0 ++ t_suffix T in
      let rc2 := revcomp (t_comp T) (o_seq r2) in
      if contains eb (o_seq r1) || contains eb rc2 then
        let tx_umi := if contains eb (o_seq r1) then extract_umi (t_umi_len T) (o_seq r1) eb
                      else extract_umi (t_umi_len T) rc2 eb in
        let sq := trim_r2 T (o_seq r2) (o_qual r2) in
        Accept [mkCR r1 (t_mx T) (Some (t_dt_vasa T)) tx_umi None None;
                mkCR (with_sq (fst sq) (snd sq) r2) (t_mx T) (Some (t_dt_vasa T)) tx_umi None None]
      else if contains (t_polyT T) (o_seq r1) || contains (t_polyT T) (o_seq r2) then Reject
      else if existsb (fun e => contains (fst e) (match snd e with
                                                  | Some w => firstn (Z.to_nat w) (o_seq r1)
                                                  | None => o_seq r1
                                                  end)) (t_t7 T)
      then Accept [mkCR r1 (t_mx T) (Some (t_dt_t7 T)) None (Some (t_rr T)) None;
                   mkCR r2 (t_mx T) (Some (t_dt_t7 T)) None (Some (t_rr T)) None]
      else Accept [mkCR r1 (t_mx T) (Some (t_dt_chic T)) None None None;
                   mkCR r2 (t_mx T) (Some (t_dt_chic T)) None None None]
    end
  | _ => RaiseE E_Index
  end).

(* ------------------------------------------------------------------ CHICTV *)
Record chictv := mkChictv {
  v_arm : arm; v_oligo : list Z; v_umi_len : Z; v_mx : list Z
}.

Definition demux_chictv (V : chictv) (lookup : lookup_t) (recs : list mate) : outcome (list crec) :=
  if negb (Z.of_nat (length recs) =? 2) then Reject else
  match recs with
  | [] => Reject
  | r0 :: _ =>
    if contains (v_oligo V) (fst r0) then
      bind (run_arm (v_arm V) lookup recs) (fun out =>
      match out with
      | [] => RaiseE E_Index
      | o1 :: rest =>
        match find_sub (v_oligo V) (o_seq o1) with
        | None => Reject
        | Some pos =>
          let st := (pos - Z.to_nat (v_umi_len V))%nat in
          let umi := sub st (pos - st) (o_seq o1) in
          Accept (mkCR (with_sq (firstn pos (o_seq o1)) (firstn pos (o_qual o1)) o1) (v_mx V) None None None (Some umi)
                  :: map (fun o => mkCR o (v_mx V) None None None (Some umi)) rest)
        end
      end)
    else Reject
  end.

(* ------------------------------------------------------------------ bulk *)
(* IlluminaBaseDemultiplexer.demultiplex(records): one fastq record per mate, whole sequence and qualities *)
Definition demux_bulk (recs : list mate) : outcome (list mate) := Accept recs.

(* ------------------------------------------------------------------ table entry *)
Inductive compdef :=
| CTchic (t : tchic)
| CChictv (v : chictv)
| CDual (d : dual)
| CBulk.

Definition comp_arms (c : compdef) : list arm :=
  match c with
  | CTchic t => [ArmC (t_L t) (t_W t)]
  | CChictv v => [v_arm v]
  | CDual d => [d_damid d; d_tx d]
  | CBulk => []
  end.

(* every literal of a composite definition, flattened (compared with the pinned list by registered_ok) *)
Definition oz (o : option Z) : list Z := match o with Some z => [z] | None => [] end.
Definition comp_consts (c : compdef) : list (list Z) :=
  match c with
  | CTchic t =>
    [t_mx t] ++ t_cuts t ++ [[t_umi_len t]; t_trim_chars t; [t_trim_drop t]; t_polyT t] ++
    flat_map (fun e => [fst e; oz (snd e)]) (t_t7 t) ++
    [t_suffix t; t_dt_chic t; t_dt_vasa t; t_dt_t7 t; t_rr t] ++ map (fun e => [fst e; snd e]) (t_comp t)
  | CChictv v => [v_mx v; v_oligo v; [v_umi_len v]]
  | CDual d => [d_mx_damid d; d_mx_tx d; [if d_merge d then 1 else 0];
                match d_dt_both d with Some x => x | None => [] end; d_dt_tx d; d_dt_damid d; [d_prune d]]
  | CBulk => []
  end.
