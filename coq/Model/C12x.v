(* C12 extension.  Definitions only.
   (a) get_binned_counts with user REGIONS, as coded: per region one job; the region start is widened by fs = 1000
       (clipped at 0) and the widened value is reused as the ownership bound, the stop is inclusive; job results are
       added.  [region_hit] is the per-(region, record) predicate of Model.C12.region_counts, [region_mult] the number
       of regions that count a record.
   (b) count_methylation_binned: the second counter on the same tiling (generate_commands jobs, fetch window +
       ownership test), counting methylation calls (XM letters Z / z of every aligned base) per (sample, bin), merged
       by MethylationCountMatrix.update (overwrite per (sample, location)).  Window / ownership / bin / dyad / filter
       expressions are GENERATED from count_methylation_binned (g_m_* in Gen/GenBinCount.v); the loops, the matrix and
       the merge are hand-written. *)
From Coq Require Import ZArith List Bool.
Import ListNotations.
From SCMO Require Import Lib.Val Lib.PyInt Gen.GenBinCount Model.C12.
Open Scope Z_scope.

(* ===================================================================== (a) regions *)
Definition rread := (Z * Z * Z)%type.        (* reference_start, reference_end, site (DS) of a passing record *)

(* the record is fetched by the job of region rg = (start, stop) as given by the user AND passes its ownership test *)
Definition region_hit (fs : Z) (rg : Z * Z) (r : rread) : bool :=
  let st := g_region_start (fst rg) fs in
  let '(lo, hi, s) := r in (lo <? snd rg) && (st <? hi) && negb (g_region_skip s st (snd rg)).

(* how many times one record is counted *)
Definition region_mult (fs : Z) (regions : list (Z * Z)) (r : rread) : Z :=
  zcount (fun rg => region_hit fs rg r) regions.

(* the windows [max(0, start - fs), stop] of two regions are disjoint *)
Definition win_disjoint (fs : Z) (a b : Z * Z) : bool :=
  (snd a <? g_region_start (fst b) fs) || (snd b <? g_region_start (fst a) fs).
Fixpoint regions_separated (fs : Z) (l : list (Z * Z)) : bool :=
  match l with
  | [] => true
  | rg :: t => forallb (win_disjoint fs rg) t && regions_separated fs t
  end.

(* ===================================================================== (b) methylation calls per bin *)
Record mread := {
  m_lo : Z; m_hi : Z;                       (* reference_start, reference_end *)
  m_r1 : bool; m_qcfail : bool; m_dup : bool;
  m_mp : Z;                                 (* mp tag: 0 absent, 1 'unique', else another value *)
  m_mq : Z;
  m_sample : Z;                             (* SM (id); 0 = absent -> default_sample_name *)
  m_rev : bool;
  m_calls : list (Z * Z)                    (* get_aligned_pairs(matches_only=True) paired with XM: (reference position,
                                               letter: 1 'Z', 2 'z', anything else: another letter or '.') *)
}.
Record mcfg := { mc : cfg; m_dyad : bool; m_stranded : bool }.
Record mcontig := { mcid : Z; mclen : Z; mreads : list mread }.

(* read_counts as called by count_methylation_binned (read1_only / ignore_mp / ignore_qcfail at their defaults) *)
Definition m_passes (c : mcfg) (r : mread) : bool :=
  g_m_filter (c_has_mq (mc c)) (c_mq (mc c)) (c_dedup (mc c)) false
             (m_r1 r) (m_qcfail r) (m_dup r) (negb (m_mp r =? 0)) (m_mp r =? 1) (m_mq r).

(* MethylationCountMatrix.counts: sample -> location -> [n_unmethylated, n_methylated]; as a finite map keyed by
   the pair (sample, location), first match wins, insertion ordered *)
Definition mkey := (Z * binid)%type.
Definition mkey_eqb (a b : mkey) : bool := (fst a =? fst b) && binid_eqb (snd a) (snd b).
Definition fmap := list (mkey * (Z * Z)).

Fixpoint fget (k : mkey) (m : fmap) : option (Z * Z) :=
  match m with [] => None | (k', v) :: t => if mkey_eqb k k' then Some v else fget k t end.
Definition fval (m : fmap) (k : mkey) : Z * Z := match fget k m with Some v => v | None => (0, 0) end.

(* met_counts[sample, bin_id][final_call] += 1  (__getitem__ creates [0, 0]) *)
Definition bump_val (meth : bool) (v : Z * Z) : Z * Z := if meth then (fst v, snd v + 1) else (fst v + 1, snd v).
Fixpoint bump (k : mkey) (meth : bool) (m : fmap) : fmap :=
  match m with
  | [] => [(k, bump_val meth (0, 0))]
  | (k', v) :: t => if mkey_eqb k k' then (k', bump_val meth v) :: t else (k', v) :: bump k meth t
  end.

(* location of a call: dyad shift (AFTER the ownership test, as coded), bin, optional strand *)
Definition m_loc (c : mcfg) (cn : mcontig) (r : mread) (site : Z) : binid :=
  let s' := g_m_dyad_site site (m_rev r) (m_dyad c) in
  let bi := g_m_bin_i s' (c_b (mc c)) in
  ((if m_stranded c then (if m_rev r then 2 else 1) else 0), mcid cn,
   g_m_bin_start (c_b (mc c)) bi, g_m_bin_end (c_b (mc c)) bi (mclen cn)).

Definition is_call (code : Z) : bool := (code =? 1) || (code =? 2).

Definition m_count_call (c : mcfg) (cn : mcontig) (start end_ : Z) (r : mread) (acc : fmap) (cl : Z * Z) : fmap :=
  if g_m_not_owned (fst cl) start end_ then acc
  else if is_call (snd cl) then bump (m_sample r, m_loc c cn r (fst cl)) (snd cl =? 1) acc
  else acc.

Definition m_count_read (c : mcfg) (cn : mcontig) (start end_ : Z) (acc : fmap) (r : mread) : fmap :=
  if negb (m_passes c r) then acc else fold_left (m_count_call c cn start end_ r) (m_calls r) acc.

Definition m_fetched (fs fe : Z) (r : mread) : bool := (m_lo r <? fe) && (fs <? m_hi r).

Definition mjob := (mcontig * (Z * Z))%type.

Definition m_count_job (c : mcfg) (j : mjob) : fmap :=
  let '(cn, (start, end_)) := j in
  let fs := g_m_f_start start (c_mfs (mc c)) in
  let fe := g_m_f_end end_ (c_mfs (mc c)) (mclen cn) in
  fold_left (m_count_read c cn start end_) (filter (m_fetched fs fe) (mreads cn)) [].

Definition m_all_jobs (c : mcfg) (g : list mcontig) : list mjob :=
  flat_map (fun cn => map (fun j => (cn, j)) (jobs_contig (mc c) (mclen cn))) g.

(* MethylationCountMatrix.update: self.counts[sample].update(other.counts[sample]) - overwrites per (sample, location) *)
Fixpoint fset (k : mkey) (v : Z * Z) (m : fmap) : fmap :=
  match m with
  | [] => [(k, v)]
  | (k', v') :: t => if mkey_eqb k k' then (k', v) :: t else (k', v') :: fset k v t
  end.
Definition fupdate (self other : fmap) : fmap := fold_left (fun m e => fset (fst e) (snd e) m) other self.
Definition fmerge_all (rs : list fmap) : fmap := fold_left fupdate rs [].

(* the caller (bamToMethylationCalls.get_methylation_count_matrix): results merged in completion order *)
Definition m_obtain (c : mcfg) (g : list mcontig) (sched : list nat) : fmap :=
  fmerge_all (map (m_count_job c) (apply_sched sched (m_all_jobs c g))).

(* ---- declarative: no jobs, no schedule.  Calls of passing records, by (sample, location, letter) *)
Definition m_items (c : mcfg) (cn : mcontig) : list (mread * (Z * Z)) :=
  flat_map (fun r => map (fun cl => (r, cl)) (filter (fun cl => is_call (snd cl)) (m_calls r)))
           (filter (m_passes c) (mreads cn)).
Definition m_decl_loc (c : mcfg) (cn : mcontig) (r : mread) (site : Z) : binid :=
  ((if m_stranded c then (if m_rev r then 2 else 1) else 0), mcid cn,
   c_b (mc c) * (site / c_b (mc c)), Z.min (c_b (mc c) * (site / c_b (mc c) + 1)) (mclen cn)).
Definition m_contrib (c : mcfg) (cn : mcontig) (k : mkey) (meth : bool) (it : mread * (Z * Z)) : bool :=
  mkey_eqb k (m_sample (fst it), m_decl_loc c cn (fst it) (fst (snd it))) && Bool.eqb (snd (snd it) =? 1) meth.
Definition m_decl (c : mcfg) (g : list mcontig) (k : mkey) : Z * Z :=
  (zsum (fun cn => zcount (m_contrib c cn k false) (m_items c cn)) g,
   zsum (fun cn => zcount (m_contrib c cn k true) (m_items c cn)) g).
Definition m_decl_total (c : mcfg) (g : list mcontig) : Z := zsum (fun cn => Z.of_nat (length (m_items c cn))) g.
Definition ftotal (m : fmap) : Z := fold_right (fun e acc => fst (snd e) + snd (snd e) + acc) 0 m.

(* hypotheses: a mapped record inside its contig; every aligned position inside the aligned span *)
Definition m_regular (c : mcfg) (len : Z) (r : mread) : bool :=
  negb (m_passes c r)
  || ((0 <=? m_lo r) && (m_lo r <? m_hi r) && (m_hi r <=? len)
      && forallb (fun cl => (m_lo r <=? fst cl) && (fst cl <? m_hi r)) (m_calls r)).
Definition m_nodup_cids (g : list mcontig) : bool :=
  (fix go (l : list Z) := match l with [] => true | x :: t => negb (existsb (Z.eqb x) t) && go t end) (map mcid g).
Definition m_pre (c : mcfg) (g : list mcontig) : bool :=
  valid_cfg (mc c) && negb (m_dyad c) && m_nodup_cids g
  && forallb (fun cn => forallb (m_regular c (mclen cn)) (mreads cn)) g.

(* ===================================================================== I/O glue *)
Definition dec_mread (v : Val) : mread :=
  {| m_lo := getZ (nthV 0 v); m_hi := getZ (nthV 1 v); m_r1 := getB (nthV 2 v); m_qcfail := getB (nthV 3 v);
     m_dup := getB (nthV 4 v); m_mp := getZ (nthV 5 v); m_mq := getZ (nthV 6 v); m_sample := getZ (nthV 7 v);
     m_rev := getB (nthV 8 v); m_calls := map getPair (getL (nthV 9 v)) |}.
Definition dec_mcfg (v : Val) : mcfg :=
  {| mc := dec_cfg (nthV 0 v); m_dyad := getB (nthV 1 v); m_stranded := getB (nthV 2 v) |}.
Definition dec_mcontig (v : Val) : mcontig :=
  {| mcid := getZ (nthV 0 v); mclen := getZ (nthV 1 v); mreads := map dec_mread (getL (nthV 2 v)) |}.
Definition enc_fmap (m : fmap) : Val :=
  VL (map (fun e => let '(s, (k, cc, bs, be)) := fst e in
                    VL [VZ s; VZ k; VZ cc; VZ bs; VZ be; VZ (fst (snd e)); VZ (snd (snd e))]) m).
Definition dec_rread (t : Val) : rread := (getZ (nthV 0 t), getZ (nthV 1 t), getZ (nthV 2 t)).

(* distinct keys of the declarative matrix, in first-occurrence order *)
Definition m_decl_cells (c : mcfg) (g : list mcontig) : list (mkey * (Z * Z)) :=
  let cand := flat_map (fun cn => map (fun it => (m_sample (fst it), m_decl_loc c cn (fst it) (fst (snd it))))
                                      (m_items c cn)) g in
  let fix dedup (l seen : list mkey) :=
      match l with
      | [] => []
      | x :: t => if existsb (mkey_eqb x) seen then dedup t seen else x :: dedup t (x :: seen)
      end in
  map (fun k => (k, m_decl c g k)) (dedup cand []).

Definition run_C12x (mode : Z) (v : Val) : Val :=
  match mode with
  | 8 => (* [fs; regions; reads] -> multiplicity of every record *)
      let fs := getZ (nthV 0 v) in let regions := map getPair (getL (nthV 1 v)) in
      ofZs (map (region_mult fs regions) (map dec_rread (getL (nthV 2 v))))
  | 9 => (* [fs; regions] -> windows pairwise disjoint *)
      ofB (regions_separated (getZ (nthV 0 v)) (map getPair (getL (nthV 1 v))))
  | 10 => (* methylation: [mcfg; genome; schedule] -> merged matrix *)
      let c := dec_mcfg (nthV 0 v) in let g := map dec_mcontig (getL (nthV 1 v)) in
      enc_fmap (m_obtain c g (map Z.to_nat (getZs (nthV 2 v))))
  | 11 => let c := dec_mcfg (nthV 0 v) in let g := map dec_mcontig (getL (nthV 1 v)) in ofB (m_pre c g)
  | 12 => (* declarative methylation matrix and total *)
      let c := dec_mcfg (nthV 0 v) in let g := map dec_mcontig (getL (nthV 1 v)) in
      VL [enc_fmap (m_decl_cells c g); VZ (m_decl_total c g)]
  | 13 => (* one job: [mcfg; contig; start; end] *)
      let c := dec_mcfg (nthV 0 v) in
      enc_fmap (m_count_job c (dec_mcontig (nthV 1 v), (getZ (nthV 2 v), getZ (nthV 3 v))))
  | 14 => (* MethylationCountMatrix.update kernel: list of matrices in completion order *)
      let dec := fun m => map (fun e => ((getZ (nthV 0 e), (getZ (nthV 1 e), getZ (nthV 2 e), getZ (nthV 3 e), getZ (nthV 4 e))),
                                         (getZ (nthV 5 e), getZ (nthV 6 e)))) (getL m) in
      enc_fmap (fmerge_all (map dec (getL v)))
  | _ => run_C12 mode v
  end.
