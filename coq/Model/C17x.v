(* C17 extension model: blacklisted_binning_contigs (bamProcessing/bamBinCounts.py) on top of Model.C17:
   the blacklist dictionary built by get_bins_from_bed_dict from the parsed BED records, the loop over the
   contig-length list with the optional contig whitelist, with and without fragment_size, and bp_chunked applied
   to the rows it yields.  Hand transcription tied to the source by the correspondence check (real BED / BED.gz
   files, real contig lists and BAM headers).  Definitions only.

   Source (bamBinCounts.py):

     def get_bins_from_bed_dict(path, contig=None):
         bd = {}
         for c, start, end in get_bins_from_bed_iter(path, contig=contig):
             if not c in bd:
                 bd[c] = list()
             bd[c].append((start, end))
         return bd

     def blacklisted_binning_contigs(contig_length_resource, bin_size, fragment_size, blacklist_path=None, contig_whitelist=None):
         if blacklist_path is not None:
             blacklist_dict = get_bins_from_bed_dict(blacklist_path)
         else:
             blacklist_dict = {}
         for contig, length in (get_contig_sizes(contig_length_resource).items()
                                if type(contig_length_resource) is str else contig_length_resource):
             if contig_whitelist is not None and not contig in contig_whitelist:
                 continue
             if fragment_size is not None:
                 for bin_start, bin_end, fetch_start, fetch_end in blacklisted_binning(start_coord=0, end_coord=length,
                         bin_size=bin_size, blacklist=sorted(blacklist_dict.get(contig, [])), fragment_size=fragment_size):
                     yield contig, bin_start, bin_end, fetch_start, fetch_end
             else:
                 for bin_start, bin_end in blacklisted_binning(start_coord=0, end_coord=length, bin_size=bin_size,
                         blacklist=sorted(blacklist_dict.get(contig, []))):
                     yield contig, bin_start, bin_end                                                              *)
From Coq Require Import ZArith List Bool.
Import ListNotations.
From SCMO Require Import Lib.Val Lib.Tiling Model.C17 Model.C17bed.
Open Scope Z_scope.

(* the parsed BED records (contig, start, end) in file order: Model.C17bed.bedrec = name * iv, name = list Z *)

(* ------------------------------------------------------------------ get_bins_from_bed_dict
   a Python dict as an association list in insertion order; only `c in bd`, `bd[c] = list()`,
   `bd[c].append(..)` and `.get(contig, [])` are used *)
Definition bdict := list (name * list iv).

Fixpoint dict_append (d : bdict) (c : name) (b : iv) : bdict :=
  match d with
  | [] => [(c, [b])]                                         (* not c in bd: bd[c] = list(); append *)
  | (k, l) :: d' => if name_eqb k c then (k, l ++ [b]) :: d' else (k, l) :: dict_append d' c b
  end.

Definition bed_dict (recs : list bedrec) : bdict :=
  fold_left (fun d r => dict_append d (fst r) (snd r)) recs [].

(* blacklist_dict.get(contig, []) *)
Fixpoint dict_get (d : bdict) (c : name) : list iv :=
  match d with
  | [] => []
  | (k, l) :: d' => if name_eqb k c then l else dict_get d' c
  end.

(* ------------------------------------------------------------------ blacklisted_binning_contigs *)
(* a yielded tuple (contig, bin_start, bin_end[, fetch_start, fetch_end]) *)
Definition grow := (name * obin)%type.

(* `contig_whitelist is not None and not contig in contig_whitelist` is the negation of this *)
Definition in_whitelist (wl : option (list name)) (c : name) : bool :=
  match wl with
  | None => true
  | Some w => existsb (fun x => name_eqb x c) w
  end.

(* the loop over the (contig, length) pairs; an exception of blacklisted_binning propagates (the rows yielded
   before it are not part of the result, as for Model.C17.blacklisted_binning) *)
Fixpoint bbc_loop (d : bdict) (bs : Z) (frag : option Z) (wl : option (list name)) (contigs : list (name * Z))
  : Res (list grow) :=
  match contigs with
  | [] => Ok []
  | (c, len) :: rest =>
      if negb (in_whitelist wl c) then bbc_loop d bs frag wl rest
      else match blacklisted_binning 0 len bs (isort (dict_get d c)) frag with
           | Raise e => Raise e
           | Ok out => match bbc_loop d bs frag wl rest with
                       | Raise e => Raise e
                       | Ok r => Ok (map (pair c) out ++ r)
                       end
           end
  end.

(* bed = None: blacklist_path is None; Some recs: the records read from the BED file *)
Definition blacklisted_binning_contigs (contigs : list (name * Z)) (bs : Z) (frag : option Z)
           (bed : option (list bedrec)) (wl : option (list name)) : Res (list grow) :=
  let d := match bed with None => [] | Some recs => bed_dict recs end in
  bbc_loop d bs frag wl contigs.

(* the whole path from the text of the BED file (Model.C17bed.parse_bed; a malformed line raises) *)
Definition blacklisted_binning_contigs_text (contigs : list (name * Z)) (bs : Z) (frag : option Z)
           (bedtext : option (list Z)) (wl : option (list name)) : Res (list grow) :=
  match bedtext with
  | None => blacklisted_binning_contigs contigs bs frag None wl
  | Some t => match parse_bed t with
              | Raise e => Raise e
              | Ok recs => blacklisted_binning_contigs contigs bs frag (Some recs) wl
              end
  end.

(* bp_chunked(rows, bp_per_job): start, end = job[1], job[2] are the bin coordinates of a row *)
Definition row_span (r : grow) : iv := fst (snd r).
Definition bp_chunked_rows (rows : list grow) (k : Z) : list (list grow) := bp_chunked row_span rows k.

(* ------------------------------------------------------------------ executable specification (genome level)
   evaluated on the implementation's rows by the search (run_C17x mode 2); Proofs.C17x.gspecb_sound /
   gspecb_iff relate it to the statement [gtiling] *)
Definition selected (wl : option (list name)) (contigs : list (name * Z)) : list (name * Z) :=
  filter (fun cl => in_whitelist wl (fst cl)) contigs.

(* the blacklist records of one contig, in file order *)
Definition bed_get (recs : list bedrec) (c : name) : list iv :=
  map snd (filter (fun r => name_eqb (fst r) c) recs).

Definition bed_recs (bed : option (list bedrec)) : list bedrec :=
  match bed with None => [] | Some recs => recs end.

(* longest prefix of rows carrying the contig name c, and the rest *)
Fixpoint span_name (c : name) (rows : list grow) : list grow * list grow :=
  match rows with
  | [] => ([], [])
  | r :: t => if name_eqb (fst r) c then let '(a, b) := span_name c t in (r :: a, b) else ([], rows)
  end.

Fixpoint gspecb_loop (recs : list bedrec) (bs : Z) (frag : option Z) (sel : list (name * Z)) (rows : list grow) : bool :=
  match sel with
  | [] => match rows with [] => true | _ => false end
  | (c, len) :: sel' =>
      let '(blk, rest) := span_name c rows in
      specb 0 len bs (bed_get recs c) frag (map snd blk) && gspecb_loop recs bs frag sel' rest
  end.

Definition gspecb (contigs : list (name * Z)) (bs : Z) (frag : option Z) (bed : option (list bedrec))
           (wl : option (list name)) (rows : list grow) : bool :=
  gspecb_loop (bed_recs bed) bs frag (selected wl contigs) rows.

(* precondition of the genome-level theorems: bin size > 0, every selected contig has length >= 0, every
   blacklist record OF A SELECTED CONTIG has start <= end, fragment size >= 0 *)
Definition gpre (contigs : list (name * Z)) (bs : Z) (frag : option Z) (bed : option (list bedrec))
           (wl : option (list name)) : bool :=
  (0 <? bs)
  && forallb (fun cl => (0 <=? snd cl) && forallb wfb (bed_get (bed_recs bed) (fst cl))) (selected wl contigs)
  && match frag with None => true | Some f => 0 <=? f end.

(* contig names of the selected contigs are pairwise different (always so for a BAM header / a dict) *)
Fixpoint nodupb (l : list name) : bool :=
  match l with
  | [] => true
  | a :: t => negb (existsb (fun x => name_eqb x a) t) && nodupb t
  end.

(* ------------------------------------------------------------------ I/O glue *)
Definition getName (v : Val) : name := getZs v.
Definition ofName (n : name) : Val := ofZs n.
Definition getContigs (v : Val) : list (name * Z) := map (fun x => (getName (nthV 0 x), getZ (nthV 1 x))) (getL v).
Definition getRec (x : Val) : bedrec := (getName (nthV 0 x), (getZ (nthV 1 x), getZ (nthV 2 x))).
(* None = VL [], Some x = VL [x] *)
Definition getOpt {A} (f : Val -> A) (v : Val) : option A :=
  match getL v with [x] => Some (f x) | _ => None end.
Definition getBed (v : Val) : option (list bedrec) := getOpt (fun x => map getRec (getL x)) v.
Definition getWl (v : Val) : option (list name) := getOpt (fun x => map getName (getL x)) v.
Definition ofRow (r : grow) : Val :=
  match ofObin (snd r) with
  | VL l => VL (ofName (fst r) :: l)
  | v => v
  end.
Definition getRow (v : Val) : grow :=
  match getL v with
  | n :: t => (getName n, getObin (VL t))
  | [] => ([], ((0, 0), None))
  end.
(* coordinates read from a text may exceed the driver's machine integers: they are reported as
   [sign; limbs base 2^30, least significant first] *)
Fixpoint limbs (fuel : nat) (n : Z) : list Z :=
  match fuel with
  | O => []
  | S f => if n =? 0 then [] else Z.land n 1073741823 :: limbs f (Z.shiftr n 30)
  end.
Definition ofBig (z : Z) : Val :=
  VL [VZ (Z.sgn z); ofZs (limbs (S (Z.to_nat (Z.log2 (Z.abs z)))) (Z.abs z))].
Definition ofRec (r : bedrec) : Val := VL [ofName (fst r); ofBig (fst (snd r)); ofBig (snd (snd r))].

(* input: VL [VZ fn; args...]
     [7, contigs, whitelist, bed, bin_size, frag]        blacklisted_binning_contigs on parsed records
     [8, text]                                           get_bins_from_bed_iter: the records of a BED text (coordinates as sign + limbs)
     [9, contigs, whitelist, bed, bin_size, frag, k]     bp_chunked(blacklisted_binning_contigs(..), k)
     [10, contigs, whitelist, text-option, bin_size, frag]  blacklisted_binning_contigs from the BED text
     [11, recs]                                          print_bed (the text the round-trip theorem is about)
   anything else: Model.C17.run_fn *)
Definition run_fnx (v : Val) : Val :=
  let fn := getZ (nthV 0 v) in
  let a n := nthV n v in
  match fn with
  | 7 => ofRes (fun rows => VL (map ofRow rows))
           (blacklisted_binning_contigs (getContigs (a 1%nat)) (getZ (a 4%nat)) (getOptZ (a 5%nat))
                                        (getBed (a 3%nat)) (getWl (a 2%nat)))
  | 8 => ofRes (fun recs => VL (map ofRec recs)) (parse_bed (getZs (a 1%nat)))
  | 9 => match blacklisted_binning_contigs (getContigs (a 1%nat)) (getZ (a 4%nat)) (getOptZ (a 5%nat))
                                           (getBed (a 3%nat)) (getWl (a 2%nat)) with
         | Raise e => VL [VZ 1; VZ e]
         | Ok rows => VL [VZ 0; VL (map (fun ch => VL (map ofRow ch)) (bp_chunked_rows rows (getZ (a 6%nat))))]
         end
  | 10 => ofRes (fun rows => VL (map ofRow rows))
           (blacklisted_binning_contigs_text (getContigs (a 1%nat)) (getZ (a 4%nat)) (getOptZ (a 5%nat))
                                             (getOpt getZs (a 3%nat)) (getWl (a 2%nat)))
  | 11 => ofZs (print_bed (map getRec (getL (a 1%nat))))
  | _ => run_fn v
  end.

Definition run_C17x (mode : Z) (v : Val) : Val :=
  match mode with
  | 0 => run_fnx v
  | 1 => (* precondition: of the genome-level theorems for fn 7 / 9, of C17_tiling otherwise *)
         let fn := getZ (nthV 0 v) in
         if (fn =? 7) || (fn =? 9) then
           ofB (gpre (getContigs (nthV 1 v)) (getZ (nthV 4 v)) (getOptZ (nthV 5 v)) (getBed (nthV 3 v)) (getWl (nthV 2 v)))
         else run_C17 1 v
  | 2 => (* the boolean specification on [input; output rows] *)
         let i := nthV 0 v in
         if getZ (nthV 0 i) =? 7 then
           ofB (gspecb (getContigs (nthV 1 i)) (getZ (nthV 4 i)) (getOptZ (nthV 5 i)) (getBed (nthV 3 i)) (getWl (nthV 2 i))
                       (map getRow (getL (nthV 1 v))))
         else run_C17 2 v
  | 3 => (* are the selected contig names pairwise different (hypothesis of gspecb_iff) *)
         ofB (nodupb (map fst (selected (getWl (nthV 2 v)) (getContigs (nthV 1 v)))))
  | _ => bad
  end.
