(* C02 model, top: the registered strategies (REGENERATED table Gen/GenLayouts.v), the pinned
   protocol table (Model/C02Protocols.v) and the I/O glue run_C02.  Definitions only. *)
From Coq Require Import ZArith List Bool.
Import ListNotations.
From SCMO Require Import Lib.Val Lib.PySlice Model.C02Defs Model.C02Comp Model.C02Protocols Model.C02Fq Gen.GenLayouts Gen.GenComp.
Open Scope Z_scope.

Definition find_protocol (name : sname) : option protocol :=
  find (fun p => sname_eqb (pr_name p) name) protocols.

(* positions the regenerated objects take things from *)
Definition gen_positions (g : gen) : option playout :=
  if g_kind g =? 1 then positions_c (g_c g) (g_w g)
  else if g_kind g =? 2 then positions_s (g_s g) (g_w g)
  else None.

Fixpoint extras_eqb (a b : list (Z * region)) : bool :=
  match a, b with
  | [], [] => true
  | x :: a', y :: b' => (fst x =? fst y) && region_eqb (snd x) (snd y) && extras_eqb a' b'
  | _, _ => false
  end.


Definition opt_playout_eqb (a : option playout) (b : playout) : bool :=
  match a with Some x => playout_eqb x b | None => false end.

Definition find_comp (name : sname) : option compdef :=
  match find (fun p => sname_eqb (fst p) name) gen_comps with Some p => Some (snd p) | None => None end.
Definition find_comp_protocol (name : sname) : option (list playout) :=
  match find (fun p => sname_eqb (fst p) name) comp_protocols with Some p => Some (snd p) | None => None end.

Fixpoint arms_match (arms : list arm) (ps : list playout) : bool :=
  match arms, ps with
  | [], [] => true
  | a :: arms', p :: ps' => opt_playout_eqb (arm_positions a) p && wf_p p && arms_match arms' ps'
  | _, _ => false
  end.

(* a composite / bulk strategy is fine when its regenerated definition exists, is of the right sort and
   every arm's positions (derived from the arm object's attributes) are well formed and equal the pinned ones *)
Fixpoint lists_eqb (a b : list (list Z)) : bool :=
  match a, b with
  | [], [] => true
  | x :: a', y :: b' => list_eqb x y && lists_eqb a' b'
  | _, _ => false
  end.
Definition find_comp_literals (name : sname) : option (list (list Z)) :=
  match find (fun p => sname_eqb (fst p) name) comp_literals with Some p => Some (snd p) | None => None end.

Definition comp_ok (g : gen) : bool :=
  match find_comp (g_name g), find_comp_protocol (g_name g), find_comp_literals (g_name g) with
  | Some c, Some ps, Some lits =>
    (match c with CBulk => g_kind g =? 0 | _ => g_kind g =? 3 end) && arms_match (comp_arms c) ps &&
    lists_eqb (comp_consts c) lits
  | _, _, _ => false
  end.

(* a registered strategy is fine when the pinned table knows it under the same kind and, for the
   single-protocol layouts (kind 1, 2): the positions derived from its attributes are well formed,
   equal the pinned protocol's positions, and equal the positions observed by tracing *)
Definition registered_ok (g : gen) : bool :=
  match find_protocol (g_name g) with
  | None => false
  | Some p =>
    (g_kind g =? pr_kind p) &&
    (if (g_kind g =? 1) || (g_kind g =? 2) then
       match gen_positions g with
       | Some P => wf_p P && playout_eqb P (pr_layout p) && opt_playout_eqb (g_traced g) (pr_layout p)
       | None => false
       end
     else if g_kind g =? 4 then
       match positions_rb (g_c g) (g_rb g) with
       | Some (P, X) => playout_eqb P (pr_layout p) && opt_playout_eqb (g_traced g) (pr_layout p) &&
                        extras_eqb X (pr_extra p)
       | None => false
       end
     else ((g_kind g =? 0) || (g_kind g =? 3)) && comp_ok g)
  end.

(* the constructor model reproduces the slices found on the object: read 2 always, read 1 unless the
   subclass overrides sequenceCapture[0] after calling the base constructor *)
Definition derive_ok (g : gen) : bool :=
  if g_kind g =? 1 then
    match derive_capture (g_args g) with
    | Some (cap, rps) =>
      (match rps, c_rpSlice (g_c g) with
       | None, None => true
       | Some a, Some b => pslice_eqb a b
       | _, _ => false
       end) &&
      (match cap, c_capture (g_c g) with
       | [_; a1], [_; b1] => pslice_eqb a1 b1
       | _, _ => false
       end)
    | None => false
    end
  else true.

Definition demux_gen (g : gen) (lookup : lookup_t) (recs : list mate) : option (outcome (list orec)) :=
  if g_kind g =? 1 then Some (demux_contig (g_c g) (g_w g) lookup recs)
  else if g_kind g =? 2 then Some (demux_scattered (g_s g) (g_w g) lookup recs)
  else if g_kind g =? 4 then Some (demux_rb (g_c g) (g_rb g) lookup recs)
  else None.

(* ------------------------------------------------------------------ I/O glue *)
Definition dec_mate (v : Val) : mate := (getZs (nthV 0 v), getZs (nthV 1 v)).
Definition dec_table (v : Val) : lookup_t :=
  fun raw =>
    match find (fun e => list_eqb (getZs (nthV 0 e)) raw) (getL v) with
    | Some e => match getL (nthV 1 e) with
                | [] => None
                | _ => Some (getZ (nthV 0 (nthV 1 e)), getZs (nthV 1 (nthV 1 e)))
                end
    | None => None
    end.
Definition dec_opt (v : Val) : option Z := match getL v with [x] => Some (getZ x) | _ => None end.
Definition dec_args (v : Val) : cargs :=
  mkArgs (getZ (nthV 0 v)) (getZ (nthV 1 v)) (getZ (nthV 2 v)) (getZ (nthV 3 v)) (getZ (nthV 4 v))
         (getZ (nthV 5 v)) (dec_opt (nthV 6 v)) (dec_opt (nthV 7 v)) (getB (nthV 8 v)).
Definition dec_olist (v : Val) : option (list Z) :=
  match getL v with [x] => Some (getZs x) | _ => None end.
Definition dec_orec (v : Val) : orec :=
  mkO (getZs (nthV 0 v)) (getZs (nthV 1 v)) (getZs (nthV 2 v)) (getZs (nthV 3 v)) (getZ (nthV 4 v))
      (dec_olist (nthV 5 v)) (dec_olist (nthV 6 v)) (dec_olist (nthV 7 v)) (dec_olist (nthV 8 v))
      (dec_olist (nthV 9 v)) (map (fun e => (getZ (nthV 0 e), getZs (nthV 1 e))) (getL (nthV 10 v))).

Definition of_oz (o : option Z) : Val := match o with Some z => VL [VZ z] | None => VL [] end.
Definition of_slice (s : pslice) : Val := VL [of_oz (ps_start s); of_oz (ps_stop s)].
Definition of_olist (o : option (list Z)) : Val := match o with Some l => VL [ofZs l] | None => VL [] end.
Definition of_orec (o : orec) : Val :=
  VL [ofZs (o_seq o); ofZs (o_qual o); ofZs (o_bc o); ofZs (o_BC o); VZ (o_bi o);
      of_olist (o_RX o); of_olist (o_RQ o); of_olist (o_rS o); of_olist (o_lh o); of_olist (o_lq o);
      VL (map (fun e => VL [VZ (fst e); ofZs (snd e)]) (o_extra o))].
Definition of_outcome (o : outcome (list orec)) : Val :=
  match o with
  | Accept l => VL [VZ 0; VL (map of_orec l)]
  | Reject => VL [VZ 1]
  | RaiseE k => VL [VZ 2; VZ k]
  end.

Definition of_crec (c : crec) : Val :=
  VL [of_orec (cr_o c); ofZs (cr_mx c); of_olist (cr_dt c); of_olist (cr_rx c); of_olist (cr_rr c); of_olist (cr_tu c)].
Definition of_coutcome (o : outcome (list crec)) : Val :=
  match o with
  | Accept l => VL [VZ 0; VL (map of_crec l)]
  | Reject => VL [VZ 1]
  | RaiseE k => VL [VZ 2; VZ k]
  end.
(* CEL-Seq2 barcode of an index: list of [index; barcode] *)
Definition dec_cs2 (v : Val) : Z -> option (list Z) :=
  fun bi => match find (fun e => getZ (nthV 0 e) =? bi) (getL v) with
            | Some e => Some (getZs (nthV 1 e))
            | None => None
            end.

Definition run_comp (c : compdef) (lkA lkB : lookup_t) (cs2 : Z -> option (list Z)) (recs : list mate) : Val :=
  match c with
  | CTchic t => of_coutcome (demux_tchic t lkA cs2 recs)
  | CChictv v => of_coutcome (demux_chictv v lkA recs)
  | CDual d => of_coutcome (demux_dual d lkA lkB recs)
  | CBulk => match demux_bulk recs with
             | Accept l => VL [VZ 0; VL (map (fun m => VL [ofZs (fst m); ofZs (snd m)]) l)]
             | _ => bad
             end
  end.

Definition dummy_gen : gen :=
  mkG (SName []) 9 (mkArgs 0 0 0 0 0 0 None None false)
      (mkC 0 0 0 0 0 0 None None []) (mkS [] [] [] None None) (mkW None None false) (mkRB 0 0 0 0 0 0) None.
Definition gen_at (sid : Z) : gen := nth (Z.to_nat sid) gen_table dummy_gen.

Definition run_C02 (mode : Z) (v : Val) : Val :=
  match mode with
  | 0 => (* registered strategy sid on a read tuple *)
    let g := gen_at (getZ (nthV 0 v)) in
    match demux_gen g (dec_table (nthV 1 v)) (map dec_mate (getL (nthV 2 v))) with
    | Some o => of_outcome o
    | None => VL [VZ 9]
    end
  | 1 => (* precondition of the theorems for registered strategy sid *)
    let g := gen_at (getZ (nthV 0 v)) in
    ofB (match gen_positions g with Some P => wf_p P | None => false end)
  | 2 => (* specification: the expected records computed from the PINNED protocol equal the given output *)
    let g := gen_at (getZ (nthV 0 v)) in
    match find_protocol (g_name g) with
    | None => VZ (-1)
    | Some p =>
      match (if pr_kind p =? 4
             then expected_rb (pr_layout p) (pr_extra p) (dec_table (nthV 1 v)) (map dec_mate (getL (nthV 2 v)))
             else expected (pr_layout p) (pr_kind p =? 2) (dec_table (nthV 1 v)) (map dec_mate (getL (nthV 2 v)))) with
      | None => VZ 2      (* the protocol's barcode is not on the whitelist: nothing may be accepted *)
      | Some e => ofB (orecs_eqb e (map dec_orec (getL (nthV 3 v))))
      end
    end
  | 3 => (* the base constructor with arbitrary arguments, then its demultiplex (no subclass override) *)
    match derive_capture (dec_args (nthV 0 v)) with
    | None => VL [VZ 4]
    | Some (cap, rps) =>
      let a := dec_args (nthV 0 v) in
      of_outcome (demux_contig_base
                    (mkC (a_umiRead a) (a_umiStart a) (a_umiLength a) (a_bcRead a) (a_bcStart a) (a_bcLength a)
                         (a_rpRead a) rps cap)
                    (dec_table (nthV 1 v)) (map dec_mate (getL (nthV 2 v))))
    end
  | 4 => (* the constructor alone *)
    match derive_capture (dec_args (nthV 0 v)) with
    | None => VL [VZ 4]
    | Some (cap, rps) => VL [VZ 0; VL (map of_slice cap); match rps with Some s => VL [of_slice s] | None => VL [] end]
    end
  | 5 => (* the two table obligations, per strategy *)
    VL (map (fun g => VL [ofB (registered_ok g); ofB (derive_ok g)]) gen_table)
  | 6 => (* composite / bulk strategy sid: [sid; whitelist answers arm A; arm B; CEL-Seq2 barcodes by index; reads] *)
    let g := gen_at (getZ (nthV 0 v)) in
    match find_comp (g_name g) with
    | Some c => run_comp c (dec_table (nthV 1 v)) (dec_table (nthV 2 v)) (dec_cs2 (nthV 3 v)) (map dec_mate (getL (nthV 4 v)))
    | None => VL [VZ 9]
    end
  | 7 => (* the file-level stream: FastqIterator over [file; ...], file = [line; ...], line = character codes *)
    VL (map (fun tup => VL (map (fun r => VL [ofZs (f_header r); ofZs (f_seq r); ofZs (f_plus r); ofZs (f_qual r)]) tup))
            (fq_records (map (fun f => map getZs (getL f)) (getL v))))
  | _ => bad
  end.
