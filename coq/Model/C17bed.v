(* C17 extension model, character level: reading the blacklist BED file (bamBinCounts.py)

     def get_bins_from_bed_iter(path, contig=None):
         with gzip.open(path, 'rt') if path.endswith('.gz') else open(path) as f:
             for line in f:
                 c, start, end = line.strip().split(None, 3)[:3]
                 start, end = int(start), int(end)
                 if contig is None or c == contig:
                     yield c, start, end

   The model starts from the decoded text of the file (a list of character codes; gzip / the codec are outside
   the model) and transcribes: text-mode iteration over lines with universal newlines ('\n', '\r', '\r\n'),
   str.strip() + str.split(None, 3)[:3] (runs of Python whitespace separate tokens; fewer than three tokens make
   the tuple unpacking raise ValueError), int() on a token (optional sign, decimal digits, single underscores
   between digits, at most 4300 digits - sys.int_info.default_max_str_digits; anything else ValueError).
   Not modelled: int() also accepts non-ASCII decimal digits (the model raises on them).
   contig is None on the path from blacklisted_binning_contigs, so the filter is the identity.
   Definitions only. *)
From Coq Require Import ZArith List Bool.
Import ListNotations.
From SCMO Require Import Lib.Tiling Model.C17.
Open Scope Z_scope.

(* a contig name: a Python str as its list of character codes *)
Definition name := list Z.

Fixpoint name_eqb (a b : name) : bool :=
  match a, b with
  | [], [] => true
  | x :: a', y :: b' => (x =? y) && name_eqb a' b'
  | _, _ => false
  end.

(* one BED record (contig, (start, end)) *)
Definition bedrec := (name * iv)%type.

(* str.isspace() of a single character (the characters str.strip() / str.split(None) treat as whitespace) *)
Definition is_space (c : Z) : bool :=
  ((9 <=? c) && (c <=? 13)) || ((28 <=? c) && (c <=? 32)) || (c =? 133) || (c =? 160) || (c =? 5760)
  || ((8192 <=? c) && (c <=? 8202)) || (c =? 8232) || (c =? 8233) || (c =? 8239) || (c =? 8287) || (c =? 12288).

Definition is_digit (c : Z) : bool := (48 <=? c) && (c <=? 57).

(* ------------------------------------------------------------------ for line in f  (newline=None) *)
Definition flush_line (cur : list Z) : list (list Z) :=
  match cur with [] => [] | _ => [rev cur] end.

(* cur: the characters of the current line, reversed; a line is reported without its terminator *)
Fixpoint split_lines (cur : list Z) (t : list Z) : list (list Z) :=
  match t with
  | [] => flush_line cur
  | c :: t' =>
      if c =? 10 then rev cur :: split_lines [] t'
      else if c =? 13 then
        rev cur :: match t' with
                   | c2 :: t'' => if c2 =? 10 then split_lines [] t'' else split_lines [] t'
                   | [] => []
                   end
      else split_lines (c :: cur) t'
  end.

(* ------------------------------------------------------------------ line.strip().split(None, 3)[:3] *)
Definition flush_tok (cur : list Z) : list (list Z) :=
  match cur with [] => [] | _ => [rev cur] end.

(* all whitespace separated tokens of a line *)
Fixpoint tokens (cur : list Z) (l : list Z) : list (list Z) :=
  match l with
  | [] => flush_tok cur
  | c :: t => if is_space c then flush_tok cur ++ tokens [] t else tokens (c :: cur) t
  end.

(* ------------------------------------------------------------------ int(token) *)
Definition MAX_STR_DIGITS : Z := 4300.

(* digits with single underscores between them; prev: the previous character was a digit;
   result: value and number of digit characters *)
Fixpoint parse_digits (prev : bool) (acc cnt : Z) (l : list Z) : option (Z * Z) :=
  match l with
  | [] => if prev then Some (acc, cnt) else None
  | c :: t =>
      if is_digit c then parse_digits true (acc * 10 + (c - 48)) (cnt + 1) t
      else if c =? 95 then (if prev then parse_digits false acc cnt t else None)
      else None
  end.

Definition parse_nat (l : list Z) : Res Z :=
  match parse_digits false 0 0 l with
  | Some (v, n) => if n <=? MAX_STR_DIGITS then Ok v else Raise 2
  | None => Raise 2
  end.

Definition parse_int (tok : list Z) : Res Z :=
  match tok with
  | [] => Raise 2
  | c :: t =>
      if c =? 43 then parse_nat t
      else if c =? 45 then match parse_nat t with Ok v => Ok (- v) | Raise e => Raise e end
      else parse_nat tok
  end.

(* ------------------------------------------------------------------ one line, all lines
   exception code 2 = ValueError (not enough values to unpack / invalid literal for int()) *)
Definition parse_line (l : list Z) : Res bedrec :=
  match tokens [] l with
  | c :: s :: e :: _ =>
      match parse_int s with
      | Raise x => Raise x
      | Ok sv => match parse_int e with
                 | Raise x => Raise x
                 | Ok ev => Ok (c, (sv, ev))
                 end
      end
  | _ => Raise 2
  end.

Fixpoint parse_lines (ls : list (list Z)) : Res (list bedrec) :=
  match ls with
  | [] => Ok []
  | l :: t => match parse_line l with
              | Raise x => Raise x
              | Ok r => match parse_lines t with
                        | Raise x => Raise x
                        | Ok rs => Ok (r :: rs)
                        end
              end
  end.

(* list(get_bins_from_bed_iter(path)) for a file whose decoded text is t *)
Definition parse_bed (t : list Z) : Res (list bedrec) := parse_lines (split_lines [] t).

(* ------------------------------------------------------------------ printing ('%s\t%d\t%d\n')
   used by the round-trip theorem and by the correspondence check to write the files *)
(* decimal digits of n >= 0, most significant first; fuel > number of digits *)
Fixpoint dec (fuel : nat) (n : Z) : list Z :=
  match fuel with
  | O => []
  | S f => if n <? 10 then [48 + n] else dec f (n / 10) ++ [48 + n mod 10]
  end.

Definition print_nat (n : Z) : list Z := dec (S (Z.to_nat (Z.log2 n))) n.

Definition print_int (z : Z) : list Z := if z <? 0 then 45 :: print_nat (- z) else print_nat z.

Definition print_rec (r : bedrec) : list Z :=
  fst r ++ [9] ++ print_int (fst (snd r)) ++ [9] ++ print_int (snd (snd r)) ++ [10].

Definition print_bed (recs : list bedrec) : list Z := concat (map print_rec recs).
