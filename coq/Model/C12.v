(* C12 model: job-parallel binned molecule counting (bamBinCounts.generate_jobs / generate_commands /
   count_fragments_binned / read_counts / obtain_counts).  All arithmetic (fetch window, ownership test,
   bin index/start/end, job step/end, the read filter) is GENERATED from the source (Gen/GenBinCount.v);
   the loops, the nested dictionaries and the update-merge are hand-written.  Definitions only. *)
From Coq Require Import ZArith List Bool.
Import ListNotations.
From SCMO Require Import Lib.Val Lib.PyInt Gen.GenBinCount.
Open Scope Z_scope.

(* one BAM record as seen by the counter *)
Record rec := {
  r_lo : Z;            (* reference_start *)
  r_hi : Z;            (* reference_end (exclusive) *)
  r_ds : option Z;     (* DS tag *)
  r_r1 : bool; r_qcfail : bool; r_dup : bool;
  r_mp : Z;            (* mp tag: 0 absent, 1 'unique', anything else: another value *)
  r_mq : Z;
  r_sample : Z;        (* SM tag (id); 0 = absent -> 'bulk' *)
  r_key : Z            (* id of the tuple of key-tag values; 0 when key_tags is None *)
}.

Record cfg := {
  c_b : Z;             (* bin_size *)
  c_k : Z;             (* bins_per_job *)
  c_mfs : Z;           (* max_fragment_size *)
  c_has_mq : bool; c_mq : Z;   (* min_mq (None -> c_has_mq = false) *)
  c_dedup : bool;
  c_ignmp : bool       (* kwargs['ignore_mp'] *)
}.

Record contig := { cid : Z; clen : Z; creads : list rec }.   (* reads in file (coordinate) order *)

(* ---- read_counts as called by count_fragments_binned *)
Definition passes (c : cfg) (r : rec) : bool :=
  g_job_filter (c_has_mq c) (c_mq c) (c_dedup c) (c_ignmp c)
               (r_r1 r) (r_qcfail r) (r_dup r) (negb (r_mp r =? 0)) (r_mp r =? 1) (r_mq r).

(* site = int(DS) with fallback reference_start *)
Definition site (r : rec) : Z := match r_ds r with Some d => d | None => r_lo r end.

(* pysam fetch(contig, start, stop): records overlapping [start, stop) (htslib contract, validated by K) *)
Definition fetched (fs fe : Z) (r : rec) : bool := (r_lo r <? fe) && (fs <? r_hi r).

(* ---- nested dictionaries: bin_id -> sample -> n, insertion ordered, first match wins *)
Definition binid := (Z * Z * Z * Z)%type.       (* key, contig, bin_start, bin_end *)
Definition sdict := list (Z * Z).
Definition dict2 := list (binid * sdict).

Definition binid_eqb (a b : binid) : bool :=
  let '(a1, a2, a3, a4) := a in let '(b1, b2, b3, b4) := b in
  (a1 =? b1) && (a2 =? b2) && (a3 =? b3) && (a4 =? b4).

Fixpoint get1 (s : Z) (d : sdict) : option Z :=
  match d with [] => None | (s', n) :: t => if s =? s' then Some n else get1 s t end.
Fixpoint get2 (q : binid) (c : dict2) : option sdict :=
  match c with [] => None | (q', d) :: t => if binid_eqb q q' then Some d else get2 q t end.
Definition val1 (s : Z) (d : sdict) : Z := match get1 s d with Some n => n | None => 0 end.
Definition look (c : dict2) (q : binid) (s : Z) : Z :=
  match get2 q c with Some d => val1 s d | None => 0 end.

(* counts[bin_id][sample] += 1 with the two `if not ... in` initialisations *)
Fixpoint inc1 (s : Z) (d : sdict) : sdict :=
  match d with
  | [] => [(s, 1)]
  | (s', n) :: t => if s =? s' then (s', n + 1) :: t else (s', n) :: inc1 s t
  end.
Fixpoint inc2 (q : binid) (s : Z) (c : dict2) : dict2 :=
  match c with
  | [] => [(q, [(s, 1)])]
  | (q', d) :: t => if binid_eqb q q' then (q', inc1 s d) :: t else (q', d) :: inc2 q s t
  end.

(* ---- count_fragments_binned for one job (start, end) of one contig *)
Definition bin_of (c : cfg) (len : Z) (r : rec) : Z * Z :=
  let bi := g_bin_i (site r) (c_b c) in (g_bin_start (c_b c) bi, g_bin_end (c_b c) bi len).

Definition count_read (c : cfg) (cn : contig) (start end_ : Z) (counts : dict2) (r : rec) : dict2 :=
  if negb (passes c r) then counts
  else if g_not_owned (site r) start end_ then counts
  else let '(bs, be) := bin_of c (clen cn) r in inc2 (r_key r, cid cn, bs, be) (r_sample r) counts.

Definition job := (contig * (Z * Z))%type.

Definition count_job (c : cfg) (j : job) : dict2 :=
  let '(cn, (start, end_)) := j in
  let fs := g_f_start start (c_mfs c) in
  let fe := g_f_end end_ (c_mfs c) (clen cn) in
  fold_left (count_read c cn start end_) (filter (fetched fs fe) (creads cn)) [].

(* ---- generate_jobs: range(lo, hi, step) and the job tuples *)
Definition py_range (lo hi step : Z) : list Z :=
  if 0 <? step then map (fun i => lo + i * step) (zrange 0 (cdiv (hi - lo) step))
  else if step <? 0 then map (fun i => lo + i * step) (zrange 0 (cdiv (lo - hi) (- step)))
  else [].   (* step = 0 raises ValueError: see [obtain] *)

Definition jobs_contig (c : cfg) (len : Z) : list (Z * Z) :=
  map (fun st => (g_job_start st len (c_b c) (c_k c), g_job_end st len (c_b c) (c_k c)))
      (py_range (g_range_lo len (c_b c) (c_k c)) (g_range_hi len (c_b c) (c_k c)) (g_job_step len (c_b c) (c_k c))).

Definition all_jobs (c : cfg) (g : list contig) : list job :=
  flat_map (fun cn => map (fun j => (cn, j)) (jobs_contig c (clen cn))) g.

(* ---- obtain_counts: merge the per-job dictionaries in completion order.
   counts[bin_id] = sample_dict  /  counts[bin_id].update(sample_dict): OVERWRITES per (bin_id, sample) *)
Fixpoint set1 (s n : Z) (d : sdict) : sdict :=
  match d with
  | [] => [(s, n)]
  | (s', n') :: t => if s =? s' then (s', n) :: t else (s', n') :: set1 s n t
  end.
Definition update1 (old new : sdict) : sdict := fold_left (fun d p => set1 (fst p) (snd p) d) new old.
Fixpoint merge_entry (q : binid) (sd : sdict) (c : dict2) : dict2 :=
  match c with
  | [] => [(q, sd)]
  | (q', sd') :: t => if binid_eqb q q' then (q', update1 sd' sd) :: t else (q', sd') :: merge_entry q sd t
  end.
Definition merge (c r : dict2) : dict2 := fold_left (fun c e => merge_entry (fst e) (snd e) c) r c.
Definition merge_all (rs : list dict2) : dict2 := fold_left merge rs [].

Inductive result := Ok (d : dict2) | Raise (code : Z).

(* completion order = a list of positions into the job list *)
Definition apply_sched {A} (sched : list nat) (l : list A) : list A :=
  flat_map (fun i => match nth_error l i with Some x => [x] | None => [] end) sched.

Definition obtain (c : cfg) (g : list contig) (sched : list nat) : result :=
  match g with
  | _ :: _ => if g_job_step (clen (hd {| cid := 0; clen := 0; creads := [] |} g)) (c_b c) (c_k c) =? 0
              then Raise 1     (* ValueError: range() arg 3 must not be zero *)
              else Ok (merge_all (map (count_job c) (apply_sched sched (all_jobs c g))))
  | [] => Ok []
  end.

(* a session: the same path counted repeatedly, possibly rewritten in between.  Each call opens the file that is on
   disk at that moment (get_contig_sizes and count_fragments_binned both open the path anew), so a history is the
   map of [obtain] over the (parameters, current BAM content, schedule) of each call: no state is carried over *)
Definition run_history (h : list (cfg * list contig * list nat)) : list result :=
  map (fun x => let '(c, g, sched) := x in obtain c g sched) h.

Definition total1 (d : sdict) : Z := fold_right (fun p acc => snd p + acc) 0 d.
Definition total (c : dict2) : Z := fold_right (fun e acc => total1 (snd e) + acc) 0 c.

(* ---- declarative matrix: no jobs, no schedule *)
Definition cell_of (c : cfg) (cn : contig) (r : rec) : binid :=
  (r_key r, cid cn, c_b c * (site r / c_b c), Z.min (c_b c * (site r / c_b c + 1)) (clen cn)).

Definition contributes (c : cfg) (cn : contig) (q : binid) (s : Z) (r : rec) : bool :=
  passes c r && binid_eqb (cell_of c cn r) q && (r_sample r =? s).

Definition zcount {A} (f : A -> bool) (l : list A) : Z :=
  fold_right (fun x acc => (if f x then 1 else 0) + acc) 0 l.
Definition zsum {A} (f : A -> Z) (l : list A) : Z := fold_right (fun x acc => f x + acc) 0 l.

Definition decl (c : cfg) (g : list contig) (q : binid) (s : Z) : Z :=
  zsum (fun cn => zcount (contributes c cn q s) (creads cn)) g.
Definition decl_total (c : cfg) (g : list contig) : Z :=
  zsum (fun cn => zcount (passes c) (creads cn)) g.

(* the two visible hypotheses of the theorem, per record *)
(* H2: the site is within max_fragment_size of the aligned span [r_lo, r_hi - 1] *)
Definition near (mfs : Z) (r : rec) : bool := (r_lo r <=? site r + mfs) && (site r - mfs <? r_hi r).
(* BAM well-formedness of a mapped record on a contig of length len *)
Definition wf_rec (len : Z) (r : rec) : bool := (0 <=? r_lo r) && (r_lo r <? len) && (r_lo r <? r_hi r).
(* H1: 0 <= site < len.  Only records that pass the filter are constrained. *)
Definition regular (c : cfg) (len : Z) (r : rec) : bool :=
  negb (passes c r) || ((0 <=? site r) && (site r <? len) && near (c_mfs c) r && wf_rec len r).
Definition valid_cfg (c : cfg) : bool := (0 <? c_b c) && (0 <? c_k c) && (0 <=? c_mfs c).
Definition nodup_cids (g : list contig) : bool :=
  (fix go (l : list Z) := match l with [] => true | x :: t => negb (existsb (Z.eqb x) t) && go t end) (map cid g).
Definition pre (c : cfg) (g : list contig) : bool :=
  valid_cfg c && nodup_cids g && forallb (fun cn => forallb (regular c (clen cn)) (creads cn)) g.

(* declarative matrix as a list of cells (for the harness): one entry per distinct (cell, sample) *)
Definition decl_cells (c : cfg) (g : list contig) : list (binid * Z * Z) :=
  let cand := flat_map (fun cn => map (fun r => (cell_of c cn r, r_sample r))
                                      (filter (passes c) (creads cn))) g in
  let fix dedup (l : list (binid * Z)) (seen : list (binid * Z)) :=
      match l with
      | [] => []
      | x :: t => if existsb (fun y => binid_eqb (fst x) (fst y) && (snd x =? snd y)) seen
                  then dedup t seen else x :: dedup t (x :: seen)
      end in
  map (fun x => (fst x, snd x, decl c g (fst x) (snd x))) (dedup cand []).

(* ---- D15: get_binned_counts with user regions (region start widened and reused as ownership bound) *)
Definition region_counts (fs bin_size : Z) (regions : list (Z * Z)) (reads : list (Z * Z * Z)) : list (Z * Z) :=
  (* reads = (reference_start, reference_end, site); result (bin start, n), += accumulation over all regions *)
  let hits := flat_map (fun rg => let st := g_region_start (fst rg) fs in
                                  filter (fun r => let '(lo, hi, s) := r in
                                                   (lo <? snd rg) && (st <? hi) && negb (g_region_skip s st (snd rg))) reads)
                       regions in
  let bins := map (fun r => g_region_bin (snd r) bin_size) hits in
  map (fun b => (b, zcount (Z.eqb b) bins)) (nodup Z.eq_dec bins).

(* ---- I/O glue *)
Definition dec_opt (v : Val) : option Z := getOptZ v.
Definition dec_rec (v : Val) : rec :=
  {| r_lo := getZ (nthV 0 v); r_hi := getZ (nthV 1 v); r_ds := dec_opt (nthV 2 v);
     r_r1 := getB (nthV 3 v); r_qcfail := getB (nthV 4 v); r_dup := getB (nthV 5 v);
     r_mp := getZ (nthV 6 v); r_mq := getZ (nthV 7 v); r_sample := getZ (nthV 8 v); r_key := getZ (nthV 9 v) |}.
Definition dec_cfg (v : Val) : cfg :=
  {| c_b := getZ (nthV 0 v); c_k := getZ (nthV 1 v); c_mfs := getZ (nthV 2 v);
     c_has_mq := match dec_opt (nthV 3 v) with Some _ => true | None => false end;
     c_mq := match dec_opt (nthV 3 v) with Some m => m | None => 0 end;
     c_dedup := getB (nthV 4 v); c_ignmp := getB (nthV 5 v) |}.
Definition dec_contig (v : Val) : contig :=
  {| cid := getZ (nthV 0 v); clen := getZ (nthV 1 v); creads := map dec_rec (getL (nthV 2 v)) |}.
Definition enc_dict (d : dict2) : Val :=
  VL (flat_map (fun e => let '(k, c, bs, be) := fst e in
                         map (fun p => VL [VZ k; VZ c; VZ bs; VZ be; VZ (fst p); VZ (snd p)]) (snd e)) d).
Definition dec_dict (v : Val) : dict2 :=
  map (fun e => let q := nthV 0 e in
                ((getZ (nthV 0 q), getZ (nthV 1 q), getZ (nthV 2 q), getZ (nthV 3 q)),
                 map getPair (getL (nthV 1 e)))) (getL v).
Definition enc_dict_nested (d : dict2) : Val :=
  VL (map (fun e => let '(k, c, bs, be) := fst e in VL [VL [VZ k; VZ c; VZ bs; VZ be]; VL (map ofPair (snd e))]) d).

Definition run_C12 (mode : Z) (v : Val) : Val :=
  match mode with
  | 0 => (* [cfg; genome; schedule] -> merged matrix *)
      let c := dec_cfg (nthV 0 v) in let g := map dec_contig (getL (nthV 1 v)) in
      let sched := map Z.to_nat (getZs (nthV 2 v)) in
      match obtain c g sched with Ok d => VL [VZ 0; enc_dict d] | Raise e => VL [VZ e] end
  | 1 => let c := dec_cfg (nthV 0 v) in let g := map dec_contig (getL (nthV 1 v)) in ofB (pre c g)
  | 2 => (* declarative matrix and total *)
      let c := dec_cfg (nthV 0 v) in let g := map dec_contig (getL (nthV 1 v)) in
      VL [VL (map (fun x => let '((k, cc, bs, be), s, n) := x in VL [VZ k; VZ cc; VZ bs; VZ be; VZ s; VZ n])
                  (decl_cells c g)); VZ (decl_total c g)]
  | 3 => (* [len; b; k] -> jobs of one contig *)
      let c := {| c_b := getZ (nthV 1 v); c_k := getZ (nthV 2 v); c_mfs := 0; c_has_mq := false; c_mq := 0;
                  c_dedup := false; c_ignmp := false |} in
      VL (map ofPair (jobs_contig c (getZ (nthV 0 v))))
  | 4 => (* read_counts kernel: [has_min_mq; min_mq; dedup; read1_only; ignore_mp; ignore_qcfail;
                                 is_read1; is_qcfail; is_duplicate; mp; mapq] *)
      ofB (g_read_counts (getB (nthV 0 v)) (getZ (nthV 1 v)) (getB (nthV 2 v)) (getB (nthV 3 v)) (getB (nthV 4 v))
                         (getB (nthV 5 v)) (getB (nthV 6 v)) (getB (nthV 7 v)) (getB (nthV 8 v))
                         (negb (getZ (nthV 9 v) =? 0)) (getZ (nthV 9 v) =? 1) (getZ (nthV 10 v)))
  | 5 => (* merge kernel: list of job results (nested) in completion order -> merged (nested) *)
      enc_dict_nested (merge_all (map dec_dict (getL v)))
  | 6 => (* D15: [fs; bin_size; regions; reads = (lo hi site)] *)
      VL (map ofPair (region_counts (getZ (nthV 0 v)) (getZ (nthV 1 v)) (map getPair (getL (nthV 2 v)))
                                    (map (fun t => (getZ (nthV 0 t), getZ (nthV 1 t), getZ (nthV 2 t))) (getL (nthV 3 v)))))
  | 7 => (* history: list of [cfg; genome; schedule] -> list of results *)
      VL (map (fun r => match r with Ok d => VL [VZ 0; enc_dict d] | Raise e => VL [VZ e] end)
              (run_history (map (fun x => (dec_cfg (nthV 0 x), map dec_contig (getL (nthV 1 x)),
                                           map Z.to_nat (getZs (nthV 2 x)))) (getL v))))
  | _ => bad
  end.
