(* C19 model, part 2: HISTORIES THAT CONTINUE AFTER A RAISE.  Definitions only.

   A caller may catch the OSError of a write() whose path cannot be opened and go on writing to other paths
   with the same HandleLimiter.  The run is therefore a fold over ALL write operations in which every operation
   ends in XOk or XRaise, and the state after an XRaise is the state handlelimiter.py really leaves behind:

   - `self.openHandles[path] = {}` (the placeholder) is created before the first open() attempt.  When write()
     gives up, the entries holding a handle are gone (close() was called, or there were none), `seen`,
     `pruneIntervalCounter` and the files are untouched, and the placeholder either
       * stays in openHandles (the code as found, D33): [ghosts] lists such entries - keys of openHandles
         that have neither 'handle' nor 'lastw'.  A later write() to that path skips the open block and
         evaluates openHandles[path]['handle'] -> KeyError; a later prune() that has to evict anything sorts
         all keys by ['lastw'] -> KeyError (after the record was written, the counter is not reset);
         close() pops it (and prints 'Closed broken file handle');
       * or is removed before the re-raise (fixes/C19-D33.patch): ghosts stay empty for ever.
     Which of the two the source does is REGENERATED (Gen/GenHandles.v g_giveup_drops_placeholder); the kernel
     below takes it as the parameter [drops] so that both behaviours can be stated (hl_* instantiate it with
     the generated decision; C19_D33_* are about [drops := false]).
   - len(self.openHandles) (retry test, prune test) counts the ghosts; the number of descriptors the
     operating system sees (third argument of the oracle) does not.

   Everything else (open modes, seen, prune, close, the oracle, the file system) is Model.C19's hl_* kernel,
   i.e. defined with the decisions regenerated from handlelimiter.py. *)
From Coq Require Import ZArith List Bool.
Import ListNotations.
From SCMO Require Import Lib.Val Gen.GenHandles Model.C19.
Open Scope Z_scope.

Record xstate := { base : state; ghosts : list Z }.

Inductive xres :=
| XOk (s : xstate)
| XRaise (e : Z) (s : xstate).

Definition xstate_of (r : xres) : xstate := match r with XOk s => s | XRaise _ s => s end.
Definition xstatus (r : xres) : Z := match r with XOk _ => 0 | XRaise e _ => e end.

Definition lift (st : state) : xstate := {| base := st; ghosts := [] |}.
Definition lift_res (r : res) : xres :=
  match r with Ok s => XOk (lift s) | Raise e s => XRaise e (lift s) end.

(* len(self.openHandles) without the placeholder of the path being opened *)
Definition x_entries (xs : xstate) : Z :=
  Z.of_nat (length (opens (base xs))) + Z.of_nat (length (ghosts xs)).

(* the `if path not in self.openHandles:` block *)
Definition x_open_phase (drops : bool) (orc : oracle) (xs : xstate) (o : wop) : xres :=
  let st := base xs in
  let G := ghosts xs in
  let p := w_path o in
  let a := hl_append_branch st o in
  if orc (att st) p (length (opens st)) then
    let st1 := hl_os_open st p a false in
    if g_handler_catches true && g_retry (x_entries xs + 1) then
      let st2 := hl_close_all st1 in               (* close() pops every key: handles and ghosts *)
      let a2 := hl_append_branch st2 o in
      if orc (att st2) p 0%nat then
        let st3 := hl_os_open st2 p a2 false in
        if g_retry (if g_restores_placeholder then 1 else 0) then XRaise ELOOP (lift st3)
        else XRaise EOS {| base := st3; ghosts := if drops || negb g_restores_placeholder then [] else [p] |}
      else
        let st3 := hl_os_open st2 p a2 true in
        if g_restores_placeholder then XOk (lift (hl_register st3 p)) else XRaise EKEY (lift st3)
    else XRaise EOS {| base := st1; ghosts := if g_handler_catches true && drops then G else G ++ [p] |}
  else XOk {| base := hl_register (hl_os_open st p a true) p; ghosts := G |}.

(* handle.write; lastw; counter (the state prune() is called in) *)
Definition x_touch (st : state) (o : wop) : state :=
  {| opens := set_lastw (w_path o) (clock st) (opens st); seen := seen st; ctr := g_ctr_step (ctr st);
     clock := clock st + 1; att := att st; fs := fs_append (w_path o) (w_str o) (fs st); trace := trace st |}.

(* prune() with nothing to evict: only the counter is reset *)
Definition x_prune_idle (st : state) : state :=
  {| opens := opens st; seen := seen st; ctr := g_prune_ctr; clock := clock st; att := att st; fs := fs st;
     trace := trace st |}.

Definition x_write_phase (mh pe : Z) (xs : xstate) (o : wop) : xres :=
  match ghosts xs with
  | [] => XOk (lift (hl_write_phase mh pe (base xs) o))
  | _ :: _ =>
      let st1 := x_touch (base xs) o in
      if g_prune_due (ctr st1) pe then
        if g_prune_needed (Z.of_nat (length (opens st1)) + Z.of_nat (length (ghosts xs))) mh
        then XRaise EKEY {| base := st1; ghosts := ghosts xs |}      (* sorted(..., key=...['lastw']) on a ghost *)
        else XOk {| base := x_prune_idle st1; ghosts := ghosts xs |}
      else XOk {| base := st1; ghosts := ghosts xs |}
  end.

(* HandleLimiter.write *)
Definition x_write (drops : bool) (mh pe : Z) (orc : oracle) (xs : xstate) (o : wop) : xres :=
  let p := w_path o in
  if g_write_guard (memZ p (paths (base xs)) || memZ p (ghosts xs)) then
    match x_open_phase drops orc xs o with
    | XOk xs' => x_write_phase mh pe xs' o
    | XRaise e xs' => XRaise e xs'
    end
  else if memZ p (paths (base xs)) then x_write_phase mh pe xs o
  else XRaise EKEY xs.                 (* openHandles[path]['handle'] on a ghost *)

(* HandleLimiter.close *)
Definition x_close (xs : xstate) : xstate := lift (hl_close_all (base xs)).

(* the history: the result of every operation; the next operation starts in the state the previous one left *)
Fixpoint x_hist_from (drops : bool) (mh pe : Z) (orc : oracle) (ops : list wop) (xs : xstate) : list xres :=
  match ops with
  | [] => []
  | o :: r => let x := x_write drops mh pe orc xs o in x :: x_hist_from drops mh pe orc r (xstate_of x)
  end.

Definition x_final_from (drops : bool) (mh pe : Z) (orc : oracle) (ops : list wop) (xs : xstate) : xstate :=
  fold_left (fun s o => xstate_of (x_write drops mh pe orc s o)) ops xs.

Definition x_init (init : Z -> option str) : xstate := lift (hl_init_state init).

(* the model K runs: the give-up decision as regenerated from the source *)
Definition hl_xwrite := x_write g_giveup_drops_placeholder.
Definition hl_hist (mh pe : Z) (orc : oracle) (init : Z -> option str) (ops : list wop) : list xres :=
  x_hist_from g_giveup_drops_placeholder mh pe orc ops (x_init init).
Definition hl_final (mh pe : Z) (orc : oracle) (init : Z -> option str) (ops : list wop) : xstate :=
  x_final_from g_giveup_drops_placeholder mh pe orc ops (x_init init).

(* the state a raise leaves behind, as a constructor: a writer with nothing open *)
Definition fresh_writer (seen0 : list Z) (ctr0 clock0 : Z) (att0 : nat) (fs0 : Z -> option str)
           (trace0 : list event) : xstate :=
  lift {| opens := []; seen := seen0; ctr := ctr0; clock := clock0; att := att0; fs := fs0; trace := trace0 |}.

(* ---- specification *)
(* the operations whose call returned (status 0), in order *)
Definition completed (ops : list wop) (sts : list Z) : list wop :=
  map fst (filter (fun os => snd os =? 0) (combine ops sts)).

(* can an open() of p fail under script s while no descriptor is open? *)
Definition script_can_fail_alone (s : script) (p : Z) : bool :=
  match s_hard s with [] => false | _ :: _ => true end || memZ p (s_perm s).

(* boolean specification evaluated on an observed history: one status per operation (0 = returned,
   EOS = raised OSError, anything else = raised something else), files read back after close() *)
Definition spec_histb (s : script) (init : Z -> option str) (ops : list wop) (univ : list Z)
           (sts : list Z) (files : Z -> option str) : bool :=
  (length sts =? length ops)%nat
  && forallb (fun os => (snd os =? 0) || ((snd os =? EOS) && script_can_fail_alone s (w_path (fst os))))
             (combine ops sts)
  && forallb (fun p => ostr_eqb (files p) (expected init (completed ops sts) p)) univ.

(* ---- I/O glue.  input as run_C19: [kernel; maxHandles; pruneEvery; script; init files; ops; universe]
   kernel: 1 = as regenerated from the source, 0 = placeholder stays (code as found), 2 = placeholder dropped *)
Definition run_C19x (mode : Z) (v : Val) : Val :=
  let mh := getZ (nthV 1 v) in
  let pe := getZ (nthV 2 v) in
  let s := dec_script (nthV 3 v) in
  let init := assoc_fs (dec_files (nthV 4 v)) in
  let ops := map dec_op (getL (nthV 5 v)) in
  let univ := getZs (nthV 6 v) in
  match mode with
  | 4 => let drops := match getZ (nthV 0 v) with 0 => false | 2 => true | _ => g_giveup_drops_placeholder end in
         let h := x_hist_from drops mh pe (script_oracle s) ops (x_init init) in
         let xs := x_final_from drops mh pe (script_oracle s) ops (x_init init) in
         let fin := x_close xs in
         VL [ ofZs (map xstatus h);
              VL (map enc_event (rev (trace (base fin))));
              ofZs (paths (base xs));
              ofZs (ghosts xs);
              ofZs (seen (base xs));
              VZ (ctr (base xs));
              VL (map (enc_file (fs (base fin))) univ);
              ofZs (map (fun x => Z.of_nat (length (trace (base (xstate_of x))))) h) ]
  | 5 => (* [input...; statuses; observed files] *)
         let sts := getZs (nthV 7 v) in
         let files := fun p => match find (fun e => getZ (nthV 0 e) =? p) (getL (nthV 8 v)) with
                               | Some e => match getL (nthV 1 e) with
                                           | [] => None
                                           | c0 :: _ => Some (getZs c0)
                                           end
                               | None => None
                               end in
         VL [ofB (spec_histb s init ops univ sts files); ofB (fa_consistentb ops)]
  | _ => run_C19 mode v
  end.
