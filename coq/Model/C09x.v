(* C09 model, extension: the two modes of the fragment classes the base model (Model/C09.v) leaves out.
   1. NlaIIIFragment(no_overhang=True): the CATG is NOT in the read; identify_site looks it up in the
      reference next to the read.  The body of `if self.no_overhang:` is GENERATED (Gen/GenSite.v:
      nla_no_overhang_gen); hand-written here: the constructor checks, the early exits, set_site, and the
      reference handle (fetch_slice = pysamiterators.CachedFasta.fetch = a Python slice of the contig).
   2. max_fragment_size: Fragment.update_span (span per guarded branch GENERATED: span_pair_gen,
      span_r1_gen, span_r2_gen), Fragment.get_fragment_size (GENERATED: fragment_size_gen) and
      NlaIIIFragment.is_valid / CHICFragment.is_valid (GENERATED: nla_is_valid_gen, chic_is_valid_gen);
      hand-written: which branch of update_span applies (pysam: reference_end is None for an unmapped read and
      for a read without CIGAR), the CIGAR-less fallback loop, how the verdict lands in the observation.
   Ground truth: simulate_nla_no (a no_overhang read), place_mate (the second read of a pair).
   Definitions only. *)
From Coq Require Import ZArith List Bool.
Import ListNotations.
From SCMO Require Import Lib.Val Lib.C09Str Lib.PySlice Lib.C09Ref Gen.GenSite Model.C09.
Open Scope Z_scope.

(* ------------------------------------------------------------------ NlaIIIFragment(no_overhang=True) *)
Definition is_nil {A : Type} (l : list A) : bool := match l with [] => true | _ => false end.

(* [offset] = cut_location_offset (constructor default -4; bamtagmultiome never sets it)
   [ref] = None: no reference handle was supplied; Some contig: the sequence of the contig R1 maps to *)
Definition nla_no_fragment (c : cfg) (offset : Z) (ref : option str) (two_reads pre_qcfail : bool)
                           (r1 : option read) : result :=
  match ref with
  | None => Raise                                 (* ValueError('Supply a reference handle when no_overhang=True') *)
  | Some contig =>
    if negb (c_check_motif c) then Raise          (* ValueError: not compatible with check_motif=False *)
    else if negb two_reads then Raise             (* R1, R2 = self.reads *)
    else match r1 with
    | None => Done (rejected s_unmapped_R1)
    | Some r =>
      if r_unmapped r then Done (rejected s_unmapped_R1)
      else if r_rev r && is_nil (r_cigar r) then Raise      (* reference_end is None: TypeError in the window bounds *)
      else
        let '(site_set, ds_set, strand, pos, rz, rr, qc, found) :=
          nla_no_overhang_gen offset (fetch_slice contig) (r_rev r) (r_start r) (ref_end r) in
        (* NlaIIIFragment.set_site - only called on the accepting path *)
        Done (mkObs (if ds_set then Some pos else None)
                    (if site_set then Some (if c_invert c then negb strand else strand) else None)
                    rz rr qc
                    (negb pre_qcfail && found)
                    (if site_set then Some pos else None)
                    (if site_set then Some strand else None))
    end
  end.

(* ------------------------------------------------------------------ Fragment.update_span / fragment size *)
Definition ref_end_opt (r : read) : option Z :=
  if r_unmapped r || is_nil (r_cigar r) then None else Some (ref_end r).

Inductive span_result := SpanRaise | SpanNone | Span (s e : Z).

(* the last arm of update_span: `for read in self: ... if len(read.cigar) != 0: raise NotImplementedError ...
   start, end = read.reference_start, read.reference_start` (the last read wins) *)
Definition span_fallback (reads : list read) : span_result :=
  fold_left (fun acc r => match acc with
                          | SpanRaise => SpanRaise
                          | _ => if is_nil (r_cigar r) then Span (r_start r) (r_start r) else SpanRaise
                          end) reads SpanNone.

Definition span_of (se : Z * Z) : span_result := Span (fst se) (snd se).

Definition frag_span (r1 r2 : option read) : span_result :=
  match r1, r2 with
  | Some a, Some b =>
      match ref_end_opt a, ref_end_opt b with
      | Some ea, Some eb => span_of (span_pair_gen (r_rev a) (r_rev b) (r_start a) ea (r_start b) eb)
      | Some ea, None => span_of (span_r1_gen (r_start a) ea)
      | None, Some eb => span_of (span_r2_gen (r_start b) eb)
      | None, None => span_fallback [a; b]
      end
  | Some a, None => match ref_end_opt a with Some ea => span_of (span_r1_gen (r_start a) ea) | None => span_fallback [a] end
  | None, Some b => match ref_end_opt b with Some eb => span_of (span_r2_gen (r_start b) eb) | None => span_fallback [b] end
  | None, None => SpanNone
  end.

(* get_fragment_size(): None = the span is undefined (TypeError) *)
Definition size_of (sp : span_result) : option Z :=
  match sp with Span s e => Some (fragment_size_gen s e) | _ => None end.
Definition frag_size (r1 r2 : option read) : option Z := size_of (frag_span r1 r2).

(* Fragment.__init__ returns before update_span when the fragment is qcfail (flag on input / homopolymer) *)
Definition span_at_init (qcfail : bool) (r1 r2 : option read) : span_result :=
  if qcfail then SpanNone else frag_span r1 r2.

(* ------------------------------------------------------------------ is_valid with max_fragment_size *)
Definition s_FS : str := [70; 83].
(* set_meta('RR', reason, as_set=True): ','.join(sorted(reasons)); the only reason the size rule adds is
   "FS", which sorts before every other reason the fragment classes use *)
Definition add_reason (new old : option str) : option str :=
  match new, old with
  | Some a, Some b => Some (a ++ 44 :: b)
  | Some a, None => Some a
  | None, x => x
  end.
Definition apply_valid (v : bool * option str * bool) (o : obs) : obs :=
  mkObs (o_ds o) (o_rs o) (o_rz o) (add_reason (snd (fst v)) (o_rr o)) (o_qcfail o || snd v) (fst (fst v))
        (o_loc o) (o_cut_strand o).

(* [base]: the fragment as the model without the size rule sees it, computed with pre_qcfail = false, so that
   o_valid base = found_valid_site *)
Definition with_size_rule (isvalid : bool -> bool -> option Z -> option Z -> bool * option str * bool)
                          (qcfail : bool) (r1 r2 : option read) (maxfs : option Z) (base : result) : result :=
  match span_at_init qcfail r1 r2 with
  | SpanRaise => Raise                      (* NotImplementedError out of Fragment.__init__ *)
  | sp => match base with
          | Raise => Raise
          | Done o => Done (apply_valid (isvalid qcfail (o_valid o) maxfs (size_of sp)) o)
          end
  end.

Definition r2_summary (r2 : option read) : option (bool * bool) :=
  option_map (fun r => (r_unmapped r, r_rev r)) r2.

(* r2 is only consulted when the read list has two slots *)
Definition nla_fragment_x (c : cfg) (two_reads pre_qcfail : bool) (r1 r2 : option read) (maxfs : option Z) : result :=
  with_size_rule nla_is_valid_gen pre_qcfail r1 (if two_reads then r2 else None) maxfs
                 (nla_fragment c two_reads false r1).

Definition nla_no_fragment_x (c : cfg) (offset : Z) (ref : option str) (two_reads pre_qcfail : bool)
                             (r1 r2 : option read) (maxfs : option Z) : result :=
  match ref with
  | None => Raise
  | Some _ =>
    if negb (c_check_motif c) then Raise      (* both checks precede Fragment.__init__ *)
    else with_size_rule nla_is_valid_gen pre_qcfail r1 (if two_reads then r2 else None) maxfs
                        (nla_no_fragment c offset ref two_reads false r1)
  end.

Definition chic_fragment_x (c : cfg) (pre_qcfail : bool) (r1 r2 : option read) (seqs : list str)
                           (maxfs : option Z) : result :=
  with_size_rule chic_is_valid_gen (pre_qcfail || any_homopolymer seqs) r1 r2 maxfs
                 (chic_fragment_h c false r1 (r2_summary r2) seqs).

(* ------------------------------------------------------------------ ground truth *)
(* no_overhang library: the recognised CATG occupies reference positions p .. p+3 and stays OUTSIDE the
   fragment; a forward read's first cycle is the base after it (p+4), a reverse read's first cycle pairs with
   the base before it (p-1) *)
Definition simulate_nla_no (cycles : str) (mid : list (Z * Z)) (p : Z) (reverse : bool) (clip tail : Z) : read :=
  place_read cycles mid (if reverse then p - 1 else p + 4) reverse clip tail None.

(* the 7 reference bases identify_site scans next to a no_overhang read whose first [clip] cycles are soft-clipped:
   it ends (forward) / starts (reverse) at the first ALIGNED base *)
Definition no_window (ref : str) (p : Z) (reverse : bool) (clip : Z) : str :=
  if reverse then fetch_slice ref (p - clip) (p - clip + 7) else fetch_slice ref (p + clip - 3) (p + clip + 4).

(* the mate of a read on strand [reverse]: sequenced from the other end of the fragment, its first cycle pairs
   with reference position x2, it lies on the opposite strand *)
Definition place_mate (cycles : str) (mid : list (Z * Z)) (x2 : Z) (reverse : bool) (clip tail : Z) : read :=
  place_read cycles mid x2 (negb reverse) clip tail None.

(* the stretch of reference covered by the aligned bases of a pair whose first cycles pair with x1 (read 1, strand
   [reverse]) and x2 (mate): from the first aligned base of one read to the first aligned base of the other *)
Definition pair_extent (x1 clip1 x2 clip2 : Z) (reverse : bool) : Z :=
  if reverse then (x1 - clip1) - (x2 + clip2) + 1 else (x2 - clip2) - (x1 + clip1) + 1.

(* the verdict of the size rule written into an observation that would otherwise be [o] *)
Definition size_rejected_nla (o : obs) : obs :=
  mkObs (o_ds o) (o_rs o) (o_rz o) (add_reason (Some s_FS) (o_rr o)) true false (o_loc o) (o_cut_strand o).
Definition size_rejected_chic (o : obs) : obs :=
  mkObs (o_ds o) (o_rs o) (o_rz o) (o_rr o) (o_qcfail o) false (o_loc o) (o_cut_strand o).

(* forward-strand start of the read / of its mirror image on a contig of length L *)
Definition fwd_start (L : Z) (r : read) : Z := if r_rev r then L - ref_end r else r_start r.

(* the mate is absent, has no reference span (unmapped / no CIGAR), or lies on the opposite strand *)
Definition mate_ok (r1 : read) (r2 : option read) : bool :=
  match r2 with
  | None => true
  | Some b => match ref_end_opt b with None => true | Some _ => negb (Bool.eqb (r_rev r1) (r_rev b)) end
  end.

(* ------------------------------------------------------------------ I/O glue *)
Definition dec_optZ (v : Val) : option Z := match getL v with [] => None | x :: _ => Some (getZ x) end.

(* mode 5: [kind; cfg; two_reads; pre_qcfail; r1; r2; seqs; ref; maxfs; offset] -> observation
           kind 0 = NlaIIIFragment, 1 = CHICFragment, 2 = NlaIIIFragment(no_overhang=True)
           r1, r2 = read or [] ; ref = [] (no handle) or [contig codes] ; maxfs = [] or [m]
   mode 6: [kind; cycles; mid; pos; reverse; clip; tail] -> simulated read  (2 = no_overhang read, 3 = mate)
   mode 7: [r1; r2] -> fragment size: [] undefined, [size], or [-1; -1] when update_span raises
   other modes: Model/C09.v *)
Definition run_C09x (mode : Z) (v : Val) : Val :=
  match mode with
  | 5 => let c := dec_cfg (nthV 1 v) in
         let two := getB (nthV 2 v) in let pre := getB (nthV 3 v) in
         let r1 := dec_read (nthV 4 v) in let r2 := dec_read (nthV 5 v) in
         let maxfs := dec_optZ (nthV 8 v) in
         let kind := getZ (nthV 0 v) in
         if kind =? 0 then enc_result (nla_fragment_x c two pre r1 r2 maxfs)
         else if kind =? 1 then enc_result (chic_fragment_x c pre r1 r2 (map getZs (getL (nthV 6 v))) maxfs)
         else enc_result (nla_no_fragment_x c (getZ (nthV 9 v)) (dec_optstr (nthV 7 v)) two pre r1 r2 maxfs)
  | 6 => let cyc := getZs (nthV 1 v) in let mid := dec_cigar (nthV 2 v) in
         let p := getZ (nthV 3 v) in let rv := getB (nthV 4 v) in
         let clip := getZ (nthV 5 v) in let tail := getZ (nthV 6 v) in
         if getZ (nthV 0 v) =? 2 then enc_read (simulate_nla_no cyc mid p rv clip tail)
         else enc_read (place_mate cyc mid p rv clip tail)
  | 7 => match frag_span (dec_read (nthV 0 v)) (dec_read (nthV 1 v)) with
         | SpanRaise => VL [VZ (-1); VZ (-1)]
         | sp => ofOptZ (size_of sp)
         end
  | _ => run_C09 mode v
  end.
