(* C07 model: MoleculeIterator.__iter__ (singlecellmultiomics/molecule/iterator.py) as a state machine.
   Definitions only.  The arithmetic kernels come from the source through Gen/GenEject.v:
     pop_index_flat / pop_index_grouped  - the index expression of the two  <list>.pop(...)  calls
     eject_due                           - `check_eject_every is not None and check_ejection_iter > check_eject_every`
     can_be_yielded                      - Molecule.can_be_yielded
     fragment_eq / umi_eq_gen            - Fragment.__eq__ / Fragment.umi_eq
   Hand-written here: Python list.pop (negative indices, IndexError), the to_pop scan, the first-match
   assignment scan, the per-hash dict of lists (insertion ordered), the counter, the final flush,
   Molecule._add_fragment's aggregate (span min/max, last contig, strand, Counter of UMIs). *)
From Coq Require Import ZArith List Bool.
Import ListNotations.
From SCMO Require Import Lib.Val Lib.PyInt Gen.GenEject.
Open Scope Z_scope.

(* ------------------------------------------------------------------ Python list.pop and the pop loop *)
Section Pop.
Context {A : Type}.

Fixpoint remove_nth (n : nat) (l : list A) : option (A * list A) :=
  match l, n with
  | [], _ => None
  | x :: l', O => Some (x, l')
  | x :: l', S n' => match remove_nth n' l' with Some (y, r) => Some (y, x :: r) | None => None end
  end.

(* l.pop(k): negative k counts from the end; None = IndexError *)
Definition pop_py (l : list A) (k : Z) : option (A * list A) :=
  let k' := if k <? 0 then k + Z.of_nat (length l) else k in
  if k' <? 0 then None else remove_nth (Z.to_nat k') l.

(* for i, j in enumerate(to_pop): m = l.pop(idx i j); yield m
   result: (yielded, remaining list, false when pop raised IndexError) *)
Fixpoint eject (idx : Z -> Z -> Z) (i : nat) (js : list nat) (l : list A) : list A * list A * bool :=
  match js with
  | [] => ([], l, true)
  | j :: js' =>
      match pop_py l (idx (Z.of_nat i) (Z.of_nat j)) with
      | None => ([], l, false)
      | Some (x, l') => let '(out, rest, ok) := eject idx (S i) js' l' in (x :: out, rest, ok)
      end
  end.

(* to_pop: ascending indices (from offset k) of the elements satisfying p *)
Fixpoint to_pop (p : A -> bool) (k : nat) (l : list A) : list nat :=
  match l with
  | [] => []
  | x :: l' => (if p x then [k] else []) ++ to_pop p (S k) l'
  end.

Definition eject_list (idx : Z -> Z -> Z) (p : A -> bool) (l : list A) : list A * list A * bool :=
  eject idx 0 (to_pop p 0 l) l.
End Pop.

(* ------------------------------------------------------------------ the iterator, generic in the
   fragment / molecule operations (instantiated below for Fragment + Molecule) *)
Section Machine.
Variables F M : Type.
Variable newm : F -> M.                (* molecule_class(fragment) *)
Variable addm : M -> F -> M.           (* Molecule._add_fragment *)
Variable matchm : M -> F -> bool.      (* molecule.add_fragment(fragment, use_hash) would accept *)
Variable hashf : F -> Z.               (* key of the buffer the fragment goes to *)
Variable validf : F -> bool.           (* fragment.is_valid() *)
Variable nochrom : F -> bool.          (* fragment.get_span()[0] is None *)
Variable yieldable : F -> M -> bool.   (* m.can_be_yielded(current_chrom, current_position) *)
Variable pidx : Z -> Z -> Z.           (* index expression of the pop call *)
Variable every : option Z.             (* check_eject_every *)
Variable yield_invalid : bool.

(* for molecule in buffer: if molecule.add_fragment(fragment): added = True; break *)
Fixpoint assign (f : F) (l : list M) : option (list M) :=
  match l with
  | [] => None
  | m :: l' => if matchm m f then Some (addm m f :: l')
               else match assign f l' with Some r => Some (m :: r) | None => None end
  end.

Definition place (f : F) (l : list M) : list M :=
  match assign f l with Some r => r | None => l ++ [newm f] end.

(* molecules_per_cell[k] (a defaultdict: the key is created, at the end, on first access) *)
Fixpoint gplace (f : F) (k : Z) (gs : list (Z * list M)) : list (Z * list M) :=
  match gs with
  | [] => [(k, place f [])]
  | (k', l) :: gs' => if k =? k' then (k', place f l) :: gs' else (k', l) :: gplace f k gs'
  end.

(* for hash_group, molecules in molecules_per_cell.items(): to_pop ...; pop loop *)
Fixpoint geject (p : M -> bool) (gs : list (Z * list M)) : list M * list (Z * list M) * bool :=
  match gs with
  | [] => ([], [], true)
  | (k, l) :: gs' =>
      let '(out, rest, ok) := eject_list pidx p l in
      if ok then let '(out2, gs2, ok2) := geject p gs' in (out ++ out2, (k, rest) :: gs2, ok2)
      else (out, (k, rest) :: gs', false)
  end.

Record state := mkState { st_groups : list (Z * list M); st_ctr : Z }.

Definition has_every : bool := match every with Some _ => true | None => false end.
Definition every_val : Z := match every with Some e => e | None => 0 end.

(* one iteration of the main loop: (new state, molecules yielded during it, false = IndexError) *)
Definition step (st : state) (f : F) : state * list M * bool :=
  if negb (validf f) then (st, if yield_invalid then [newm f] else [], true)
  else
    let gs1 := gplace f (hashf f) (st_groups st) in
    let ctr1 := st_ctr st + 1 in
    if eject_due has_every ctr1 every_val then
      if nochrom f then (mkState gs1 ctr1, [], true)      (* `continue`: counter not reset *)
      else let '(out, gs2, ok) := geject (yieldable f) gs1 in (mkState gs2 0, out, ok)
    else (mkState gs1 ctr1, [], true).

Fixpoint run_from (st : state) (fs : list F) : list (list M) * state * bool :=
  match fs with
  | [] => ([], st, true)
  | f :: fs' =>
      let '(st1, out, ok) := step st f in
      if ok then let '(outs, st2, ok2) := run_from st1 fs' in (out :: outs, st2, ok2)
      else ([out], st1, false)
  end.

Definition flush (st : state) : list M := concat (map snd (st_groups st)).
Definition init : state := mkState [] 0.

(* (molecules yielded per consumed fragment, molecules yielded by the final flush, completed) *)
Definition run_machine (fs : list F) : list (list M) * list M * bool :=
  let '(outs, st, ok) := run_from init fs in (outs, if ok then flush st else [], ok).

Definition emitted (r : list (list M) * list M * bool) : list M :=
  let '(outs, fl, _) := r in concat outs ++ fl.

(* ---- several passes over ONE iterator object.  __iter__ starts with self._clear_cache() iff the source says so
   (Gen: iter_clears_at_start); a pass that is abandoned (generator dropped after its k-th yield) leaves the
   buffers as they are at that yield; a pass that runs to the end clears them (Gen: iter_clears_at_end). *)
Definition cleared : state := mkState [] clear_cache_counter.
Definition start_state (st : state) : state := if iter_clears_at_start then cleared else st.

(* one complete pass on an object whose buffers currently hold st *)
Definition run_machine_from (st : state) (fs : list F) : list (list M) * list M * bool :=
  let '(outs, st', ok) := run_from (start_state st) fs in (outs, if ok then flush st' else [], ok).

(* buffers after the k-th pop-and-yield (1 <= k <= number of ejectable molecules) of one ejection *)
Fixpoint geject_upto (k : nat) (p : M -> bool) (gs : list (Z * list M)) : list (Z * list M) :=
  match gs with
  | [] => []
  | (key, l) :: gs' =>
      let js := to_pop p 0 l in
      if Nat.ltb (length js) k
      then (key, snd (fst (eject pidx 0 js l))) :: geject_upto (k - length js) p gs'
      else (key, snd (fst (eject pidx 0 (firstn k js) l))) :: gs'
  end.

Definition n_ejectable (p : M -> bool) (gs : list (Z * list M)) : nat :=
  fold_right (fun g acc => (length (to_pop p 0 (snd g)) + acc)%nat) O gs.

(* state of the object when the pass over fs, started in state st, is dropped right after its k-th yield (k >= 1);
   if the pass yields fewer than k molecules it completes *)
Fixpoint state_upto (k : nat) (st : state) (fs : list F) : state :=
  match fs with
  | [] => if Nat.leb k (length (flush st)) then st else (if iter_clears_at_end then cleared else st)
  | f :: fs' =>
      if negb (validf f) then
        if yield_invalid then (if Nat.eqb k 1 then st else state_upto (k - 1) st fs') else state_upto k st fs'
      else
        let gs1 := gplace f (hashf f) (st_groups st) in
        let ctr1 := st_ctr st + 1 in
        if eject_due has_every ctr1 every_val then
          if nochrom f then state_upto k (mkState gs1 ctr1) fs'
          else let n := n_ejectable (yieldable f) gs1 in
               if Nat.leb k n then mkState (geject_upto k (yieldable f) gs1) 0
               else let '(_, gs2, _) := geject (yieldable f) gs1 in state_upto (k - n) (mkState gs2 0) fs'
        else state_upto k (mkState gs1 ctr1) fs'
  end.

(* a pass abandoned after k yields (k = 0: the generator was created but never advanced: nothing ran) *)
Definition abandon (k : nat) (st : state) (fs : list F) : state :=
  match k with O => st | _ => state_upto k (start_state st) fs end.

(* object states after each abandoned pass of a history *)
Fixpoint history_states (ks : list nat) (st : state) (fs : list F) : list state :=
  match ks with [] => [] | k :: ks' => let st1 := abandon k st fs in st1 :: history_states ks' st1 fs end.

(* ---- pooling_method 0: the same loop over ONE flat list self.molecules (no dict) *)
Record fstate := mkFState { fs_mols : list M; fs_ctr : Z }.

Definition fstep (st : fstate) (f : F) : fstate * list M * bool :=
  if negb (validf f) then (st, if yield_invalid then [newm f] else [], true)
  else
    let l1 := place f (fs_mols st) in
    let ctr1 := fs_ctr st + 1 in
    if eject_due has_every ctr1 every_val then
      if nochrom f then (mkFState l1 ctr1, [], true)
      else let '(out, l2, ok) := eject_list pidx (yieldable f) l1 in (mkFState l2 0, out, ok)
    else (mkFState l1 ctr1, [], true).

Fixpoint frun_from (st : fstate) (fs : list F) : list (list M) * fstate * bool :=
  match fs with
  | [] => ([], st, true)
  | f :: fs' =>
      let '(st1, out, ok) := fstep st f in
      if ok then let '(outs, st2, ok2) := frun_from st1 fs' in (out :: outs, st2, ok2)
      else ([out], st1, false)
  end.

Definition frun_machine (fs : list F) : list (list M) * list M * bool :=
  let '(outs, st, ok) := frun_from (mkFState [] 0) fs in (outs, if ok then fs_mols st else [], ok).

Definition fstart_state (st : fstate) : fstate := if iter_clears_at_start then mkFState [] clear_cache_counter else st.
Definition frun_machine_from (st : fstate) (fs : list F) : list (list M) * list M * bool :=
  let '(outs, st', ok) := frun_from (fstart_state st) fs in (outs, if ok then fs_mols st' else [], ok).
End Machine.

(* ------------------------------------------------------------------ Fragment and Molecule *)
Record frag := mkFrag {
  f_id : Z; f_valid : bool; f_sample : Z; f_strand : Z (* 0 fwd, 1 rev, 2 None *);
  f_chrom : Z (* -1 = None *); f_start : Z; f_end : Z; f_umi : list Z; f_hash : Z }.

Record mol := mkMol {
  m_frags : list frag; m_sample : Z; m_strand : Z; m_chrom : Z; m_start : Z; m_end : Z;
  m_umis : list (list Z * Z) (* collections.Counter, insertion ordered *) }.

Fixpoint zs_eqb (a b : list Z) : bool :=
  match a, b with
  | [], [] => true
  | x :: a', y :: b' => (x =? y) && zs_eqb a' b'
  | _, _ => false
  end.

(* utils.sequtils.hamming_distance: sum(i != j and i != 'N' and j != 'N' for i, j in zip(a, b)) *)
Fixpoint hamming (a b : list Z) : Z :=
  match a, b with
  | x :: a', y :: b' => (if negb (x =? y) && negb (x =? 78) && negb (y =? 78) then 1 else 0) + hamming a' b'
  | _, _ => 0
  end.

Definition umi_eq (hd : Z) (su ou : list Z) : bool :=
  umi_eq_gen (zs_eqb su ou) (negb (Z.of_nat (length su) =? Z.of_nat (length ou))) hd (hamming su ou).

Fixpoint counter_add (u : list Z) (c : list (list Z * Z)) : list (list Z * Z) :=
  match c with
  | [] => [(u, 1)]
  | (v, n) :: c' => if zs_eqb u v then (v, n + 1) :: c' else (v, n) :: counter_add u c'
  end.

(* Counter.most_common(1)[0][0] = max(items, key=count): the first maximal entry *)
Fixpoint most_common_from (best : list Z) (bn : Z) (c : list (list Z * Z)) : list Z :=
  match c with
  | [] => best
  | (v, n) :: c' => if n >? bn then most_common_from v n c' else most_common_from best bn c'
  end.
Definition most_common (c : list (list Z * Z)) : list Z :=
  match c with [] => [] | (v, n) :: c' => most_common_from v n c' end.

Definition m_umi (m : mol) : list Z := most_common (m_umis m).

Definition new_mol (f : frag) : mol :=
  mkMol [f] (f_sample f) (f_strand f) (f_chrom f) (f_start f) (f_end f) [(f_umi f, 1)].

Definition add_mol (m : mol) (f : frag) : mol :=
  mkMol (m_frags m ++ [f]) (m_sample m)
        (if f_strand f =? 2 then m_strand m else f_strand f)
        (f_chrom f) (Z.min (f_start f) (m_start m)) (Z.max (f_end f) (m_end m))
        (counter_add (f_umi f) (m_umis m)).

(* f == g for two fragments (Fragment.__eq__(f, g)); valid fragments have a defined span *)
Definition frag_eq_frag (radius hd : Z) (s o : frag) : bool :=
  fragment_eq true true (umi_eq hd (f_umi s) (f_umi o)) radius
    (f_sample s) (f_strand s) (f_chrom s) (f_start s) (f_end s)
    (f_sample o) (f_strand o) (f_chrom o) (f_start o) (f_end o).

(* molecule == fragment: Molecule defines no __eq__, so Python evaluates Fragment.__eq__(fragment, molecule) *)
Definition frag_eq_mol (radius hd : Z) (s : frag) (o : mol) : bool :=
  (* a buffered molecule has integer spanStart / spanEnd (never None): Molecule.has_valid_span on (not None, not None) *)
  fragment_eq true (mol_has_valid_span true true) (umi_eq hd (f_umi s) (m_umi o)) radius
    (f_sample s) (f_strand s) (f_chrom s) (f_start s) (f_end s)
    (m_sample o) (m_strand o) (m_chrom o) (m_start o) (m_end o).

(* add_fragment(fragment, use_hash=False): any member f with f == fragment *)
Definition match_flat (radius hd : Z) (m : mol) (f : frag) : bool :=
  existsb (fun g => frag_eq_frag radius hd g f) (m_frags m).
(* add_fragment(fragment, use_hash=True): self == fragment *)
Definition match_grouped (radius hd : Z) (m : mol) (f : frag) : bool := frag_eq_mol radius hd f m.

Definition nochrom (f : frag) : bool := f_chrom f =? -1.

(* m.can_be_yielded(current_chrom, current_position) with the contig and END of the current fragment span *)
Definition yieldable (cache : Z) (g : frag) (m : mol) : bool :=
  can_be_yielded (nochrom g) (f_chrom g) (m_chrom m) (f_end g) (m_start m) (m_end m) cache.

Record cfg := mkCfg {
  c_every : option Z; c_pooling : Z (* 0 | 1 *); c_cache : Z; c_radius : Z; c_hd : Z; c_yield_invalid : bool }.

(* pooling_method 0: flat list, member-wise comparison (use_hash=False), the flat pop site;
   pooling_method 1: dict keyed by match_hash, molecule == fragment, the grouped pop site *)
Definition runC (c : cfg) (fs : list frag) : list (list mol) * list mol * bool :=
  if c_pooling c =? 0 then
    frun_machine frag mol new_mol add_mol (match_flat (c_radius c) (c_hd c)) f_valid nochrom
                 (yieldable (c_cache c)) pop_index_flat (c_every c) (c_yield_invalid c) fs
  else
    run_machine frag mol new_mol add_mol (match_grouped (c_radius c) (c_hd c)) f_hash f_valid nochrom
                (yieldable (c_cache c)) pop_index_grouped (c_every c) (c_yield_invalid c) fs.

(* a complete pass over an iterator object whose buffers (dict in insertion order / flat list) and counter hold
   whatever earlier, possibly abandoned, passes left there *)
Definition runC_after (c : cfg) (buf : list (Z * list mol)) (ctr : Z) (fs : list frag)
  : list (list mol) * list mol * bool :=
  if c_pooling c =? 0 then
    frun_machine_from frag mol new_mol add_mol (match_flat (c_radius c) (c_hd c)) f_valid nochrom
                 (yieldable (c_cache c)) pop_index_flat (c_every c) (c_yield_invalid c)
                 (mkFState mol (concat (map snd buf)) ctr) fs
  else
    run_machine_from frag mol new_mol add_mol (match_grouped (c_radius c) (c_hd c)) f_hash f_valid nochrom
                (yieldable (c_cache c)) pop_index_grouped (c_every c) (c_yield_invalid c)
                (mkState mol buf ctr) fs.

(* object states along a history of abandoned passes (both pooling methods through the dict machine; pooling 0
   uses the single key 0, see frun_machine_equiv) *)
Definition historyC (c : cfg) (ks : list nat) (fs : list frag) : list (state mol) :=
  if c_pooling c =? 0 then
    history_states frag mol new_mol add_mol (match_flat (c_radius c) (c_hd c)) (fun _ => 0) f_valid nochrom
                   (yieldable (c_cache c)) pop_index_flat (c_every c) (c_yield_invalid c) ks (init mol) fs
  else
    history_states frag mol new_mol add_mol (match_grouped (c_radius c) (c_hd c)) f_hash f_valid nochrom
                   (yieldable (c_cache c)) pop_index_grouped (c_every c) (c_yield_invalid c) ks (init mol) fs.

(* the match rule of the configuration (what "a later fragment could still join" means) *)
Definition matchC (c : cfg) : mol -> frag -> bool :=
  if c_pooling c =? 0 then match_flat (c_radius c) (c_hd c) else match_grouped (c_radius c) (c_hd c).

(* ------------------------------------------------------------------ precondition of the schedule theorems
   (over the valid fragments, in arrival order):
     every fragment has a contig and 0 <= end - start <= L;
     starts never step back by more than lag within a contig;  contigs come in contiguous blocks;
     2 * (L + lag + radius) <= cache_size *)
Fixpoint lag_sortedb (lag : Z) (l : list frag) : bool :=
  match l with
  | [] => true
  | f :: l' => forallb (fun h => negb (f_chrom h =? f_chrom f) || (f_start f <=? f_start h + lag)) l' && lag_sortedb lag l'
  end.

(* after the contig of f has been left it never comes back *)
Fixpoint left_for_good (c : Z) (l : list frag) : bool :=
  match l with
  | [] => true
  | g :: l' => if f_chrom g =? c then left_for_good c l'
               else forallb (fun h => negb (f_chrom h =? c)) l'
  end.
Fixpoint blocksb (l : list frag) : bool :=
  match l with [] => true | f :: l' => left_for_good (f_chrom f) l' && blocksb l' end.

Definition preb (L lag : Z) (c : cfg) (fs : list frag) : bool :=
  let vs := filter f_valid fs in
  forallb (fun f => negb (nochrom f) && (f_start f <=? f_end f) && (f_end f - f_start f <=? L)) vs
  && lag_sortedb lag vs && blocksb vs
  && (0 <=? L) && (0 <=? lag) && (0 <=? c_radius c) && (2 * (L + lag + c_radius c) <=? c_cache c).

(* ------------------------------------------------------------------ boolean specifications (mode 2, 3) *)
Fixpoint count_z (x : Z) (l : list Z) : nat :=
  match l with [] => O | y :: l' => ((if (x =? y)%Z then 1 else 0) + count_z x l')%nat end.
Definition same_multiset_z (a b : list Z) : bool :=
  Nat.eqb (length a) (length b) && forallb (fun x => Nat.eqb (count_z x a) (count_z x b)) a.
Fixpoint count_zs (x : list Z) (l : list (list Z)) : nat :=
  match l with [] => O | y :: l' => ((if zs_eqb x y then 1 else 0) + count_zs x l')%nat end.
Definition same_multiset_zs (a b : list (list Z)) : bool :=
  Nat.eqb (length a) (length b) && forallb (fun x => Nat.eqb (count_zs x a) (count_zs x b)) a.

(* ------------------------------------------------------------------ I/O *)
Definition dec_frag (v : Val) : frag :=
  mkFrag (getZ (nthV 0 v)) (getB (nthV 1 v)) (getZ (nthV 2 v)) (getZ (nthV 3 v)) (getZ (nthV 4 v))
         (getZ (nthV 5 v)) (getZ (nthV 6 v)) (getZs (nthV 7 v)) (getZ (nthV 8 v)).
Definition dec_cfg (v : Val) : cfg :=
  mkCfg (getOptZ (nthV 0 v)) (getZ (nthV 1 v)) (getZ (nthV 2 v)) (getZ (nthV 3 v)) (getZ (nthV 4 v)) (getB (nthV 5 v)).
Definition enc_mol (m : mol) : Val :=
  VL [ofZs (map f_id (m_frags m)); VZ (m_sample m); VZ (m_strand m); VZ (m_chrom m); VZ (m_start m);
      VZ (m_end m); ofZs (m_umi m)].
Definition enc_run (r : list (list mol) * list mol * bool) : Val :=
  let '(outs, fl, ok) := r in VL [VL (map (fun o => VL (map enc_mol o)) outs); VL (map enc_mol fl); ofB ok].

Definition enc_state (st : state mol) : Val :=
  VL [VL (map (fun g => VL [VZ (fst g); VL (map (fun m => ofZs (map f_id (m_frags m))) (snd g))]) (st_groups mol st));
      VZ (st_ctr mol st)].

(* input: [cfg; fragments; L; lag]
   mode 0: run; mode 1: precondition;
   mode 2: [wanted fragment ids; ids of all fragments of the yielded molecules] -> emit-once specification;
   mode 3: [molecules (id lists) of run A; molecules of run B] -> same partition *)
Definition run_C07 (mode : Z) (v : Val) : Val :=
  match mode with
  | 0 => enc_run (runC (dec_cfg (nthV 0 v)) (map dec_frag (getL (nthV 1 v))))
  | 1 => ofB (preb (getZ (nthV 2 v)) (getZ (nthV 3 v)) (dec_cfg (nthV 0 v)) (map dec_frag (getL (nthV 1 v))))
  | 2 => ofB (same_multiset_z (getZs (nthV 0 v)) (getZs (nthV 1 v)))
  | 3 => ofB (same_multiset_zs (map getZs (getL (nthV 0 v))) (map getZs (getL (nthV 1 v))))
  | 4 => (* [cfg; fragments; ks]: object state after each abandoned pass, then the complete pass *)
         let c := dec_cfg (nthV 0 v) in
         let fs := map dec_frag (getL (nthV 1 v)) in
         let sts := historyC c (map Z.to_nat (getZs (nthV 2 v))) fs in
         let last_st := last sts (init mol) in
         VL [VL (map enc_state sts); enc_run (runC_after c (st_groups mol last_st) (st_ctr mol last_st) fs)]
  | _ => bad
  end.
