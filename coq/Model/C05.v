(* C05 model: conservation of alignment records through bamtagmultiome.
   Layers (all executable, definitions only):
     records  ->  fetch (per contig / unplaced / whole file)  ->  pairing (pysamiterators.MatePairIterator,
     or the qflag ReadIterator)  ->  Fragment.__init__ (mate bits forced)  ->  molecule iterator
     (abstract: any function with the emit-once contract; a simple concrete one is given)  ->
     write (RG tag, read-group dict)  ->  sorted_bam_file (sort: parameter)  ->
     [multiprocess: job list of tag_multiome_multi_processing, per-job files, merge_bams (merge: parameter)]
   Python exceptions are explicit (Raise). *)
From Coq Require Import ZArith List Bool.
Import ListNotations.
From SCMO Require Import Lib.Val.
Open Scope Z_scope.

(* ---------------------------------------------------------------- results *)
Inductive res (A : Type) : Type :=
| Ok : A -> res A
| Raise : Z -> res A.     (* 1: verify_pair ValueError, 2: Fragment.__init__ 'Supply first R1 then R2' *)
Arguments Ok {A} _.
Arguments Raise {A} _.

Definition bind {A B} (x : res A) (f : A -> res B) : res B :=
  match x with Ok a => f a | Raise e => Raise e end.

Definition cons_res {A} (a : A) (x : res (list A)) : res (list A) :=
  match x with Ok l => Ok (a :: l) | Raise e => Raise e end.

Fixpoint mapM {A B} (f : A -> res B) (l : list A) : res (list B) :=
  match l with
  | [] => Ok []
  | a :: l' => match f a with
               | Ok b => cons_res b (mapM f l')
               | Raise e => Raise e
               end
  end.

(* ---------------------------------------------------------------- records *)
(* contig name: None is '*' (the unplaced bin of the BAM file), Some c a reference sequence *)
Definition cname := option Z.
Definition cname_eqb (a b : cname) : bool :=
  match a, b with
  | None, None => true
  | Some x, Some y => x =? y
  | _, _ => false
  end.

Record rec : Type := mkRec {
  r_id : Z;              (* identity of the payload: sequence, qualities, CIGAR (never touched by the code) *)
  r_name : Z;            (* query name *)
  r_contig : cname;      (* reference the record is placed on in the file; None = unplaced *)
  r_pos : Z;
  r_next : cname;        (* next_reference_name *)
  r_paired : bool;
  r_read1 : bool;
  r_read2 : bool;
  r_mate_unmapped : bool;
  r_sec : bool;          (* secondary or supplementary *)
  r_qcfail : bool;
  r_rg : Z;              (* read group id derived from the Fc / La / SM tags *)
  r_ok : bool;           (* input to the concrete validity function of the executable model *)
  r_mkey : Z             (* input to the concrete molecule key of the executable model *)
}.

Definition set_flags (r : rec) (paired read1 read2 : bool) (next : cname) : rec :=
  mkRec (r_id r) (r_name r) (r_contig r) (r_pos r) next paired read1 read2
        (r_mate_unmapped r) (r_sec r) (r_qcfail r) (r_rg r) (r_ok r) (r_mkey r).

(* what the claim is about: payload identity, name, place; and the mate number *)
Definition core (r : rec) : Z * Z * cname * Z := (r_id r, r_name r, r_contig r, r_pos r).
Definition key (r : rec) : (Z * Z * cname * Z) * (bool * bool) := (core r, (r_read1 r, r_read2 r)).

Definition primary (r : rec) : bool := negb (r_sec r).

(* ---------------------------------------------------------------- fetch (htslib index; trusted) *)
Definition fetch (c : cname) (recs : list rec) : list rec :=
  filter (fun r => cname_eqb (r_contig r) c) recs.

(* fetch() without a region on an indexed file: every reference in header order, not the unplaced bin *)
Definition fetch_all (hdr : list Z) (recs : list rec) : list rec :=
  flat_map (fun c => fetch (Some c) recs) hdr.

(* get_contigs_with_reads(path, True): idxstats lines with mapped+unmapped > 0, '*' (length 0) last *)
Definition contigs_with_reads (hdr : list (Z * Z)) (recs : list rec) : list (cname * Z) :=
  map (fun cl => (Some (fst cl), snd cl))
      (filter (fun cl => existsb (fun r => cname_eqb (r_contig r) (Some (fst cl))) recs) hdr)
  ++ (if existsb (fun r => cname_eqb (r_contig r) None) recs then [(None, 0)] else []).

(* ---------------------------------------------------------------- job list (tag_multiome_multi_processing) *)
Definition small_contig_threshold : Z := 100000.

Definition is_star (c : cname) : bool := match c with None => true | Some _ => false end.

(* the loop of the one_contig_per_process block with its accumulators [current] and [job_gen];
   REPAIRED code (fixes/C05-D8.patch): '*' is skipped (it has the first job), a large contig first flushes
   the pending small ones and always gets its own job, pending small contigs are flushed when non-empty *)
Fixpoint jobs_loop (cs : list (cname * Z)) (current : list cname) (job_gen : list (list cname))
  : list (list cname) :=
  match cs with
  | [] => if (0 <? Z.of_nat (length current)) then job_gen ++ [current] else job_gen
  | (c, len) :: cs' =>
      if is_star c then jobs_loop cs' current job_gen
      else if len <? small_contig_threshold then jobs_loop cs' (current ++ [c]) job_gen
      else if (0 <? Z.of_nat (length current))
           then jobs_loop cs' [] ((job_gen ++ [current]) ++ [[c]])
           else jobs_loop cs' current (job_gen ++ [[c]])
  end.

Definition contig_jobs (cs : list (cname * Z)) : list (list cname) := jobs_loop cs [] [[None]].

(* the block as it was before the repair (D8), kept for the refutation theorem *)
Fixpoint jobs_loop_old (cs : list (cname * Z)) (current : list cname) (job_gen : list (list cname))
  : list (list cname) :=
  match cs with
  | [] => if (1 <? Z.of_nat (length current)) then job_gen ++ [current] else job_gen
  | (c, len) :: cs' =>
      if len <? small_contig_threshold then jobs_loop_old cs' (current ++ [c]) job_gen
      else if (1 <? Z.of_nat (length current))
           then jobs_loop_old cs' [] (job_gen ++ [current])
           else jobs_loop_old cs' current (job_gen ++ [[c]])
  end.
Definition contig_jobs_old (cs : list (cname * Z)) : list (list cname) := jobs_loop_old cs [] [[None]].

(* ---------------------------------------------------------------- pairing *)
(* python dict with insertion order: assignment to an existing key keeps its position *)
Definition dict := list (Z * rec).

Fixpoint dmem (k : Z) (d : dict) : bool :=
  match d with
  | [] => false
  | (k', _) :: d' => (k =? k') || dmem k d'
  end.

Fixpoint dset (k : Z) (v : rec) (d : dict) : dict :=
  match d with
  | [] => [(k, v)]
  | (k', v') :: d' => if k =? k' then (k', v) :: d' else (k', v') :: dset k v d'
  end.

Fixpoint dget (k : Z) (d : dict) : option rec :=
  match d with
  | [] => None
  | (k', v') :: d' => if k =? k' then Some v' else dget k d'
  end.

Fixpoint ddel (k : Z) (d : dict) : dict :=
  match d with
  | [] => []
  | (k', v') :: d' => if k =? k' then d' else (k', v') :: ddel k d'
  end.

Definition pairT : Type := option rec * option rec.

(* verify_pair(apply_fixes=True) on (rec, None) with rec.is_read1 and rec.is_paired *)
Definition fix_first (r : rec) : rec := set_flags r false false (r_read2 r) None.
(* verify_pair(apply_fixes=True) on (None, rec) with rec.is_read2 and rec.is_paired *)
Definition fix_second (r : rec) : rec := set_flags r false false false None.

(* StopIteration: the cached halves are handed out, first reads then second reads, in dict order *)
Definition flush (c1 c2 : dict) : list pairT :=
  map (fun kv => (Some (snd kv), None)) c1 ++ map (fun kv => (None, Some (snd kv))) c2.

(* MatePairIterator.__next__ driven to exhaustion (performProperPairCheck=False, ignore_collisions=True) *)
Fixpoint pair_loop (rs : list rec) (c1 c2 : dict) : res (list pairT) :=
  match rs with
  | [] => Ok (flush c1 c2)
  | r :: rs' =>
      if r_sec r then pair_loop rs' c1 c2
      else if negb (r_paired r) then cons_res (Some r, None) (pair_loop rs' c1 c2)
      else if negb (r_mate_unmapped r) && cname_eqb (r_contig r) (r_next r) then
        if r_read1 r then
          let c1' := dset (r_name r) r c1 in
          match dget (r_name r) c1', dget (r_name r) c2 with
          | Some a, Some b => cons_res (Some a, Some b) (pair_loop rs' (ddel (r_name r) c1') (ddel (r_name r) c2))
          | _, _ => pair_loop rs' c1' c2
          end
        else
          let c2' := dset (r_name r) r c2 in
          match dget (r_name r) c1, dget (r_name r) c2' with
          | Some a, Some b => cons_res (Some a, Some b) (pair_loop rs' (ddel (r_name r) c1) (ddel (r_name r) c2'))
          | _, _ => pair_loop rs' c1 c2'
          end
      else if r_read1 r then cons_res (Some (fix_first r), None) (pair_loop rs' c1 c2)
      else if r_read2 r then cons_res (None, Some (fix_second r)) (pair_loop rs' c1 c2)
      else Raise 1
  end.

Definition pairing (rs : list rec) : res (list pairT) := pair_loop rs [] [].

(* molecule.iterator.ReadIterator (method qflag), REPAIRED (fixes/C05-D30.patch): a read-2 record goes to the
   second slot.  No filtering of secondary / supplementary records. *)
Definition pairing_qflag (rs : list rec) : res (list pairT) :=
  Ok (map (fun r => if r_read2 r then (None, Some r) else (Some r, None)) rs).
(* before the repair every record went to the first slot (D30) *)
Definition pairing_qflag_old (rs : list rec) : res (list pairT) :=
  Ok (map (fun r => (Some r, None)) rs).

(* ---------------------------------------------------------------- Fragment.__init__ *)
Definition frag : Type := option rec * option rec.

Definition force1 (r : rec) : rec := set_flags r (r_paired r) true false (r_next r).
Definition force2 (r : rec) : rec := set_flags r (r_paired r) false true (r_next r).

Definition mkfrag (p : pairT) : res frag :=
  match p with
  | (Some a, b) =>
      if r_read2 a && negb (r_qcfail a) then Raise 2
      else Ok (Some (force1 a), option_map force2 b)
  | (None, b) => Ok (None, option_map force2 b)
  end.

Definition frag_recs (f : frag) : list rec :=
  match f with
  | (Some a, Some b) => [a; b]
  | (Some a, None) => [a]
  | (None, Some b) => [b]
  | (None, None) => []
  end.

Definition pair_recs (p : pairT) : list rec := frag_recs p.

(* get_read_group: the first read that is present *)
Definition frag_rg (f : frag) : Z :=
  match f with
  | (Some a, _) => r_rg a
  | (None, Some b) => r_rg b
  | (None, None) => 0
  end.

(* ---------------------------------------------------------------- a simple molecule iterator *)
(* molecules: association list  key -> fragments (in order of arrival) *)
Definition mols : Type := list (Z * list frag).

Inductive added : Type := Added (m : mols) | Overflow.

Fixpoint add_frag (cap : option nat) (k : Z) (f : frag) (ms : mols) : added :=
  match ms with
  | [] => Added [(k, [f])]
  | (k', fs) :: ms' =>
      if k =? k' then
        match cap with
        | Some n => if Nat.leb n (length fs) then Overflow else Added ((k', fs ++ [f]) :: ms')
        | None => Added ((k', fs ++ [f]) :: ms')
        end
      else match add_frag cap k f ms' with
           | Added m => Added ((k', fs) :: m)
           | Overflow => Overflow
           end
  end.

Section SimpleIter.
  Variable valid : frag -> bool.       (* Fragment.is_valid *)
  Variable mkey : frag -> Z.           (* which molecule a valid fragment joins (C06) *)
  Variable cap : option nat.           (* max_associated_fragments *)
  Variable every : bool.               (* every_fragment_as_molecule *)
  Variables yi yo : bool.              (* yield_invalid, yield_overflow *)

  (* returns (emitted molecules, deleted fragments) *)
  Fixpoint iter_loop (fs : list frag) (ms : mols) : list (list frag) * list frag :=
    match fs with
    | [] => (map snd ms, [])
    | f :: fs' =>
        if negb (valid f) then
          let ed := iter_loop fs' ms in
          if yi then ([f] :: fst ed, snd ed) else (fst ed, f :: snd ed)
        else if every then
          let ed := iter_loop fs' ms in ([f] :: fst ed, snd ed)
        else match add_frag cap (mkey f) f ms with
             | Added ms' => iter_loop fs' ms'
             | Overflow =>
                 let ed := iter_loop fs' ms in
                 if yo then ([f] :: fst ed, snd ed) else (fst ed, f :: snd ed)
             end
    end.
End SimpleIter.

Definition simple_iter (valid : frag -> bool) (mkey : frag -> Z) (cap : option nat) (every : bool)
  (yi yo : bool) (fs : list frag) : list (list frag) * list frag :=
  iter_loop valid mkey cap every yi yo fs [].

(* ---------------------------------------------------------------- writing *)
Definition orec : Type := rec * Z.                 (* record as written, with its RG tag *)
Definition bam : Type := list Z * list orec.       (* header @RG ids, records *)

Definition frag_out (f : frag) : list orec := map (fun r => (r, frag_rg f)) (frag_recs f).
Definition write (ms : list (list frag)) : list orec := flat_map frag_out (concat ms).
Definition rg_dict (ms : list (list frag)) : list Z := map frag_rg (concat ms).

(* keys of the read_groups dict: first occurrences, in order *)
Fixpoint dedupZ (l : list Z) : list Z :=
  match l with
  | [] => []
  | a :: l' => a :: filter (fun b => negb (a =? b)) (dedupZ l')
  end.

(* ---------------------------------------------------------------- the two pipelines *)
Section Pipeline.
  Variable sort : list orec -> list orec.            (* pysam.sort (htslib) *)
  Variable merge : list bam -> bam.                  (* pysam.merge -c -p (htslib) *)
  Variable it : bool -> bool -> list frag -> list (list frag) * list frag.   (* MoleculeIterator core *)
  Variable qflag : bool.                             (* -method qflag: ReadIterator instead of MatePairIterator *)
  Variables yi yo : bool.

  Definition fragments (stream : list rec) : res (list frag) :=
    bind (if qflag then pairing_qflag stream else pairing stream) (mapM mkfrag).

  (* one MoleculeIterator over one fetched stream: the emitted molecules *)
  Definition mol_iter (stream : list rec) : res (list (list frag)) :=
    bind (fragments stream) (fun fs => Ok (fst (it yi yo fs))).

  (* sorted_bam_file: unsorted write, header re-written with the collected read groups, sort, index *)
  Definition sorted_bam (ms : list (list frag)) : bam := (dedupZ (rg_dict ms), sort (write ms)).

  (* tag_multiome_single_thread: chain('*' iterator, whole-file iterator) *)
  Definition single (hdr : list (Z * Z)) (recs : list rec) : res bam :=
    bind (mol_iter (fetch None recs)) (fun m1 =>
    bind (mol_iter (fetch_all (map fst hdr) recs)) (fun m2 =>
    Ok (sorted_bam (m1 ++ m2)))).

  (* run_tagging_tasks: the tasks of one job write to one sorted file; no molecule -> no file *)
  Definition job (recs : list rec) (cs : list cname) : res (option bam) :=
    bind (mapM (fun c => mol_iter (fetch c recs)) cs) (fun mss =>
    let ms := concat mss in
    Ok (match ms with [] => None | _ => Some (sorted_bam ms) end)).

  Definition job_outputs (hdr : list (Z * Z)) (recs : list rec) : res (list (option bam)) :=
    mapM (job recs) (contig_jobs (contigs_with_reads hdr recs)).

  Definition somes {A} (l : list (option A)) : list A :=
    flat_map (fun o => match o with Some a => [a] | None => [] end) l.

  (* tag_multiome_multi_processing: [done] is the list of job results in completion order
     (imap_unordered); the header-only bam comes first: it carries the @RG lines of the INPUT header *)
  Definition multi_merge (in_rgs : list Z) (done : list (option bam)) : bam := merge ((in_rgs, []) :: somes done).

  Definition multi (in_rgs : list Z) (hdr : list (Z * Z)) (recs : list rec) : res bam :=
    bind (job_outputs hdr recs) (fun outs => Ok (multi_merge in_rgs outs)).
End Pipeline.

(* ---------------------------------------------------------------- concrete instances for the executable model *)
Fixpoint insert_by {A} (le : A -> A -> bool) (a : A) (l : list A) : list A :=
  match l with
  | [] => [a]
  | b :: l' => if le a b then a :: l else b :: insert_by le a l'
  end.
Definition isort {A} (le : A -> A -> bool) (l : list A) : list A := fold_right (insert_by le) [] l.

(* coordinate order: contigs by id (the harness numbers them in header order), unplaced last; then position;
   ties by payload id then mate so that the result is canonical *)
Definition orec_le (a b : orec) : bool :=
  let ca := r_contig (fst a) in let cb := r_contig (fst b) in
  match ca, cb with
  | Some x, Some y => (x <? y) || ((x =? y) && ((r_pos (fst a) <? r_pos (fst b)) ||
                         ((r_pos (fst a) =? r_pos (fst b)) && (r_id (fst a) <=? r_id (fst b)))))
  | Some _, None => true
  | None, Some _ => false
  | None, None => r_id (fst a) <=? r_id (fst b)
  end.
Definition csort (l : list orec) : list orec := isort orec_le l.

Definition cmerge (bs : list bam) : bam :=
  (dedupZ (flat_map fst bs), csort (flat_map snd bs)).

Definition cvalid (f : frag) : bool := forallb r_ok (frag_recs f).
Definition cmkey (f : frag) : Z :=
  match f with
  | (Some a, _) => r_mkey a
  | (None, Some b) => r_mkey b
  | (None, None) => 0
  end.

(* ---------------------------------------------------------------- preconditions and boolean specification *)
(* flag sanity (what a SAM-conformant aligner writes): a paired record carries exactly one mate bit, an
   unpaired one carries no read-2 bit *)
Definition wf_flags (r : rec) : bool :=
  if r_paired r then xorb (r_read1 r) (r_read2 r) else negb (r_read2 r).

(* no two primary records share (name, first-or-not) *)
Definition ckey2 (r : rec) : Z * bool := (r_name r, r_read1 r).
Definition pk_eqb (a b : Z * bool) : bool := (fst a =? fst b) && Bool.eqb (snd a) (snd b).
Fixpoint nodup_pk (l : list (Z * bool)) : bool :=
  match l with
  | [] => true
  | a :: l' => negb (existsb (pk_eqb a) l') && nodup_pk l'
  end.
Definition no_collision (recs : list rec) : bool := nodup_pk (map ckey2 (filter primary recs)).

Fixpoint nodupZ (l : list Z) : bool :=
  match l with
  | [] => true
  | a :: l' => negb (existsb (Z.eqb a) l') && nodupZ l'
  end.
Definition placed_in (hdr : list Z) (r : rec) : bool :=
  match r_contig r with None => true | Some c => existsb (Z.eqb c) hdr end.

Definition pre (hdr : list (Z * Z)) (recs : list rec) : bool :=
  forallb wf_flags recs && no_collision recs && nodupZ (map fst hdr) && forallb (placed_in (map fst hdr)) recs.

(* the record as the tagger must write it: mate bits as Fragment.__init__ leaves them *)
Definition norm (r : rec) : rec :=
  if r_paired r then (if r_read1 r then force1 r else force2 r) else force1 r.

(* multiset equality on small integer encodings *)
Definition zsort (l : list Z) : list Z := isort Z.leb l.
Fixpoint zlist_eqb (a b : list Z) : bool :=
  match a, b with
  | [], [] => true
  | x :: a', y :: b' => (x =? y) && zlist_eqb a' b'
  | _, _ => false
  end.
Definition enc_out (id : Z) (r1 r2 : bool) : Z := id * 4 + (if r1 then 2 else 0) + (if r2 then 1 else 0).

(* specb: [expected] input records that must be present (already filtered), observed output as
   (id, read1, read2, rg) rows and header read groups *)
Definition specb (expected : list rec) (rgs : list Z) (rows : list (Z * bool * bool * Z)) : bool :=
  zlist_eqb (zsort (map (fun r => let n := norm r in enc_out (r_id n) (r_read1 n) (r_read2 n)) expected))
            (zsort (map (fun w => let '(id, a, b, _) := w in enc_out id a b) rows))
  && forallb (fun w => let '(_, _, _, g) := w in existsb (Z.eqb g) rgs) rows.

(* ---------------------------------------------------------------- I/O glue *)
Definition dec_cname (v : Val) : cname := getOptZ v.
Definition enc_cname (c : cname) : Val := match c with Some z => VL [VZ z] | None => VL [] end.

Definition dec_rec (v : Val) : rec :=
  mkRec (getZ (nthV 0 v)) (getZ (nthV 1 v)) (dec_cname (nthV 2 v)) (getZ (nthV 3 v)) (dec_cname (nthV 4 v))
        (getB (nthV 5 v)) (getB (nthV 6 v)) (getB (nthV 7 v)) (getB (nthV 8 v)) (getB (nthV 9 v))
        (getB (nthV 10 v)) (getZ (nthV 11 v)) (getB (nthV 12 v)) (getZ (nthV 13 v)).

Definition dec_hdr (v : Val) : list (Z * Z) := map getPair (getL v).

Definition enc_bam (b : bam) : Val :=
  VL [VZ 1; ofZs (fst b);
      VL (map (fun o : orec => VL [VZ (r_id (fst o)); ofB (r_read1 (fst o)); ofB (r_read2 (fst o)); VZ (snd o)]) (snd b))].

Definition enc_res (x : res bam) : Val :=
  match x with Ok b => enc_bam b | Raise e => VL [VZ 0; VZ e] end.

Definition dec_cap (v : Val) : option nat :=
  match getOptZ v with Some z => Some (Z.to_nat z) | None => None end.

(* cfg = [multi; qflag; yield_invalid; yield_overflow; every_fragment_as_molecule; cap] *)
Definition run_pipeline (v : Val) : Val :=
  let cfg := nthV 0 v in
  let multi_b := getB (nthV 0 cfg) in
  let qf := getB (nthV 1 cfg) in
  let yi := getB (nthV 2 cfg) in
  let yo := getB (nthV 3 cfg) in
  let ev := getB (nthV 4 cfg) in
  let cap := dec_cap (nthV 5 cfg) in
  let hdr := dec_hdr (nthV 1 v) in
  let recs := map dec_rec (getL (nthV 2 v)) in
  let it := simple_iter cvalid cmkey cap ev in
  if multi_b then enc_res (multi csort cmerge it qf yi yo (getZs (nthV 3 v)) hdr recs)
  else enc_res (single csort it qf yi yo hdr recs).

Definition dec_row (v : Val) : Z * bool * bool * Z :=
  (getZ (nthV 0 v), getB (nthV 1 v), getB (nthV 2 v), getZ (nthV 3 v)).

Definition run_C05 (mode : Z) (v : Val) : Val :=
  match mode with
  | 0 => run_pipeline v
  | 1 => ofB (pre (dec_hdr (nthV 1 v)) (map dec_rec (getL (nthV 2 v))))
  | 2 => (* [expected records; header rgs; rows] *)
         ofB (specb (map dec_rec (getL (nthV 0 v))) (getZs (nthV 1 v)) (map dec_row (getL (nthV 2 v))))
  | 3 => (* job list for a contig list [[name-opt; len] ...] *)
         VL (map (fun j => VL (map enc_cname j))
                 (contig_jobs (map (fun p => (dec_cname (nthV 0 p), getZ (nthV 1 p))) (getL v))))
  | 4 => VL (map (fun j => VL (map enc_cname j))
                 (contig_jobs_old (map (fun p => (dec_cname (nthV 0 p), getZ (nthV 1 p))) (getL v))))
  | _ => bad
  end.
