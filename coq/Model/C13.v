(* C13 model: Molecule.get_consensus (molecule/molecule.py), Fragment.get_consensus (fragment/fragment.py),
   pick_best_base_call / read_to_consensus_dict / get_consensus_dictionaries (utils/sequtils.py).
   Executable definitions only (no proofs).  Reusable vote definitions (dict, vec, frag_call, votes)
   live here so that later properties can import Model.C13.

   What is modelled, call by call:
     read          = what read_to_consensus_dict reads from a pysam.AlignedSegment: contig, reference_start,
                     reference_end, is_reverse, "has an MD tag", and the aligned (refpos, base, quality) triples
                     of get_aligned_pairs(matches_only=True) in alignment order (pysam = trusted, outside the model)
     frag          = Fragment.reads : a python list of Optional[read]   (R1 = reads[0], R2 = reads[1])
     Res           = python outcome: a value, ValueError (caught by Molecule.get_consensus) or IndexError (not caught)
     opts          = the keyword arguments that reach get_consensus_dictionaries (dove_safe, only_include_refbase,
                     min_phred_score, skip_first/last_n_cycles_R1/R2, dove_R1/R2_distance); allow_N and
                     with_probs_and_obs are in Model/C13x.v (record args).
   This is the hand-written model the theorems are proved about.  Model/C13x.v builds the same pipeline from the
   expressions REGENERATED from the source (Gen/GenConsensus.v) and Proofs/C13x.v proves the two equal.  The one thing
   taken from the generated file here is the routing of the skip_*_n_cycles options to the mates (flt1 / flt2): the
   statement says nothing about it, /repo routes skip_last_n_cycles_R2 to both skip arguments of R2, and a correction of
   that must not invalidate anything. *)
From Coq Require Import ZArith List Bool.
Import ListNotations.
From SCMO Require Import Lib.Val Gen.GenConsensus.
Open Scope Z_scope.

(* ------------------------------------------------------------------ bases *)
Definition bA : Z := 65.  Definition bC : Z := 67.  Definition bG : Z := 71.
Definition bT : Z := 84.  Definition bN : Z := 78.

(* 'ACGTN'.index(b) ; None = ValueError *)
Definition base_index (b : Z) : option nat :=
  if b =? bA then Some 0%nat else if b =? bC then Some 1%nat else if b =? bG then Some 2%nat
  else if b =? bT then Some 3%nat else if b =? bN then Some 4%nat else None.
(* 'ACGTN'[i] *)
Definition index_base (i : nat) : Z := nth i [bA; bC; bG; bT; bN] 0.

(* ------------------------------------------------------------------ python dict keyed by (contig, refpos) *)
Definition key := (Z * Z)%type.
Definition key_eqb (a b : key) : bool := (fst a =? fst b) && (snd a =? snd b).

Section Dict.
  Context {V : Type}.
  Definition dict := list (key * V).          (* insertion ordered, keys unique by construction *)
  Fixpoint dget (k : key) (d : dict) : option V :=
    match d with
    | [] => None
    | (k', v) :: d' => if key_eqb k k' then Some v else dget k d'
    end.
  Fixpoint dset (k : key) (v : V) (d : dict) : dict :=      (* d[k] = v *)
    match d with
    | [] => [(k, v)]
    | (k', v') :: d' => if key_eqb k k' then (k', v) :: d' else (k', v') :: dset k v d'
    end.
  Definition dkeys (d : dict) : list key := map fst d.
  Definition dmem (k : key) (d : dict) : bool := match dget k d with Some _ => true | None => false end.
End Dict.
Arguments dict : clear implicits.

(* ------------------------------------------------------------------ vote vectors: np.zeros(5) over 'ACGTN' *)
Definition vec := (Z * Z * Z * Z * Z)%type.
Definition zeros : vec := (0, 0, 0, 0, 0).
Definition vlist (v : vec) : list Z := let '(a, c, g, t, n) := v in [a; c; g; t; n].
Definition vnth (i : nat) (v : vec) : Z := nth i (vlist v) 0.
Definition vincr (i : nat) (v : vec) : vec :=          (* v[i] += 1 *)
  let '(a, c, g, t, n) := v in
  match i with
  | 0%nat => (a + 1, c, g, t, n) | 1%nat => (a, c + 1, g, t, n) | 2%nat => (a, c, g + 1, t, n)
  | 3%nat => (a, c, g, t + 1, n) | 4%nat => (a, c, g, t, n + 1) | _ => v
  end.

(* np.argmax(v) = first index of the maximum; proper = exactly one entry equals the maximum *)
Definition lmax (l : list Z) : Z := fold_right Z.max (hd 0 l) l.
Fixpoint first_idx (m : Z) (l : list Z) : nat :=
  match l with [] => 0%nat | x :: r => if x =? m then 0%nat else S (first_idx m r) end.
Definition count_eq (m : Z) (l : list Z) : nat := length (filter (Z.eqb m) l).
Definition call_of_list (l : list Z) : option Z :=
  let m := lmax l in
  if Nat.eqb (count_eq m l) 1 then Some (index_base (first_idx m l)) else None.
Definition call_of_vec (v : vec) : option Z := call_of_list (vlist v).

(* ------------------------------------------------------------------ reads and fragments *)
Definition call := (Z * Z)%type.                         (* (query base, phred quality) *)
Definition acall := (Z * Z * Z * Z * Z)%type.          (* (refpos, query base, quality, query position, reference base) *)
Record read := { r_contig : Z; r_start : Z; r_end : Z; r_rev : bool; r_md : bool;
                 r_calls : list acall; r_qlen : Z }.     (* r_qlen = read.infer_query_length() *)

(* the keyword arguments of Molecule.get_consensus that reach get_consensus_dictionaries / read_to_consensus_dict
   (None = not given).  The theorems quantify over every value of this record. *)
Record opts := { o_ds : bool;                 (* dove_safe *)
                 o_refbase : option Z;        (* only_include_refbase (character code) *)
                 o_minq : option Z;           (* min_phred_score *)
                 o_sf1 : option Z; o_sl1 : option Z;     (* skip_first_n_cycles_R1, skip_last_n_cycles_R1 *)
                 o_sf2 : option Z; o_sl2 : option Z;     (* skip_first_n_cycles_R2, skip_last_n_cycles_R2 *)
                 o_d1 : Z; o_d2 : Z }.        (* dove_R1_distance, dove_R2_distance *)
Definition dflt (d : bool) : opts :=
  {| o_ds := d; o_refbase := None; o_minq := None; o_sf1 := None; o_sl1 := None; o_sf2 := None; o_sl2 := None;
     o_d1 := 0; o_d2 := 0 |}.
(* what read_to_consensus_dict receives for one mate *)
Record rfilter := { f_refbase : option Z; f_minq : option Z; f_sf : option Z; f_sl : option Z }.
(* which of the four skip options read_to_consensus_dict receives as skip_first / skip_last for R1 and for R2 is
   regenerated from the two calls in get_consensus_dictionaries (g_r1_skip_first ... g_r2_skip_last each return one of
   their four arguments).  /repo HEAD: R1 gets (skip_first_n_cycles_R1, skip_last_n_cycles_R1), R2 gets
   (skip_last_n_cycles_R2, skip_last_n_cycles_R2) - skip_first_n_cycles_R2 is unused (sic, fixes/C13-D36.patch) *)
Definition flt1 (o : opts) : rfilter :=
  {| f_refbase := o_refbase o; f_minq := o_minq o;
     f_sf := g_r1_skip_first (o_sf1 o) (o_sl1 o) (o_sf2 o) (o_sl2 o);
     f_sl := g_r1_skip_last (o_sf1 o) (o_sl1 o) (o_sf2 o) (o_sl2 o) |}.
Definition flt2 (o : opts) : rfilter :=
  {| f_refbase := o_refbase o; f_minq := o_minq o;
     f_sf := g_r2_skip_first (o_sf1 o) (o_sl1 o) (o_sf2 o) (o_sl2 o);
     f_sl := g_r2_skip_last (o_sf1 o) (o_sl1 o) (o_sf2 o) (o_sl2 o) |}.
Definition frag := list (option read).                   (* Fragment.reads *)

Inductive Res (A : Type) : Type := Ok (a : A) | ValueError | IndexError.
Arguments Ok {A} a.  Arguments ValueError {A}.  Arguments IndexError {A}.

(* ------------------------------------------------------------------ sequtils.pick_best_base_call( *calls ) *)
Record pb_state := { pb_base : option Z; pb_q : Z; pb_tie : bool }.
Definition pb_init : pb_state := {| pb_base := None; pb_q := -1; pb_tie := false |}.
Definition opt_is (o : option Z) (b : Z) : bool := match o with Some x => x =? b | None => false end.
Definition pb_step (s : pb_state) (c : option call) : pb_state :=
  match c with
  | None => s                                                             (* if call is None: continue *)
  | Some (b, q) =>
      if q >? pb_q s then {| pb_base := Some b; pb_q := q; pb_tie := false |}
      else if (q =? pb_q s) && negb (opt_is (pb_base s) b)                (* call[0] != best_base *)
           then {| pb_base := pb_base s; pb_q := pb_q s; pb_tie := true |}
           else s
  end.
Definition pb_result (s : pb_state) : call :=
  match pb_base s with
  | None => (bN, 0)
  | Some b => if pb_tie s then (bN, 0) else (b, pb_q s)
  end.
Definition pick_best (cs : list (option call)) : call := pb_result (fold_left pb_step cs pb_init).

(* ------------------------------------------------------------------ sequtils.get_consensus_dictionaries *)
(* the dove-safe window (start, end), both inclusive; None = unrestricted *)
Definition window (o : opts) (r1 r2 : option read) : Res (option (Z * Z)) :=
  if o_ds o then
    match r1, r2 with
    | Some a, Some b =>
        if r_rev a && negb (r_rev b) then Ok (Some (r_start b + o_d2 o, r_end a - o_d1 o - 1))
        else if negb (r_rev a) && r_rev b then Ok (Some (r_start a + o_d1 o, r_end b - o_d2 o - 1))
        else ValueError                      (* 'This method only works for inwards facing reads' *)
    | _, _ => ValueError                     (* 'Its not possible to determine a safe region ...' *)
    end
  else Ok None.

Definition in_win (w : option (Z * Z)) (p : Z) : bool :=
  match w with None => true | Some (s, e) => (s <=? p) && (p <=? e) end.

(* read_to_consensus_dict: dict comprehension over the aligned pairs (a repeated key keeps the last value);
   get_aligned_pairs(with_seq=True) raises ValueError when the read has no MD tag *)
Definition upper (c : Z) : Z := if (97 <=? c) && (c <=? 122) then c - 32 else c.       (* str.upper on one letter *)
(* the `if` of the dict comprehension *)
Definition keep_call (w : option (Z * Z)) (fl : rfilter) (r : read) (c : acall) : bool :=
  let '(p, _, q, qp, rb) := c in
  in_win w p
  && match f_minq fl with None => true | Some m => q >=? m end
  && match f_sl fl with None => true
     | Some n => (r_rev r && (qp >? n)) || (negb (r_rev r) && (qp <? r_qlen r - n)) end
  && match f_sf fl with None => true
     | Some n => (negb (r_rev r) && (qp >? n)) || (r_rev r && (qp <? r_qlen r - n)) end
  && match f_refbase fl with None => true | Some x => upper rb =? x end.
Definition read_items (w : option (Z * Z)) (fl : rfilter) (r : read) : list (key * call) :=
  map (fun c : acall => let '(p, b, q, _, _) := c in ((r_contig r, p), (b, q)))
      (filter (keep_call w fl r) (r_calls r)).
Definition dict_of {V} (items : list (key * V)) : dict V :=
  fold_left (fun d kv => dset (fst kv) (snd kv) d) items [].
Definition read_dict (w : option (Z * Z)) (fl : rfilter) (r : option read) : Res (dict call) :=
  match r with
  | None => Ok []
  | Some r => if r_md r then Ok (dict_of (read_items w fl r)) else ValueError
  end.

(* set(r1.keys()).union(set(r2.keys())) as a duplicate-free list (iteration order of the python set is not
   modelled: with bases in ACGTN the votes commute, see Proofs) *)
Definition union_keys (d1 d2 : dict call) : list key :=
  dkeys d1 ++ filter (fun k => negb (dmem k d1)) (dkeys d2).

(* ------------------------------------------------------------------ Fragment.get_consensus *)
Definition frag_consensus (ds : opts) (f : frag) : Res (dict call) :=
  match nth_error f 0, nth_error f 1 with          (* self.R1 = reads[0], self.R2 = reads[1] *)
  | Some r1, Some r2 =>
      match window ds r1 r2 with
      | Ok w =>
          match read_dict w (flt1 ds) r1 with
          | Ok d1 =>
              match read_dict w (flt2 ds) r2 with
              | Ok d2 => Ok (map (fun k => (k, pick_best [dget k d1; dget k d2])) (union_keys d1 d2))
              | ValueError => ValueError | IndexError => IndexError
              end
          | ValueError => ValueError | IndexError => IndexError
          end
      | ValueError => ValueError | IndexError => IndexError
      end
  | _, _ => IndexError
  end.

(* ------------------------------------------------------------------ Molecule.get_consensus *)
Definition has_R1 (f : frag) : bool := match nth_error f 0 with Some (Some _) => true | _ => false end.
Definition has_R2 (f : frag) : bool := match nth_error f 1 with Some (Some _) => true | _ => false end.

(* the skip test.  /repo HEAD:   dove_safe and not has_R2 or not has_R1   = (ds and not R2) or (not R1)   [D16]
   repaired (fixes/C13-D16.patch): dove_safe and (not has_R2 or not has_R1) *)
Definition skip_head (ds : opts) (f : frag) : bool := (o_ds ds && negb (has_R2 f)) || negb (has_R1 f).
Definition skip_fixed (ds : opts) (f : frag) : bool := o_ds ds && (negb (has_R2 f) || negb (has_R1 f)).

Definition table := dict vec.                               (* consensii: defaultdict(np.zeros(5)) *)
Definition tget (k : key) (t : table) : vec := match dget k t with Some v => v | None => zeros end.
Definition tincr (k : key) (i : nat) (t : table) : table := dset k (vincr i (tget k t)) t.

(* body of the for loop over fragment.get_consensus().items(), inside try/except ValueError:
   'N' calls are skipped; a base outside 'ACGTN' raises ValueError in .index and the rest of the
   fragment's items is lost (the votes already cast stay) *)
Fixpoint vote_items (items : list (key * call)) (t : table) : table :=
  match items with
  | [] => t
  | (k, (b, _)) :: rest =>
      if b =? bN then vote_items rest t
      else match base_index b with
           | Some i => vote_items rest (tincr k i t)
           | None => t
           end
  end.

Section Mol.
  Variable skip : opts -> frag -> bool.
  Fixpoint mol_table (ds : opts) (fs : list frag) (t : table) : Res table :=
    match fs with
    | [] => Ok t
    | f :: rest =>
        if skip ds f then mol_table ds rest t
        else match frag_consensus ds f with
             | Ok items => mol_table ds rest (vote_items items t)
             | ValueError => mol_table ds rest t               (* except ValueError: pass *)
             | IndexError => IndexError
             end
    end.
  (* argmax + uniqueness mask, per location (the sort of the locations only fixes the dict's iteration order) *)
  Definition finish (t : table) : dict Z :=
    flat_map (fun kv => match call_of_vec (snd kv) with Some b => [(fst kv, b)] | None => [] end) t.
  Definition mol_consensus (ds : opts) (fs : list frag) : Res (dict Z) :=
    match mol_table ds fs [] with
    | Ok t => Ok (finish t)
    | ValueError => ValueError | IndexError => IndexError
    end.
End Mol.

(* ------------------------------------------------------------------ declarative vote (the specification side) *)
(* the one call a fragment contributes at key k (None = no vote) *)
Definition frag_call (skip : opts -> frag -> bool) (ds : opts) (f : frag) (k : key) : option Z :=
  if skip ds f then None else
  match nth_error f 0, nth_error f 1 with
  | Some r1, Some r2 =>
      match window ds r1 r2 with
      | Ok w =>
          match read_dict w (flt1 ds) r1, read_dict w (flt2 ds) r2 with
          | Ok d1, Ok d2 =>
              match dget k d1, dget k d2 with
              | None, None => None
              | c1, c2 => let b := fst (pick_best [c1; c2]) in if b =? bN then None else Some b
              end
          | _, _ => None
          end
      | _ => None
      end
  | _, _ => None
  end.

Definition zsum (l : list Z) : Z := fold_right Z.add 0 l.
Definition votes (skip : opts -> frag -> bool) (ds : opts) (fs : list frag) (k : key) (b : Z) : Z :=
  zsum (map (fun f => if opt_is (frag_call skip ds f k) b then 1 else 0) fs).

Definition acgt : list Z := [bA; bC; bG; bT].
(* the strict-majority base at k, computed from the declarative votes *)
Definition majority (skip : opts -> frag -> bool) (ds : opts) (fs : list frag) (k : key) : option Z :=
  find (fun b => forallb (fun b' => (b' =? b) || (votes skip ds fs k b' <? votes skip ds fs k b)) acgt) acgt.

(* preconditions of the theorems *)
Definition read_bases_ok (r : read) : bool :=
  forallb (fun c : acall => let '(_, b, _, _, _) := c in match base_index b with Some _ => true | None => false end) (r_calls r).
Definition frag_bases_ok (f : frag) : bool :=
  forallb (fun o => match o with Some r => read_bases_ok r | None => true end) f.
Definition two_slots (f : frag) : bool := Nat.eqb (length f) 2.
Definition pre (fs : list frag) : bool := forallb (fun f => frag_bases_ok f && two_slots f) fs.

Definition frag_keys (f : frag) : list key :=
  flat_map (fun o => match o with Some r => map (fun c : acall => let '(p, _, _, _, _) := c in (r_contig r, p)) (r_calls r)
                              | None => [] end) f.
Definition opt_eqb (a b : option Z) : bool :=
  match a, b with Some x, Some y => x =? y | None, None => true | _, _ => false end.
(* boolean specification: the dictionary [out] holds exactly the strict-majority base at every key
   covered by any read (and nothing at keys it mentions beyond those) *)
Definition specb (skip : opts -> frag -> bool) (ds : opts) (fs : list frag) (out : dict Z) : bool :=
  forallb (fun k => opt_eqb (dget k out) (majority skip ds fs k)) (flat_map frag_keys fs ++ dkeys out).

(* ------------------------------------------------------------------ histories: the molecule as a state machine *)
(* The only state Molecule.get_consensus reads is self.fragments (it iterates `for fragment in self`); /repo HEAD keeps
   no memo of the answer.  Operations that change self.fragments:
     add_fragment(f)   appends f when the molecule accepts it (the match test is C06's subject: the verdict is an input)
     _add_fragment(f)  appends f
     add_molecule(m)   for fragment in m: self._add_fragment(fragment)
   OpGet = get_consensus(dove_safe=ds [, with_probs_and_obs=True]); it leaves the state unchanged. *)
Inductive op : Type :=
| OpAdd (accepted : bool) (f : frag)
| OpRaw (f : frag)
| OpMol (fs : list frag)
| OpGet (ds : opts) (probs : bool).
Definition mstate := list frag.
Definition op_frags (o : op) : list frag :=
  match o with
  | OpAdd true f => [f] | OpAdd false _ => []
  | OpRaw f => [f] | OpMol fs => fs | OpGet _ _ => []
  end.
Definition held (ops : list op) : list frag := flat_map op_frags ops.     (* every fragment added so far, in order *)
Inductive answer : Type :=
| AnsCons (r : Res (dict Z))
| AnsProbs (r : Res (dict Z)) (t : Res table).
Definition answer_of (skip : opts -> frag -> bool) (ds : opts) (probs : bool) (st : mstate) : answer :=
  if probs then AnsProbs (mol_consensus skip ds st) (mol_table skip ds st [])
  else AnsCons (mol_consensus skip ds st).
Definition step (skip : opts -> frag -> bool) (st : mstate) (o : op) : mstate * list answer :=
  match o with
  | OpGet ds probs => (st, [answer_of skip ds probs st])
  | _ => (st ++ op_frags o, [])
  end.
Fixpoint run_ops (skip : opts -> frag -> bool) (st : mstate) (ops : list op) : list answer :=
  match ops with
  | [] => []
  | o :: rest => snd (step skip st o) ++ run_ops skip (fst (step skip st o)) rest
  end.

(* ------------------------------------------------------------------ I/O glue *)
Definition dec_call (v : Val) : acall :=
  (getZ (nthV 0 v), getZ (nthV 1 v), getZ (nthV 2 v), getZ (nthV 3 v), getZ (nthV 4 v)).
(* options: a bare integer = dove_safe with every other keyword at its default; else the 9-field record *)
Definition dec_opts (v : Val) : opts :=
  match v with
  | VZ z => dflt (negb (z =? 0))
  | VL _ => {| o_ds := getB (nthV 0 v); o_refbase := getOptZ (nthV 1 v); o_minq := getOptZ (nthV 2 v);
               o_sf1 := getOptZ (nthV 3 v); o_sl1 := getOptZ (nthV 4 v); o_sf2 := getOptZ (nthV 5 v);
               o_sl2 := getOptZ (nthV 6 v); o_d1 := getZ (nthV 7 v); o_d2 := getZ (nthV 8 v) |}
  end.
Definition dec_read (v : Val) : option read :=
  match getL v with
  | [] => None
  | _ => Some {| r_contig := getZ (nthV 0 v); r_start := getZ (nthV 1 v); r_end := getZ (nthV 2 v);
                 r_rev := getB (nthV 3 v); r_md := getB (nthV 4 v);
                 r_calls := map dec_call (getL (nthV 5 v)); r_qlen := getZ (nthV 6 v) |}
  end.
Definition dec_frag (v : Val) : frag := map dec_read (getL v).
Definition dec_frags (v : Val) : list frag := map dec_frag (getL v).
Definition dec_out (v : Val) : dict Z :=
  map (fun e => ((getZ (nthV 0 e), getZ (nthV 1 e)), getZ (nthV 2 e))) (getL v).
Definition enc_res {A} (enc : A -> Val) (r : Res A) : Val :=
  match r with
  | Ok a => VL [VZ 0; enc a]
  | ValueError => VL [VZ 1; VL []]
  | IndexError => VL [VZ 2; VL []]
  end.
Definition enc_out (d : dict Z) : Val := VL (map (fun e => VL [VZ (fst (fst e)); VZ (snd (fst e)); VZ (snd e)]) d).
Definition enc_table (t : table) : Val :=
  VL (map (fun e => VL (VZ (fst (fst e)) :: VZ (snd (fst e)) :: map VZ (vlist (snd e)))) t).

Definition dec_op (v : Val) : op :=
  let t := getZ (nthV 0 v) in
  if t =? 0 then OpAdd (getB (nthV 1 v)) (dec_frag (nthV 2 v))
  else if t =? 1 then OpRaw (dec_frag (nthV 1 v))
  else if t =? 2 then OpMol (dec_frags (nthV 1 v))
  else OpGet (dec_opts (nthV 1 v)) (getB (nthV 2 v)).
Definition enc_answer (a : answer) : Val :=
  match a with
  | AnsCons r => VL [enc_res enc_out r]
  | AnsProbs r t => VL [enc_res enc_out r; enc_res enc_table t]
  end.

(* input: [dove_safe; fragments]  (mode 2: [[dove_safe; fragments]; out])
   mode 0: repaired model; 1: precondition; 2: specb on an output; 3: /repo HEAD model (D16);
   4: vote table of the repaired model; 5: pick_best on a list of optional calls; 6: Fragment.get_consensus;
   7 / 8: a history (list of operations) through the repaired / HEAD molecule state machine, one answer per OpGet *)
Definition run_C13 (mode : Z) (v : Val) : Val :=
  match mode with
  | 0 => enc_res enc_out (mol_consensus skip_fixed (dec_opts (nthV 0 v)) (dec_frags (nthV 1 v)))
  | 1 => ofB (pre (dec_frags (nthV 1 v)))
  | 2 => let i := nthV 0 v in
         ofB (specb skip_fixed (dec_opts (nthV 0 i)) (dec_frags (nthV 1 i)) (dec_out (nthV 1 v)))
  | 3 => enc_res enc_out (mol_consensus skip_head (dec_opts (nthV 0 v)) (dec_frags (nthV 1 v)))
  | 4 => enc_res enc_table (mol_table skip_fixed (dec_opts (nthV 0 v)) (dec_frags (nthV 1 v)) [])
  | 5 => let r := pick_best (map (fun c => match getL c with [] => None | _ => Some (getZ (nthV 0 c), getZ (nthV 1 c)) end)
                                 (getL v)) in VL [VZ (fst r); VZ (snd r)]
  | 6 => enc_res (fun d : dict call => VL (map (fun e => VL [VZ (fst (fst e)); VZ (snd (fst e)); VZ (fst (snd e)); VZ (snd (snd e))]) d))
                 (frag_consensus (dec_opts (nthV 0 v)) (dec_frag (nthV 1 v)))
  | 7 => VL (map enc_answer (run_ops skip_fixed [] (map dec_op (getL v))))
  | 8 => VL (map enc_answer (run_ops skip_head [] (map dec_op (getL v))))
  | _ => bad
  end.
