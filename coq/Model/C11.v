(* C11 model: read filter (read_should_be_counted), weights and keys (assignReads, non-binned branches)
   and the accumulation of create_count_table (plain / -contig / -bedfile).  Definitions only.
   Strings are lists of character codes; weights are exact rationals (QArith);
   Python exceptions are explicit [Raise] results.
   The filter is the REPAIRED one (fixes/C11-D14.patch): read.is_unmapped is tested before the CIGAR tests. *)
From Coq Require Import ZArith List Bool QArith.
Import ListNotations.
From SCMO Require Import Lib.Val.
Open Scope Z_scope.

Definition str := list Z.

Fixpoint str_eqb (a b : str) : bool :=
  match a, b with
  | [], [] => true
  | x :: a', y :: b' => (x =? y) && str_eqb a' b'
  | _, _ => false
  end.

Definition is_nil {A} (l : list A) : bool := match l with [] => true | _ => false end.
Definition mem (s : str) (l : list str) : bool := existsb (str_eqb s) l.

(* a tag value as pysam returns it: int (types c C s S i I), str (types Z A) or float (types f d).
   A float is carried as the exact rational value of the IEEE number together with the text Python's str() prints for
   it; float(str(x)) = x (round trip of repr, trusted) is how by-value counting reads it back.  Finite floats only. *)
Inductive tval := TInt (z : Z) | TStr (s : str) | TFlt (q : Q) (s : str).

(* error codes: 1 TypeError, 2 ValueError, 3 AttributeError, 4 NotImplementedError, 5 ZeroDivisionError *)
Inductive res (A : Type) := Ok (a : A) | Raise (e : Z).
Arguments Ok {A} a.
Arguments Raise {A} e.

Record read := mkRead {
  paired : bool; read1 : bool; read2 : bool; unmapped : bool; mate_unmapped : bool;
  qcfail : bool; dup : bool; proper : bool;
  mapq : Z;
  cigar : list Z;                (* CIGAR operation codes M=0 I=1 D=2 N=3 S=4 H=5 ...; [] <-> cigarstring is None *)
  tags : list (str * tval);
  refname : option str;          (* read.reference_name *)
  rstart : Z;                    (* read.reference_start *)
  rend : option Z                (* read.reference_end (None without CIGAR) *)
}.

Record opts := mkOpts {
  o_r1only : bool; o_r2only : bool; o_filterMP : bool; o_minMQ : Z; o_proper : bool; o_no_indels : bool;
  o_max_edits : option Z; o_no_softclips : bool; o_filterXA : bool; o_dedup : bool;
  o_blacklist : option (list (str * Z * Z));       (* rows of the blacklist BED file *)
  o_no_divide : bool; o_div_multi : bool;
  o_ftags : option (list str); o_jtags : option (list str);   (* -featureTags / -joinedFeatureTags after split(',') *)
  o_byvalue : option str; o_split : bool; o_delim : str;
  o_stags : list str;
  o_contig : option str;
  o_bed : option (list (str * Z * Z * str))
}.

(* ---------------------------------------------------------------- strings *)
Definition s_None : str := [78; 111; 110; 101].            (* "None" *)
Definition s_unique : str := [117; 110; 105; 113; 117; 101]. (* "unique" *)
Definition s_alt : str := [95; 97; 108; 116].               (* "_alt" *)
Definition s_chrom : str := [99; 104; 114; 111; 109].       (* "chrom" *)
Definition s_reference_name : str := [114; 101; 102; 101; 114; 101; 110; 99; 101; 95; 110; 97; 109; 101].
Definition s_mapping_quality : str := [109; 97; 112; 112; 105; 110; 103; 95; 113; 117; 97; 108; 105; 116; 121].
Definition s_reference_start : str := [114; 101; 102; 101; 114; 101; 110; 99; 101; 95; 115; 116; 97; 114; 116].
Definition t_mp : str := [109; 112].
Definition t_NM : str := [78; 77].
Definition t_XA : str := [88; 65].
Definition t_NH : str := [78; 72].
Definition t_RR : str := [82; 82].
Definition t_BI : str := [66; 73].
Definition t_bi : str := [98; 105].

Fixpoint is_prefix (p s : str) : bool :=
  match p, s with
  | [], _ => true
  | x :: p', y :: s' => (x =? y) && is_prefix p' s'
  | _ :: _, [] => false
  end.

Definition ends_with (suf s : str) : bool := is_prefix (rev suf) (rev s).

(* Python  s.split(sep)  for a non-empty separator (leftmost, non-overlapping) *)
Fixpoint split_aux (sep s : str) (skip : nat) (cur : str) : list str :=
  match s with
  | [] => [rev cur]
  | c :: s' =>
      match skip with
      | S k => split_aux sep s' k cur
      | O => if is_prefix sep s then rev cur :: split_aux sep s' (length sep - 1) []
             else split_aux sep s' O (c :: cur)
      end
  end.
Definition split (sep s : str) : list str := split_aux sep s O [].

(* str(int) *)
Fixpoint uint_codes (u : Decimal.uint) : str :=
  match u with
  | Decimal.Nil => []
  | Decimal.D0 u => 48 :: uint_codes u | Decimal.D1 u => 49 :: uint_codes u
  | Decimal.D2 u => 50 :: uint_codes u | Decimal.D3 u => 51 :: uint_codes u
  | Decimal.D4 u => 52 :: uint_codes u | Decimal.D5 u => 53 :: uint_codes u
  | Decimal.D6 u => 54 :: uint_codes u | Decimal.D7 u => 55 :: uint_codes u
  | Decimal.D8 u => 56 :: uint_codes u | Decimal.D9 u => 57 :: uint_codes u
  end.
Definition str_of_Z (z : Z) : str :=
  match Z.to_int z with
  | Decimal.Pos u => uint_codes u
  | Decimal.Neg u => 45 :: uint_codes u
  end.

Definition py_str (v : option tval) : str :=
  match v with None => s_None | Some (TInt z) => str_of_Z z | Some (TStr s) => s | Some (TFlt _ s) => s end.

(* plain decimal literals:  [+-]? digits  and  [+-]? (digits [. digits*] | . digits)  *)
Definition is_digit (c : Z) : bool := (48 <=? c) && (c <=? 57).
Fixpoint digits_val (acc : Z) (s : str) : Z :=
  match s with [] => acc | c :: s' => digits_val (acc * 10 + (c - 48)) s' end.
Definition all_digits (s : str) : bool := forallb is_digit s.
Definition strip_sign (s : str) : bool * str :=
  match s with
  | 45 :: s' => (true, s')
  | 43 :: s' => (false, s')
  | _ => (false, s)
  end.
(* int() and float() ignore surrounding (ASCII) whitespace *)
Definition is_ws (c : Z) : bool := (c =? 32) || ((9 <=? c) && (c <=? 13)).
Fixpoint drop_ws (s : str) : str :=
  match s with c :: s' => if is_ws c then drop_ws s' else s | [] => [] end.
Definition py_strip (s : str) : str := rev (drop_ws (rev (drop_ws s))).

Definition parse_int (s : str) : option Z :=
  let '(neg, b) := strip_sign (py_strip s) in
  if negb (is_nil b) && all_digits b then Some (if neg then - digits_val 0 b else digits_val 0 b) else None.

Definition parse_decimal (s : str) : option Q :=
  let '(neg, b) := strip_sign (py_strip s) in
  match split [46] b with
  | [i] => if negb (is_nil i) && all_digits i
           then Some (inject_Z (if neg then - digits_val 0 i else digits_val 0 i)) else None
  | [i; f] => if negb (is_nil i && is_nil f) && all_digits i && all_digits f
              then let n := digits_val 0 (i ++ f) in
                   Some (Qmake (if neg then - n else n) (Z.to_pos (10 ^ Z.of_nat (length f))))
              else None
  | _ => None
  end.

(* float(s) with  except ValueError: 0  (by-value counting) *)
Definition py_float_or_0 (s : str) : Q := match parse_decimal s with Some q => q | None => 0%Q end.

(* int(float) truncates towards zero *)
Definition trunc_Q (q : Q) : Z := Z.quot (Qnum q) (Zpos (Qden q)).

Definition py_int (v : tval) : res Z :=
  match v with
  | TInt z => Ok z
  | TStr s => match parse_int s with Some z => Ok z | None => Raise 2 end
  | TFlt q _ => Ok (trunc_Q q)
  end.

(* float(str(v)) with  except ValueError: 0 : the exact value of a float tag, else the decimal literal *)
Definition num_of (v : option tval) : Q :=
  match v with Some (TFlt q _) => q | _ => py_float_or_0 (py_str v) end.

(* ---------------------------------------------------------------- tags, metaFromRead *)
Fixpoint assoc (k : str) (l : list (str * tval)) : option tval :=
  match l with [] => None | (k', v) :: l' => if str_eqb k k' then Some v else assoc k l' end.

(* pysam has_tag / get_tag look at the first two characters of the name only *)
Definition get_tag (r : read) (t : str) : option tval := assoc (firstn 2 t) (tags r).
Definition has_tag (r : read) (t : str) : bool := match get_tag r t with Some _ => true | None => false end.

Definition attr (r : read) (t : str) : option tval :=
  if str_eqb t s_reference_name then option_map TStr (refname r)
  else if str_eqb t s_mapping_quality then Some (TInt (mapq r))
  else if str_eqb t s_reference_start then Some (TInt (rstart r))
  else None.                                   (* AttributeError -> None *)

Definition meta (r : read) (t : str) : option tval :=
  if str_eqb t s_chrom then option_map TStr (refname r)
  else match get_tag r t with
       | Some v => Some v
       | None =>
           if str_eqb t t_BI && has_tag r t_bi then get_tag r t_bi
           else if str_eqb t t_bi && has_tag r t_BI then get_tag r t_BI
           else attr r t
       end.

Definition feat (r : read) (t : str) : str := py_str (meta r t).

(* ---------------------------------------------------------------- the filter, in the order of the code *)
(* read.get_tag(t) == 'literal'  (an int tag never equals a str) *)
Definition tag_eq_str (r : read) (t s : str) : bool :=
  match get_tag r t with Some (TStr x) => str_eqb x s | _ => false end.

Definition mp_unique (r : read) : bool := tag_eq_str r t_mp s_unique.

Definition cig_has (r : read) (ops : list Z) : res bool :=
  match cigar r with
  | [] => Raise 1                                     (* 'I' in None *)
  | c => Ok (existsb (fun op => existsb (Z.eqb op) ops) c)
  end.

Definition nm_exceeds (o : opts) (r : read) : res bool :=
  match o_max_edits o with
  | None => Ok false
  | Some m => match get_tag r t_NM with
              | None => Ok false
              | Some v => match py_int v with Ok n => Ok (m <? n) | Raise e => Raise e end
              end
  end.

(* read_has_alternative_hits_to_non_alts: returns at the first non-alt entry *)
Fixpoint xa_scan (es : list str) : res bool :=
  match es with
  | [] => Ok false
  | e :: es' =>
      if is_nil e then xa_scan es'
      else let fs := split [44] e in
           if (Z.of_nat (length fs) =? 4)
           then (if ends_with s_alt (hd [] fs) then xa_scan es' else Ok true)
           else Raise 2
  end.

Definition xa_hit (r : read) : res bool :=
  match get_tag r t_XA with
  | None => Ok false
  | Some (TStr s) => xa_scan (split [59] s)
  | Some _ => Raise 3                                  (* int / float has no split *)
  end.

Definition in_iv (x s e : Z) : bool := (s <=? x) && (x <? e).

Definition bl_rows (bl : list (str * Z * Z)) (c : str) : list (Z * Z) :=
  map (fun row => (snd (fst row), snd row)) (filter (fun row => str_eqb (fst (fst row)) c) bl).

Definition bl_hit (o : opts) (r : read) : res bool :=
  match o_blacklist o with
  | None => Ok false
  | Some bl =>
      match refname r with
      | None => Ok false
      | Some c =>
          match bl_rows bl c with
          | [] => Ok false
          | ivs => match rend r with
                   | None => Raise 1                  (* None >= int *)
                   | Some e => Ok (existsb (fun iv => in_iv (rstart r) (fst iv) (snd iv) || in_iv e (fst iv) (snd iv)) ivs)
                   end
          end
      end
  end.

Definition guard (b : res bool) (k : res bool) : res bool :=
  match b with Raise e => Raise e | Ok true => Ok false | Ok false => k end.

Definition should_count (o : opts) (r : read) : res bool :=
  guard (Ok (o_r1only o && read2 r)) (
  guard (Ok (o_r2only o && read1 r)) (
  guard (Ok (o_filterMP o && negb (mp_unique r))) (
  guard (Ok (qcfail r)) (
  guard (Ok (mapq r <? o_minMQ o)) (
  guard (Ok (o_proper o && negb (proper r))) (
  guard (Ok (unmapped r)) (                                        (* repaired: before the CIGAR tests *)
  guard (if o_no_indels o then cig_has r [1; 2] else Ok false) (
  guard (nm_exceeds o r) (
  guard (if o_no_softclips o then cig_has r [4] else Ok false) (
  guard (if o_filterXA o then xa_hit r else Ok false) (
  guard (Ok (unmapped r || (o_dedup o && (has_tag r t_RR || dup r)))) (
  guard (bl_hit o r) (Ok true))))))))))))).

(* the code before the repair: no early is_unmapped test (used to exhibit D14) *)
Definition should_count_orig (o : opts) (r : read) : res bool :=
  guard (Ok (o_r1only o && read2 r)) (
  guard (Ok (o_r2only o && read1 r)) (
  guard (Ok (o_filterMP o && negb (mp_unique r))) (
  guard (Ok (qcfail r)) (
  guard (Ok (mapq r <? o_minMQ o)) (
  guard (Ok (o_proper o && negb (proper r))) (
  guard (if o_no_indels o then cig_has r [1; 2] else Ok false) (
  guard (nm_exceeds o r) (
  guard (if o_no_softclips o then cig_has r [4] else Ok false) (
  guard (if o_filterXA o then xa_hit r else Ok false) (
  guard (Ok (unmapped r || (o_dedup o && (has_tag r t_RR || dup r)))) (
  guard (bl_hit o r) (Ok true)))))))))))).

(* ---------------------------------------------------------------- weight *)
Definition base_weight (o : opts) (r : read) : Q :=
  if o_r1only o || o_r2only o then 1%Q
  else if negb (o_no_divide o) then (if paired r && negb (mate_unmapped r) then (1 # 2)%Q else 1%Q)
  else 1%Q.

Definition weight (o : opts) (r : read) : res Q :=
  let w := base_weight o r in
  if o_div_multi o then
    match get_tag r t_XA with
    | Some (TStr s) => let n := Z.of_nat (length (split [59] s)) in Ok (w / inject_Z n)%Q
    | Some _ => Raise 3
    | None =>
        match get_tag r t_NH with
        | None => Ok w
        | Some v => match py_int v with
                    | Raise e => Raise e
                    | Ok n => if n =? 0 then Raise 5 else Ok (w / inject_Z n)%Q
                    end
        end
    end
  else Ok w.

(* ---------------------------------------------------------------- keys *)
(* create_count_table: (joinFeatures, featureTags) *)
Definition prep (o : opts) : bool * list str :=
  match o_jtags o with
  | Some l => (true, match o_byvalue o with
                     | Some b => if negb (is_nil l) && negb (mem b l) then l ++ [b] else l
                     | None => l
                     end)
  | None => (false, match o_ftags o with Some l => l | None => [] end)
  end.

Definition is_byvalue (o : opts) (t : str) : bool :=
  match o_byvalue o with Some b => str_eqb t b | None => false end.

(* the key of a count_increment entry: a tuple of strings, or (splitFeatures, single tags) a bare string *)
Inductive rawkey := RTuple (l : list str) | RStr (s : str).

Fixpoint dedup_str (l : list str) : list str :=
  match l with [] => [] | x :: l' => x :: filter (fun y => negb (str_eqb y x)) (dedup_str l') end.

Fixpoint product (ls : list (list str)) : list (list str) :=
  match ls with
  | [] => [[]]
  | l :: ls' => flat_map (fun x => map (cons x) (product ls')) l
  end.

Definition joined_feature (o : opts) (ft : list str) (r : read) : list str :=
  map (feat r) (filter (fun t => negb (is_byvalue o t)) ft).

Definition byvalue_amount (ft : list str) (b : str) (r : read) : Q :=
  if mem b ft then num_of (meta r b) else 0%Q.              (* float(feature_dict.get(byValue, 0)) *)

Definition none_if_empty (s : str) : str := if is_nil s then s_None else s.

Definition incs (o : opts) (w : Q) (r : read) : res (list (rawkey * Q)) :=
  let '(joined, ft) := prep o in
  if joined then
    if o_split o then
      if is_nil (o_delim o) then Raise 2                       (* split('') -> ValueError *)
      else
        let states := product (map (fun t => split (o_delim o) (feat r t)) ft) in
        match o_byvalue o with
        | Some _ => if is_nil states then Ok [] else Raise 4   (* NotImplementedError *)
        | None => Ok (map (fun st => (RTuple (map none_if_empty st), w)) states)
        end
    else
      match o_byvalue o with
      | Some b => Ok [(RTuple (joined_feature o ft r), byvalue_amount ft b r)]
      | None => Ok [(RTuple (joined_feature o ft r), w)]
      end
  else
    let items := dedup_str ft in
    if o_split o && is_nil (o_delim o) && negb (forallb (is_byvalue o) items) then Raise 2
    else Ok (flat_map (fun t =>
               if is_byvalue o t then
                 [(RTuple (joined_feature o ft r),
                   match o_byvalue o with Some b => byvalue_amount ft b r | None => 0%Q end)]
               else if o_split o then map (fun f => (RStr f, w)) (split (o_delim o) (feat r t))
               else [(RTuple [feat r t], w)]) items).

(* key component of the final table: a string or (BED start / end) an integer *)
Inductive kc := KS (s : str) | KZ (z : Z).
Definition key := list kc.
Definition sample := list (option tval).
Definition cellkey := (sample * key)%type.

Definition plain_key (k : rawkey) : key :=
  match k with RTuple l => map KS l | RStr f => [KS f] end.

Definition byvalue_truthy (o : opts) : option str :=
  match o_byvalue o with Some b => if is_nil b then None else Some b | None => None end.

Definition bed_key (o : opts) (reg : Z * Z * str) (k : rawkey) : option key :=
  let comps := match byvalue_truthy o with
               | Some b => [b]
               | None => match k with RTuple l => l | RStr f => map (fun c => [c]) f end
               end in
  if is_nil comps then None
  else let '(s, e, n) := reg in Some (map KS comps ++ [KZ s; KZ e; KS n]).

Definition final_keys (o : opts) (reg : option (Z * Z * str)) (l : list (rawkey * Q)) : list (key * Q) :=
  match reg with
  | None => map (fun p => (plain_key (fst p), snd p)) l
  | Some g => flat_map (fun p => match bed_key o g (fst p) with Some k => [(k, snd p)] | None => [] end) l
  end.

Definition sample_of (o : opts) (r : read) : sample := map (meta r) (o_stags o).

(* what assignReads adds to the count table for one read *)
Definition assign (o : opts) (reg : option (Z * Z * str)) (r : read) : res (list (cellkey * Q)) :=
  match should_count o r with
  | Raise e => Raise e
  | Ok false => Ok []
  | Ok true =>
      match weight o r with
      | Raise e => Raise e
      | Ok w => match incs o w r with
                | Raise e => Raise e
                | Ok l => Ok (map (fun p => ((sample_of o r, fst p), snd p)) (final_keys o reg l))
                end
      end
  end.

(* ---------------------------------------------------------------- the count table *)
Definition tval_eqb (a b : tval) : bool :=
  match a, b with
  | TInt x, TInt y => x =? y
  | TStr x, TStr y => str_eqb x y
  | TFlt x s, TFlt y t => (Qnum x =? Qnum y) && (Zpos (Qden x) =? Zpos (Qden y)) && str_eqb s t
  | _, _ => false
  end.
Definition otval_eqb (a b : option tval) : bool :=
  match a, b with None, None => true | Some x, Some y => tval_eqb x y | _, _ => false end.
Definition kc_eqb (a b : kc) : bool :=
  match a, b with KS x, KS y => str_eqb x y | KZ x, KZ y => x =? y | _, _ => false end.
Fixpoint list_eqb {A} (eqb : A -> A -> bool) (a b : list A) : bool :=
  match a, b with
  | [], [] => true
  | x :: a', y :: b' => eqb x y && list_eqb eqb a' b'
  | _, _ => false
  end.
Definition ck_eqb (a b : cellkey) : bool :=
  list_eqb otval_eqb (fst a) (fst b) && list_eqb kc_eqb (snd a) (snd b).

Definition tbl := list (cellkey * Q).

Fixpoint add_cell (k : cellkey) (w : Q) (t : tbl) : tbl :=
  match t with
  | [] => [(k, w)]
  | (k', w') :: t' => if ck_eqb k k' then (k', (w' + w)%Q) :: t' else (k', w') :: add_cell k w t'
  end.

Definition add_all (l : list (cellkey * Q)) (t : tbl) : tbl :=
  fold_left (fun t p => add_cell (fst p) (snd p) t) l t.

Definition cell (k : cellkey) (t : tbl) : Q :=
  fold_right (fun c acc => ((if ck_eqb k (fst c) then snd c else 0) + acc)%Q) 0%Q t.

Definition step (o : opts) (reg : option (Z * Z * str)) (acc : res tbl) (r : read) : res tbl :=
  match acc with
  | Raise e => Raise e
  | Ok t => match assign o reg r with Raise e => Raise e | Ok l => Ok (add_all l t) end
  end.

Definition count_reads (o : opts) (reg : option (Z * Z * str)) (reads : list read) (t : res tbl) : res tbl :=
  fold_left (step o reg) reads t.

(* pysam fetch (modelled): records placed on the contig / overlapping [s, e) *)
Definition on_contig (c : str) (r : read) : bool :=
  match refname r with Some c' => str_eqb c' c | None => false end.
Definition span_end (r : read) : Z :=
  match rend r with Some e => if rstart r <? e then e else rstart r + 1 | None => rstart r + 1 end.
Definition overlaps (c : str) (s e : Z) (r : read) : bool :=
  on_contig c r && (rstart r <? e) && (s <? span_end r).

Definition region_selected (o : opts) (c : str) : bool :=
  match o_contig o with Some c' => str_eqb c c' | None => true end.

Definition count_table (o : opts) (reads : list read) : res tbl :=
  if is_nil (snd (prep o)) then Raise 2                        (* "No features supplied" *)
  else
    match o_bed o with
    | None =>
        count_reads o None (match o_contig o with Some c => filter (on_contig c) reads | None => reads end) (Ok [])
    | Some regions =>
        fold_left (fun acc row =>
                     let '(c, s, e, n) := row in
                     if region_selected o c then count_reads o (Some (s, e, n)) (filter (overlaps c s e) reads) acc
                     else acc)
                  regions (Ok [])
    end.


(* ---------------------------------------------------------------- vocabulary of the GENERATED definitions
   (coq/Gen/GenCountFilter.v is regenerated from the source of read_should_be_counted / assignReads /
   create_count_table on every run; Proofs/C11_gen.v proves it equal to should_count / weight / prep above) *)
(* short-circuit and / or / not over expressions that may raise *)
Definition rand (a b : res bool) : res bool :=
  match a with Raise e => Raise e | Ok false => Ok false | Ok true => b end.
Definition ror (a b : res bool) : res bool :=
  match a with Raise e => Raise e | Ok true => Ok true | Ok false => b end.
Definition rnot (a : res bool) : res bool :=
  match a with Raise e => Raise e | Ok v => Ok (negb v) end.
(* 'I' in read.cigarstring *)
Definition cig_in (r : read) (op : Z) : res bool :=
  match cigar r with [] => Raise 1 | c => Ok (existsb (Z.eqb op) c) end.
(* int(read.get_tag(t))  (KeyError = 6 when the tag is absent) *)
Definition tag_int (r : read) (t : str) : res Z :=
  match get_tag r t with Some v => py_int v | None => Raise 6 end.
(* len(read.get_tag(t).split(sep)) *)
Definition tag_split_len (r : read) (t sep : str) : res Z :=
  match get_tag r t with
  | Some (TStr s) => Ok (Z.of_nat (length (split sep s)))
  | Some _ => Raise 3
  | None => Raise 6
  end.
(* an optional integer option used as a number (comparison with None raises TypeError) *)
Definition oz (x : option Z) : res Z := match x with Some z => Ok z | None => Raise 1 end.
Definition opt_is_some {A} (x : option A) : bool := match x with Some _ => true | None => false end.
Definition opt_mem (x : option str) (l : list str) : bool := match x with Some b => mem b l | None => false end.
Definition rcmp (f : Z -> Z -> bool) (a b : res Z) : res bool :=
  match a with Raise e => Raise e | Ok x => match b with Raise e => Raise e | Ok y => Ok (f x y) end end.
Definition rgtb := rcmp Z.gtb.
Definition rgeb := rcmp Z.geb.
Definition rltb := rcmp Z.ltb.
Definition rleb := rcmp Z.leb.
Definition reqb := rcmp Z.eqb.
(* countToAdd / n *)
Definition rdivq (w : res Q) (d : res Z) : res Q :=
  match w with
  | Raise e => Raise e
  | Ok q => match d with
            | Raise e => Raise e
            | Ok n => if n =? 0 then Raise 5 else Ok (q / inject_Z n)%Q
            end
  end.
(* the blacklist loop with the interval test as a parameter: test start end interval_start interval_end *)
Definition bl_hit_with (test : Z -> Z -> Z -> Z -> bool) (o : opts) (r : read) : res bool :=
  match o_blacklist o with
  | None => Ok false
  | Some bl =>
      match refname r with
      | None => Ok false
      | Some c =>
          match bl_rows bl c with
          | [] => Ok false
          | ivs => match rend r with
                   | None => Raise 1
                   | Some e => Ok (existsb (fun iv => test (rstart r) e (fst iv) (snd iv)) ivs)
                   end
          end
      end
  end.

(* a history of calls on ONE options namespace: each step first edits the namespace, then calls create_count_table.
   create_count_table assigns only args.sliding / args.showtags / args.ref_lengths (Gen: gen_args_written), none of
   which is a field of [opts]: the namespace as far as it is modelled is returned unchanged. *)
Definition call (ns : opts) (reads : list read) : opts * res tbl := (ns, count_table ns reads).
Fixpoint history (ns : opts) (steps : list (opts -> opts)) (reads : list read) : list (res tbl) :=
  match steps with
  | [] => []
  | f :: fs => let '(ns', t) := call (f ns) reads in t :: history ns' fs reads
  end.
Fixpoint requested (ns : opts) (steps : list (opts -> opts)) : list opts :=
  match steps with [] => [] | f :: fs => f ns :: requested (f ns) fs end.

(* ---------------------------------------------------------------- preconditions (boolean; see Proofs for use) *)
Definition xa_entry_ok (e : str) : bool := is_nil e || (Z.of_nat (length (split [44] e)) =? 4).

Definition wf_read (r : read) : bool :=
  (unmapped r || (negb (is_nil (cigar r)) && match rend r with Some _ => true | None => false end))
  && match get_tag r t_NM with Some (TStr _) => false | _ => true end
  && match get_tag r t_XA with
     | Some (TStr s) => forallb xa_entry_ok (split [59] s)
     | Some _ => false
     | None => true
     end
  && match get_tag r t_NH with Some (TInt n) => negb (n =? 0) | Some _ => false | None => true end.

Definition wf_opts (o : opts) : bool :=
  negb (is_nil (snd (prep o)))
  && (negb (o_split o) || negb (is_nil (o_delim o)))
  && negb (fst (prep o) && o_split o && match o_byvalue o with Some _ => true | None => false end).

(* ---------------------------------------------------------------- I/O glue *)
Definition getS (v : Val) : str := getZs v.
Definition getOpt {A} (f : Val -> A) (v : Val) : option A :=
  match getL v with x :: _ => Some (f x) | [] => None end.
Definition dec_tval (v : Val) : tval :=
  if getZ (nthV 0 v) =? 0 then TInt (getZ (nthV 1 v))
  else if getZ (nthV 0 v) =? 1 then TStr (getS (nthV 1 v))
  else TFlt (Qmake (getZ (nthV 1 v)) (Z.to_pos (getZ (nthV 2 v)))) (getS (nthV 3 v)).

Definition dec_read (v : Val) : read :=
  {| paired := getB (nthV 0 v); read1 := getB (nthV 1 v); read2 := getB (nthV 2 v); unmapped := getB (nthV 3 v);
     mate_unmapped := getB (nthV 4 v); qcfail := getB (nthV 5 v); dup := getB (nthV 6 v); proper := getB (nthV 7 v);
     mapq := getZ (nthV 8 v); cigar := getZs (nthV 9 v);
     tags := map (fun t => (getS (nthV 0 t), dec_tval (nthV 1 t))) (getL (nthV 10 v));
     refname := getOpt getS (nthV 11 v); rstart := getZ (nthV 12 v); rend := getOpt getZ (nthV 13 v) |}.

Definition dec_opts (v : Val) : opts :=
  {| o_r1only := getB (nthV 0 v); o_r2only := getB (nthV 1 v); o_filterMP := getB (nthV 2 v); o_minMQ := getZ (nthV 3 v);
     o_proper := getB (nthV 4 v); o_no_indels := getB (nthV 5 v); o_max_edits := getOpt getZ (nthV 6 v);
     o_no_softclips := getB (nthV 7 v); o_filterXA := getB (nthV 8 v); o_dedup := getB (nthV 9 v);
     o_blacklist := getOpt (fun l => map (fun row => (getS (nthV 0 row), getZ (nthV 1 row), getZ (nthV 2 row))) (getL l)) (nthV 10 v);
     o_no_divide := getB (nthV 11 v); o_div_multi := getB (nthV 12 v);
     o_ftags := getOpt (fun l => map getS (getL l)) (nthV 13 v);
     o_jtags := getOpt (fun l => map getS (getL l)) (nthV 14 v);
     o_byvalue := getOpt getS (nthV 15 v); o_split := getB (nthV 16 v); o_delim := getS (nthV 17 v);
     o_stags := map getS (getL (nthV 18 v)); o_contig := getOpt getS (nthV 19 v);
     o_bed := getOpt (fun l => map (fun row => (getS (nthV 0 row), getZ (nthV 1 row), getZ (nthV 2 row), getS (nthV 3 row))) (getL l)) (nthV 20 v) |}.

Definition enc_tval (t : tval) : Val :=
  match t with
  | TInt z => VL [VZ 0; VZ z]
  | TStr s => VL [VZ 1; ofZs s]
  | TFlt q s => VL [VZ 2; VZ (Qnum q); VZ (Zpos (Qden q)); ofZs s]
  end.
Definition enc_kc (c : kc) : Val := match c with KS s => VL [VZ 0; ofZs s] | KZ z => VL [VZ 1; VZ z] end.
Definition enc_cell (c : cellkey * Q) : Val :=
  let q := Qred (snd c) in
  VL [VL (map (ofOpt enc_tval) (fst (fst c))); VL (map enc_kc (snd (fst c))); VZ (Qnum q); VZ (Zpos (Qden q))].
Definition nonzero (c : cellkey * Q) : bool := negb (Qeq_bool (snd c) 0).
Definition enc_res (t : res tbl) : Val :=
  match t with
  | Ok t => VL [VZ 0; VL (map enc_cell (filter nonzero t))]
  | Raise e => VL [VZ 1; VZ e]
  end.

Definition dec_kc (v : Val) : kc := if getZ (nthV 0 v) =? 0 then KS (getS (nthV 1 v)) else KZ (getZ (nthV 1 v)).
Definition dec_cell (v : Val) : cellkey * Q :=
  ((map (getOpt dec_tval) (getL (nthV 0 v)), map dec_kc (getL (nthV 1 v))),
   Qmake (getZ (nthV 2 v)) (Z.to_pos (getZ (nthV 3 v)))).

Definition pre (o : opts) (reads : list read) : bool := wf_opts o && forallb wf_read reads.

(* ---------------------------------------------------------------- declarative specification (executable form)
   order-free filter conjunction, closed-form weight, group-by sum.  Total functions: no exceptions. *)
Definition has_op (r : read) (ops : list Z) : bool := existsb (fun op => existsb (Z.eqb op) ops) (cigar r).

Definition nm_ok (o : opts) (r : read) : bool :=
  match o_max_edits o, get_tag r t_NM with
  | Some m, Some (TInt n) => n <=? m
  | Some m, Some (TStr s) => match parse_int s with Some n => n <=? m | None => true end
  | Some m, Some (TFlt q _) => trunc_Q q <=? m
  | _, _ => true
  end.

Definition xa_nonalt_entry (e : str) : bool := negb (is_nil e) && negb (ends_with s_alt (hd [] (split [44] e))).
Definition xa_nonalt (r : read) : bool :=
  match get_tag r t_XA with Some (TStr s) => existsb xa_nonalt_entry (split [59] s) | _ => false end.

Definition bl_in (o : opts) (r : read) : bool :=
  match o_blacklist o, refname r with
  | Some bl, Some c =>
      existsb (fun row => str_eqb (fst (fst row)) c
                          && (in_iv (rstart r) (snd (fst row)) (snd row)
                              || match rend r with Some e => in_iv e (snd (fst row)) (snd row) | None => false end)) bl
  | _, _ => false
  end.

Definition passesb (o : opts) (r : read) : bool :=
  negb (o_r1only o && read2 r) && negb (o_r2only o && read1 r)
  && (negb (o_filterMP o) || mp_unique r)
  && negb (qcfail r) && (o_minMQ o <=? mapq r)
  && (negb (o_proper o) || proper r)
  && negb (unmapped r)
  && (negb (o_no_indels o) || negb (has_op r [1; 2]))
  && nm_ok o r
  && (negb (o_no_softclips o) || negb (has_op r [4]))
  && (negb (o_filterXA o) || negb (xa_nonalt r))
  && (negb (o_dedup o) || (negb (has_tag r t_RR) && negb (dup r)))
  && negb (bl_in o r).

(* number of reported hits the weight is divided by *)
Definition hits (o : opts) (r : read) : Z :=
  if o_div_multi o then
    match get_tag r t_XA with
    | Some (TStr s) => Z.of_nat (length (split [59] s))
    | Some _ => 1
    | None => match get_tag r t_NH with
              | Some (TInt n) => n
              | Some (TStr s) => match parse_int s with Some n => n | None => 1 end
              | Some (TFlt q _) => trunc_Q q
              | None => 1
              end
    end
  else 1.

Definition pure_weight (o : opts) (r : read) : Q := (base_weight o r / inject_Z (hits o r))%Q.

Definition pure_incs (o : opts) (r : read) : list (rawkey * Q) :=
  match incs o (pure_weight o r) r with Ok l => l | Raise _ => [] end.

Definition spec_contrib (o : opts) (reg : option (Z * Z * str)) (r : read) : list (cellkey * Q) :=
  if passesb o r
  then map (fun p => ((sample_of o r, fst p), snd p)) (final_keys o reg (pure_incs o r))
  else [].

(* the (region, read) pairs presented to assignReads *)
Definition presented (o : opts) (reads : list read) : list (option (Z * Z * str) * read) :=
  match o_bed o with
  | None => map (pair None) (match o_contig o with Some c => filter (on_contig c) reads | None => reads end)
  | Some regions =>
      flat_map (fun row => let '(c, s, e, n) := row in
                           if region_selected o c then map (pair (Some (s, e, n))) (filter (overlaps c s e) reads)
                           else []) regions
  end.

Definition sum_matching (k : cellkey) (l : list (cellkey * Q)) : Q :=
  fold_right (fun c acc => ((if ck_eqb k (fst c) then snd c else 0) + acc)%Q) 0%Q l.

Definition spec_cell (o : opts) (k : cellkey) (reads : list read) : Q :=
  fold_right (fun p acc => (sum_matching k (spec_contrib o (fst p) (snd p)) + acc)%Q) 0%Q (presented o reads).

Definition spec_keys (o : opts) (reads : list read) : list cellkey :=
  flat_map (fun p => map fst (spec_contrib o (fst p) (snd p))) (presented o reads).

Fixpoint nodup_keys (l : list cellkey) : bool :=
  match l with [] => true | k :: l' => negb (existsb (ck_eqb k) l') && nodup_keys l' end.

(* the specification evaluated on an observed result (Some cells = a table, None = an exception) *)
Definition specb (o : opts) (reads : list read) (out : option (list (cellkey * Q))) : bool :=
  if pre o reads then
    match out with
    | None => false
    | Some cells =>
        forallb (fun c => Qeq_bool (snd c) (spec_cell o (fst c) reads)) cells
        && forallb (fun k => Qeq_bool (spec_cell o k reads) 0 || existsb (ck_eqb k) (map fst cells)) (spec_keys o reads)
        && nodup_keys (map fst cells)
    end
  else true.

Definition enc_rb (x : res bool) : Val :=
  match x with Ok b => VL [VZ 0; ofB b] | Raise e => VL [VZ 1; VZ e] end.

Definition run_C11 (mode : Z) (v : Val) : Val :=
  match mode with
  | 0 => enc_res (count_table (dec_opts (nthV 0 v)) (map dec_read (getL (nthV 1 v))))
  | 1 => ofB (pre (dec_opts (nthV 0 v)) (map dec_read (getL (nthV 1 v))))
  | 2 => let inp := nthV 0 v in let out := nthV 1 v in
         let o := dec_opts (nthV 0 inp) in let reads := map dec_read (getL (nthV 1 inp)) in
         ofB (specb o reads (if getZ (nthV 0 out) =? 0 then Some (map dec_cell (getL (nthV 1 out))) else None))
  | 3 => let o := dec_opts (nthV 0 v) in
         VL (map (fun r => enc_rb (should_count o (dec_read r))) (getL (nthV 1 v)))
  | 4 => let o := dec_opts (nthV 0 v) in
         VL (map (fun r => VL [enc_rb (should_count_orig o (dec_read r)); ofB (passesb o (dec_read r)); ofB (wf_read (dec_read r))])
                 (getL (nthV 1 v)))
  | _ => bad
  end.
