(* C05 model, part x: the contig selection options of bamtagmultiome
     -contig <name>      molecule_iterator_args['contig']
     -skip_contig a,b    molecule_iterator_args['skip_contigs'] (a set of names)
   in the three ways the tagger can run:
     single process                       tag_multiome_single_thread
     one contig per process (--multiprocess forces it)   tag_multiome_multi_processing(one_contig_per_process=True)
     binned                               tag_multiome_multi_processing(one_contig_per_process=False), Python API only
   Definitions only (executable).  Python exceptions are explicit: Raise 3 = ValueError('invalid contig') of
   pysam fetch for a -contig that the header does not know. *)
From Coq Require Import ZArith List Bool.
Import ListNotations.
From SCMO Require Import Lib.Val Model.C05.
Open Scope Z_scope.

Definition cmem (c : cname) (l : list cname) : bool := existsb (cname_eqb c) l.

(* ---------------------------------------------------------------- MoleculeIterator: skip_contigs *)
(* `read.reference_name not in self.skip_contigs`: an unplaced record has reference_name None, which no
   set of names contains (not even one that lists '*') *)
Definition rec_kept (skip : list cname) (r : rec) : bool :=
  match r_contig r with
  | None => true
  | Some c => negb (cmem (Some c) skip)
  end.

(* `if len(self.skip_contigs)>0:` keep the pair when ANY of its reads is not on a skipped contig *)
Definition pair_kept (skip : list cname) (p : pairT) : bool :=
  match skip with
  | [] => true
  | _ :: _ => existsb (rec_kept skip) (pair_recs p)
  end.

(* ---------------------------------------------------------------- whitelist / job lists of tag_multiome_multi_processing *)
(* contig_whitelist: [contig] for -contig, otherwise the contigs with reads ('*' included when it has reads)
   that are not in skip_contigs *)
Definition whitelist (sc : option cname) (skip : list cname) (cwr : list (cname * Z)) : list cname :=
  match sc with
  | Some c => [c]
  | None => filter (fun c => negb (cmem c skip)) (map fst cwr)
  end.

(* the one_contig_per_process loop with the whitelist test of fixes/C05-D31.patch *)
Fixpoint jobs_loop_wl (wl : list cname) (cs : list (cname * Z)) (current : list cname) (job_gen : list (list cname))
  : list (list cname) :=
  match cs with
  | [] => if (0 <? Z.of_nat (length current)) then job_gen ++ [current] else job_gen
  | (c, len) :: cs' =>
      if is_star c then jobs_loop_wl wl cs' current job_gen
      else if negb (cmem c wl) then jobs_loop_wl wl cs' current job_gen
      else if len <? small_contig_threshold then jobs_loop_wl wl cs' (current ++ [c]) job_gen
      else if (0 <? Z.of_nat (length current))
           then jobs_loop_wl wl cs' [] ((job_gen ++ [current]) ++ [[c]])
           else jobs_loop_wl wl cs' current (job_gen ++ [[c]])
  end.

(* honour = false: the code as it is - the block never looks at contig_whitelist (D31);
   honour = true : the repaired block *)
Definition cpp_jobs (honour : bool) (sc : option cname) (skip : list cname) (cwr : list (cname * Z))
  : list (list cname) :=
  if honour then jobs_loop_wl (whitelist sc skip cwr) cwr [] [[None]] else contig_jobs cwr.

(* binned mode: regions of the whitelisted header contigs, chunked by bp_chunked; '*' has the first job *)
Definition region : Type := Z * Z * Z * Z.            (* start, end, fetch_start, fetch_end *)
Definition task : Type := cname * option region.
Definition task_bp (t : task) : Z :=
  match snd t with
  | Some (s, e, _, _) => Z.abs (e - s)
  | None => 0
  end.

(* utils.binning.bp_chunked: the running job is closed as soon as it holds bp_per_job bases; the last
   (possibly empty) job is always yielded *)
Fixpoint bp_loop (k bp : Z) (cur : list task) (l : list task) : list (list task) :=
  match l with
  | [] => [cur]
  | t :: l' =>
      let bp' := bp + task_bp t in
      if k <=? bp' then (cur ++ [t]) :: bp_loop k 0 [] l' else bp_loop k bp' (cur ++ [t]) l'
  end.
Definition bp_chunked (l : list task) (k : Z) : list (list task) := bp_loop k 0 [] l.

Section Binned.
  (* blacklisted_binning(0, length, bp_per_segment, [], fragment_size): the tiling of one contig (C17) *)
  Variable bins : Z -> list region.

  (* blacklisted_binning_contigs: header order; `if contig_whitelist is not None and not contig in contig_whitelist: continue` *)
  Definition regions (wl : list cname) (hdr : list (Z * Z)) : list task :=
    flat_map (fun cl => if cmem (Some (fst cl)) wl
                        then map (fun b => (Some (fst cl), Some b)) (bins (snd cl))
                        else []) hdr.

  Definition binned_jobs (wl : list cname) (hdr : list (Z * Z)) (k : Z) : list (list task) :=
    [(None, None)] :: bp_chunked (regions wl hdr) k.
End Binned.

(* run_tagging_tasks on a job of region tasks: [tout] is what one task writes (run_tagging_task with its
   ownership gate: C08); no molecule -> no file *)
Section BinnedOut.
  Variable sort : list orec -> list orec.
  Variable tout : task -> list orec.
  Definition task_job_out (j : list task) : option bam :=
    let l := flat_map tout j in
    match l with
    | [] => None
    | _ :: _ => Some (dedupZ (map snd l), sort l)
    end.
End BinnedOut.

(* executable stand-in for the tiling: one region per contig of positive length (how a contig is cut into
   regions is C17, that the regions of one contig together emit every molecule once is C08) *)
Definition one_bin (len : Z) : list region := if 0 <? len then [(0, len, 0, len)] else [].

Fixpoint dedupC (l : list cname) : list cname :=
  match l with
  | [] => []
  | a :: l' => a :: filter (fun b => negb (cname_eqb a b)) (dedupC l')
  end.

(* the contigs that receive at least one task, in order of first appearance *)
Definition binned_contigs (wl : list cname) (hdr : list (Z * Z)) (k : Z) : list cname :=
  dedupC (map fst (concat (binned_jobs one_bin wl hdr k))).

(* ---------------------------------------------------------------- the pipelines with a selection *)
Section PipelineSel.
  Variable sort : list orec -> list orec.            (* pysam.sort (htslib) *)
  Variable merge : list bam -> bam.                  (* pysam.merge (htslib) *)
  Variable it : bool -> bool -> list frag -> list (list frag) * list frag.
  Variable qflag : bool.
  Variables yi yo : bool.
  Variable sc : option cname.                        (* -contig: None = not given; Some None = '*' *)
  Variable skip : list cname.                        (* -skip_contig *)

  (* MoleculeIterator.__iter__: pairs from the mate-pair iterator, the skip_contigs test, then Fragment(...) *)
  Definition fragments_sel (stream : list rec) : res (list frag) :=
    bind (if qflag then pairing_qflag stream else pairing stream)
         (fun ps => mapM mkfrag (filter (pair_kept skip) ps)).

  Definition mol_iter_sel (stream : list rec) : res (list (list frag)) :=
    bind (fragments_sel stream) (fun fs => Ok (fst (it yi yo fs))).

  (* the second iterator of tag_multiome_single_thread: fetch(contig=args.contig) *)
  Definition main_stream (names : list Z) (recs : list rec) : res (list rec) :=
    match sc with
    | None => Ok (fetch_all names recs)
    | Some None => Ok (fetch None recs)
    | Some (Some c) => if existsb (Z.eqb c) names then Ok (fetch (Some c) recs) else Raise 3
    end.

  (* tag_multiome_single_thread: chain(iterator(contig='*'), iterator(contig=args.contig)) - the unplaced bin
     is ALWAYS iterated first, whatever the selection *)
  Definition single_sel (hdr : list (Z * Z)) (recs : list rec) : res bam :=
    bind (mol_iter_sel (fetch None recs)) (fun m1 =>
    bind (main_stream (map fst hdr) recs) (fun s =>
    bind (mol_iter_sel s) (fun m2 =>
    Ok (sorted_bam sort (m1 ++ m2))))).

  (* run_tagging_tasks with skip_contigs still in molecule_iterator_args ('contig' is pruned from them) *)
  Definition job_sel (recs : list rec) (cs : list cname) : res (option bam) :=
    bind (mapM (fun c => mol_iter_sel (fetch c recs)) cs) (fun mss =>
    let ms := concat mss in
    Ok (match ms with [] => None | _ => Some (sorted_bam sort ms) end)).

  Definition jobs_outputs_sel (recs : list rec) (jobs : list (list cname)) : res (list (option bam)) :=
    mapM (job_sel recs) jobs.

  (* one contig per process *)
  Definition job_outputs_sel (honour : bool) (hdr : list (Z * Z)) (recs : list rec) : res (list (option bam)) :=
    jobs_outputs_sel recs (cpp_jobs honour sc skip (contigs_with_reads hdr recs)).

  Definition multi_sel (honour : bool) (in_rgs : list Z) (hdr : list (Z * Z)) (recs : list rec) : res bam :=
    bind (job_outputs_sel honour hdr recs) (fun outs => Ok (multi_merge merge in_rgs outs)).

  (* binned mode at contig granularity: every contig that receives tasks is processed as a whole *)
  Definition binned_outputs (hdr : list (Z * Z)) (recs : list rec) (k : Z) : res (list (option bam)) :=
    jobs_outputs_sel recs
      (map (fun c => [c]) (binned_contigs (whitelist sc skip (contigs_with_reads hdr recs)) hdr k)).

  Definition multi_binned (in_rgs : list Z) (hdr : list (Z * Z)) (recs : list rec) (k : Z) : res bam :=
    bind (binned_outputs hdr recs k) (fun outs => Ok (multi_merge merge in_rgs outs)).
End PipelineSel.

(* ---------------------------------------------------------------- what a selection asks for *)
Definition sel_rec (sc : option cname) (skip : list cname) (r : rec) : bool :=
  rec_kept skip r && match sc with None => true | Some c => cname_eqb (r_contig r) c end.

(* as coded the unplaced bin is always part of the output *)
Definition want_rec (sc : option cname) (skip : list cname) (r : rec) : bool :=
  is_star (r_contig r) || sel_rec sc skip r.

(* mates that the pairing cache can join lie on the same contig (what an aligner writes: a record whose
   mate is mapped to the same reference says so on both mates) *)
Definition cacheable (r : rec) : bool :=
  r_paired r && negb (r_mate_unmapped r) && cname_eqb (r_contig r) (r_next r).

Definition coloc_b (recs : list rec) : bool :=
  forallb (fun a => forallb (fun b =>
      negb (primary a && primary b && cacheable a && cacheable b && (r_name a =? r_name b))
      || cname_eqb (r_contig a) (r_contig b)) recs) recs.

(* -contig, when given, names a reference sequence of the header *)
Definition sc_ok (sc : option cname) (names : list Z) : bool :=
  match sc with
  | None => true
  | Some None => false
  | Some (Some c) => existsb (Z.eqb c) names
  end.

Definition pre_sel (sc : option cname) (hdr : list (Z * Z)) (recs : list rec) : bool :=
  pre hdr recs && coloc_b recs && sc_ok sc (map fst hdr).

(* the statement on an observed output: exactly the wanted records (primary ones; all for qflag) *)
Definition specb_sel (sc : option cname) (skip : list cname) (qf : bool) (recs : list rec)
  (rgs : list Z) (rows : list (Z * bool * bool * Z)) : bool :=
  specb (filter (fun r => (qf || primary r) && want_rec sc skip r) recs) rgs rows.

(* ---------------------------------------------------------------- I/O glue *)
Definition dec_sc (v : Val) : option cname :=
  match getL v with
  | [] => None
  | x :: _ => Some (dec_cname x)
  end.
Definition dec_skip (v : Val) : list cname := map dec_cname (getL v).
Definition dec_cwr (v : Val) : list (cname * Z) := map (fun p => (dec_cname (nthV 0 p), getZ (nthV 1 p))) (getL v).

(* mode 10: [variant; sc; skip; contigs-with-reads; header; bp_per_job]
   variant 0: one contig per process as coded; 1: repaired; 2: binned (one task name per region) *)
Definition run_jobs_sel (v : Val) : Val :=
  let variant := getZ (nthV 0 v) in
  let sc := dec_sc (nthV 1 v) in
  let skip := dec_skip (nthV 2 v) in
  let cwr := dec_cwr (nthV 3 v) in
  let hdr := dec_hdr (nthV 4 v) in
  let k := getZ (nthV 5 v) in
  let enc := fun jobs : list (list cname) => VL (map (fun j => VL (map enc_cname j)) jobs) in
  if variant =? 2 then enc (map (map fst) (binned_jobs one_bin (whitelist sc skip cwr) hdr k))
  else enc (cpp_jobs (variant =? 1) sc skip cwr).

(* mode 11: [cfg; hdr; recs; in_rgs; [how; sc; skip; bp_per_job]]   cfg as in run_pipeline (its first entry is unused)
   how 0: single; 1: contig per process as coded; 2: contig per process repaired; 3: binned *)
Definition run_pipeline_sel (v : Val) : Val :=
  let cfg := nthV 0 v in
  let qf := getB (nthV 1 cfg) in
  let yi := getB (nthV 2 cfg) in
  let yo := getB (nthV 3 cfg) in
  let ev := getB (nthV 4 cfg) in
  let cap := dec_cap (nthV 5 cfg) in
  let hdr := dec_hdr (nthV 1 v) in
  let recs := map dec_rec (getL (nthV 2 v)) in
  let in_rgs := getZs (nthV 3 v) in
  let s := nthV 4 v in
  let how := getZ (nthV 0 s) in
  let sc := dec_sc (nthV 1 s) in
  let skip := dec_skip (nthV 2 s) in
  let k := getZ (nthV 3 s) in
  let it := simple_iter cvalid cmkey cap ev in
  if how =? 0 then enc_res (single_sel csort it qf yi yo sc skip hdr recs)
  else if how =? 3 then enc_res (multi_binned csort cmerge it qf yi yo sc skip in_rgs hdr recs k)
  else enc_res (multi_sel csort cmerge it qf yi yo sc skip (how =? 2) in_rgs hdr recs).

Definition run_C05x (mode : Z) (v : Val) : Val :=
  match mode with
  | 10 => run_jobs_sel v
  | 11 => run_pipeline_sel v
  | 12 => (* [[sc; skip; qflag]; records; header rgs; rows] *)
          let s := nthV 0 v in
          ofB (specb_sel (dec_sc (nthV 0 s)) (dec_skip (nthV 1 s)) (getB (nthV 2 s))
                         (map dec_rec (getL (nthV 1 v))) (getZs (nthV 2 v)) (map dec_row (getL (nthV 3 v))))
  | 13 => (* [sc; hdr; recs] *)
          ofB (pre_sel (dec_sc (nthV 0 v)) (dec_hdr (nthV 1 v)) (map dec_rec (getL (nthV 2 v))))
  | _ => run_C05 mode v
  end.
