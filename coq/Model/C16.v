(* C16 model: FeatureContainer (singlecellmultiomics/features/features.py) as a state machine.
   Definitions only (extracted).  One machine, three switches [cfg] that select between the code as it
   is at /repo HEAD (all false) and the repaired code (all true):
     fix_clear    (D19)  addFeature / sort call cache_clear on the lru_cache of findFeaturesAt
     fix_autosort (D32)  findFeaturesBetween / findFeaturesAtPysamAlign re-index when not sorted
     fix_halfopen (D20)  findFeaturesAtPysamAlign(method=1) queries [start, end-1] of a pysam block
   Python objects:  feature tuple (start, end, name, strand, data) -> [feat] (name/data are order
   preserving integer codes; strand 0 = None, 1 = '+', 2 = '-');  contig name -> Z;
   np.searchsorted(sorted array, v, 'left') -> [ss_left];  set(...) -> [dedup];  exceptions -> [RRaise].
   T: the search keys and sides of every np.searchsorted call, the scan / overlap / strand conditions, the window
   ends, the block end of the read annotation, which lookups re-index first and where the cache is cleared are the
   definitions g_* of Gen/GenFeatures.v, REGENERATED from the current source on every run (tools/c16.py); the shape
   lemmas of Proofs/C16_a.v connect them to the reference kernel ([*_ref]) the window proofs are about. *)
From Coq Require Import ZArith List Bool.
Import ListNotations.
From SCMO Require Import Lib.Val Gen.GenFeatures.
Open Scope Z_scope.

Record feat := mkF { f_start : Z; f_end : Z; f_name : Z; f_strand : Z; f_data : Z }.

Definition feat_eqb (a b : feat) : bool :=
  (f_start a =? f_start b) && (f_end a =? f_end b) && (f_name a =? f_name b) &&
  (f_strand a =? f_strand b) && (f_data a =? f_data b).

(* tuple comparison (lexicographic); used by list.sort() through < *)
Definition lex (c1 c2 : comparison) : comparison := match c1 with Eq => c2 | _ => c1 end.
Definition feat_cmp (a b : feat) : comparison :=
  lex (f_start a ?= f_start b) (lex (f_end a ?= f_end b) (lex (f_name a ?= f_name b)
      (lex (f_strand a ?= f_strand b) (f_data a ?= f_data b)))).
Definition feat_leb (a b : feat) : bool := match feat_cmp a b with Gt => false | _ => true end.

(* None < '+' raises TypeError: two tuples that agree on (start, end, name) and have exactly one strand = None *)
Definition incomparable (a b : feat) : bool :=
  (f_start a =? f_start b) && (f_end a =? f_end b) && (f_name a =? f_name b) &&
  xorb (f_strand a =? 0) (f_strand b =? 0).
Definition has_incomparable (l : list feat) : bool :=
  existsb (fun a => existsb (incomparable a) l) l.

Fixpoint insert_feat (f : feat) (l : list feat) : list feat :=
  match l with
  | [] => [f]
  | g :: t => if feat_leb f g then f :: g :: t else g :: insert_feat f t
  end.
Definition sort_feats (l : list feat) : list feat := fold_right insert_feat [] l.

Fixpoint insert_Z (a : Z) (l : list Z) : list Z :=
  match l with
  | [] => [a]
  | b :: t => if a <=? b then a :: b :: t else b :: insert_Z a t
  end.
Definition sort_Z (l : list Z) : list Z := fold_right insert_Z [] l.

(* np.searchsorted(l, v, side='left') on an ascending array: index of the first element >= v *)
Fixpoint ss_left (l : list Z) (v : Z) : nat :=
  match l with
  | [] => O
  | a :: t => if a <? v then S (ss_left t v) else O
  end.

(* side='right': index of the first element > v *)
Fixpoint ss_right (l : list Z) (v : Z) : nat :=
  match l with
  | [] => O
  | a :: t => if a <=? v then S (ss_right t v) else O
  end.
Definition ss (side : Z) (l : list Z) (v : Z) : nat := if side =? 0 then ss_left l v else ss_right l v.

(* [l[i] for i in range(lo, hi)]  for hi <= len(l); empty when lo >= hi *)
Definition window {A} (lo hi : nat) (l : list A) : list A := firstn (hi - lo) (skipn lo l).

Definition contains (x : Z) (f : feat) : bool := (f_start f <=? x) && (x <=? f_end f).
Definition endok (x : Z) (f : feat) : bool := x <=? f_end f.
Definition smatch (q : Z) (f : feat) : bool := (q =? 0) || (f_strand f =? q).
Definition overlap (a b : Z) (f : feat) : bool := Z.max a (f_start f) <=? Z.min b (f_end f).

Definition memf (f : feat) (l : list feat) : bool := existsb (feat_eqb f) l.
Fixpoint dedup (l : list feat) : list feat :=
  match l with
  | [] => []
  | f :: t => if memf f t then dedup t else f :: dedup t
  end.

(* per contig:  features[c], c in startCoordinates, startCoordinates[c], endCoordinates[c] (sorted),
   maxFeatureSizes[c], fastIndex[c] *)
Record crec := mkC { c_feats : list feat; c_indexed : bool; c_starts : list Z; c_ends : list Z;
                     c_maxlen : Z; c_fast : list nat }.

(* fastIndex[c][s - 1] with Python's negative index for s = 0.  (IndexError on an empty array cannot occur: a contig
   key is created by addFeature together with its first feature, so fastIndex[c] has at least one entry.) *)
Definition fast_at (fast : list nat) (s : nat) : nat :=
  match s with O => last fast O | S k => nth k fast O end.

(* _findFeaturesAt on an indexed contig; o: 0 'bdbnb' (default), 1 'nb', 2 'optim'.
   (the fourth variant of the source, any other string, is not modelled) *)
Definition at_rec (r : crec) (x q o : Z) : list feat :=
  let fs := c_feats r in
  let n := Z.of_nat (length fs) in
  let s := ss g_s_side (c_starts r) (g_s_key x) in
  if o =? 0 then
    filter (fun f => g_fast_keep (f_end f) x (q =? 0) (f_strand f =? q))
           (window (fast_at (c_fast r) s) (Z.to_nat (g_fast_end (Z.of_nat s) n)) fs)
  else if o =? 1 then
    filter (fun f => g_strand_keep (q =? 0) (f_strand f =? q))
           (dedup (filter (fun f => g_nb_keep (f_end f) x)
                          (window (ss g_nb_side (c_starts r) (g_nb_key x (c_maxlen r)))
                                  (Z.to_nat (g_nb_end (Z.of_nat s) n)) fs)))
  else
    let s2 := ss g_optim_side (c_starts r) (g_optim_key x) in
    filter (fun f => g_strand_keep (q =? 0) (f_strand f =? q))
           (dedup (filter (fun f => g_optim_keep (f_end f) x)
                          (window 0 (Z.to_nat (g_optim_end (Z.of_nat s2) n)) fs))).

(* ---- the lru_cache(maxsize=512) on findFeaturesAt: most recently used first *)
Definition key := (Z * Z * Z * Z)%type.     (* contig, coordinate, strand, optim *)
Definition key_eqb (a b : key) : bool :=
  let '(a1, a2, a3, a4) := a in let '(b1, b2, b3, b4) := b in
  (a1 =? b1) && (a2 =? b2) && (a3 =? b3) && (a4 =? b4).
Definition memo := list (key * list feat).
Definition memo_cap : nat := 512.

Fixpoint memo_find (k : key) (m : memo) : option (list feat) :=
  match m with
  | [] => None
  | (k', v) :: t => if key_eqb k k' then Some v else memo_find k t
  end.
Fixpoint memo_remove (k : key) (m : memo) : memo :=
  match m with
  | [] => []
  | (k', v) :: t => if key_eqb k k' then t else (k', v) :: memo_remove k t
  end.
Definition memo_touch (k : key) (v : list feat) (m : memo) : memo := (k, v) :: memo_remove k m.
(* after a miss: store unless a nested call stored the key meanwhile; evict the least recently used *)
Definition memo_put (k : key) (v : list feat) (m : memo) : memo :=
  match memo_find k m with
  | Some _ => m
  | None => firstn memo_cap ((k, v) :: m)
  end.

Record cfg := mkCfg { fix_clear : bool; fix_autosort : bool; fix_halfopen : bool }.
Definition cfg_ref : cfg := mkCfg true true true.
(* the switches as the current source sets them (the block end itself is g_block_end) *)
Definition cfg_fixed : cfg := mkCfg (g_clear_add && g_clear_sort) (g_autosort_between && g_autosort_blocks) true.
Definition cfg_head : cfg := mkCfg false false false.

Record state := mkS { st_contigs : list (Z * crec); st_sorted : bool; st_memo : memo }.
Definition init : state := mkS [] true [].

Fixpoint find_contig (c : Z) (l : list (Z * crec)) : option crec :=
  match l with
  | [] => None
  | (c', r) :: t => if c =? c' then Some r else find_contig c t
  end.

(* features[c].append(f) / features[c] = [f] for a new key (dict insertion order) *)
Fixpoint add_contig (c : Z) (f : feat) (l : list (Z * crec)) : list (Z * crec) :=
  match l with
  | [] => [(c, mkC [f] false [] [] 0 [])]
  | (c', r) :: t =>
      if c =? c' then (c', mkC (c_feats r ++ [f]) (c_indexed r) (c_starts r) (c_ends r) (c_maxlen r) (c_fast r)) :: t
      else (c', r) :: add_contig c f t
  end.

Inductive res := ROk (l : list feat) | RRaise (e : Z).
(* e: 1 TypeError (list.sort on None vs str), 2 OverflowError (negative end into uint64),
      3 ValueError (min() of an empty sequence in sort), 4 ValueError (invalid strand in addFeature) *)

(* ---- sort() *)
(* np.max of the feature lengths; np.max([]) would raise, but a contig list is never empty (see fast_at) *)
Definition list_max (l : list Z) : Z := match l with [] => 0 | a :: t => fold_left Z.max t a end.
Definition min_start (v : list feat) : Z :=
  match v with [] => 0 | g :: t => fold_left Z.min (map f_start t) (f_start g) end.

(* self.findFeaturesAt(c, x, optim='nb') as called by sort(): through the cache *)
Definition nb_cached (c : Z) (r : crec) (x : Z) (m : memo) : list feat * memo :=
  let k := (c, x, 0, 1) in
  match memo_find k m with
  | Some v => (v, memo_touch k v m)
  | None => let v := at_rec r x 0 1 in (v, memo_put k v m)
  end.

Fixpoint lowest_starts (c : Z) (r : crec) (fs : list feat) (m : memo) : option (list Z) * memo :=
  match fs with
  | [] => (Some [], m)
  | f :: t =>
      let '(v, m1) := nb_cached c r (f_start f) m in
      match v with
      | [] => (None, m1)
      | _ :: _ =>
          let '(rest, m2) := lowest_starts c r t m1 in
          (match rest with Some l => Some (min_start v :: l) | None => None end, m2)
      end
  end.

Definition pre_rec (fs : list feat) : crec :=
  mkC fs true (map f_start fs) (sort_Z (map f_end fs)) (list_max (map (fun f => g_len (f_start f) (f_end f)) fs)) [].

Definition sort_one (c : Z) (r : crec) (m : memo) : (crec + Z) * memo :=
  if has_incomparable (c_feats r) then (inr 1, m) else
  let fs := sort_feats (c_feats r) in
  if existsb (fun f => f_end f <? 0) fs then (inr 2, m) else
  let r1 := pre_rec fs in
  let '(lows, m1) := lowest_starts c r1 fs m in
  match lows with
  | None => (inr 3, m1)
  | Some lows => (inl (mkC fs true (c_starts r1) (c_ends r1) (c_maxlen r1) (map (ss g_fastidx_side (c_starts r1)) lows)), m1)
  end.

Fixpoint sort_contigs (l : list (Z * crec)) (m : memo) : (list (Z * crec) + Z) * memo :=
  match l with
  | [] => (inl [], m)
  | (c, r) :: t =>
      match sort_one c r m with
      | (inr e, m1) => (inr e, m1)
      | (inl r', m1) =>
          match sort_contigs t m1 with
          | (inl t', m2) => (inl ((c, r') :: t'), m2)
          | (inr e, m2) => (inr e, m2)
          end
      end
  end.

(* after an exception inside sort() the object is left half indexed with sorted = True; the model keeps the
   old contig records there and runs are not compared beyond that point *)
Definition do_sort (g : cfg) (st : state) : state * option Z :=
  let m0 := if fix_clear g then [] else st_memo st in
  match sort_contigs (st_contigs st) m0 with
  | (inl cs, m) => (mkS cs true m, None)
  | (inr e, m) => (mkS (st_contigs st) true m, Some e)
  end.

Definition ensure_sorted (g : cfg) (st : state) : state * option Z :=
  if st_sorted st then (st, None) else do_sort g st.

Definition answer (cs : list (Z * crec)) (k : key) : list feat :=
  let '(c, x, q, o) := k in
  match find_contig c cs with
  | Some r => if c_indexed r then at_rec r x q o else []
  | None => []
  end.

(* findFeaturesAt: cache lookup first, then _findFeaturesAt (which re-indexes when not sorted) *)
Definition at_cached (g : cfg) (st : state) (k : key) : state * res :=
  match memo_find k (st_memo st) with
  | Some v => (mkS (st_contigs st) (st_sorted st) (memo_touch k v (st_memo st)), ROk v)
  | None =>
      match (if g_autosort_at then ensure_sorted g st else (st, None)) with
      | (st1, Some e) => (st1, RRaise e)
      | (st1, None) =>
          let v := answer (st_contigs st1) k in
          (mkS (st_contigs st1) (st_sorted st1) (memo_put k v (st_memo st1)), ROk v)
      end
  end.

(* the while loop of findFeaturesBetween *)
Fixpoint scan_between (a b q : Z) (l : list feat) : list feat :=
  match l with
  | [] => []
  | f :: t => if g_btw_stop (f_start f) b then []
              else (if g_btw_overlap a b (f_start f) (f_end f) && g_btw_strand (q =? 0) (q =? f_strand f) then [f] else [])
                   ++ scan_between a b q t
  end.

Definition between_rec (r : crec) (a b q : Z) : list feat :=
  let ssa := ss g_btw_s_side (c_starts r) (g_btw_s_key a b) in
  let sse := ss g_btw_e_side (c_ends r) (g_btw_e_key a b) in
  scan_between a b q (skipn (Z.to_nat (g_btw_start (g_btw_i0 (Z.of_nat ssa)) (Z.of_nat sse))) (c_feats r)).

Definition between (g : cfg) (st : state) (c a b q : Z) : state * res :=
  match (if fix_autosort g then ensure_sorted g st else (st, None)) with
  | (st1, Some e) => (st1, RRaise e)
  | (st1, None) =>
      match find_contig c (st_contigs st1) with
      | None => (st1, ROk [])
      | Some r =>
          if negb (c_indexed r) then (st1, ROk []) else
          let hits := between_rec r a b q in
          match at_cached g st1 (c, a, q, 0) with
          | (st2, RRaise e) => (st2, RRaise e)
          | (st2, ROk l1) =>
              match at_cached g st2 (c, b, q, 0) with
              | (st3, RRaise e) => (st3, RRaise e)
              | (st3, ROk l2) => (st3, ROk (dedup (hits ++ l1 ++ l2)))
              end
          end
      end
  end.

Fixpoint fold_q {A} (f : state -> A -> state * res) (st : state) (xs : list A) (acc : list feat) : state * res :=
  match xs with
  | [] => (st, ROk acc)
  | x :: t => match f st x with
              | (st1, ROk l) => fold_q f st1 t (acc ++ l)
              | (st1, RRaise e) => (st1, RRaise e)
              end
  end.

Fixpoint zrange (a : Z) (n : nat) : list Z := match n with O => [] | S k => a :: zrange (a + 1) k end.
(* reference positions of get_aligned_pairs(matches_only=True) = the bases of the half open blocks *)
Definition block_positions (bl : list (Z * Z)) : list Z :=
  flat_map (fun p => zrange (fst p) (Z.to_nat (snd p - fst p))) bl.

(* findFeaturesAtPysamAlign(read, strand, method): the read is given by reference_name and get_blocks() *)
Definition blocks (g : cfg) (st : state) (c : Z) (bl : list (Z * Z)) (q meth : Z) : state * res :=
  match (if fix_autosort g then ensure_sorted g st else (st, None)) with
  | (st1, Some e) => (st1, RRaise e)
  | (st1, None) =>
      match find_contig c (st_contigs st1) with
      | None => (st1, ROk [])
      | Some r =>
          if negb (c_indexed r) then (st1, ROk []) else
          match (if meth =? 0
                 then fold_q (fun s p => at_cached g s (c, p, q, 0)) st1 (block_positions bl) []
                 else fold_q (fun s p => between g s c (if fix_halfopen g then g_block_start (fst p) (snd p) else fst p)
                                                    (if fix_halfopen g then g_block_end (fst p) (snd p) else snd p) q) st1 bl [])
          with
          | (st2, ROk l) => (st2, ROk (dedup l))
          | (st2, RRaise e) => (st2, RRaise e)
          end
      end
  end.

Inductive op :=
| Add (c : Z) (f : feat)
| Sort
| At (c x q o : Z)
| Between (c a b q : Z)
| Blocks (c : Z) (bl : list (Z * Z)) (q meth : Z).

Definition strand_ok (f : feat) : bool := (0 <=? f_strand f) && (f_strand f <=? 2).

Definition step (g : cfg) (st : state) (o : op) : state * res :=
  match o with
  | Add c f =>
      if strand_ok f
      then (mkS (add_contig c f (st_contigs st)) false (if fix_clear g then [] else st_memo st), ROk [])
      else (st, RRaise 4)
  | Sort => match do_sort g st with (st1, None) => (st1, ROk []) | (st1, Some e) => (st1, RRaise e) end
  | At c x q o => at_cached g st (c, x, q, o)
  | Between c a b q => between g st c a b q
  | Blocks c bl q meth => blocks g st c bl q meth
  end.

Fixpoint run_ops (g : cfg) (st : state) (ops : list op) : list res :=
  match ops with
  | [] => []
  | o :: t => let '(st1, r) := step g st o in r :: run_ops g st1 t
  end.

(* ---- the specification: brute force over everything added so far *)
Definition feats_of (c : Z) (all : list (Z * feat)) : list feat :=
  map snd (filter (fun p => fst p =? c) all).
Definition abs_step (all : list (Z * feat)) (o : op) : list (Z * feat) :=
  match o with
  | Add c f => if strand_ok f then all ++ [(c, f)] else all
  | _ => all
  end.
Definition spec_at (all : list (Z * feat)) (c x q : Z) : list feat :=
  filter (fun f => contains x f && smatch q f) (feats_of c all).
Definition spec_between (all : list (Z * feat)) (c a b q : Z) : list feat :=
  filter (fun f => overlap a b f && smatch q f) (feats_of c all).
Definition spec_blocks (all : list (Z * feat)) (c : Z) (bl : list (Z * Z)) (q : Z) : list feat :=
  filter (fun f => smatch q f && existsb (fun p => overlap (fst p) (snd p - 1) f) bl) (feats_of c all).

(* executable form of the specification (mode 2): answers in canonical order *)
Definition spec_step (all : list (Z * feat)) (o : op) : res :=
  match o with
  | Add c f => if strand_ok f then ROk [] else RRaise 4
  | Sort => ROk []
  | At c x q o => if o =? 0 then ROk (sort_feats (spec_at all c x q)) else ROk (sort_feats (dedup (spec_at all c x q)))
  | Between c a b q => ROk (sort_feats (dedup (spec_between all c a b q)))
  | Blocks c bl q _ => ROk (sort_feats (dedup (spec_blocks all c bl q)))
  end.
Fixpoint spec_run (all : list (Z * feat)) (ops : list op) : list res :=
  match ops with
  | [] => []
  | o :: t => spec_step all o :: spec_run (abs_step all o) t
  end.

(* precondition of the history theorem, boolean form (mode 1) *)
Definition wf_feat (f : feat) : bool := (f_start f <=? f_end f) && (0 <=? f_end f).
Definition orderableb (all : list (Z * feat)) : bool :=
  forallb (fun p => forallb (fun p' => negb ((fst p =? fst p') && incomparable (snd p) (snd p'))) all) all.
Definition op_wfb (o : op) : bool :=
  match o with
  | Add _ f => wf_feat f
  | Sort => true
  | At _ _ _ o => (0 <=? o) && (o <=? 2)
  | Between _ a b _ => a <=? b
  | Blocks _ bl _ _ => forallb (fun p => fst p <? snd p) bl
  end.
Definition final_all (ops : list op) : list (Z * feat) := fold_left abs_step ops [].
Definition hist_wfb (ops : list op) : bool := forallb op_wfb ops && orderableb (final_all ops).

(* ---- I/O glue *)
Definition dec_feat (v : Val) : feat :=
  mkF (getZ (nthV 0 v)) (getZ (nthV 1 v)) (getZ (nthV 2 v)) (getZ (nthV 3 v)) (getZ (nthV 4 v)).
Definition enc_feat (f : feat) : Val := VL [VZ (f_start f); VZ (f_end f); VZ (f_name f); VZ (f_strand f); VZ (f_data f)].
Definition dec_op (v : Val) : op :=
  let t := getZ (nthV 0 v) in
  if t =? 0 then Add (getZ (nthV 1 v)) (dec_feat (nthV 2 v))
  else if t =? 1 then Sort
  else if t =? 2 then At (getZ (nthV 1 v)) (getZ (nthV 2 v)) (getZ (nthV 3 v)) (getZ (nthV 4 v))
  else if t =? 3 then Between (getZ (nthV 1 v)) (getZ (nthV 2 v)) (getZ (nthV 3 v)) (getZ (nthV 4 v))
  else Blocks (getZ (nthV 1 v)) (map getPair (getL (nthV 2 v))) (getZ (nthV 3 v)) (getZ (nthV 4 v)).
Definition enc_res (r : res) : Val :=
  match r with ROk l => VL [VZ 0; VL (map enc_feat l)] | RRaise e => VL [VZ 1; VZ e] end.

(* mode 0: trace of the machine with the switches and kernel of the current source; 1: precondition; 2: specification trace;
   3: trace of the machine as the code is at HEAD (no fix), used for the refutations and for diagnosis *)
Definition run_C16 (mode : Z) (v : Val) : Val :=
  let ops := map dec_op (getL v) in
  match mode with
  | 0 => VL (map enc_res (run_ops cfg_fixed init ops))
  | 1 => ofB (hist_wfb ops)
  | 2 => VL (map enc_res (spec_run [] ops))
  | 3 => VL (map enc_res (run_ops cfg_head init ops))
  | _ => bad
  end.
