(* C20 model: the tagging pipelines as programs of Lib.StatusLang, GENERATED from the source
   (Gen/GenStatus.v: pipeline = run_multiome_tagging with both tag_multiome_* functions, the --cluster
   branch, sorted_bam_file, sort_and_index and merge_bams inlined, and one Spawn of worker_full per result
   of the worker pool; worker_full = the whole body of run_tagging_tasks with run_tagging_task inlined).
   This file: the fault oracles and the I/O glue.  Definitions only. *)
From Coq Require Import ZArith List Bool.
Import ListNotations.
From SCMO Require Import Lib.Val Lib.StatusLang Gen.GenStatus.

(* a run: loop counts, branch outcomes and fault oracle are parameters *)
Definition start (w : world) : cfg := mkC 0 w [] [].
Definition run_prog (p : prog) (cnt : nat -> nat -> nat) (ch : nat -> nat -> bool) (f : nat -> fault) (w : world) : res * cfg :=
  exec cnt ch f p (start w).

(* the crash points of the property statement: the k-th executed step raises an exception of kind e
   before doing anything; every other step works *)
Definition crash_at (e : ekind) (k : nat) : nat -> fault := fun i => if Nat.eqb i k then FBefore e else FNone.
Definition no_fault : nat -> fault := fun _ => FNone.

Definition all_four (w : world) : bool := ex w && co w && so w && ix w.

(* ---- I/O glue *)
Definition dec_status (z : Z) : status :=
  match z with 0%Z => SNone | 1%Z => SUnfinished | 2%Z => SFail | 3%Z => SOk | _ => SOther end.
Definition enc_status (s : status) : Z :=
  match s with SNone => 0 | SUnfinished => 1 | SFail => 2 | SOk => 3 | SOther => 4 end%Z.
(* [status; exists; complete; sorted; indexed] (ghost and data fields initial) optionally followed by [rep] *)
Definition dec_world (v : Val) : world :=
  mkW (dec_status (getZ (nthV 0 v))) (getB (nthV 1 v)) (getB (nthV 2 v)) (getB (nthV 3 v)) (getB (nthV 4 v))
      false (getB (nthV 5 v)) false false false false false.
Definition enc_world (w : world) : Val :=
  VL [VZ (enc_status (st w)); ofB (ex w); ofB (co w); ofB (so w); ofB (ix w); ofB (lost w); ofB (rep w);
      ofB (tu w); ofB (tm w); ofB (gu w); ofB (gm w); ofB (got w)].
Definition dec_kind (z : Z) : ekind :=
  match z with 0%Z => KRuntime | 1%Z => KValue | 2%Z => KOS | 3%Z => KTimeout | 4%Z => KMemory | 5%Z => KOther | _ => KBase end.
Definition enc_kind (k : ekind) : Z :=
  match k with KRuntime => 0 | KValue => 1 | KOS => 2 | KTimeout => 3 | KMemory => 4 | KOther => 5 | KBase => 6 end%Z.
(* 0: works; 100+k: raises kind k before any effect; 200+k: raises kind k after a partial effect *)
Definition dec_fault (z : Z) : fault :=
  if Z.ltb z 100 then FNone
  else if Z.ltb z 200 then FBefore (dec_kind (z - 100)) else FPartial (dec_kind (z - 200)).
Fixpoint lookup (l : list (Z * Z)) (i : Z) : Z :=
  match l with [] => 0%Z | (k, v) :: l' => if Z.eqb k i then v else lookup l' i end.
(* iterations of loop id at its k-th entry: [[id; k; count]; ...] overrides the per-loop default *)
Fixpoint lookup3 (l : list (list Z)) (i k : Z) (d : Z) : Z :=
  match l with
  | [] => d
  | [a; b; c] :: l' => if Z.eqb a i && Z.eqb b k then c else lookup3 l' i k d
  | _ :: l' => lookup3 l' i k d
  end.
Definition enc_res (r : res) : Z :=
  match r with RNormal => 0 | RRaised k => 1 + enc_kind k | RBreak => 20 | RContinue => 21
             | RReturn VPath => 30 | RReturn VNone => 31 end%Z.

Definition run_val (p : prog) (v : Val) : Val :=
  let w := dec_world (nthV 0 v) in
  let cnts := getZs (nthV 1 v) in
  let chs := getZs (nthV 2 v) in
  let faults := map getPair (getL (nthV 3 v)) in
  let over := map getZs (getL (nthV 4 v)) in
  let cnt := fun i k => Z.to_nat (lookup3 over (Z.of_nat i) (Z.of_nat k) (nth i cnts 0%Z)) in
  let ch := fun i (_ : nat) => negb (Z.eqb (nth i chs 0%Z) 0) in
  let f := fun i => dec_fault (lookup faults (Z.of_nat i)) in
  let '(r, s) := run_prog p cnt ch f w in
  VL [VZ (enc_res r); enc_world (wd s); VL (map (fun l => VZ (Z.of_nat l)) (rev (tr s)))].

Definition run_C20 (mode : Z) (v : Val) : Val :=
  match mode with
  | 0%Z => run_val pipeline v
  | 1%Z => ofB (invb (dec_world (nthV 0 v)))
  | 2%Z => (* the specification evaluated on an observed outcome: [[status; exists; complete; sorted; indexed;
              reported]; raised] -> [strict invariant; invariant up to reported segments; failed -> not Ok] *)
      let w := dec_world (nthV 0 v) in
      let raised := getB (nthV 1 v) in
      VL [ofB (invb w); ofB (invb_rep w); ofB (negb (raised && status_eqb (st w) SOk))]
  | 3%Z => run_val worker_full v
  | _ => bad
  end.
