(* C17 model: blacklist-aware genome tiling (bamProcessing/bamBinCounts.py) and bp_chunked
   (utils/binning.py).  Hand transcription of the code (as repaired by fixes/C17-D21.patch and
   fixes/C17-D23.patch); tied to the source by the correspondence check tools/c17.py.
   Definitions only. *)
From Coq Require Import ZArith List Bool.
Import ListNotations.
From SCMO Require Import Lib.Val Lib.Tiling.
Open Scope Z_scope.

(* Python exceptions are explicit results.  codes: 1 = ValueError (range() arg 3 must not be zero),
   99 = model fuel exhausted in the merge loop (shown impossible: Proofs.C17.merge_total) *)
Inductive Res (A : Type) : Type :=
| Ok (a : A)
| Raise (code : Z).
Arguments Ok {A} a.
Arguments Raise {A} code.

(* ------------------------------------------------------------------ fill_range(start, end, step)
     e = start
     for s in range(start, end, step):
         e = s + step
         if e > end: e = e - step; break
         yield s, e
     if e < end: yield e, end                                                             *)
(* step > 0.  fuel = (end - start) / step + 1 iterations are enough (every iteration advances s by step);
   with fuel 0 we have s >= end, where the code yields nothing as well. *)
Fixpoint fr_up (fuel : nat) (s e step : Z) : list iv :=
  match fuel with
  | O => []
  | S f => if s >=? e then []
           else if s + step <=? e then (s, s + step) :: fr_up f (s + step) e step
           else [(s, e)]
  end.

Definition fill_range (s e step : Z) : Res (list iv) :=
  if step =? 0 then Raise 1
  else if 0 <? step then Ok (fr_up (S (Z.to_nat ((e - s) / step))) s e step)
  else (* step < 0: range(start, end, step) counts down; at most one loop iteration yields *)
    if s <=? e then Ok (if s <? e then [(s, e)] else [])
    else if e <? s + step then Ok []
    else if s + step =? e then Ok [(s, e)]
    else Ok [(s, s + step); (s + step, e)].

(* ------------------------------------------------------------------ trim_rangelist(rangelist, start, end)
   (with C17-D23: an interval that covers the whole region is kept as well) *)
Definition trim_keep (start end_ : Z) (b : iv) : bool :=
  let '(s, e) := b in
  ((start <=? s) && (s <? end_)) || ((start <=? e) && (e <? end_)) || ((s <? start) && (end_ <=? e)).

Definition trim_clip (start end_ : Z) (b : iv) : iv := (Z.max (fst b) start, Z.min (snd b) end_).

Definition trim_rangelist (l : list iv) (start end_ : Z) : list iv :=
  map (trim_clip start end_) (filter (trim_keep start end_) l).

(* ------------------------------------------------------------------ sorted() on (start,end) tuples *)
Definition lex_leb (a b : iv) : bool :=
  (fst a <? fst b) || ((fst a =? fst b) && (snd a <=? snd b)).

Fixpoint insert (a : iv) (l : list iv) : list iv :=
  match l with
  | [] => [a]
  | b :: t => if lex_leb a b then a :: l else b :: insert a t
  end.

Fixpoint isort (l : list iv) : list iv :=
  match l with
  | [] => []
  | a :: t => insert a (isort t)
  end.

(* ------------------------------------------------------------------ range_contains_overlap(clist) *)
Definition ov (a b : iv) : bool :=
  let '(s, e) := a in let '(ns, ne) := b in
  (ns <? s) || (ns <? e) || (ne <? e) || (ne <? s).

Fixpoint any_ov (l : list iv) : bool :=
  match l with
  | a :: ((b :: _) as t) => ov a b || any_ov t
  | _ => false
  end.

Definition range_contains_overlap (l : list iv) : bool := any_ov (isort l).

(* ------------------------------------------------------------------ _merge_overlapping_ranges(clist)
   one pass over windowed(clist, 2) with the `merged` flag; called only when an overlap exists
   (so len(clist) >= 2; for shorter lists the Python code raises TypeError - unreachable, see
   Proofs.C17.any_ov_length) *)
Definition merge2 (a b : iv) : iv := (Z.min (fst a) (fst b), Z.max (snd b) (snd a)).

Fixpoint mpass (merged : bool) (l : list iv) : list iv :=
  match l with
  | a :: ((b :: _) as t) =>
      if merged then mpass false t
      else if ov a b then merge2 a b :: mpass true t
      else a :: mpass false t
  | [a] => if merged then [] else [a]
  | [] => []
  end.

(* merge_overlapping_ranges: clist = sorted(clist); while range_contains_overlap(clist): clist = sorted(pass) *)
Fixpoint merge_loop (fuel : nat) (cl : list iv) : option (list iv) :=
  match fuel with
  | O => None
  | S f => if range_contains_overlap cl then merge_loop f (isort (mpass false cl)) else Some cl
  end.

Definition merge_overlapping_ranges (l : list iv) : option (list iv) :=
  merge_loop (S (length l)) (isort l).

(* ------------------------------------------------------------------ blacklisted_binning *)
(* a yielded tuple: the bin and, when fragment_size is given, its fetch window *)
Definition obin := (iv * option iv)%type.

(* with C17-D21: the window is clipped to the gap [gap_start, gap_end) the bin lies in *)
Definition window (frag : option Z) (gs ge ps pe : Z) : option iv :=
  match frag with
  | None => None
  | Some f => Some (Z.max gs (ps - f), Z.min ge (pe + f))
  end.

(* body of the outer loop for one gap current..start *)
Definition gap_bins (frag : option Z) (bin_size cur start : Z) : Res (list obin) :=
  match fill_range cur start bin_size with
  | Raise c => Raise c
  | Ok l0 =>
      let tb0 := Z.of_nat (length l0) in
      (* `if total_bins < 0: continue` is dead (a length); `if total_bins == 0: total_bins = 1` *)
      let tb := if tb0 =? 0 then 1 else tb0 in
      (* int((start - current) / total_bins): float quotient truncated toward zero *)
      let lbs := Z.quot (start - cur) tb in
      match fill_range cur start lbs with
      | Raise c => Raise c
      | Ok l => Ok (map (fun b => (b, window frag cur start (fst b) (snd b))) l)
      end
  end.

Fixpoint bb_loop (frag : option Z) (bin_size cur : Z) (ivs : list iv) : Res (list obin) :=
  match ivs with
  | [] => Ok []
  | (start, end_) :: rest =>
      if start =? cur then bb_loop frag bin_size end_ rest
      else match gap_bins frag bin_size cur start with
           | Raise c => Raise c
           | Ok g => match bb_loop frag bin_size end_ rest with
                     | Raise c => Raise c
                     | Ok r => Ok (g ++ r)
                     end
           end
  end.

(* blacklist None is the empty list *)
Definition blacklisted_binning (sc ec bin_size : Z) (bl : list iv) (frag : option Z) : Res (list obin) :=
  let merged := if (1 <? Z.of_nat (length bl)) then merge_overlapping_ranges bl else Some bl in
  match merged with
  | None => Raise 99
  | Some m => bb_loop frag bin_size sc (trim_rangelist m sc ec ++ [(ec, ec + 1)])
  end.

(* ------------------------------------------------------------------ bp_chunked(job_generator, bp_per_job)
   a job is abstracted to the pair (start, end) = (job[1], job[2]) plus a payload *)
Section Chunk.
  Context {A : Type}.
  Variable span : A -> iv.
  Fixpoint bp_loop (k bp : Z) (cur : list A) (jobs : list A) : list (list A) :=
    match jobs with
    | [] => [cur]
    | j :: rest =>
        let bp' := bp + Z.abs (snd (span j) - fst (span j)) in
        let cur' := cur ++ [j] in
        if bp' >=? k then cur' :: bp_loop k 0 [] rest else bp_loop k bp' cur' rest
    end.
  Definition bp_chunked (jobs : list A) (k : Z) : list (list A) := bp_loop k 0 [] jobs.
End Chunk.

(* ------------------------------------------------------------------ executable specification
   (evaluated on the implementation's output by the search; sound w.r.t. the theorems' statement
   by Proofs.C17.specb_sound) *)
Fixpoint orderedb (lo hi : Z) (l : list iv) : bool :=
  match l with
  | [] => lo <=? hi
  | (x, y) :: l' => (lo <=? x) && (x <? y) && orderedb y hi l'
  end.

Definition window_okb (sc ec f : Z) (bl : list iv) (o : obin) : bool :=
  match o with
  | (b, Some w) =>
      (fst w <=? fst b) && (snd b <=? snd w) && (fst b - fst w <=? f) && (snd w - snd b <=? f)
      && (sc <=? fst w) && (snd w <=? ec)
      && forallb (fun p => negb (coversb bl p)) (map (fun i => fst w + Z.of_nat i) (seq 0 (Z.to_nat (snd w - fst w))))
  | (_, None) => false
  end.

Definition specb (sc ec bs : Z) (bl : list iv) (frag : option Z) (out : list obin) : bool :=
  let bins := map fst out in
  orderedb sc ec bins
  && forallb (fun b => snd b - fst b <=? bs) bins
  && forallb (fun p => Bool.eqb (coversb bins p) (negb (coversb bl p)))
             (map (fun i => sc + Z.of_nat i) (seq 0 (Z.to_nat (ec - sc))))
  && match frag with
     | None => forallb (fun o => match snd o with None => true | Some _ => false end) out
     | Some f => forallb (window_okb sc ec f bl) out
     end.

Definition pre (sc ec bs : Z) (bl : list iv) (frag : option Z) : bool :=
  (0 <? bs) && (sc <=? ec) && forallb wfb bl && match frag with None => true | Some f => 0 <=? f end.

(* ------------------------------------------------------------------ I/O glue *)
Definition ofIvs (l : list iv) : Val := VL (map ofPair l).
Definition getIvs (v : Val) : list iv := map getPair (getL v).
Definition ofRes {A} (f : A -> Val) (r : Res A) : Val :=
  match r with Ok a => VL [VZ 0; f a] | Raise c => VL [VZ 1; VZ c] end.
Definition ofObin (o : obin) : Val :=
  match o with
  | (b, None) => VL [VZ (fst b); VZ (snd b)]
  | (b, Some w) => VL [VZ (fst b); VZ (snd b); VZ (fst w); VZ (snd w)]
  end.
Definition getObin (v : Val) : obin :=
  match getL v with
  | [a; b] => ((getZ a, getZ b), None)
  | [a; b; c; d] => ((getZ a, getZ b), Some (getZ c, getZ d))
  | _ => ((0, 0), None)
  end.
Definition ofOptIvs (o : option (list iv)) : Val :=
  match o with Some l => VL [VZ 0; ofIvs l] | None => VL [VZ 1; VZ 99] end.

(* input: VL [VZ fn; args...];  fn selects the function *)
Definition run_fn (v : Val) : Val :=
  let fn := getZ (nthV 0 v) in
  let a n := nthV n v in
  match fn with
  | 0 => ofRes ofIvs (fill_range (getZ (a 1%nat)) (getZ (a 2%nat)) (getZ (a 3%nat)))
  | 1 => ofIvs (trim_rangelist (getIvs (a 1%nat)) (getZ (a 2%nat)) (getZ (a 3%nat)))
  | 2 => ofB (range_contains_overlap (getIvs (a 1%nat)))
  | 3 => ofIvs (mpass false (getIvs (a 1%nat)))
  | 4 => ofOptIvs (merge_overlapping_ranges (getIvs (a 1%nat)))
  | 5 => ofRes (fun l => VL (map ofObin l))
               (blacklisted_binning (getZ (a 1%nat)) (getZ (a 2%nat)) (getZ (a 3%nat)) (getIvs (a 4%nat)) (getOptZ (a 5%nat)))
  | 6 => (* bp_chunked: jobs are (start, end) pairs, reported with their index as payload *)
         let jobs := combine (seq 0 (length (getL (a 1%nat)))) (getIvs (a 1%nat)) in
         VL (map (fun ch => VL (map (fun j => VZ (Z.of_nat (fst j))) ch)) (bp_chunked snd jobs (getZ (a 2%nat))))
  | _ => bad
  end.

Definition run_C17 (mode : Z) (v : Val) : Val :=
  match mode with
  | 0 => run_fn v
  | 1 => (* precondition of C17_partition / C17_windows on a blacklisted_binning input *)
         ofB (pre (getZ (nthV 1 v)) (getZ (nthV 2 v)) (getZ (nthV 3 v)) (getIvs (nthV 4 v)) (getOptZ (nthV 5 v)))
  | 2 => (* specb on [input; output] *)
         let i := nthV 0 v in
         ofB (specb (getZ (nthV 1 i)) (getZ (nthV 2 i)) (getZ (nthV 3 i)) (getIvs (nthV 4 i)) (getOptZ (nthV 5 i))
                    (map getObin (getL (nthV 1 v))))
  | _ => bad
  end.
