(* C17 model: blacklist-aware genome tiling (bamProcessing/bamBinCounts.py) and bp_chunked
   (utils/binning.py).  The comparisons, step / clip / merge expressions, call arguments and the sentinel
   are the definitions g_* REGENERATED from the source on every run (Gen/GenTiling.v, tools/c17.py
   regen_tiling); the control flow around them is a hand transcription pinned by the translator's
   skeleton check and tied to the source by the correspondence check.  Definitions only. *)
From Coq Require Import ZArith List Bool.
Import ListNotations.
From SCMO Require Import Lib.Val Lib.Tiling Gen.GenTiling.
Open Scope Z_scope.

(* Python exceptions are explicit results.  codes: 1 = ValueError (range() arg 3 must not be zero),
   99 = model fuel exhausted in the merge loop (shown impossible: Proofs.C17.merge_total) *)
Inductive Res (A : Type) : Type :=
| Ok (a : A)
| Raise (code : Z).
Arguments Ok {A} a.
Arguments Raise {A} code.

(* ------------------------------------------------------------------ fill_range(start, end, step)
     e = <g_fr_init>
     for s in range(<g_fr_range>):
         e = <g_fr_e>
         if <g_fr_over>: e = <g_fr_back>; break
         yield <g_fr_yield>
     if <g_fr_tail>: yield <g_fr_last>                                                       *)
Definition fr_tail (start en step e : Z) : list iv :=
  if g_fr_tail start en step e then [g_fr_last start en step e] else [].

(* the for loop over range(r0, r1, rs): i is the loop variable, e the loop-carried variable;
   up = (0 < rs).  fuel = |r1 - r0| / |rs| + 1 bounds the number of elements of the range; when the
   fuel is used up the range is exhausted as well and the code falls through to the final `if`. *)
Fixpoint fr_loop (fuel : nat) (start en step : Z) (up : bool) (r1 rs i e : Z) : list iv :=
  match fuel with
  | O => fr_tail start en step e
  | S f => if (if up then i >=? r1 else i <=? r1) then fr_tail start en step e
           else let e1 := g_fr_e start en step i e in
                if g_fr_over start en step i e1 then fr_tail start en step (g_fr_back start en step i e1)
                else g_fr_yield start en step i e1 :: fr_loop f start en step up r1 rs (i + rs) e1
  end.

Definition fill_range (start en step : Z) : Res (list iv) :=
  let '(r0, r1, rs) := g_fr_range start en step in
  if rs =? 0 then Raise 1
  else Ok (fr_loop (S (Z.to_nat (Z.abs (r1 - r0) / Z.abs rs))) start en step (0 <? rs) r1 rs r0
                   (g_fr_init start en step)).

(* ------------------------------------------------------------------ trim_rangelist(rangelist, start, end)
   overlap = <g_trim_keep>  (the initial value or-ed with the tests of the `if t: overlap = True` statements);
   yield <g_trim_clip> *)
Definition trim_keep (start end_ : Z) (b : iv) : bool := g_trim_keep start end_ (fst b) (snd b).
Definition trim_clip (start end_ : Z) (b : iv) : iv := g_trim_clip start end_ (fst b) (snd b).

Definition trim_rangelist (l : list iv) (start end_ : Z) : list iv :=
  map (trim_clip start end_) (filter (trim_keep start end_) l).

(* ------------------------------------------------------------------ sorted() on (start,end) tuples *)
Definition lex_leb (a b : iv) : bool :=
  (fst a <? fst b) || ((fst a =? fst b) && (snd a <=? snd b)).

Fixpoint insert (a : iv) (l : list iv) : list iv :=
  match l with
  | [] => [a]
  | b :: t => if lex_leb a b then a :: l else b :: insert a t
  end.

Fixpoint isort (l : list iv) : list iv :=
  match l with
  | [] => []
  | a :: t => insert a (isort t)
  end.

(* ------------------------------------------------------------------ range_contains_overlap(clist)
   clist = sorted(clist); if <g_rco_short>: return False; any pair of neighbours with <g_rco_ov> *)
Definition ov_rco (a b : iv) : bool := g_rco_ov (fst a) (snd a) (fst b) (snd b).

Fixpoint any_ov (l : list iv) : bool :=
  match l with
  | a :: ((b :: _) as t) => ov_rco a b || any_ov t
  | _ => false
  end.

Definition range_contains_overlap (l : list iv) : bool :=
  let s := isort l in
  if g_rco_short (Z.of_nat (length s)) then false else any_ov s.

(* ------------------------------------------------------------------ _merge_overlapping_ranges(clist)
   one pass over windowed(clist, 2) with the `merged` flag: if <g_mp_ov>: yield <g_mp_merge> else yield <g_mp_keep>;
   called only when an overlap exists (so len(clist) >= 2; for shorter lists the Python code raises
   TypeError - unreachable, see Proofs.C17.any_ov_length) *)
Definition ov (a b : iv) : bool := g_mp_ov (fst a) (snd a) (fst b) (snd b).
Definition merge2 (a b : iv) : iv := g_mp_merge (fst a) (snd a) (fst b) (snd b).
Definition keep1 (a b : iv) : iv := g_mp_keep (fst a) (snd a) (fst b) (snd b).

Fixpoint mpass (merged : bool) (l : list iv) : list iv :=
  match l with
  | a :: ((b :: _) as t) =>
      if merged then mpass false t
      else if ov a b then merge2 a b :: mpass true t
      else keep1 a b :: mpass false t
  | [a] => if merged then [] else [a]
  | [] => []
  end.

(* merge_overlapping_ranges: clist = sorted(clist); while range_contains_overlap(clist): clist = sorted(pass) *)
Fixpoint merge_loop (fuel : nat) (cl : list iv) : option (list iv) :=
  match fuel with
  | O => None
  | S f => if range_contains_overlap cl then merge_loop f (isort (mpass false cl)) else Some cl
  end.

Definition merge_overlapping_ranges (l : list iv) : option (list iv) :=
  merge_loop (S (length l)) (isort l).

(* ------------------------------------------------------------------ blacklisted_binning *)
(* a yielded tuple: the bin and, when fragment_size is given, its fetch window *)
Definition obin := (iv * option iv)%type.

(* the tuple yielded for one piece b of the gap: <g_bb_yield2> / fs = <g_bb_fs>, fe = <g_bb_fe>, <g_bb_yield4> *)
Definition mk_obin (frag : option Z) (sc ec bs start en gs : Z) (b : iv) : obin :=
  match frag with
  | None => (g_bb_yield2 sc ec bs start en gs (fst b) (snd b), None)
  | Some f =>
      let '(x, y, fs, fe) := g_bb_yield4 (fst b) (snd b) (g_bb_fs sc ec bs start en gs (fst b) (snd b) f)
                                         (g_bb_fe sc ec bs start en gs (fst b) (snd b) f) in
      ((x, y), Some (fs, fe))
  end.

(* body of the outer loop for one gap current..start; Ok None = the `continue` after `if <g_bb_tb_neg>` *)
Definition gap_bins (frag : option Z) (sc ec bs start en cur : Z) : Res (option (list obin)) :=
  let '(a0, a1, a2) := g_bb_tb_args sc ec bs start en cur in
  match fill_range a0 a1 a2 with
  | Raise c => Raise c
  | Ok l0 =>
      let tb0 := Z.of_nat (length l0) in
      if g_bb_tb_neg tb0 then Ok None
      else
        let tb := if g_bb_tb_zero tb0 then g_bb_tb_one tb0 else tb0 in
        let lbs := g_bb_lbs sc ec bs start en cur tb in
        let gs := g_bb_gap_start sc ec bs start en cur tb in
        let '(b0, b1, b2) := g_bb_fill_args sc ec bs start en cur tb lbs in
        match fill_range b0 b1 b2 with
        | Raise c => Raise c
        | Ok l => Ok (Some (map (mk_obin frag sc ec bs start en gs) l))
        end
  end.

Fixpoint bb_loop (frag : option Z) (sc ec bs cur : Z) (ivs : list iv) : Res (list obin) :=
  match ivs with
  | [] => Ok []
  | (start, en) :: rest =>
      if g_bb_skip sc ec bs start en cur then bb_loop frag sc ec bs (g_bb_cur_skip sc ec bs start en cur) rest
      else match gap_bins frag sc ec bs start en cur with
           | Raise c => Raise c
           | Ok None => bb_loop frag sc ec bs cur rest
           | Ok (Some g) => match bb_loop frag sc ec bs (g_bb_cur_after sc ec start en) rest with
                            | Raise c => Raise c
                            | Ok r => Ok (g ++ r)
                            end
           end
  end.

(* blacklist None is the empty list; `elif <g_bb_need_merge>`; current = <g_bb_cur0>;
   chain(trim_rangelist(blacklist, <g_bb_trim_args>), [<g_bb_sentinel>]) *)
Definition blacklisted_binning (sc ec bin_size : Z) (bl : list iv) (frag : option Z) : Res (list obin) :=
  let merged := if g_bb_need_merge (Z.of_nat (length bl)) then merge_overlapping_ranges bl else Some bl in
  match merged with
  | None => Raise 99
  | Some m =>
      let '(t0, t1) := g_bb_trim_args sc ec in
      bb_loop frag sc ec bin_size (g_bb_cur0 sc ec) (trim_rangelist m t0 t1 ++ [g_bb_sentinel sc ec])
  end.

(* ------------------------------------------------------------------ bp_chunked(job_generator, bp_per_job)
   a job is abstracted to the pair (start, end) = (job[1], job[2]) plus a payload;
   bp_current = <g_bp_init>; bp_current += <g_bp_inc>; if <g_bp_full>: yield, bp_current = <g_bp_reset> *)
Section Chunk.
  Context {A : Type}.
  Variable span : A -> iv.
  Fixpoint bp_loop (k bp : Z) (cur : list A) (jobs : list A) : list (list A) :=
    match jobs with
    | [] => [cur]
    | j :: rest =>
        let bp' := bp + g_bp_inc (fst (span j)) (snd (span j)) in
        let cur' := cur ++ [j] in
        if g_bp_full bp' k then cur' :: bp_loop k (g_bp_reset k) [] rest else bp_loop k bp' cur' rest
    end.
  Definition bp_chunked (jobs : list A) (k : Z) : list (list A) := bp_loop k (g_bp_init k) [] jobs.
End Chunk.

(* ------------------------------------------------------------------ executable specification
   (evaluated on the implementation's output by the search; sound w.r.t. the theorems' statement
   by Proofs.C17.specb_sound) *)
Fixpoint orderedb (lo hi : Z) (l : list iv) : bool :=
  match l with
  | [] => lo <=? hi
  | (x, y) :: l' => (lo <=? x) && (x <? y) && orderedb y hi l'
  end.

Definition window_okb (sc ec f : Z) (bl : list iv) (o : obin) : bool :=
  match o with
  | (b, Some w) =>
      (fst w <=? fst b) && (snd b <=? snd w) && (fst b - fst w <=? f) && (snd w - snd b <=? f)
      && (sc <=? fst w) && (snd w <=? ec)
      && forallb (fun p => negb (coversb bl p)) (map (fun i => fst w + Z.of_nat i) (seq 0 (Z.to_nat (snd w - fst w))))
  | (_, None) => false
  end.

Definition specb (sc ec bs : Z) (bl : list iv) (frag : option Z) (out : list obin) : bool :=
  let bins := map fst out in
  orderedb sc ec bins
  && forallb (fun b => snd b - fst b <=? bs) bins
  && forallb (fun p => Bool.eqb (coversb bins p) (negb (coversb bl p)))
             (map (fun i => sc + Z.of_nat i) (seq 0 (Z.to_nat (ec - sc))))
  && match frag with
     | None => forallb (fun o => match snd o with None => true | Some _ => false end) out
     | Some f => forallb (window_okb sc ec f bl) out
     end.

Definition pre (sc ec bs : Z) (bl : list iv) (frag : option Z) : bool :=
  (0 <? bs) && (sc <=? ec) && forallb wfb bl && match frag with None => true | Some f => 0 <=? f end.

(* ------------------------------------------------------------------ I/O glue *)
Definition ofIvs (l : list iv) : Val := VL (map ofPair l).
Definition getIvs (v : Val) : list iv := map getPair (getL v).
Definition ofRes {A} (f : A -> Val) (r : Res A) : Val :=
  match r with Ok a => VL [VZ 0; f a] | Raise c => VL [VZ 1; VZ c] end.
Definition ofObin (o : obin) : Val :=
  match o with
  | (b, None) => VL [VZ (fst b); VZ (snd b)]
  | (b, Some w) => VL [VZ (fst b); VZ (snd b); VZ (fst w); VZ (snd w)]
  end.
Definition getObin (v : Val) : obin :=
  match getL v with
  | [a; b] => ((getZ a, getZ b), None)
  | [a; b; c; d] => ((getZ a, getZ b), Some (getZ c, getZ d))
  | _ => ((0, 0), None)
  end.
Definition ofOptIvs (o : option (list iv)) : Val :=
  match o with Some l => VL [VZ 0; ofIvs l] | None => VL [VZ 1; VZ 99] end.

(* input: VL [VZ fn; args...];  fn selects the function *)
Definition run_fn (v : Val) : Val :=
  let fn := getZ (nthV 0 v) in
  let a n := nthV n v in
  match fn with
  | 0 => ofRes ofIvs (fill_range (getZ (a 1%nat)) (getZ (a 2%nat)) (getZ (a 3%nat)))
  | 1 => ofIvs (trim_rangelist (getIvs (a 1%nat)) (getZ (a 2%nat)) (getZ (a 3%nat)))
  | 2 => ofB (range_contains_overlap (getIvs (a 1%nat)))
  | 3 => ofIvs (mpass false (getIvs (a 1%nat)))
  | 4 => ofOptIvs (merge_overlapping_ranges (getIvs (a 1%nat)))
  | 5 => ofRes (fun l => VL (map ofObin l))
               (blacklisted_binning (getZ (a 1%nat)) (getZ (a 2%nat)) (getZ (a 3%nat)) (getIvs (a 4%nat)) (getOptZ (a 5%nat)))
  | 6 => (* bp_chunked: jobs are (start, end) pairs, reported with their index as payload *)
         let jobs := combine (seq 0 (length (getL (a 1%nat)))) (getIvs (a 1%nat)) in
         VL (map (fun ch => VL (map (fun j => VZ (Z.of_nat (fst j))) ch)) (bp_chunked snd jobs (getZ (a 2%nat))))
  | _ => bad
  end.

Definition run_C17 (mode : Z) (v : Val) : Val :=
  match mode with
  | 0 => run_fn v
  | 1 => (* precondition of C17_partition / C17_windows on a blacklisted_binning input *)
         ofB (pre (getZ (nthV 1 v)) (getZ (nthV 2 v)) (getZ (nthV 3 v)) (getIvs (nthV 4 v)) (getOptZ (nthV 5 v)))
  | 2 => (* specb on [input; output] *)
         let i := nthV 0 v in
         ofB (specb (getZ (nthV 1 i)) (getZ (nthV 2 i)) (getZ (nthV 3 i)) (getIvs (nthV 4 i)) (getOptZ (nthV 5 i))
                    (map getObin (getL (nthV 1 v))))
  | _ => bad
  end.
