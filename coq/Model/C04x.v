(* C04 model, generic part: python string primitives, insertion-ordered dictionaries and the TABLE INTERPRETERS of the
   read-name codec.  Nothing here mentions a constant of the source: separators, limits, tag table, character classes,
   the header forms (which piece goes to which tag), the decoder flags and the sample / read-group recipes are all
   ARGUMENTS.  Model/C04.v instantiates them with the tables regenerated from the tree under check (Gen/GenCodec.v);
   Proofs/C04*.v prove the round-trip theorems for EVERY table satisfying the well-formedness predicates below.
   Strings are lists of character codes.  Python exceptions are explicit [Raise] results.  Definitions only. *)
From Coq Require Import ZArith List Bool String Ascii.
Import ListNotations.
Open Scope Z_scope.

Definition str := list Z.
Definition s2z (s : string) : str := map (fun a => Z.of_N (N_of_ascii a)) (list_ascii_of_string s).

Inductive exn := EKey | EValue | ETooLong | ENonMux | EImport | EType | EIndex | EAssert.
Inductive res (A : Type) := Ok (a : A) | Raise (e : exn).
Arguments Ok {A} a.
Arguments Raise {A} e.

Definition bind {A B} (r : res A) (f : A -> res B) : res B :=
  match r with Ok a => f a | Raise e => Raise e end.

Fixpoint mapM {A B} (f : A -> res B) (l : list A) : res (list B) :=
  match l with
  | [] => Ok []
  | a :: r => match f a with
              | Raise e => Raise e
              | Ok b => match mapM f r with Raise e => Raise e | Ok bs => Ok (b :: bs) end
              end
  end.

Definition len {A} (l : list A) : Z := Z.of_nat (List.length l).

Fixpoint str_eqb (a b : str) : bool :=
  match a, b with
  | [], [] => true
  | x :: a', y :: b' => (x =? y) && str_eqb a' b'
  | _, _ => false
  end.

(* ---------------------------------------------------------------- python str primitives *)
(* s.split(sep) for a one-character separator: never empty, keeps empty pieces *)
Fixpoint split (sep : Z) (s : str) : list str :=
  match s with
  | [] => [[]]
  | c :: r => if c =? sep then [] :: split sep r
              else match split sep r with
                   | h :: t => (c :: h) :: t
                   | [] => [[c]]
                   end
  end.

(* sep.join(parts) *)
Fixpoint join (sep : Z) (parts : list str) : str :=
  match parts with
  | [] => []
  | [p] => p
  | p :: r => p ++ sep :: join sep r
  end.

(* s.split(sep, 1): None when the separator does not occur (the 2-name unpacking then fails) *)
Fixpoint split1 (sep : Z) (s : str) : option (str * str) :=
  match s with
  | [] => None
  | c :: r => if c =? sep then Some ([], r)
              else match split1 sep r with Some (a, b) => Some (c :: a, b) | None => None end
  end.

Definition in_chars (cs : list Z) (c : Z) : bool := existsb (Z.eqb c) cs.
Definition in_ranges (rs : list (Z * Z)) (c : Z) : bool := existsb (fun r => (fst r <=? c) && (c <=? snd r)) rs.

(* re.split('a|b', s)  =  s.replace(b, a).split(a): split at every character of a set *)
Fixpoint split_any (seps : list Z) (s : str) : list str :=
  match s with
  | [] => [[]]
  | c :: r => if in_chars seps c then [] :: split_any seps r
              else match split_any seps r with
                   | h :: t => (c :: h) :: t
                   | [] => [[c]]
                   end
  end.

Fixpoint starts_with (p s : str) : bool :=
  match p, s with
  | [], _ => true
  | a :: p', b :: s' => (a =? b) && starts_with p' s'
  | _ :: _, [] => false
  end.

(* s.replace(p, ''): non-overlapping occurrences, leftmost first; [skip] characters of a match are still to be dropped *)
Fixpoint remove_sub_aux (p : str) (skip : nat) (s : str) : str :=
  match s with
  | [] => []
  | c :: r => match skip with
              | S k => remove_sub_aux p k r
              | O => if starts_with p s then remove_sub_aux p (Nat.pred (List.length p)) r
                     else c :: remove_sub_aux p O r
              end
  end.
Definition remove_sub (p s : str) : str := match p with [] => s | _ => remove_sub_aux p O s end.

(* s.strip() with the whitespace set as argument *)
Fixpoint lstrip_g (sp : list Z) (s : str) : str :=
  match s with
  | [] => []
  | c :: r => if in_chars sp c then lstrip_g sp r else s
  end.
Definition rstrip_g (sp : list Z) (s : str) : str := rev (lstrip_g sp (rev s)).
Definition strip_g (sp : list Z) (s : str) : str := rstrip_g sp (lstrip_g sp s).

Definition count (c : Z) (s : str) : Z := len (filter (Z.eqb c) s).

(* l[i] with python index rules; None = IndexError *)
Definition py_getitem (l : list Z) (i : Z) : option Z :=
  let n := len l in
  let j := if i <? 0 then i + n else i in
  if (j <? 0) || (n <=? j) then None else nth_error l (Z.to_nat j).

(* l.index(c); None = ValueError *)
Fixpoint index_of (c : Z) (l : list Z) : option Z :=
  match l with
  | [] => None
  | x :: r => if x =? c then Some 0 else match index_of c r with Some i => Some (i + 1) | None => None end
  end.

Definition clampZ (lo hi x : Z) : Z := Z.min (Z.max lo x) hi.

(* the character filter of fqSafe, the kept class given as closed ranges *)
Definition fqSafe_g (keep : list (Z * Z)) (s : str) : str := filter (in_ranges keep) s.

(* ---------------------------------------------------------------- dictionaries (insertion ordered) *)
Section Dict.
  Context {V : Type}.
  Fixpoint get (k : str) (d : list (str * V)) : option V :=
    match d with
    | [] => None
    | (k', v) :: r => if str_eqb k k' then Some v else get k r
    end.
  Definition has (k : str) (d : list (str * V)) : bool := match get k d with Some _ => true | None => false end.
  (* d[k] = v *)
  Fixpoint dset (k : str) (v : V) (d : list (str * V)) : list (str * V) :=
    match d with
    | [] => [(k, v)]
    | (k', v') :: r => if str_eqb k k' then (k', v) :: r else (k', v') :: dset k v r
    end.
  Definition ddel (k : str) (d : list (str * V)) : list (str * V) :=
    filter (fun kv => negb (str_eqb k (fst kv))) d.
  Definition update (d : list (str * V)) (kvs : list (str * V)) : list (str * V) :=
    fold_left (fun d kv => dset (fst kv) (snd kv) d) kvs d.
End Dict.

Definition store := list (str * str).

(* tag values as python holds them on the tagger side: str or int *)
Inductive tval := TS (s : str) | TI (z : Z).
Definition rstore := list (str * tval).

(* str(int) *)
Fixpoint dec_pos (fuel : nat) (n : Z) (acc : str) : str :=
  match fuel with
  | O => acc
  | S f => let acc' := (48 + n mod 10) :: acc in if n <? 10 then acc' else dec_pos f (n / 10) acc'
  end.
Definition dec (z : Z) : str := if z <? 0 then 45 :: dec_pos 60 (- z) [] else dec_pos 60 z [].
(* f"{value}" *)
Definition fmt (v : tval) : str := match v with TS s => s | TI z => dec z end.

Fixpoint all_some {A} (l : list (option A)) : option (list A) :=
  match l with
  | [] => Some []
  | None :: _ => None
  | Some a :: r => match all_some r with Some x => Some (a :: x) | None => None end
  end.

(* key, value = s.split(sep [, maxsplit]): None = the unpacking fails (ValueError).
   maxsplit < 0 stands for "no maxsplit argument" *)
Definition split_kv_g (sep maxsplit : Z) (s : str) : option (str * str) :=
  if maxsplit =? 0 then None
  else if maxsplit =? 1 then split1 sep s
  else match split sep s with [k; v] => Some (k, v) | _ => None end.

(* ================================================================ the header codec: asFastq / fromTaggedBamRecord *)
Record codec := {
  k_isep : Z;      (* asFastq: between two items *)
  k_kvsep : Z;     (* asFastq: between attribute and value *)
  k_disep : Z;     (* fromTaggedBamRecord: query_name.split(...) *)
  k_dkvsep : Z;    (* fromTaggedBamRecord: keyValue.split(...) *)
  k_limit : Z;     (* asFastq: longest header that is not refused *)
  k_tags : list (str * (bool * bool));   (* tags.py: tag -> (isPhred, doNotWrite) *)
  k_keep : list (Z * Z);                 (* fqSafe: characters that survive *)
  k_space : list Z;                      (* str.strip(): characters removed *)
  k_strip : bool;                        (* fromTaggedBamRecord strips the query name *)
  k_maxsplit : Z;                        (* maxsplit of keyValue.split, < 0 = none *)
  k_safe : bool                          (* addTagByTag(key, value, isPhred=False) stores fqSafe(value) *)
}.

Section Codec.
  Variable C : codec.

  Definition tagdef_g (k : str) : option (bool * bool) := get k (k_tags C).
  Definition keep_g (c : Z) : bool := in_ranges (k_keep C) c.
  Definition space_g (c : Z) : bool := in_chars (k_space C) c.

  (* the (attribute, value) pairs that are written; KeyError for a tag without definition *)
  Fixpoint written_g (t : store) : res store :=
    match t with
    | [] => Ok []
    | (k, v) :: r =>
        match tagdef_g k with
        | None => Raise EKey
        | Some (_, dnw) => match written_g r with
                           | Raise e => Raise e
                           | Ok w => Ok (if dnw then w else (k, v) :: w)
                           end
        end
    end.

  Definition item_g (kv : str * str) : str := fst kv ++ k_kvsep C :: snd kv.
  Definition header_of_g (w : store) : str := join (k_isep C) (map item_g w).

  (* the header without the leading '@' = the query name the aligner stores; refused when too long *)
  Definition encode_g (t : store) : res str :=
    match written_g t with
    | Raise e => Raise e
    | Ok w => let h := header_of_g w in if k_limit C <? len h then Raise ETooLong else Ok h
    end.

  (* what the decoder stores for a value *)
  Definition dec_val_g (v : str) : tval := TS (if k_safe C then fqSafe_g (k_keep C) v else v).

  (* the loop  for keyValue in ...: key, value = keyValue.split(':'); addTagByTag(key, value, isPhred=False)
     returns the store so far and whether it ran to completion (false = ValueError at some item) *)
  Fixpoint add_items_g (items : list str) (d : rstore) : rstore * bool :=
    match items with
    | [] => (d, true)
    | it :: r => match split_kv_g (k_dkvsep C) (k_maxsplit C) it with
                 | None => (d, false)
                 | Some (k, v) => add_items_g r (dset k (dec_val_g v) d)
                 end
    end.

  (* fromTaggedBamRecord; [pi] is _parse_illumina_header(illumina_header, None, None) of the fallback *)
  Definition decode_g (pi : str -> rstore -> rstore * option exn) (q : str) : res rstore :=
    let s := if k_strip C then strip_g (k_space C) q else q in
    match add_items_g (split (k_disep C) s) [] with
    | (d, true) => Ok d
    | (d, false) =>
        (* "Single Cell Discoveries" fallback *)
        match split1 (k_disep C) s with
        | None => Raise EValue
        | Some (ih, attrs) =>
            match pi ih d with
            | (_, Some e) => Raise e
            | (d', None) => match add_items_g (split (k_disep C) attrs) d' with
                            | (d'', true) => Ok d''
                            | (_, false) => Raise EValue
                            end
            end
        end
    end.

  (* ---- preconditions (booleans) *)
  Definition sepfree_char_g (c : Z) : bool :=
    negb (c =? k_isep C) && negb (c =? k_kvsep C) && negb (space_g c).
  Definition sepfree_g (s : str) : bool := forallb sepfree_char_g s.
  Definition safe_g (s : str) : bool := forallb keep_g s.

  Fixpoint nodup_keys (d : store) : bool :=
    match d with
    | [] => true
    | (k, _) :: r => negb (has k r) && nodup_keys r
    end.

  (* a store the round-trip theorem speaks about: a dict, every key defined, no value contains a separator or blank *)
  Definition wf_store_g (t : store) : bool :=
    nodup_keys t && forallb (fun kv => match tagdef_g (fst kv) with Some _ => true | None => false end) t
    && forallb (fun kv => sepfree_g (snd kv)) t.

  (* WELL-FORMED CODEC TABLES: both sides use the same two separators, which differ, lie outside the value alphabet
     (the class fqSafe keeps) and are not blanks; no blank is in the value alphabet; every tag name is two characters
     of the value alphabet; the key/value split is the plain one or maxsplit=1 *)
  Definition wf_codec : bool :=
    (k_isep C =? k_disep C) && (k_kvsep C =? k_dkvsep C) && negb (k_isep C =? k_kvsep C)
    && negb (keep_g (k_isep C)) && negb (keep_g (k_kvsep C))
    && negb (space_g (k_isep C)) && negb (space_g (k_kvsep C))
    && forallb (fun c => negb (keep_g c)) (k_space C)
    && forallb (fun e => (len (fst e) =? 2) && forallb keep_g (fst e)) (k_tags C)
    && negb (k_maxsplit C =? 0).
End Codec.

(* ================================================================ header forms of the demultiplexer *)
(* where an assigned value comes from: the i-th piece of the split header, a string constant, a python int *)
Inductive src := SField (i : nat) | SStr (s : str) | SInt (z : Z).

Record form := {
  f_del : str;                      (* header.replace(f_del, '') before the split; [] = nothing *)
  f_seps : list Z;                  (* the header is split at every one of these characters *)
  f_n : Z;                          (* number of names on the left of the unpacking *)
  f_assign : list (str * src);      (* self.tags.update({tag: source, ...}) in dictionary order *)
  f_idx : src                       (* indexSequence *)
}.

Definition form_pieces (F : form) (h : str) : option (list str) :=
  let p := split_any (f_seps F) (remove_sub (f_del F) h) in
  if len p =? f_n F then Some p else None.

(* the nested try/except: the first form whose unpacking succeeds *)
Fixpoint first_form (forms : list form) (h : str) : option (form * list str) :=
  match forms with
  | [] => None
  | F :: r => match form_pieces F h with
              | Some p => Some (F, p)
              | None => first_form r h
              end
  end.

Definition eval_src (ps : list str) (s : src) : tval :=
  match s with SField i => TS (nth i ps []) | SStr x => TS x | SInt z => TI z end.

Definition form_assign (F : form) (ps : list str) : list (str * tval) :=
  map (fun a => (fst a, eval_src ps (snd a))) (f_assign F).

(* answers of the sequencing-index lookup (C03's subject) and of the int() test for the candidate index
   sequences: None = no index parser given; table entry None = index not recognised *)
Definition idx_oracle := option (list (str * option (str * str))).

(* _parse_illumina_header: the store after the call and the exception, if any.  [inj] says how the
   store holds a value: as is on the tagger side, printed (f-string) on the demultiplexer side.
   [raw_tag] receives the index as written, [found] = (tag, 0 corrected index | 1 index identifier) *)
Definition parse_illumina_g {V} (forms : list form) (raw_tag : str) (found : list (str * Z)) (inj : tval -> V)
  (h : str) (ix : idx_oracle) (d : list (str * V)) : list (str * V) * option exn :=
  match first_form forms h with
  | None => (d, Some EValue)
  | Some (F, ps) =>
      let d1 := update d (map (fun kv => (fst kv, inj (snd kv))) (form_assign F ps)) in
      let idx := fmt (eval_src ps (f_idx F)) in
      let d2 := dset raw_tag (inj (TS idx)) d1 in
      match ix with
      | None => (d2, None)
      | Some tbl =>
          match get idx tbl with
          | Some (Some (ident, corrected)) =>
              (update d2 (map (fun a => (fst a, inj (TS (if snd a =? 0 then corrected else ident)))) found), None)
          | _ => (d2, Some ENonMux)
          end
      end
  end.

(* parse_scmo_header: tags.update(dict(kv.split(kvsep) for kv in header.strip()[drop:].split(isep))) *)
Definition parse_scmo_g (strip_first : bool) (spaces : list Z) (drop : nat) (isep kvsep : Z) (h : str) (d : store)
  : res store :=
  let s := skipn drop (if strip_first then strip_g spaces h else h) in
  match all_some (map (split_kv_g kvsep (-1)) (split isep s)) with
  | None => Raise EValue
  | Some kvs => Ok (update d kvs)
  end.

(* parse_3dec_header *)
Record threedec := {
  t_sep : Z; t_nsep : Z;            (* header.count(t_sep) == t_nsep, else the pending exception is re-raised *)
  t_check : nat; t_value : str;     (* assert pieces[t_check] == t_value *)
  t_assign : list (str * src)
}.

Definition parse_3dec_g (T : threedec) (h : str) (d : store) (pending : exn) : res store :=
  if count (t_sep T) h =? t_nsep T then
    let ps := split (t_sep T) h in
    if str_eqb (nth (t_check T) ps []) (t_value T)
    then Ok (update d (map (fun a => (fst a, fmt (eval_src ps (snd a)))) (t_assign T)))
    else Raise EAssert
  else Raise pending.

(* ---- well-formedness of the form tables against the name format of the tagger (asIlluminaHeader):
   no tag twice in a form, the k-th name key is filled from piece k, there are at least that many pieces,
   every separator of every form lies outside the value alphabet, and the index tags do not collide with name keys *)
Definition src_is_field (s : src) (i : nat) : bool := match s with SField j => Nat.eqb i j | _ => false end.

Fixpoint nodup_strs (l : list str) : bool :=
  match l with [] => true | k :: r => negb (existsb (str_eqb k) r) && nodup_strs r end.

Fixpoint name_inverts_from (i : nat) (name_keys : list str) (a : list (str * src)) : bool :=
  match name_keys with
  | [] => true
  | k :: r => (match get k a with Some s => src_is_field s i | None => false end) && name_inverts_from (S i) r a
  end.

Definition wf_form (keep : list (Z * Z)) (name_keys : list str) (other : list str) (F : form) : bool :=
  nodup_strs (map fst (f_assign F)) && name_inverts_from O name_keys (f_assign F)
  && (len name_keys <=? f_n F) && forallb (fun c => negb (in_ranges keep c)) (f_seps F)
  && forallb (fun k => negb (existsb (str_eqb k) other)) name_keys.

(* ================================================================ tagger side *)
Fixpoint hamming (a b : str) : Z :=
  match a, b with
  | x :: a', y :: b' =>
      (if negb (x =? y) && negb (x =? 78) && negb (y =? 78) then 1 else 0) + hamming a' b'
  | _, _ => 0
  end.

Record molacc := { m_id : str; m_q : str; m_qt_missing : bool; m_nonmux : bool; m_terr : bool }.

(* the loop over moleculeIdentifiyingTags; stops at the NonMultiplexable.  Concatenating an int value is a
   TypeError (m_terr); the decoder only ever stores ints under RP / Fi / CN, so this does not arise.
   [pad] is the padding character of a tag without quality tag, [qt] the quality tag whose absence is remembered *)
Fixpoint mol_loop (pad : Z) (qt : str) (spec : list (str * (str * (bool * bool)))) (d : rstore) (a : molacc) : molacc :=
  match spec with
  | [] => a
  | (tag, (qtag, (hasq, required))) :: r =>
      let a1 :=
        match get tag d with
        | Some (TS v) =>
            let mi := m_id a ++ v in
            if hasq then
              match get qtag d with
              | Some (TS qv) => {| m_id := mi; m_q := m_q a ++ qv; m_qt_missing := m_qt_missing a;
                                   m_nonmux := false; m_terr := m_terr a |}
              | Some (TI _) => {| m_id := mi; m_q := m_q a; m_qt_missing := m_qt_missing a;
                                  m_nonmux := false; m_terr := true |}
              | None => {| m_id := mi; m_q := m_q a; m_qt_missing := m_qt_missing a || str_eqb qtag qt;
                           m_nonmux := false; m_terr := m_terr a |}
              end
            else {| m_id := mi; m_q := m_q a ++ repeat pad (List.length v);
                    m_qt_missing := m_qt_missing a; m_nonmux := false; m_terr := m_terr a |}
        | Some (TI _) => {| m_id := m_id a; m_q := m_q a; m_qt_missing := m_qt_missing a;
                            m_nonmux := false; m_terr := true |}
        | None => a
        end in
      if m_terr a1 then a1
      else if required && negb (has tag d)
      then {| m_id := m_id a1; m_q := m_q a1; m_qt_missing := m_qt_missing a1; m_nonmux := true; m_terr := false |}
      else mol_loop pad qt r d a1
  end.

(* an f-string over the tag store: (0, tag) = {self.tags[tag]} (KeyError when absent), (1, s) = literal text *)
Fixpoint eval_parts (parts : list (Z * str)) (d : rstore) : res str :=
  match parts with
  | [] => Ok []
  | (k, s) :: r =>
      match (if k =? 0 then match get s d with Some v => Ok (fmt v) | None => Raise EKey end else Ok s) with
      | Raise e => Raise e
      | Ok x => match eval_parts r d with Raise e => Raise e | Ok y => Ok (x ++ y) end
      end
  end.

(* the if / elif chain that names the sample: the first recipe whose guard tag is present;
   addTagByTag(smtag, f-string, isPhred=False) [; tags[ren] = tags[guard]; del tags[guard]] *)
Fixpoint sm_apply (keep : list (Z * Z)) (smtag : str) (recipes : list (str * (list (Z * str) * str))) (r : rstore)
  : res rstore :=
  match recipes with
  | [] => Ok r
  | (guard, (parts, ren)) :: rest =>
      if has guard r then
        match eval_parts parts r with
        | Raise e => Raise e
        | Ok s => let r1 := dset smtag (TS (fqSafe_g keep s)) r in
                  Ok (match ren with
                      | [] => r1
                      | _ => match get guard r1 with Some gv => ddel guard (dset ren gv r1) | None => r1 end
                      end)
        end
      else sm_apply keep smtag rest r
  end.

(* the read group f-string over the tags of the read: (0, (tag, default)) / (1, (literal, _)) *)
Definition eval_rg (parts : list (Z * (str * str))) (out : rstore) : str :=
  List.concat (map (fun p => if fst p =? 0
                        then match get (fst (snd p)) out with Some v => fmt v | None => snd (snd p) end
                        else fst (snd p)) parts).

Definition tlen (v : tval) : option Z := match v with TS s => Some (len s) | TI _ => None end.
