(* C03 model: singlecellmultiomics/barcodeFileParser/barcodeFileParser.py
   hamming_circle, BarcodeParser.addBarcode / expand / getIndexCorrectedBarcodeAndHammingDistance and
   the lazy-loading path (parse_pending_barcode_file_of_alias).  Executable definitions only.

   Strings are lists of character codes (Z).  Python dicts are insertion-ordered association lists
   (dget/dset/dappend).  Cell indices are integers (the harness abstracts string indices to integers).
   Distances and the expansion radius are nat (lengths).

   What is NOT modelled here (glue, covered by the correspondence check only): the tokenisation of the
   barcode file and the detection of the column order in parse_barcode_file; the model starts from the
   list of (barcode, index) pairs in file order, i.e. the sequence of addBarcode calls parse_barcode_file
   makes.

   The kernel the theorems hinge on is REGENERATED from the source on every run (Gen/GenBarcode.v, written
   by tools/c03.py regen_barcode, fail closed) and USED here: the alphabet literal and the replacement
   range / rule of hamming_circle (gen_alphabet, gen_repl_range, gen_replace), the distance range of expand
   (gen_dist_range), its tie test and the index of the assigned entry (gen_tie, gen_pick_index), the order of
   the lookups (gen_lookup_order), the character class of the column detection (gen_column_class). *)
From Coq Require Import ZArith List Bool Arith.
Import ListNotations.
From SCMO Require Import Lib.Val Lib.PyInt Gen.GenBarcode.

Definition str := list Z.

Fixpoint str_eqb (a b : str) : bool :=
  match a, b with
  | [], [] => true
  | x :: a', y :: b' => Z.eqb x y && str_eqb a' b'
  | _, _ => false
  end.

(* ---------------------------------------------------------------- hamming_circle(s, n, alphabet)
   for positions in combinations(range(len(s)), n):
     for replacements in product(range(len(alphabet) - 1), repeat=n):
        cousin[p] = alphabet[-1] if cousin[p] == alphabet[r] else alphabet[r]
   [repl al c] is the list of characters position p can be replaced by, in the order r = 0,1,2,...;
   [circle] enumerates by structural recursion on the string (position 0 replaced / not replaced).
   The ORDER of the enumeration differs from itertools (combinations outermost there); the order is not
   observable through the dictionaries the instances are stored in; K compares hamming_circle with
   [circle] as sorted lists, which pins the multiset. *)
Definition alphabet : str := gen_alphabet.             (* the literal expand() passes *)

(* for r in <gen_repl_range>: alphabet[-1] if cousin[p] == alphabet[r] else alphabet[r]  (gen_replace) *)
Definition repl (al : str) (c : Z) : list Z :=
  let alen := Z.of_nat (length al) in
  let aat := fun i => nth (Z.to_nat i) al 0%Z in
  map (fun r => gen_replace alen aat c (aat r)) (gen_repl_range alen).

Fixpoint circle (al : str) (s : str) (n : nat) : list str :=
  match s with
  | [] => match n with O => [[]] | S _ => [] end
  | c :: s' =>
      (match n with
       | O => []
       | S m => flat_map (fun r => map (cons r) (circle al s' m)) (repl al c)
       end) ++ map (cons c) (circle al s' n)
  end.

Fixpoint hamming (x y : str) : nat :=
  match x, y with
  | a :: x', b :: y' => (if Z.eqb a b then 0 else 1) + hamming x' y'
  | _, _ => 0
  end.

(* ---------------------------------------------------------------- dict (insertion ordered) *)
Fixpoint dget {V : Type} (k : str) (d : list (str * V)) : option V :=
  match d with
  | [] => None
  | (k', v) :: d' => if str_eqb k k' then Some v else dget k d'
  end.

Fixpoint dset {V : Type} (k : str) (v : V) (d : list (str * V)) : list (str * V) :=
  match d with
  | [] => [(k, v)]
  | (k', v') :: d' => if str_eqb k k' then (k', v) :: d' else (k', v') :: dset k v d'
  end.

(* defaultdict(list)[k].append(x) *)
Fixpoint dappend {X : Type} (k : str) (x : X) (d : list (str * list X)) : list (str * list X) :=
  match d with
  | [] => [(k, [x])]
  | (k', l) :: d' => if str_eqb k k' then (k', l ++ [x]) :: d' else (k', l) :: dappend k x d'
  end.

(* ---------------------------------------------------------------- sorted() on (distance, origin) tuples *)
Definition entry := (nat * str)%type.

Fixpoint str_leb (a b : str) : bool :=
  match a, b with
  | [], _ => true
  | _ :: _, [] => false
  | x :: a', y :: b' => if Z.ltb x y then true else if Z.eqb x y then str_leb a' b' else false
  end.

Definition entry_leb (x y : entry) : bool :=
  Nat.ltb (fst x) (fst y) || (Nat.eqb (fst x) (fst y) && str_leb (snd x) (snd y)).

Fixpoint insert (x : entry) (l : list entry) : list entry :=
  match l with
  | [] => [x]
  | y :: l' => if entry_leb x y then x :: l else y :: insert x l'
  end.

Definition sort (l : list entry) : list entry := fold_right insert [] l.

(* ---------------------------------------------------------------- tables of one alias *)
Definition hit := (Z * str * nat)%type.                  (* (index, originBarcode, hammingDistance) *)

Record tables := { bcs : list (str * Z); ext : list (str * hit) }.

Inductive res :=
| Ok (t : tables)
| KeyError          (* self.barcodes[alias][origin] on a missing origin *)
| IndexError.       (* sortedDistances[0] on an empty list *)

(* addBarcode as called by expand (originBarcode is always given there, so its ValueError arm is dead) *)
Definition add_barcode (t : tables) (bc : str) (idx : Z) (d : nat) (origin : str) : tables :=
  if Nat.eqb d 0 then {| bcs := dset bc idx (bcs t); ext := ext t |}
  else {| bcs := bcs t; ext := dset bc (idx, origin, d) (ext t) |}.

(* addBarcode as called by parse_barcode_file (hammingDistance = 0) for each line, in file order *)
Definition load_into (t : tables) (lines : list (str * Z)) : tables :=
  {| bcs := fold_left (fun d l => dset (fst l) (snd l) d) lines (bcs t); ext := ext t |}.

Definition empty_tables : tables := {| bcs := []; ext := [] |}.
Definition load (lines : list (str * Z)) : tables := load_into empty_tables lines.

(* ---------------------------------------------------------------- expand *)
Definition hspace := list (str * list entry).             (* hammingBarcode -> [(distance, origin)] *)

Definition add_circle (b : str) (hs : hspace) (d : nat) : hspace :=
  fold_left (fun h inst => dappend inst (d, b) h) (circle alphabet b d) hs.

(* for hammingDistance in <gen_dist_range hammingDistanceExpansion> *)
Definition add_barcode_space (k : nat) (hs : hspace) (b : str) : hspace :=
  fold_left (add_circle b) (map Z.to_nat (gen_dist_range (Z.of_nat k))) hs.

(* for barcode in barcodes *)
Definition build_space (k : nat) (keys : list str) : hspace :=
  fold_left (add_barcode_space k) keys [].

(* body of "for hammingBarcode in hammingSpace" *)
Definition resolve_step (r : res) (e : str * list entry) : res :=
  match r with
  | Ok t =>
      let s := sort (snd e) in
      let len := Z.of_nat (length s) in
      let dist := fun i => Z.of_nat (fst (nth (Z.to_nat i) s (0%nat, []))) in
      if gen_tie len dist
      then Ok t                                            (* two origins at the same distance: continue *)
      else match nth_error s (Z.to_nat (gen_pick_index len)) with
           | None => IndexError
           | Some x => match dget (snd x) (bcs t) with
                       | None => KeyError
                       | Some i => Ok (add_barcode t (fst e) i (fst x) (snd x))
                       end
           end
  | _ => r
  end.

Definition expand (k : nat) (t : tables) : res :=
  fold_left resolve_step (build_space k (map fst (bcs t))) (Ok t).

(* ---------------------------------------------------------------- lookup *)
(* getIndexCorrectedBarcodeAndHammingDistance on a loaded alias; None stands for (None, None, None) *)
(* the stages of the lookup, tried in the order the source lists them (gen_lookup_order):
   0 exact table, 1 extended table, 2 load the pending alias (nothing to find in the tables themselves) *)
Definition lookup_stage (t : tables) (q : str) (s : Z) : option hit :=
  if Z.eqb s 0 then match dget q (bcs t) with Some i => Some (i, q, 0%nat) | None => None end
  else if Z.eqb s 1 then dget q (ext t)
  else None.

Fixpoint lookup_stages (t : tables) (q : str) (stages : list Z) : option hit :=
  match stages with
  | [] => None
  | s :: rest => match lookup_stage t q s with Some a => Some a | None => lookup_stages t q rest end
  end.

Definition lookup (t : tables) (q : str) : option hit := lookup_stages t q gen_lookup_order.

(* the parser with respect to one alias: pending_files[alias] present or not *)
Record parser := { p_k : nat; p_pending : option (list (str * Z)); p_tab : tables }.

Inductive answer :=
| Ans (o : option hit)
| Raised
| Items (d : list (str * Z))      (* parser[alias]: the exact table (None and {} are identified with []) *)
| Counts (n m : nat).             (* getTargetCount(alias) *)

(* __init__ for an alias that is not lazily loaded: parse; expand only "if hammingDistanceExpansion > 0" *)
Definition eager_tables (k : nat) (lines : list (str * Z)) : res :=
  if Nat.ltb 0 k then expand k (load lines) else Ok (load lines).

Definition eager_init (k : nat) (lines : list (str * Z)) : option parser :=
  match eager_tables k lines with
  | Ok t => Some {| p_k := k; p_pending := None; p_tab := t |}
  | _ => None
  end.

(* __init__ for a lazily loaded alias *)
Definition lazy_init (k : nat) (lines : list (str * Z)) : parser :=
  {| p_k := k; p_pending := Some lines; p_tab := empty_tables |}.

(* getIndexCorrectedBarcodeAndHammingDistance(barcode, alias) including the lazy-load retry:
   exact table, extended table, then (alias pending) parse + expand(self.hammingDistanceExpansion)
   whatever its value, delete the pending entry, look up once more *)
Fixpoint get_stages (p : parser) (q : str) (stages : list Z) : parser * answer :=
  match stages with
  | [] => (p, Ans None)
  | s :: rest =>
      if Z.eqb s 2 then
        match p_pending p with
        | None => get_stages p q rest
        | Some lines =>
            match expand (p_k p) (load_into (p_tab p) lines) with
            | Ok t' => ({| p_k := p_k p; p_pending := None; p_tab := t' |}, Ans (lookup t' q))
            | _ => (p, Raised)
            end
        end
      else match lookup_stage (p_tab p) q s with
           | Some a => (p, Ans (Some a))
           | None => get_stages p q rest
           end
  end.

Definition get (p : parser) (q : str) : parser * answer := get_stages p q gen_lookup_order.

Fixpoint answers (p : parser) (qs : list str) : list answer :=
  match qs with
  | [] => []
  | q :: qs' => let '(p', a) := get p q in a :: answers p' qs'
  end.

(* The public operations of BarcodeParser on one alias that read its tables:
     OLookup q     getIndexCorrectedBarcodeAndHammingDistance(q, alias)     loads a pending alias
     OGetItem      parser[alias]  (__getitem__)                             loads a pending alias
     OTargetCount  getTargetCount(alias)                                    does NOT load (a pending alias
                                                                            reports (0, 0)); no state change
   (getBarcodeMapping() and list() read self.barcodes without loading, like getTargetCount; addBarcode /
   expand / parse_barcode_file are the mutators modelled above; there is no __contains__.) *)
Inductive op :=
| OLookup (q : str)
| OGetItem
| OTargetCount.

(* __getitem__: "if alias in self.pending_files: self.parse_pending_barcode_file_of_alias(alias)"
   (parse + expand(self.hammingDistanceExpansion) + delete the pending entry), then self.barcodes.get(alias) *)
Definition getitem (p : parser) : parser * answer :=
  match p_pending p with
  | None => (p, Items (bcs (p_tab p)))
  | Some lines =>
      match expand (p_k p) (load_into (p_tab p) lines) with
      | Ok t' => ({| p_k := p_k p; p_pending := None; p_tab := t' |}, Items (bcs t'))
      | _ => (p, Raised)
      end
  end.

Definition target_count (p : parser) : parser * answer :=
  (p, Counts (length (bcs (p_tab p))) (length (ext (p_tab p)))).

Definition step (p : parser) (o : op) : parser * answer :=
  match o with
  | OLookup q => get p q
  | OGetItem => getitem p
  | OTargetCount => target_count p
  end.

Fixpoint run_ops (p : parser) (ops : list op) : list answer :=
  match ops with
  | [] => []
  | o :: ops' => let '(p', a) := step p o in a :: run_ops p' ops'
  end.

(* getTargetCount is the one observation that tells a pending alias from a loaded one; it is erased when
   lazy and eager histories are compared (it never changes the state) *)
Definition mask (a : answer) : answer :=
  match a with Counts _ _ => Counts 0 0 | _ => a end.

(* ---------------------------------------------------------------- column-order detection of parse_barcode_file
   rows: the two tokens of each 2-column line.  First pass: indexFirst = not all(c in <gen_column_class>
   for c in parts[0]); indexNotFirst = some line has a first token made of class characters only.
   Second pass: (barcode, index) = parts if indexNotFirst else (index, barcode) = parts. *)
Definition is_barcode_token (tok : str) : bool :=
  forallb (fun c => existsb (Z.eqb c) gen_column_class) tok.
Definition index_not_first (rows : list (str * str)) : bool :=
  existsb (fun r => is_barcode_token (fst r)) rows.
Definition parse_rows (rows : list (str * str)) : list (str * str) :=      (* (barcode, index token) *)
  if index_not_first rows then rows else map (fun r => (snd r, fst r)) rows.

(* ---------------------------------------------------------------- boolean specification *)
Definition in_alphabet (s : str) : bool := forallb (fun c => existsb (Z.eqb c) alphabet) s.
Definition wf_lines (lines : list (str * Z)) : bool := forallb (fun l => in_alphabet (fst l)) lines.

(* b is whitelisted, within k of q, and every other whitelisted barcode (of q's length) is strictly farther *)
Definition nearestb (keys : list str) (k : nat) (q b : str) (d : nat) : bool :=
  existsb (str_eqb b) keys && Nat.eqb (length q) (length b) && Nat.eqb (hamming q b) d && Nat.leb d k &&
  forallb (fun b' => str_eqb b' b || negb (Nat.eqb (length b') (length q)) || Nat.ltb d (hamming q b')) keys.

Definition hit_eqb (a b : hit) : bool :=
  Z.eqb (fst (fst a)) (fst (fst b)) && str_eqb (snd (fst a)) (snd (fst b)) && Nat.eqb (snd a) (snd b).

Definition specb (lines : list (str * Z)) (k : nat) (q : str) (out : option hit) : bool :=
  let t := load lines in
  let keys := map fst (bcs t) in
  match out with
  | Some (i, b, d) =>
      nearestb keys k q b d && match dget b (bcs t) with Some i' => Z.eqb i i' | None => false end
  | None => forallb (fun b => negb (nearestb keys k q b (hamming q b))) keys
  end.

(* the textbook well-formedness: all barcodes of one length, no duplicate lines (NOT needed by the
   theorems, measured by K) *)
Definition equal_length (lines : list (str * Z)) : bool :=
  match lines with
  | [] => true
  | l0 :: _ => forallb (fun l => Nat.eqb (length (fst l)) (length (fst l0))) lines
  end.
Fixpoint nodup_lines (lines : list (str * Z)) : bool :=
  match lines with
  | [] => true
  | l :: r => negb (existsb (fun l' => str_eqb (fst l) (fst l')) r) && nodup_lines r
  end.

(* ---------------------------------------------------------------- I/O glue *)
Definition dec_line (v : Val) : str * Z := (getZs (nthV 0 v), getZ (nthV 1 v)).
Definition dec_lines (v : Val) : list (str * Z) := map dec_line (getL v).
Definition enc_hit (h : hit) : Val :=
  let '(i, b, d) := h in VL [VZ i; ofZs b; VZ (Z.of_nat d)].
Definition dec_hit (v : Val) : option hit :=
  match getL v with
  | [] => None
  | h :: _ => Some (getZ (nthV 0 h), getZs (nthV 1 h), Z.to_nat (getZ (nthV 2 h)))
  end.
Definition enc_answer (a : answer) : Val :=
  match a with
  | Ans o => ofOpt enc_hit o
  | Raised => VL [VZ (-1)]
  | Items d => VL [VZ (-2); VL (map (fun e => VL [ofZs (fst e); VZ (snd e)]) d)]
  | Counts n m => VL [VZ (-3); VZ (Z.of_nat n); VZ (Z.of_nat m)]
  end.

(* [0; q] lookup, [1] parser[alias], [2] getTargetCount *)
Definition dec_op (v : Val) : op :=
  match getZ (nthV 0 v) with
  | 0 => OLookup (getZs (nthV 1 v))
  | 1 => OGetItem
  | _ => OTargetCount
  end%Z.

(* input: [lines; k; queries; lazy]
   mode 0: answers of the parser (eager or lazy) to the query sequence
   mode 1: [wf_lines; equal_length; nodup_lines; [in_alphabet q ...]]
   mode 2: input = [[lines; k; queries; lazy]; outputs]  ->  [specb ... per query]
   mode 3: input = [s; n] -> circle alphabet s n (model order)
   mode 4: input = [lines; k] -> the tables after eager loading (exact, extended)
   mode 5: input = [lines; k; ops; lazy] -> answers of the parser to the operation history
   mode 6: input = [[tok0; tok1] ...] -> parse_rows: [[barcode; index token] ...] *)
Definition run_C03 (mode : Z) (v : Val) : Val :=
  match mode with
  | 0 => let lines := dec_lines (nthV 0 v) in
         let k := Z.to_nat (getZ (nthV 1 v)) in
         let qs := map getZs (getL (nthV 2 v)) in
         if getB (nthV 3 v)
         then VL (map enc_answer (answers (lazy_init k lines) qs))
         else match eager_init k lines with
              | Some p => VL (map enc_answer (answers p qs))
              | None => VL [VZ (-1)]
              end
  | 1 => let lines := dec_lines (nthV 0 v) in
         let qs := map getZs (getL (nthV 2 v)) in
         VL [ofB (wf_lines lines); ofB (equal_length lines); ofB (nodup_lines lines);
             VL (map (fun q => ofB (in_alphabet q)) qs)]
  | 2 => let i := nthV 0 v in
         let lines := dec_lines (nthV 0 i) in
         let k := Z.to_nat (getZ (nthV 1 i)) in
         let qs := map getZs (getL (nthV 2 i)) in
         VL (map (fun qo => ofB (specb lines k (fst qo) (dec_hit (snd qo)))) (combine qs (getL (nthV 1 v))))
  | 3 => VL (map ofZs (circle alphabet (getZs (nthV 0 v)) (Z.to_nat (getZ (nthV 1 v)))))
  | 4 => match eager_tables (Z.to_nat (getZ (nthV 1 v))) (dec_lines (nthV 0 v)) with
         | Ok t => VL [VL (map (fun e => VL [ofZs (fst e); VZ (snd e)]) (bcs t));
                       VL (map (fun e => VL [ofZs (fst e); enc_hit (snd e)]) (ext t))]
         | _ => VL [VZ (-1)]
         end
  | 5 => let lines := dec_lines (nthV 0 v) in
         let k := Z.to_nat (getZ (nthV 1 v)) in
         let ops := map dec_op (getL (nthV 2 v)) in
         if getB (nthV 3 v)
         then VL (map enc_answer (run_ops (lazy_init k lines) ops))
         else match eager_init k lines with
              | Some p => VL (map enc_answer (run_ops p ops))
              | None => VL [VZ (-1)]
              end
  | 6 => VL (map (fun r => VL [ofZs (fst r); ofZs (snd r)])
                 (parse_rows (map (fun r => (getZs (nthV 0 r), getZs (nthV 1 r))) (getL v))))
  | _ => bad
  end.
