(* C02 - the pinned protocol table: which mate and which positions hold the barcode, the UMI, the
   random primer and the ligation bases, and where the insert starts, for every strategy the
   loader registers.  HAND-WRITTEN from each class's longName / description string, the comments
   next to its constructor and TAGS.MD at the pinned commit of /repo; it is the independent oracle
   for "the protocol's positions" (theorem C02_registered_wf compares the table regenerated from the
   live objects, Gen/GenLayouts.v, with it).  tools/c02.py parses the lines that start with
   Pr followed by the quoted shortName (keep one entry per line).

   region = (mate, first position, length), mate 0 = read 1, mate 1 = read 2, positions 0-based in
   read coordinates (read 2 is sequenced starting from the random-primer end of the fragment, so
   "R2 ends/starts with a 6bp random primer" = the first 6 sequenced bases of read 2).
   insert = [start on read 1; start on read 2]; mates = (min, max) number of reads of an accepted input
   (a layout with anything on read 2 cannot accept single-end input).

   kind: 0 bulk (no positions)  1 contiguous UMI/barcode  2 scattered UMI/barcode
         3 composite (two protocols tried on the same pair; covered by K only)
         4 restriction-bisulfite (contiguous plus enzyme / ISPCR tags; covered by K only)            *)
From Coq Require Import ZArith NArith List.
From Coq Require Strings.Byte.
Import ListNotations.
From SCMO Require Import Lib.PySlice Model.C02Defs.
Open Scope Z_scope.
Open Scope sname_scope.

Definition Pr (name : sname) (kind : Z) (bc umi : list region) (primer lig : option region)
           (insert : list Z) (mates : Z * Z) (extra : list (Z * region)) : protocol :=
  mkProto name kind (mkP bc umi primer lig insert (fst mates) (snd mates)) extra.

Definition protocols : list protocol := [
  (* IlluminaDemux: 'Demultiplex as a bulk sample' *)
  Pr "ILLU" 0 [] [] None None [0; 0] (1, 2) [];
  (* 'R1 starts with a 8bp cell barcode followed by a 4bp UMI. R2 ends with a 6bp random primer' *)
  Pr "CS1C8U4" 1 [(0, 0, 8)] [(0, 8, 4)] (Some (1, 0, 6)) None [12; 6] (2, 2) [];
  (* 'R1 starts with a 6bp UMI followed by a 8bp cell barcode. R2 ends with a 6bp random primer' *)
  Pr "CS2C8U6" 1 [(0, 6, 8)] [(0, 0, 6)] (Some (1, 0, 6)) None [14; 6] (2, 2) [];
  (* '... R2 has no random primer. Use this demultiplexing method for VASA' *)
  Pr "CS2C8U6NH" 1 [(0, 6, 8)] [(0, 0, 6)] None None [14; 0] (1, 2) [];
  (* 'R2 starts with a longer 8bp UMI followed by a 8bp cell barcode. R1 ends with a 6bp primer' *)
  Pr "CS2C8U8S" 1 [(1, 8, 8)] [(1, 0, 8)] (Some (0, 0, 6)) None [6; 16] (2, 2) [];
  (* 'CEL-Seq2 without NLAIII digestable barcodes', 'CB: 8bp, UMI: 8bp', same mates as CELSeq2 *)
  Pr "CS2C8U8NNLA" 1 [(0, 8, 8)] [(0, 0, 8)] (Some (1, 0, 6)) None [16; 6] (2, 2) [];
  (* 'R2 starts with a 6bp UMI followed by a 8bp cell barcode. R1 ends with a 6bp random primer' *)
  Pr "CS2C8U6S" 1 [(1, 6, 8)] [(1, 0, 6)] (Some (0, 0, 6)) None [6; 14] (2, 2) [];
  (* '384 well format. 3bp umi followed by 8bp barcode. R2 starts with a 6bp random primer' *)
  Pr "NLAIII384C8U3" 1 [(0, 3, 8)] [(0, 0, 3)] (Some (1, 0, 6)) None [11; 6] (2, 2) [];
  (* '96 well format. 3bp umi followed by 8bp barcode. R2 starts with a 6bp random primer' *)
  Pr "NLAIII96C8U3" 1 [(0, 3, 8)] [(0, 0, 3)] (Some (1, 0, 6)) None [11; 6] (2, 2) [];
  (* 'UMI: 8 bp, CB: 8bp, Enz. ID: 3bp, ISPCR: 15 bp', 'R1 contains UMI, BC, Enzyme ID and ISPCR';
     QT = barcode qualities, ES/eq = enzyme id bases/qualities, IS = ISPCR bases *)
  Pr "RBSN" 4 [(0, 8, 8)] [(0, 0, 8)] None None [34; 0] (2, 2) [(1, (0, 8, 8)); (2, (0, 16, 3)); (3, (0, 16, 3)); (4, (0, 19, 15))];
  (* '3bp umi followed by 8bp barcode. Single end: R2 is sadly missing' *)
  Pr "NLAIII384C8U3SE" 1 [(0, 3, 8)] [(0, 0, 3)] None None [11; 0] (1, 1) [];
  Pr "NLAIII96C8U3SE" 1 [(0, 3, 8)] [(0, 0, 3)] None None [11; 0] (1, 1) [];
  (* '3bp umi followed by 8bp barcode and a single A. R2 ends with a 6bp random primer';
     'add first 2 bases as ligation tag', 'dont capture the first base' *)
  Pr "scCHIC384C8U3" 1 [(0, 3, 8)] [(0, 0, 3)] (Some (1, 0, 6)) (Some (0, 11, 2)) [12; 6] (2, 2) [];
  Pr "TCHIC" 3 [] [] None None [0; 0] (2, 2) [];
  Pr "CHICTV" 3 [] [] None None [0; 0] (2, 2) [];
  (* '... and a single A. R2 does not contain a random primer' (paired: lh/lq are set on both records) *)
  Pr "scCHIC384C8U3l" 1 [(0, 3, 8)] [(0, 0, 3)] None (Some (0, 11, 2)) [12; 0] (2, 2) [];
  (* '... and a single A. No read 2' *)
  Pr "scCHIC384C8U3se" 1 [(0, 3, 8)] [(0, 0, 3)] None (Some (0, 11, 2)) [12; 0] (1, 1) [];
  (* 'MSPJI barcoded fragments. 3bp umi followed by 8bp cell barcode.' *)
  Pr "MSPJIC8U3" 1 [(0, 3, 8)] [(0, 0, 3)] None None [11; 0] (1, 2) [];
  (* 'Scar amplicon demultiplexing, cell barcode in read 2', 'CB: 8bp' *)
  Pr "SCARC8R2" 1 [(1, 0, 8)] [] None None [0; 8] (2, 2) [];
  (* '... cell barcode in read 1' *)
  Pr "SCARC8R1" 1 [(0, 0, 8)] [] None None [8; 0] (1, 2) [];
  (* '... cell barcode in read [2], 4bp random sequence in R1' *)
  Pr "SCARC8R2R4" 1 [(1, 0, 8)] [] (Some (0, 0, 4)) None [4; 8] (2, 2) [];
  (* 'R1 starts with a 16bp cell barcode followed by a 12bp UMI.' *)
  Pr "CHROMC16U12" 1 [(0, 0, 16)] [(0, 16, 12)] None None [28; 0] (1, 2) [];
  (* '3bp umi followed by 10bp barcode, the last two bases of the barcode are CA'; the ligation tag is
     those two bases; the insert keeps the last barcode base ('do map the first base of the barcode') *)
  Pr "DamID2" 1 [(0, 3, 10)] [(0, 0, 3)] None (Some (0, 11, 2)) [12; 0] (1, 2) [];
  Pr "DamAndT" 3 [] [] None None [0; 0] (2, 2) [];
  (* registered with the default 4bp second barcode half and the whitelist DamID2_scattered_8bp
     ('3-TGCA-3-TATG'): 3bp UMI, 4bp CB, 3bp UMI, 4bp CB, then 2 ligation bases that stay in the insert.
     (shortName / longName say '6bp CB': a naming inconsistency of the class, not a position) *)
  Pr "DamID2_3u4b3u6b" 2 [(0, 3, 4); (0, 10, 4)] [(0, 0, 3); (0, 7, 3)] None (Some (0, 14, 2)) [14; 0] (1, 2) [];
  Pr "DamID2andT_3u4b3u4b" 3 [] [] None None [0; 0] (2, 2) [];
  Pr "DamID2andT_3u4b3u6b" 3 [] [] None None [0; 0] (2, 2) [];
  (* '3bp umi followed by 8bp barcode, no CA overhang in barcodes'; ligation tag = the two bases after
     the barcode; as in DamID2 the insert starts on the last barcode base (constructor comment) *)
  Pr "DamID2_8bp_noCA" 1 [(0, 3, 8)] [(0, 0, 3)] None (Some (0, 11, 2)) [10; 0] (1, 2) []
].

(* the sub-protocols ("arms") the composite strategies try on the same pair, in the order
   [DamID / ChIC arm; transcriptome arm].  Hand-written from the class descriptions:
   TCHIC / CHICTV: scCHIC layout without random primer, pairs only ('3bp umi followed by 8bp barcode and a
   single A'); DamAndT: 'DamID2 and CS2 Transcriptome'; DamID2andT_3u4b3u4b: '3bp UMI, 4bp CB, 3bp UMI, 4bp CB'
   for both arms; DamID2andT_3u4b3u6b: DamID arm '3bp UMI, 4bp CB, 3bp UMI, 6bp CB', transcriptome arm 4+4. *)
Definition chic_arm : playout := mkP [(0, 3, 8)] [(0, 0, 3)] None (Some (0, 11, 2)) [12; 0] 2 2.
Definition sca8_arm : playout := mkP [(0, 3, 4); (0, 10, 4)] [(0, 0, 3); (0, 7, 3)] None (Some (0, 14, 2)) [14; 0] 1 2.
Definition sca10_arm : playout := mkP [(0, 3, 4); (0, 10, 6)] [(0, 0, 3); (0, 7, 3)] None (Some (0, 16, 2)) [16; 0] 1 2.
Definition comp_protocols : list (sname * list playout) := [
  ("ILLU", []);
  ("TCHIC", [chic_arm]);
  ("CHICTV", [chic_arm]);
  ("DamAndT", [mkP [(0, 3, 10)] [(0, 0, 3)] None (Some (0, 11, 2)) [12; 0] 1 2;
               mkP [(0, 6, 8)] [(0, 0, 6)] (Some (1, 0, 6)) None [14; 6] 2 2]);
  ("DamID2andT_3u4b3u4b", [sca8_arm; sca8_arm]);
  ("DamID2andT_3u4b3u6b", [sca10_arm; sca8_arm])
].

(* the literals of the composite strategies, pinned by hand from the sources' comments / descriptions at the
   pinned commit ('Trim any trailing A and G bases from the end and # Trim down 3 bases', 'Check if the TSO
   oligo is present', 'Prune the poly T off R1 start', 'Contains expected bleedthrough sequence' ...).
   Order as in Model/C02Comp.comp_consts. *)
Definition S (x : sname) : list Z := map (fun b => Z.of_N (Byte.to_N b)) (sname_to x).
Definition dna_complement : list (list Z) :=
  map (fun p => [fst p; snd p])
      (combine (S "ACGNTacgnt") (S "TGCNAtgcna")).
Definition comp_literals : list (sname * list (list Z)) := [
  ("ILLU", []);
  ("TCHIC", [S "TCHIC"; S "AAAAAAAAAA"; S "GGGGGGGGGG"; [6]; S "GA"; [3]; S "TTTTTTTTTTTTTTTTTTTTTTT";
             S "AGTCCGACGAT"; [30]; S "GTTCTACAGT"; [30]; S "TAATACGACTCACTATAGGG"; [];
             S "TTTTT"; S "CHIC"; S "VASA"; S "VASA"; S "T7_found"] ++ dna_complement);
  ("CHICTV", [S "CTV"; S "AGACTCTTT"; [6]]);
  ("DamAndT", [S "DamID2"; S "CS2C8U6"; [0]; S "Ambiguous"; S "RNA"; S "DamID"; S "T"]);
  ("DamID2andT_3u4b3u4b", [S "DamID2_3u4b3u6b"; S "DamID2_3u4b3u6b"; [0]; S "Ambiguous"; S "RNA"; S "DamID"; S "T"]);
  ("DamID2andT_3u4b3u6b", [S "DamID2_3u4b3u6b"; S "DamID2_3u4b3u6b"; [1]; []; S "RNA"; S "DamID"; S "T"])
].
