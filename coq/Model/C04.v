(* C04 model: the read-name codec of singlecellmultiomics (demultiplexer side: TaggedRecord header parsers,
   asFastq; tagger side: fromTaggedBamRecord, asIlluminaHeader, tagPysamRead, QueryNameFlagger.digest).
   Strings are lists of character codes.  Python exceptions are explicit [Raise] results.
   This file INSTANTIATES the table interpreters of Model/C04x.v with the tables of Gen/GenCodec.v, which are
   regenerated from the tree under check on every run: clamp bounds, letter table, header limit, separators,
   fqSafe class, tag table, whitespace set, AND the control-flow tables: the header forms of _parse_illumina_header
   (separators, number of pieces, which piece goes to which tag), the 3-DEC and scmo parsers, the decoder flags of
   fromTaggedBamRecord (strip, maxsplit, fqSafe on store), the name format, the molecule-identifier recipe,
   the ah / MI / QM / BK tags, the sample-name chain, the read-group recipe and the guards of digest.
   Definitions only. *)
From Coq Require Import ZArith List Bool String Ascii.
Import ListNotations.
From SCMO Require Import Lib.Val Gen.GenCodec.
From SCMO Require Export Model.C04x.
Open Scope Z_scope.

(* ---------------------------------------------------------------- the generated tables as model values *)
Definition C0 : codec := {|
  k_isep := enc_item_sep; k_kvsep := enc_kv_sep; k_disep := dec_item_sep; k_dkvsep := dec_kv_sep;
  k_limit := header_limit; k_tags := tag_table; k_keep := fqsafe_ranges; k_space := py_space;
  k_strip := dec_strip; k_maxsplit := dec_kv_maxsplit; k_safe := dec_make_safe |}.

Definition src_of (x : Z * (Z * list Z)) : src :=
  let '(k, (n, s)) := x in if k =? 0 then SField (Z.to_nat n) else if k =? 1 then SStr s else SInt n.

Definition assign_of (l : list (list Z * (Z * (Z * list Z)))) : list (str * src) :=
  map (fun a => (fst a, src_of (snd a))) l.

Definition form_of (x : list Z * (list Z * (Z * (list (list Z * (Z * (Z * list Z))) * (Z * (Z * list Z)))))) : form :=
  let '(d, (s, (n, (a, i)))) := x in
  {| f_del := d; f_seps := s; f_n := n; f_assign := assign_of a; f_idx := src_of i |}.

Definition forms0 : list form := map form_of illumina_forms.

Definition threedec0 : threedec :=
  let '((s, (n, (c, v))), a) := threedec_form in
  {| t_sep := s; t_nsep := n; t_check := Z.to_nat c; t_value := v; t_assign := assign_of a |}.

Definition ah_tag : str := fst ah_recipe.
Definition ah_raw : str := fst (snd ah_recipe).
Definition ah_corr : str := snd (snd ah_recipe).

(* ---------------------------------------------------------------- python str primitives at the generated classes *)
Definition is_space (c : Z) : bool := in_chars py_space c.
Definition lstrip (s : str) : str := lstrip_g py_space s.
Definition rstrip (s : str) : str := rstrip_g py_space s.
Definition strip (s : str) : str := strip_g py_space s.

(* ---------------------------------------------------------------- quality codec *)
(* string.ascii_letters[min(max(LO, ord(phred) - OFF), HI)] *)
Definition phred_enc_char (c : Z) : option Z := py_getitem enc_table (clampZ enc_lo enc_hi (c - enc_off)).

Definition phred_enc (s : str) : res str :=
  mapM (fun c => match phred_enc_char c with Some e => Ok e | None => Raise EIndex end) s.

(* chr(string.ascii_letters.index(v) + OFF) *)
Definition phred_dec_char (c : Z) : option Z :=
  match index_of c dec_table with Some i => Some (i + dec_off) | None => None end.

Definition phred_dec (s : str) : res str :=
  mapM (fun c => match phred_dec_char c with Some e => Ok e | None => Raise EValue end) s.

(* ---------------------------------------------------------------- fqSafe *)
Definition fq_keep (c : Z) : bool := in_ranges fqsafe_ranges c.
Definition fqSafe (s : str) : str := fqSafe_g fqsafe_ranges s.

(* ---------------------------------------------------------------- tag table *)
Definition tagdef (k : str) : option (bool * bool) := tagdef_g C0 k.
Definition is_phred (k : str) : bool := match tagdef k with Some (p, _) => p | None => false end.

(* ---------------------------------------------------------------- encoder: TaggedRecord.asFastq *)
Definition written (t : store) : res store := written_g C0 t.
Definition item (kv : str * str) : str := item_g C0 kv.
Definition header_of (w : store) : str := header_of_g C0 w.
Definition encode (t : store) : res str := encode_g C0 t.
Definition fastq_line (t : store) : res str := bind (encode t) (fun h => Ok (fastq_prefix ++ h)).

(* ---------------------------------------------------------------- header parsers of the demultiplexer *)
Definition k_Is := Eval compute in s2z "Is"%string.  Definition k_RN := Eval compute in s2z "RN"%string.
Definition k_Fc := Eval compute in s2z "Fc"%string.  Definition k_La := Eval compute in s2z "La"%string.
Definition k_Ti := Eval compute in s2z "Ti"%string.  Definition k_CX := Eval compute in s2z "CX"%string.
Definition k_CY := Eval compute in s2z "CY"%string.  Definition k_RP := Eval compute in s2z "RP"%string.
Definition k_Fi := Eval compute in s2z "Fi"%string.  Definition k_CN := Eval compute in s2z "CN"%string.
Definition k_aa := Eval compute in s2z "aa"%string.  Definition k_aA := Eval compute in s2z "aA"%string.
Definition k_aI := Eval compute in s2z "aI"%string.  Definition k_ah := Eval compute in s2z "ah"%string.
Definition k_LY := Eval compute in s2z "LY"%string.  Definition k_RR := Eval compute in s2z "RR"%string.
Definition k_RX := Eval compute in s2z "RX"%string.  Definition k_RQ := Eval compute in s2z "RQ"%string.
Definition k_bi := Eval compute in s2z "bi"%string.  Definition k_BI := Eval compute in s2z "BI"%string.
Definition k_bc := Eval compute in s2z "bc"%string.  Definition k_BC := Eval compute in s2z "BC"%string.
Definition k_MX := Eval compute in s2z "MX"%string.  Definition k_QT := Eval compute in s2z "QT"%string.
Definition k_MI := Eval compute in s2z "MI"%string.  Definition k_QM := Eval compute in s2z "QM"%string.
Definition k_SM := Eval compute in s2z "SM"%string.  Definition k_BK := Eval compute in s2z "BK"%string.
Definition k_RG := Eval compute in s2z "RG"%string.
Definition s_N := Eval compute in s2z "N"%string.    Definition s_BULK := Eval compute in s2z "BULK"%string.
Definition s_NONE := Eval compute in s2z "NONE"%string.

(* _parse_illumina_header with the generated forms and index tags *)
Definition parse_illumina {V} (inj : tval -> V) (h : str) (ix : idx_oracle) (d : list (str * V))
  : list (str * V) * option exn :=
  parse_illumina_g forms0 index_raw_tag index_found_tags inj h ix d.

(* parse_scmo_header *)
Definition parse_scmo (h : str) (d : store) : res store :=
  let '(st, (drop, (isep, kvsep))) := scmo_parse in
  parse_scmo_g st py_space (Z.to_nat drop) isep kvsep h d.

(* fromRawFastq: the Illumina forms, else (any exception) the scmo form when the header starts like one,
   else the 3-DEC form, which re-raises the pending exception when the header is not 3-DEC either *)
Definition from_raw (h : str) (ix : idx_oracle) (d : store) : res store :=
  match parse_illumina fmt h ix d with
  | (d', None) => Ok d'
  | (d', Some e) =>
      if starts_with scmo_prefix h then parse_scmo h d'
      else parse_3dec_g threedec0 h d' e
  end.

(* TaggedRecord(tagDefinitions, rawRecord, library, reason) *)
Definition tagged_record (h : str) (ix : idx_oracle) (library reason : option str) : res store :=
  bind (from_raw h ix []) (fun d =>
    let d := match library with Some l => if has k_LY d then d else dset k_LY l d | None => d end in
    Ok (match reason with Some r => dset k_RR r d | None => d end)).

(* ---------------------------------------------------------------- decoder: fromTaggedBamRecord *)
Definition add_items (items : list str) (d : rstore) : rstore * bool := add_items_g C0 items d.
Definition decode (q : str) : res rstore := decode_g C0 (fun ih d => parse_illumina (fun v => v) ih None d) q.

(* ---------------------------------------------------------------- tagPysamRead *)
(* addTagByTag('SM', f'{LY}_{suffix}', isPhred=False) *)
Definition sample_name (ly suffix : tval) : tval := TS (fqSafe (fmt ly ++ 95 :: fmt suffix)).

Definition mol0 : molacc := {| m_id := []; m_q := []; m_qt_missing := false; m_nonmux := false; m_terr := false |}.

(* tags after the molecule / sample derivation, before they are written; the flag is QT_missing *)
Definition derive (d : rstore) : res (rstore * bool) :=
  let a := mol_loop mol_pad mol_qt_tag mol_tags d mol0 in
  if m_terr a then Raise EType else
  bind (if m_nonmux a then Ok (dset bk_tag (TI 1) d)
        else
          bind (match get ah_corr d, get ah_raw d with
                | Some (TS ca), Some (TS ia) => Ok (dset ah_tag (TI (hamming ia ca)) d)
                | Some _, Some _ => Raise EType
                | _, _ => Ok d
                end) (fun r =>
          let r := dset mi_tag (TS (fqSafe (m_id a))) r in
          Ok (if m_qt_missing a then r else dset qm_tag (TS (fqSafe (m_q a))) r)))
  (fun r1 => bind (sm_apply fqsafe_ranges sm_tag sm_recipes r1) (fun r2 => Ok (r2, m_qt_missing a))).

(* value handed to read.set_tag: phred tags are converted back to the original characters *)
Definition write_value (kv : str * tval) : res (str * tval) :=
  if is_phred (fst kv)
  then match snd kv with
       | TS s => bind (phred_dec s) (fun p => Ok (fst kv, TS p))
       | TI _ => Raise EType
       end
  else if len (fst kv) =? 2 then Ok kv else Raise EValue.   (* pysam refuses tags that are not 2 characters *)

Definition tag_read (d : rstore) : res rstore :=
  bind (derive d) (fun x =>
    let '(r2, qt_missing) := x in
    bind (mapM write_value r2) (fun out =>
      if negb qt_missing && has qm_tag out then
        match get mi_tag out with
        | None => Raise EKey
        | Some mi => match get qm_tag out with
                     | Some qm => match tlen qm, tlen mi with
                                  | Some a, Some b => if a =? b then Ok out else Raise EValue
                                  | _, _ => Raise EType
                                  end
                     | None => Ok out
                     end
        end
      else Ok out)).

(* ---------------------------------------------------------------- QueryNameFlagger.digest, one read *)
(* asIlluminaHeader: the name_keys values joined by name_sep; KeyError when one is missing *)
Definition illumina_name (d : rstore) : res str :=
  match all_some (map (fun k => get k d) name_keys) with
  | None => Raise EKey
  | Some vs => Ok (join name_sep (map fmt vs))
  end.

Definition read_group (out : rstore) : str := eval_rg rg_recipe out.

Definition digest_read (q : str) : res (str * rstore) :=
  if starts_with digest_old_prefix q then Raise EImport
  else bind (decode q) (fun d =>
       bind (illumina_name d) (fun name =>
       if 254 <? len name then Raise EValue   (* pysam: query length out of range *)
       else bind (tag_read d) (fun out => Ok (name, dset rg_tag (TS (read_group out)) out)))).

(* QueryNameFlagger.digest(reads): None entries are skipped, a read that already carries the done tag (SM) ends the
   call, an exception ends the call and leaves the later reads untouched *)
Inductive outcome := Untouched | Failed | Tagged (name : str) (tags : rstore).
Fixpoint digest (reads : list (option (str * bool))) : list outcome * option exn :=
  match reads with
  | [] => ([], None)
  | None :: r => let '(o, e) := digest r in (Untouched :: o, e)
  | Some (q, true) :: r => (map (fun _ => Untouched) reads, None)
  | Some (q, false) :: r =>
      match digest_read q with
      | Raise e => (Failed :: map (fun _ => Untouched) r, Some e)
      | Ok (n, t) => let '(o, e) := digest r in (Tagged n t :: o, e)
      end
  end.

(* demultiplexer -> tagger *)
Definition chain (t : store) : res (str * rstore) := bind (encode t) digest_read.

(* raw Illumina header -> TaggedRecord -> asFastq -> digest: the whole path of a read the strategy adds nothing to *)
Definition chain_raw (h : str) (ix : idx_oracle) (library : option str) : res (str * rstore) :=
  bind (tagged_record h ix library None) chain.

(* ---------------------------------------------------------------- preconditions / specification (booleans) *)
Definition sepfree_char (c : Z) : bool := sepfree_char_g C0 c.
Definition sepfree (s : str) : bool := sepfree_g C0 s.
Definition safe (s : str) : bool := safe_g C0 s.

(* a store the round-trip theorem speaks about *)
Definition wf_store (t : store) : bool := wf_store_g C0 t.

(* the generated tables are well formed (evaluated by run_C04 mode 3; proved in Proofs/C04.v) *)
Definition index_tags : list str := index_raw_tag :: map fst index_found_tags.
Definition wf_tables : bool :=
  wf_codec C0 && forallb (wf_form fqsafe_ranges name_keys index_tags) forms0 && (header_limit <=? 254)
  && negb (in_ranges fqsafe_ranges name_sep).

(* ---- the coordinates clause, stated WITHOUT the tables: an Illumina read header is '@' + seven non-empty fields over
   the header-safe alphabet joined by ':' (the coordinates), then nothing, or ' ' + three such fields joined by ':'
   optionally followed by '::', or ' ' + three such fields + ':' + an index sequence free of ';' ':' and blanks.
   [coords_of h] = the coordinates when h has one of these shapes *)
Fixpoint take_until (c : Z) (s : str) : str * option str :=
  match s with
  | [] => ([], None)
  | x :: r => if x =? c then ([], Some r) else let '(a, b) := take_until c r in (x :: a, b)
  end.

Definition field_ok (f : str) : bool := negb (len f =? 0) && safe f.

Definition tail_ok (t : str) : bool :=
  let ps := split 58 t in
  match ps with
  | [a; b; c] => field_ok a && field_ok b && field_ok c
  | [a; b; c; i] => field_ok a && field_ok b && field_ok c && sepfree i
  | [a; b; c; []; []] => field_ok a && field_ok b && field_ok c
  | _ => false
  end.

Definition coords_of (h : str) : option str :=
  match h with
  | 64 :: r =>
      let '(c, t) := take_until 32 r in
      let fs := split 58 c in
      if (len fs =? 7) && forallb field_ok fs && match t with None => true | Some t' => tail_ok t' end
      then Some c else None
  | _ => None
  end.

(* specification: the query name after digest is the coordinates of the original header *)
Definition spec_coords (h name : str) : bool :=
  match coords_of h with Some c => str_eqb name c | None => true end.

(* ---------------------------------------------------------------- I/O glue *)
Definition exn_code (e : exn) : Z :=
  match e with EKey => 1 | EValue => 2 | ETooLong => 3 | ENonMux => 4 | EImport => 5 | EType => 6 | EIndex => 7 | EAssert => 8 end.
Definition ofRes {A} (f : A -> Val) (r : res A) : Val :=
  match r with Ok a => VL [VZ 0; f a] | Raise e => VL [VZ 1; VZ (exn_code e)] end.
Definition ofStr (s : str) : Val := ofZs s.
Definition ofStore (d : store) : Val := VL (map (fun kv => VL [ofStr (fst kv); ofStr (snd kv)]) d).
Definition ofTval (v : tval) : Val := match v with TS s => VL [VZ 0; ofStr s] | TI z => VL [VZ 1; VZ z] end.
Definition ofRstore (d : rstore) : Val := VL (map (fun kv => VL [ofStr (fst kv); ofTval (snd kv)]) d).
Definition getStore (v : Val) : store := map (fun p => (getZs (nthV 0 p), getZs (nthV 1 p))) (getL v).
Definition getOptStr (v : Val) : option str := match getL v with [s] => Some (getZs s) | _ => None end.
Definition getOracle (v : Val) : idx_oracle :=
  match getL v with
  | [t] => Some (map (fun p => (getZs (nthV 0 p),
                               match getL (nthV 1 p) with
                               | [a; b] => Some (getZs a, getZs b)
                               | _ => None
                               end)) (getL t))
  | _ => None
  end.

(* which form accepts a header: [index in the table; pieces] or [] *)
Fixpoint form_index (forms : list form) (h : str) (i : Z) : Val :=
  match forms with
  | [] => VL []
  | F :: r => match form_pieces F h with
              | Some p => VL [VZ i; VL (map ofStr p)]
              | None => form_index r h (i + 1)
              end
  end.

(* mode 0: [op; args...]
   mode 1: precondition wf_store of a store
   mode 2: specb of the coordinates clause on [original header; query name the implementation produced]
   mode 3: precondition of the coordinates clause (the header has one of the Illumina shapes); input [] = wf_tables *)
Definition run_C04 (mode : Z) (v : Val) : Val :=
  match mode with
  | 0 =>
      let op := getZ (nthV 0 v) in
      let a := nthV 1 v in
      if op =? 0 then ofRes ofStr (phred_enc (getZs a))
      else if op =? 1 then ofRes ofStr (phred_dec (getZs a))
      else if op =? 2 then ofStr (fqSafe (getZs a))
      else if op =? 3 then ofRes ofStr (encode (getStore a))
      else if op =? 4 then ofRes (fun x => VL [ofStr (fst x); ofRstore (snd x)]) (digest_read (getZs a))
      else if op =? 5 then ofRes ofStore (tagged_record (getZs a) (getOracle (nthV 2 v)) (getOptStr (nthV 3 v))
                                                         (getOptStr (nthV 4 v)))
      else if op =? 6 then ofRes (fun x => VL [ofStr (fst x); ofRstore (snd x)]) (chain (getStore a))
      else if op =? 7 then ofRes ofRstore (decode (getZs a))
      else if op =? 9 then
        let '(o, e) := digest (map (fun r => match getL r with
                                             | [q; sm] => Some (getZs q, getB sm)
                                             | _ => None
                                             end) (getL a)) in
        VL [VL (map (fun x => match x with
                              | Untouched => VL [VZ 0]
                              | Failed => VL [VZ 1]
                              | Tagged n t => VL [VZ 2; ofStr n; ofRstore t]
                              end) o);
            match e with Some x => VL [VZ (exn_code x)] | None => VL [] end]
      else if op =? 10 then form_index forms0 (getZs a) 0
      else if op =? 11 then ofRes (fun x => VL [ofStr (fst x); ofRstore (snd x)])
                                  (chain_raw (getZs a) (getOracle (nthV 2 v)) (getOptStr (nthV 3 v)))
      else bad
  | 1 => ofB (wf_store (getStore v))
  | 2 => ofB (spec_coords (getZs (nthV 0 v)) (getZs (nthV 1 v)))
  | 3 => match getL v with
         | [] => ofB wf_tables
         | _ => ofB (match coords_of (getZs (nthV 0 v)) with Some _ => true | None => false end)
         end
  | _ => bad
  end.
