(* C04 model: the read-name codec of singlecellmultiomics (demultiplexer side: TaggedRecord header parsers,
   asFastq; tagger side: fromTaggedBamRecord, asIlluminaHeader, tagPysamRead, QueryNameFlagger.digest).
   Strings are lists of character codes.  Python exceptions are explicit [Raise] results.
   Constants and tables (clamp bounds, letter table, header limit, separators, fqSafe class, tag table,
   name format, molecule-identifier recipe, whitespace set) come from Gen/GenCodec.v which is regenerated
   from the tree under check.  Definitions only. *)
From Coq Require Import ZArith List Bool String Ascii.
Import ListNotations.
From SCMO Require Import Lib.Val Gen.GenCodec.
Open Scope Z_scope.

Definition str := list Z.
Definition s2z (s : string) : str := map (fun a => Z.of_N (N_of_ascii a)) (list_ascii_of_string s).

Inductive exn := EKey | EValue | ETooLong | ENonMux | EImport | EType | EIndex | EAssert.
Inductive res (A : Type) := Ok (a : A) | Raise (e : exn).
Arguments Ok {A} a.
Arguments Raise {A} e.

Definition bind {A B} (r : res A) (f : A -> res B) : res B :=
  match r with Ok a => f a | Raise e => Raise e end.

Fixpoint mapM {A B} (f : A -> res B) (l : list A) : res (list B) :=
  match l with
  | [] => Ok []
  | a :: r => match f a with
              | Raise e => Raise e
              | Ok b => match mapM f r with Raise e => Raise e | Ok bs => Ok (b :: bs) end
              end
  end.

Definition len {A} (l : list A) : Z := Z.of_nat (List.length l).

Fixpoint str_eqb (a b : str) : bool :=
  match a, b with
  | [], [] => true
  | x :: a', y :: b' => (x =? y) && str_eqb a' b'
  | _, _ => false
  end.

(* ---------------------------------------------------------------- python str primitives *)
(* s.split(sep) for a one-character separator: never empty, keeps empty pieces *)
Fixpoint split (sep : Z) (s : str) : list str :=
  match s with
  | [] => [[]]
  | c :: r => if c =? sep then [] :: split sep r
              else match split sep r with
                   | h :: t => (c :: h) :: t
                   | [] => [[c]]
                   end
  end.

(* sep.join(parts) *)
Fixpoint join (sep : Z) (parts : list str) : str :=
  match parts with
  | [] => []
  | [p] => p
  | p :: r => p ++ sep :: join sep r
  end.

(* s.split(sep, 1): None when the separator does not occur (the 2-name unpacking then fails) *)
Fixpoint split1 (sep : Z) (s : str) : option (str * str) :=
  match s with
  | [] => None
  | c :: r => if c =? sep then Some ([], r)
              else match split1 sep r with Some (a, b) => Some (c :: a, b) | None => None end
  end.

Definition is_space (c : Z) : bool := existsb (Z.eqb c) py_space.
Fixpoint lstrip (s : str) : str :=
  match s with
  | [] => []
  | c :: r => if is_space c then lstrip r else s
  end.
Definition rstrip (s : str) : str := rev (lstrip (rev s)).
Definition strip (s : str) : str := rstrip (lstrip s).

Fixpoint starts_with (p s : str) : bool :=
  match p, s with
  | [], _ => true
  | a :: p', b :: s' => (a =? b) && starts_with p' s'
  | _ :: _, [] => false
  end.

Definition count (c : Z) (s : str) : Z := len (filter (Z.eqb c) s).

(* l[i] with python index rules; None = IndexError *)
Definition py_getitem (l : list Z) (i : Z) : option Z :=
  let n := len l in
  let j := if i <? 0 then i + n else i in
  if (j <? 0) || (n <=? j) then None else nth_error l (Z.to_nat j).

(* l.index(c); None = ValueError *)
Fixpoint index_of (c : Z) (l : list Z) : option Z :=
  match l with
  | [] => None
  | x :: r => if x =? c then Some 0 else match index_of c r with Some i => Some (i + 1) | None => None end
  end.

(* ---------------------------------------------------------------- quality codec *)
Definition clampZ (lo hi x : Z) : Z := Z.min (Z.max lo x) hi.

(* string.ascii_letters[min(max(LO, ord(phred) - OFF), HI)] *)
Definition phred_enc_char (c : Z) : option Z := py_getitem enc_table (clampZ enc_lo enc_hi (c - enc_off)).

Definition phred_enc (s : str) : res str :=
  mapM (fun c => match phred_enc_char c with Some e => Ok e | None => Raise EIndex end) s.

(* chr(string.ascii_letters.index(v) + OFF) *)
Definition phred_dec_char (c : Z) : option Z :=
  match index_of c dec_table with Some i => Some (i + dec_off) | None => None end.

Definition phred_dec (s : str) : res str :=
  mapM (fun c => match phred_dec_char c with Some e => Ok e | None => Raise EValue end) s.

(* ---------------------------------------------------------------- fqSafe *)
Definition fq_keep (c : Z) : bool := existsb (fun r => (fst r <=? c) && (c <=? snd r)) fqsafe_ranges.
Definition fqSafe (s : str) : str := filter fq_keep s.

(* ---------------------------------------------------------------- dictionaries (insertion ordered) *)
Section Dict.
  Context {V : Type}.
  Fixpoint get (k : str) (d : list (str * V)) : option V :=
    match d with
    | [] => None
    | (k', v) :: r => if str_eqb k k' then Some v else get k r
    end.
  Definition has (k : str) (d : list (str * V)) : bool := match get k d with Some _ => true | None => false end.
  (* d[k] = v *)
  Fixpoint dset (k : str) (v : V) (d : list (str * V)) : list (str * V) :=
    match d with
    | [] => [(k, v)]
    | (k', v') :: r => if str_eqb k k' then (k', v) :: r else (k', v') :: dset k v r
    end.
  Definition ddel (k : str) (d : list (str * V)) : list (str * V) :=
    filter (fun kv => negb (str_eqb k (fst kv))) d.
  Definition update (d : list (str * V)) (kvs : list (str * V)) : list (str * V) :=
    fold_left (fun d kv => dset (fst kv) (snd kv) d) kvs d.
End Dict.

Definition store := list (str * str).

(* tag values as python holds them on the tagger side: str or int *)
Inductive tval := TS (s : str) | TI (z : Z).
Definition rstore := list (str * tval).

(* str(int) *)
Fixpoint dec_pos (fuel : nat) (n : Z) (acc : str) : str :=
  match fuel with
  | O => acc
  | S f => let acc' := (48 + n mod 10) :: acc in if n <? 10 then acc' else dec_pos f (n / 10) acc'
  end.
Definition dec (z : Z) : str := if z <? 0 then 45 :: dec_pos 60 (- z) [] else dec_pos 60 z [].
(* f"{value}" *)
Definition fmt (v : tval) : str := match v with TS s => s | TI z => dec z end.

(* ---------------------------------------------------------------- tag table *)
Definition tagdef (k : str) : option (bool * bool) := get k tag_table.
Definition is_phred (k : str) : bool := match tagdef k with Some (p, _) => p | None => false end.

(* ---------------------------------------------------------------- encoder: TaggedRecord.asFastq *)
(* the (attribute, value) pairs that are written; KeyError for a tag without definition *)
Fixpoint written (t : store) : res store :=
  match t with
  | [] => Ok []
  | (k, v) :: r =>
      match tagdef k with
      | None => Raise EKey
      | Some (_, dnw) => match written r with
                         | Raise e => Raise e
                         | Ok w => Ok (if dnw then w else (k, v) :: w)
                         end
      end
  end.

Definition item (kv : str * str) : str := fst kv ++ enc_kv_sep :: snd kv.
Definition header_of (w : store) : str := join enc_item_sep (map item w).

(* the header without the leading '@' = the query name the aligner stores; refused when too long *)
Definition encode (t : store) : res str :=
  match written t with
  | Raise e => Raise e
  | Ok w => let h := header_of w in if header_limit <? len h then Raise ETooLong else Ok h
  end.

Definition fastq_line (t : store) : res str := bind (encode t) (fun h => Ok (fastq_prefix ++ h)).

(* ---------------------------------------------------------------- header parsers of the demultiplexer *)
Definition c_colon : Z := 58.
Definition c_space : Z := 32.
Definition c_semi : Z := 59.
Definition c_us : Z := 95.

Definition k_Is := Eval compute in s2z "Is"%string.  Definition k_RN := Eval compute in s2z "RN"%string.
Definition k_Fc := Eval compute in s2z "Fc"%string.  Definition k_La := Eval compute in s2z "La"%string.
Definition k_Ti := Eval compute in s2z "Ti"%string.  Definition k_CX := Eval compute in s2z "CX"%string.
Definition k_CY := Eval compute in s2z "CY"%string.  Definition k_RP := Eval compute in s2z "RP"%string.
Definition k_Fi := Eval compute in s2z "Fi"%string.  Definition k_CN := Eval compute in s2z "CN"%string.
Definition k_aa := Eval compute in s2z "aa"%string.  Definition k_aA := Eval compute in s2z "aA"%string.
Definition k_aI := Eval compute in s2z "aI"%string.  Definition k_ah := Eval compute in s2z "ah"%string.
Definition k_LY := Eval compute in s2z "LY"%string.  Definition k_RR := Eval compute in s2z "RR"%string.
Definition k_RX := Eval compute in s2z "RX"%string.  Definition k_RQ := Eval compute in s2z "RQ"%string.
Definition k_bi := Eval compute in s2z "bi"%string.  Definition k_BI := Eval compute in s2z "BI"%string.
Definition k_bc := Eval compute in s2z "bc"%string.  Definition k_BC := Eval compute in s2z "BC"%string.
Definition k_MX := Eval compute in s2z "MX"%string.  Definition k_QT := Eval compute in s2z "QT"%string.
Definition k_MI := Eval compute in s2z "MI"%string.  Definition k_QM := Eval compute in s2z "QM"%string.
Definition k_SM := Eval compute in s2z "SM"%string.  Definition k_BK := Eval compute in s2z "BK"%string.
Definition k_RG := Eval compute in s2z "RG"%string.
Definition s_N := Eval compute in s2z "N"%string.    Definition s_UNK := Eval compute in s2z "UNK"%string.
Definition s_0 := Eval compute in s2z "0"%string.    Definition s_1 := Eval compute in s2z "1"%string.
Definition s_m1 := Eval compute in s2z "-1"%string.  Definition s_s := Eval compute in s2z "s"%string.
Definition s_atIs := Eval compute in s2z "@Is"%string.
Definition s_UMI := Eval compute in s2z "UMI"%string.
Definition s_BULK := Eval compute in s2z "BULK"%string.
Definition s_NONE := Eval compute in s2z "NONE"%string.

Definition illumina_keys10 : list str := [k_Is; k_RN; k_Fc; k_La; k_Ti; k_CX; k_CY; k_RP; k_Fi; k_CN].

Definition sp2colon (s : str) : str := map (fun c => if c =? c_space then c_colon else c) s.

(* header.replace('::', '') *)
Fixpoint remove_dcolon (s : str) : str :=
  match s with
  | [] => []
  | a :: t => match t with
              | b :: r => if (a =? c_colon) && (b =? c_colon) then remove_dcolon r else a :: remove_dcolon t
              | [] => [a]
              end
  end.

(* the three accepted Illumina forms: 10 field values + the index sequence; the third form fills
   readPairNumber / isFiltered / controlNumber with the python ints 1, 0, 0 *)
Definition illumina_fields (h : str) : option (list tval * str) :=
  let f1 := split c_colon (sp2colon h) in
  if len f1 =? 11 then Some (map TS (firstn 10 f1), nth 10 f1 [])
  else let f2 := split c_colon (sp2colon (remove_dcolon h)) in
       if len f2 =? 10 then Some (map TS f2, s_N)
       else let f3 := split c_colon h in
            if len f3 =? 7 then Some (map TS f3 ++ [TI 1; TI 0; TI 0], s_N) else None.

(* answers of the sequencing-index lookup (C03's subject) and of the int() test for the candidate index
   sequences: None = no index parser given; table entry None = index not recognised *)
Definition idx_oracle := option (list (str * option (str * str))).

(* _parse_illumina_header: the store after the call and the exception, if any.  [inj] says how the
   store holds a value: as is on the tagger side, printed (f-string) on the demultiplexer side *)
Definition parse_illumina {V} (inj : tval -> V) (h : str) (ix : idx_oracle) (d : list (str * V))
  : list (str * V) * option exn :=
  match illumina_fields h with
  | None => (d, Some EValue)
  | Some (fs, idx) =>
      let d1 := update d (combine illumina_keys10 (map inj fs)) in
      match ix with
      | None => (dset k_aa (inj (TS idx)) d1, None)
      | Some tbl =>
          match get idx tbl with
          | Some (Some (ident, corrected)) =>
              (update (dset k_aa (inj (TS idx)) d1) [(k_aA, inj (TS corrected)); (k_aI, inj (TS ident))], None)
          | _ => (dset k_aa (inj (TS idx)) d1, Some ENonMux)
          end
      end
  end.

Definition split_kv (sep : Z) (s : str) : option (str * str) :=
  match split sep s with [k; v] => Some (k, v) | _ => None end.

Fixpoint all_some {A} (l : list (option A)) : option (list A) :=
  match l with
  | [] => Some []
  | None :: _ => None
  | Some a :: r => match all_some r with Some x => Some (a :: x) | None => None end
  end.

(* parse_scmo_header: tags.update(dict(kv.split(':') for kv in header.strip()[1:].split(';'))) *)
Definition parse_scmo (h : str) (d : store) : res store :=
  match all_some (map (split_kv c_colon) (split c_semi (tl (strip h)))) with
  | None => Raise EValue
  | Some kvs => Ok (update d kvs)
  end.

(* fromRawFastq *)
Definition from_raw (h : str) (ix : idx_oracle) (d : store) : res store :=
  match parse_illumina fmt h ix d with
  | (d', None) => Ok d'
  | (d', Some e) =>
      if starts_with s_atIs h then parse_scmo h d'
      else if count c_us h =? 4 then
        match split c_us h with
        | [_; s; lane; tile; rp] =>
            if str_eqb s s_s
            then Ok (update d' [(k_Is, s_UNK); (k_RN, s_UNK); (k_Fc, s_UNK); (k_La, lane); (k_Ti, tile);
                                (k_CX, s_m1); (k_CY, s_m1); (k_RP, rp); (k_Fi, s_0); (k_CN, s_0)])
            else Raise EAssert
        | _ => Raise EValue
        end
      else Raise e
  end.

(* TaggedRecord(tagDefinitions, rawRecord, library, reason) *)
Definition tagged_record (h : str) (ix : idx_oracle) (library reason : option str) : res store :=
  bind (from_raw h ix []) (fun d =>
    let d := match library with Some l => if has k_LY d then d else dset k_LY l d | None => d end in
    Ok (match reason with Some r => dset k_RR r d | None => d end)).

(* ---------------------------------------------------------------- decoder: fromTaggedBamRecord *)
(* the loop  for keyValue in ...: key, value = keyValue.split(':'); addTagByTag(key, value, isPhred=False)
   returns the store so far and whether it ran to completion (false = ValueError at some item) *)
Fixpoint add_items (items : list str) (d : rstore) : rstore * bool :=
  match items with
  | [] => (d, true)
  | it :: r => match split_kv dec_kv_sep it with
               | None => (d, false)
               | Some (k, v) => add_items r (dset k (TS (fqSafe v)) d)
               end
  end.

Definition decode (q : str) : res rstore :=
  let s := strip q in
  match add_items (split dec_item_sep s) [] with
  | (d, true) => Ok d
  | (d, false) =>
      (* "Single Cell Discoveries" fallback *)
      match split1 dec_item_sep s with
      | None => Raise EValue
      | Some (ih, attrs) =>
          match parse_illumina (fun v => v) ih None d with
          | (_, Some e) => Raise e
          | (d', None) => match add_items (split dec_item_sep attrs) d' with
                          | (d'', true) => Ok d''
                          | (_, false) => Raise EValue
                          end
          end
      end
  end.

(* ---------------------------------------------------------------- tagPysamRead *)
Fixpoint hamming (a b : str) : Z :=
  match a, b with
  | x :: a', y :: b' =>
      (if negb (x =? y) && negb (x =? 78) && negb (y =? 78) then 1 else 0) + hamming a' b'
  | _, _ => 0
  end.

Record molacc := { m_id : str; m_q : str; m_qt_missing : bool; m_nonmux : bool; m_terr : bool }.

(* the loop over moleculeIdentifiyingTags; stops at the NonMultiplexable.  Concatenating an int value is a
   TypeError (m_terr); the decoder only ever stores ints under RP / Fi / CN, so this does not arise *)
Fixpoint mol_loop (spec : list (str * (str * (bool * bool)))) (d : rstore) (a : molacc) : molacc :=
  match spec with
  | [] => a
  | (tag, (qtag, (hasq, required))) :: r =>
      let a1 :=
        match get tag d with
        | Some (TS v) =>
            let mi := m_id a ++ v in
            if hasq then
              match get qtag d with
              | Some (TS qv) => {| m_id := mi; m_q := m_q a ++ qv; m_qt_missing := m_qt_missing a;
                                   m_nonmux := false; m_terr := m_terr a |}
              | Some (TI _) => {| m_id := mi; m_q := m_q a; m_qt_missing := m_qt_missing a;
                                  m_nonmux := false; m_terr := true |}
              | None => {| m_id := mi; m_q := m_q a; m_qt_missing := m_qt_missing a || str_eqb qtag k_QT;
                           m_nonmux := false; m_terr := m_terr a |}
              end
            else {| m_id := mi; m_q := m_q a ++ repeat 111 (List.length v);
                    m_qt_missing := m_qt_missing a; m_nonmux := false; m_terr := m_terr a |}
        | Some (TI _) => {| m_id := m_id a; m_q := m_q a; m_qt_missing := m_qt_missing a;
                            m_nonmux := false; m_terr := true |}
        | None => a
        end in
      if m_terr a1 then a1
      else if required && negb (has tag d)
      then {| m_id := m_id a1; m_q := m_q a1; m_qt_missing := m_qt_missing a1; m_nonmux := true; m_terr := false |}
      else mol_loop r d a1
  end.

(* addTagByTag('SM', f'{LY}_{suffix}', isPhred=False) *)
Definition sample_name (ly suffix : tval) : tval := TS (fqSafe (fmt ly ++ c_us :: fmt suffix)).

(* tags after the molecule / sample derivation, before they are written; the flag is QT_missing *)
Definition derive (d : rstore) : res (rstore * bool) :=
  let a := mol_loop mol_tags d {| m_id := []; m_q := []; m_qt_missing := false; m_nonmux := false; m_terr := false |} in
  if m_terr a then Raise EType else
  bind (if m_nonmux a then Ok (dset k_BK (TI 1) d)
        else
          bind (match get k_aA d, get k_aa d with
                | Some (TS ca), Some (TS ia) => Ok (dset k_ah (TI (hamming ia ca)) d)
                | Some _, Some _ => Raise EType
                | _, _ => Ok d
                end) (fun r =>
          let r := dset k_MI (TS (fqSafe (m_id a))) r in
          Ok (if m_qt_missing a then r else dset k_QM (TS (fqSafe (m_q a))) r)))
  (fun r1 =>
  match get k_bi d with
  | Some bi => match get k_LY d with
               | None => Raise EKey
               | Some ly => Ok (dset k_SM (sample_name ly bi) r1, m_qt_missing a)
               end
  | None =>
      match get k_BI d with
      | Some bI => match get k_LY d with
                   | None => Raise EKey
                   | Some ly => Ok (ddel k_BI (dset k_bi bI (dset k_SM (sample_name ly bI) r1)), m_qt_missing a)
                   end
      | None => match get k_LY d with
                | Some ly => Ok (dset k_SM (sample_name ly (TS s_BULK)) r1, m_qt_missing a)
                | None => Ok (r1, m_qt_missing a)
                end
      end
  end).

(* value handed to read.set_tag: phred tags are converted back to the original characters *)
Definition write_value (kv : str * tval) : res (str * tval) :=
  if is_phred (fst kv)
  then match snd kv with
       | TS s => bind (phred_dec s) (fun p => Ok (fst kv, TS p))
       | TI _ => Raise EType
       end
  else if len (fst kv) =? 2 then Ok kv else Raise EValue.   (* pysam refuses tags that are not 2 characters *)

Definition tlen (v : tval) : option Z := match v with TS s => Some (len s) | TI _ => None end.

Definition tag_read (d : rstore) : res rstore :=
  bind (derive d) (fun x =>
    let '(r2, qt_missing) := x in
    bind (mapM write_value r2) (fun out =>
      if negb qt_missing && has k_QM out then
        match get k_MI out with
        | None => Raise EKey
        | Some mi => match get k_QM out with
                     | Some qm => match tlen qm, tlen mi with
                                  | Some a, Some b => if a =? b then Ok out else Raise EValue
                                  | _, _ => Raise EType
                                  end
                     | None => Ok out
                     end
        end
      else Ok out)).

(* ---------------------------------------------------------------- QueryNameFlagger.digest, one read *)
(* asIlluminaHeader: the name_keys values joined by name_sep; KeyError when one is missing *)
Definition illumina_name (d : rstore) : res str :=
  match all_some (map (fun k => get k d) name_keys) with
  | None => Raise EKey
  | Some vs => Ok (join name_sep (map fmt vs))
  end.

Definition read_group (out : rstore) : str :=
  let f k := match get k out with Some v => fmt v | None => s_NONE end in
  f k_Fc ++ 46 :: f k_La ++ 46 :: f k_SM.

Definition digest_read (q : str) : res (str * rstore) :=
  if starts_with s_UMI q then Raise EImport
  else bind (decode q) (fun d =>
       bind (illumina_name d) (fun name =>
       if 254 <? len name then Raise EValue   (* pysam: query length out of range *)
       else bind (tag_read d) (fun out => Ok (name, dset k_RG (TS (read_group out)) out)))).

(* QueryNameFlagger.digest(reads): None entries are skipped, a read that already carries SM ends the call,
   an exception ends the call and leaves the later reads untouched *)
Inductive outcome := Untouched | Failed | Tagged (name : str) (tags : rstore).
Fixpoint digest (reads : list (option (str * bool))) : list outcome * option exn :=
  match reads with
  | [] => ([], None)
  | None :: r => let '(o, e) := digest r in (Untouched :: o, e)
  | Some (q, true) :: r => (map (fun _ => Untouched) reads, None)
  | Some (q, false) :: r =>
      match digest_read q with
      | Raise e => (Failed :: map (fun _ => Untouched) r, Some e)
      | Ok (n, t) => let '(o, e) := digest r in (Tagged n t :: o, e)
      end
  end.

(* demultiplexer -> tagger *)
Definition chain (t : store) : res (str * rstore) := bind (encode t) digest_read.

(* ---------------------------------------------------------------- preconditions / specification (booleans) *)
Definition sepfree_char (c : Z) : bool :=
  negb (c =? enc_item_sep) && negb (c =? enc_kv_sep) && negb (is_space c).
Definition sepfree (s : str) : bool := forallb sepfree_char s.
Definition safe (s : str) : bool := forallb fq_keep s.

Fixpoint nodup_keys (d : store) : bool :=
  match d with
  | [] => true
  | (k, _) :: r => negb (has k r) && nodup_keys r
  end.

(* a store the round-trip theorem speaks about *)
Definition wf_store (t : store) : bool :=
  nodup_keys t && forallb (fun kv => match tagdef (fst kv) with Some _ => true | None => false end) t
  && forallb (fun kv => sepfree (snd kv)) t.

(* ---------------------------------------------------------------- I/O glue *)
Definition exn_code (e : exn) : Z :=
  match e with EKey => 1 | EValue => 2 | ETooLong => 3 | ENonMux => 4 | EImport => 5 | EType => 6 | EIndex => 7 | EAssert => 8 end.
Definition ofRes {A} (f : A -> Val) (r : res A) : Val :=
  match r with Ok a => VL [VZ 0; f a] | Raise e => VL [VZ 1; VZ (exn_code e)] end.
Definition ofStr (s : str) : Val := ofZs s.
Definition ofStore (d : store) : Val := VL (map (fun kv => VL [ofStr (fst kv); ofStr (snd kv)]) d).
Definition ofTval (v : tval) : Val := match v with TS s => VL [VZ 0; ofStr s] | TI z => VL [VZ 1; VZ z] end.
Definition ofRstore (d : rstore) : Val := VL (map (fun kv => VL [ofStr (fst kv); ofTval (snd kv)]) d).
Definition getStore (v : Val) : store := map (fun p => (getZs (nthV 0 p), getZs (nthV 1 p))) (getL v).
Definition getOptStr (v : Val) : option str := match getL v with [s] => Some (getZs s) | _ => None end.
Definition getOracle (v : Val) : idx_oracle :=
  match getL v with
  | [t] => Some (map (fun p => (getZs (nthV 0 p),
                               match getL (nthV 1 p) with
                               | [a; b] => Some (getZs a, getZs b)
                               | _ => None
                               end)) (getL t))
  | _ => None
  end.

(* mode 0: [op; args...]   mode 1: precondition wf_store of a store   *)
Definition run_C04 (mode : Z) (v : Val) : Val :=
  match mode with
  | 0 =>
      let op := getZ (nthV 0 v) in
      let a := nthV 1 v in
      if op =? 0 then ofRes ofStr (phred_enc (getZs a))
      else if op =? 1 then ofRes ofStr (phred_dec (getZs a))
      else if op =? 2 then ofStr (fqSafe (getZs a))
      else if op =? 3 then ofRes ofStr (encode (getStore a))
      else if op =? 4 then ofRes (fun x => VL [ofStr (fst x); ofRstore (snd x)]) (digest_read (getZs a))
      else if op =? 5 then ofRes ofStore (tagged_record (getZs a) (getOracle (nthV 2 v)) (getOptStr (nthV 3 v))
                                                         (getOptStr (nthV 4 v)))
      else if op =? 6 then ofRes (fun x => VL [ofStr (fst x); ofRstore (snd x)]) (chain (getStore a))
      else if op =? 7 then ofRes ofRstore (decode (getZs a))
      else if op =? 9 then
        let '(o, e) := digest (map (fun r => match getL r with
                                             | [q; sm] => Some (getZs q, getB sm)
                                             | _ => None
                                             end) (getL a)) in
        VL [VL (map (fun x => match x with
                              | Untouched => VL [VZ 0]
                              | Failed => VL [VZ 1]
                              | Tagged n t => VL [VZ 2; ofStr n; ofRstore t]
                              end) o);
            match e with Some x => VL [VZ (exn_code x)] | None => VL [] end]
      else bad
  | 1 => ofB (wf_store (getStore v))
  | _ => bad
  end.
