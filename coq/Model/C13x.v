(* C13 model, generated part: the same pipeline as Model/C13.v, but every expression the proofs hinge on is taken
   from coq/Gen/GenConsensus.v, which tools/c13.py (regen_consensus) REGENERATES from the current source on every run:

     sequtils.pick_best_base_call      initial best quality / tie flag, the `better` and `tie` comparisons, what each
                                       branch does to the tie flag, the no-call test and the no-call result ('N', 0)
     sequtils.get_consensus_dictionaries  the orientation tests and the dove-safe window arithmetic, which skip_*_n_cycles
                                       option reaches which mate
     sequtils.read_to_consensus_dict   the `if` of the dict comprehension (window, min_phred_score, skip cycles, refbase)
     Fragment.R1 / R2 / get_consensus  the slots, the union of the mates' keys, pick_best_base_call(R1 call, R2 call)
     Molecule.get_consensus            allow_N test, the skip test, the no-vote test (q_base == 'N'), the column alphabet
                                       'ACGTN'.index, the increment, the uniqueness mask (count of entries at the argmax
                                       == 1), the alphabet the reported base is read from

   The control skeleton around these expressions (loops, try/except ValueError, dict/defaultdict, which statement
   guards which) is hand-written here exactly as in Model/C13.v; the translator checks that skeleton structurally and
   refuses the source otherwise (fail closed).  Proofs/C13x.v proves this model EQUAL to Model/C13.v with the repaired
   skip rule, so every theorem of Props/C13.v holds for what the source says now.  Executable definitions only. *)
From Coq Require Import ZArith List Bool.
Import ListNotations.
From SCMO Require Import Lib.Val Gen.GenConsensus Model.C13.
Open Scope Z_scope.

(* ------------------------------------------------------------------ sequtils.pick_best_base_call( *calls ) *)
Definition gpb_init : pb_state := {| pb_base := None; pb_q := g_pb_init_q; pb_tie := g_pb_init_tie |}.
Definition has_base (s : pb_state) : bool := match pb_base s with Some _ => true | None => false end.
Definition gpb_step (s : pb_state) (c : option call) : pb_state :=
  match c with
  | None => s
  | Some (b, q) =>
      if g_pb_better q (pb_q s) then {| pb_base := Some b; pb_q := q; pb_tie := g_pb_better_tie (pb_tie s) |}
      else if g_pb_tie_test q (pb_q s) (opt_is (pb_base s) b)
           then {| pb_base := pb_base s; pb_q := pb_q s; pb_tie := g_pb_tie_set (pb_tie s) |}
           else s
  end.
(* the last branch (no best base although the no-call test is false) would return (None, best_q) in python; the
   shape lemma g_pb_nocall_shape shows the test holds whenever there is no best base, so it is never taken *)
Definition gpb_result (s : pb_state) : call :=
  if g_pb_nocall (pb_tie s) (has_base s) then (g_pb_nocall_base, g_pb_nocall_q)
  else match pb_base s with Some b => (b, pb_q s) | None => (g_pb_nocall_base, g_pb_nocall_q) end.
Definition gpick_best (cs : list (option call)) : call := gpb_result (fold_left gpb_step cs gpb_init).

(* ------------------------------------------------------------------ sequtils.get_consensus_dictionaries *)
Definition gwindow (o : opts) (r1 r2 : option read) : Res (option (Z * Z)) :=
  if o_ds o then
    match r1, r2 with
    | Some a, Some b =>
        if g_win_test0 (r_rev a) (r_rev b)
        then Ok (Some (g_win0 (r_start a) (r_end a) (r_start b) (r_end b) (o_d1 o) (o_d2 o)))
        else if g_win_test1 (r_rev a) (r_rev b)
        then Ok (Some (g_win1 (r_start a) (r_end a) (r_start b) (r_end b) (o_d1 o) (o_d2 o)))
        else ValueError
    | _, _ => ValueError
    end
  else Ok None.
Definition gflt1 (o : opts) : rfilter :=
  {| f_refbase := o_refbase o; f_minq := o_minq o;
     f_sf := g_r1_skip_first (o_sf1 o) (o_sl1 o) (o_sf2 o) (o_sl2 o);
     f_sl := g_r1_skip_last (o_sf1 o) (o_sl1 o) (o_sf2 o) (o_sl2 o) |}.
Definition gflt2 (o : opts) : rfilter :=
  {| f_refbase := o_refbase o; f_minq := o_minq o;
     f_sf := g_r2_skip_first (o_sf1 o) (o_sl1 o) (o_sf2 o) (o_sl2 o);
     f_sl := g_r2_skip_last (o_sf1 o) (o_sl1 o) (o_sf2 o) (o_sl2 o) |}.

(* ------------------------------------------------------------------ sequtils.read_to_consensus_dict *)
Definition ob (o : option Z) : bool := match o with Some _ => true | None => false end.
Definition oz (o : option Z) : Z := match o with Some z => z | None => 0 end.
Definition gkeep_call (w : option (Z * Z)) (fl : rfilter) (r : read) (c : acall) : bool :=
  let '(p, _, q, qp, rb) := c in
  let hw := match w with Some _ => true | None => false end in
  g_keep hw hw (ob (f_minq fl)) (ob (f_sl fl)) (ob (f_sf fl)) (ob (f_refbase fl))
         (match w with Some (s, _) => s | None => 0 end) (match w with Some (_, e) => e | None => 0 end)
         (oz (f_minq fl)) (oz (f_sl fl)) (oz (f_sf fl)) (oz (f_refbase fl))
         p q qp (r_qlen r) (upper rb) (r_rev r).
Definition gread_items (w : option (Z * Z)) (fl : rfilter) (r : read) : list (key * call) :=
  map (fun c : acall => let '(p, b, q, _, _) := c in ((r_contig r, p), (b, q)))
      (filter (gkeep_call w fl r) (r_calls r)).
Definition gread_dict (w : option (Z * Z)) (fl : rfilter) (r : option read) : Res (dict call) :=
  match r with
  | None => Ok []
  | Some r => if r_md r then Ok (dict_of (gread_items w fl r)) else ValueError
  end.

(* ------------------------------------------------------------------ Fragment.get_consensus *)
Definition gfrag_consensus (ds : opts) (f : frag) : Res (dict call) :=
  match nth_error f g_frag_r1_slot, nth_error f g_frag_r2_slot with
  | Some r1, Some r2 =>
      match gwindow ds r1 r2 with
      | Ok w =>
          match gread_dict w (gflt1 ds) r1 with
          | Ok d1 =>
              match gread_dict w (gflt2 ds) r2 with
              | Ok d2 => Ok (map (fun k => (k, g_frag_pick gpick_best (dget k d1) (dget k d2)))
                                 (g_frag_keys union_keys d1 d2))
              | ValueError => ValueError | IndexError => IndexError
              end
          | ValueError => ValueError | IndexError => IndexError
          end
      | ValueError => ValueError | IndexError => IndexError
      end
  | _, _ => IndexError
  end.

(* ------------------------------------------------------------------ Molecule.get_consensus *)
Definition gskip (o : opts) (f : frag) : bool := g_mol_skip (o_ds o) (has_R1 f) (has_R2 f).
(* str.index for one character: position of the first occurrence; None = ValueError *)
Fixpoint str_index (b : Z) (s : list Z) : option nat :=
  match s with
  | [] => None
  | x :: r => if b =? x then Some 0%nat else match str_index b r with Some i => Some (S i) | None => None end
  end.
Definition gbase_index (b : Z) : option nat := str_index b g_mol_columns.
Definition gindex_base (i : nat) : Z := nth i g_mol_letters 0.
Definition vadd (i : nat) (d : Z) (v : vec) : vec :=          (* v[i] += d *)
  let '(a, c, g, t, n) := v in
  match i with
  | 0%nat => (a + d, c, g, t, n) | 1%nat => (a, c + d, g, t, n) | 2%nat => (a, c, g + d, t, n)
  | 3%nat => (a, c, g, t + d, n) | 4%nat => (a, c, g, t, n + d) | _ => v
  end.
Definition gtincr (k : key) (i : nat) (t : table) : table := dset k (vadd i g_mol_vote (tget k t)) t.
Fixpoint gvote_items (items : list (key * call)) (t : table) : table :=
  match items with
  | [] => t
  | (k, (b, _)) :: rest =>
      if g_mol_no_vote b then gvote_items rest t
      else match gbase_index b with
           | Some i => gvote_items rest (gtincr k i t)
           | None => t
           end
  end.
Fixpoint gmol_table (ds : opts) (fs : list frag) (t : table) : Res table :=
  match fs with
  | [] => Ok t
  | f :: rest =>
      if gskip ds f then gmol_table ds rest t
      else match gfrag_consensus ds f with
           | Ok items => gmol_table ds rest (gvote_items items t)
           | ValueError => gmol_table ds rest t
           | IndexError => IndexError
           end
  end.
(* np.argmax = first index of the row maximum (numpy, modelled); the mask is the generated test on the number of
   entries equal to the entry at the argmax *)
Definition gcall_of_list (l : list Z) : option Z :=
  let m := lmax l in
  if g_mol_proper (Z.of_nat (count_eq m l)) then Some (gindex_base (first_idx m l)) else None.
Definition gcall_of_vec (v : vec) : option Z := gcall_of_list (vlist v).
Definition gfinish (t : table) : dict Z :=
  flat_map (fun kv => match gcall_of_vec (snd kv) with Some b => [(fst kv, b)] | None => [] end) t.
Definition gmol_consensus (ds : opts) (fs : list frag) : Res (dict Z) :=
  match gmol_table ds fs [] with
  | Ok t => Ok (gfinish t)
  | ValueError => ValueError | IndexError => IndexError
  end.

(* ------------------------------------------------------------------ the whole argument record of Molecule.get_consensus *)
(* get_consensus(self, dove_safe=False, only_include_refbase=None, allow_N=False, with_probs_and_obs=False, **kwargs):
   a_opts holds dove_safe, only_include_refbase and the keyword arguments that get_consensus_dictionaries accepts
   (any other keyword is a TypeError of that function's call and is outside this record).
   with_probs_and_obs returns (consensus, phred_scores, consensii); phred_scores (per position and base the list of the
   qualities of the calls) is not modelled, consensii is the vote table; with no vote at all it returns (dict(), None, None). *)
Record args := { a_opts : opts; a_allow_N : bool; a_probs : bool }.
Inductive outcome : Type :=
| OutCons (d : dict Z)
| OutProbs (d : dict Z) (t : option table)
| OutNotImplemented | OutIndexError | OutValueError.
Definition get_consensus (a : args) (fs : list frag) : outcome :=
  if g_mol_not_implemented (a_allow_N a) then OutNotImplemented
  else match gmol_table (a_opts a) fs [] with
       | Ok t => if a_probs a then OutProbs (gfinish t) (match t with [] => None | _ => Some t end)
                 else OutCons (gfinish t)
       | ValueError => OutValueError
       | IndexError => OutIndexError
       end.
Definition out_consensus (o : outcome) : option (dict Z) :=
  match o with OutCons d => Some d | OutProbs d _ => Some d | _ => None end.

(* ------------------------------------------------------------------ histories through the generated model *)
Definition ganswer_of (ds : opts) (probs : bool) (st : mstate) : answer :=
  if probs then AnsProbs (gmol_consensus ds st) (gmol_table ds st [])
  else AnsCons (gmol_consensus ds st).
Definition gstep (st : mstate) (o : op) : mstate * list answer :=
  match o with
  | OpGet ds probs => (st, [ganswer_of ds probs st])
  | _ => (st ++ op_frags o, [])
  end.
Fixpoint grun_ops (st : mstate) (ops : list op) : list answer :=
  match ops with
  | [] => []
  | o :: rest => snd (gstep st o) ++ grun_ops (fst (gstep st o)) rest
  end.

(* ------------------------------------------------------------------ I/O glue *)
Definition dec_args (v : Val) : args :=
  {| a_opts := dec_opts (nthV 0 v); a_allow_N := getB (nthV 1 v); a_probs := getB (nthV 2 v) |}.
Definition enc_outcome (o : outcome) : Val :=
  match o with
  | OutCons d => VL [VZ 0; enc_out d]
  | OutValueError => VL [VZ 1; VL []]
  | OutIndexError => VL [VZ 2; VL []]
  | OutNotImplemented => VL [VZ 3; VL []]
  | OutProbs d t => VL [VZ 4; enc_out d; match t with Some t => enc_table t | None => VL [] end]
  end.
Definition enc_calls (d : dict call) : Val :=
  VL (map (fun e => VL [VZ (fst (fst e)); VZ (snd (fst e)); VZ (fst (snd e)); VZ (snd (snd e))]) d).
Definition dec_calls (v : Val) : list (option call) :=
  map (fun c => match getL c with [] => None | _ => Some (getZ (nthV 0 c), getZ (nthV 1 c)) end) (getL v).

(* same protocol as run_C13; modes 0 4 5 6 7 run the GENERATED model, 3 and 8 the hand-written model with /repo's
   former skip rule (D16), 9 the whole argument record: input [[options; allow_N; with_probs_and_obs]; fragments] *)
Definition run_C13x (mode : Z) (v : Val) : Val :=
  match mode with
  | 0 => enc_res enc_out (gmol_consensus (dec_opts (nthV 0 v)) (dec_frags (nthV 1 v)))
  | 4 => enc_res enc_table (gmol_table (dec_opts (nthV 0 v)) (dec_frags (nthV 1 v)) [])
  | 5 => let r := gpick_best (dec_calls v) in VL [VZ (fst r); VZ (snd r)]
  | 6 => enc_res enc_calls (gfrag_consensus (dec_opts (nthV 0 v)) (dec_frag (nthV 1 v)))
  | 7 => VL (map enc_answer (grun_ops [] (map dec_op (getL v))))
  | 9 => enc_outcome (get_consensus (dec_args (nthV 0 v)) (dec_frags (nthV 1 v)))
  | _ => run_C13 mode v
  end.
