(* C06 model, extension: the MoleculeIterator / Molecule options Model/C06.v fixes.
   Definitions only.

   Source read (singlecellmultiomics, /repo):
     molecule/iterator.py  MoleculeIterator.__iter__
        pooling_method=0 : ONE flat list self.molecules, scanned in order with
                           molecule.add_fragment(fragment, use_hash=False); a new molecule is appended at the end;
                           remains are yielded in list order
        every_fragment_as_molecule=True : every valid fragment is yielded at once as a molecule of its own
                           (after the validity test, before any pooling; the Molecule constructor still applies
                           max_associated_fragments, so a cap <= 0 raises as in Model/C06.v)
     molecule/molecule.py  Molecule.add_fragment(use_hash=False): `for f in self.fragments: if f == fragment:
                           self._add_fragment(fragment); return True` - the incoming fragment is compared with EVERY
                           associated fragment by the MEMBER's __eq__ (f.__eq__(fragment)), not with the molecule's
                           representative UMI / running site / last match_hash; _add_fragment raises OverflowError
                           only AFTER a member matched (capacity test after the match test), fragments refused by
                           OverflowError are not appended to self.fragments (they are never compared with).
   The variant with the capacity test BEFORE the match test (seeded change C06-13) is kept here as offer_h only to
   state what it breaks (Props: C06_cap_hoisted_refuted). *)
From Coq Require Import ZArith List Bool.
Import ListNotations.
From SCMO Require Import Lib.Val Gen.GenAssign Model.C06.
Open Scope Z_scope.

(* g.__eq__(f) for two fragments of the configured class: g = associated fragment (self), f = incoming (other) *)
Definition feq (c : cfg) (g f : frag) : bool :=
  let umi_ok := umi_eq (c_d c) (f_umi g) (f_umi f) in
  if c_cls c =? 1 then g_nla_eq (negb (zs_eqb (key c g) (key c f))) umi_ok
  else if c_cls c =? 2 then
    g_chic_eq (negb (zs_eqb (key c g) (key c f))) false false umi_ok (c_r c) (f_site g) (f_site f)
  else
    g_fragment_eq true true umi_ok (c_r c) (f_cell g) (f_strand g) (f_contig g) (f_site g) (f_end g)
                  (f_cell f) (f_strand f) (f_contig f) (f_site f) (f_end f).

(* any(f == fragment for f in self.fragments) *)
Definition accepts0 (c : cfg) (f : frag) (m : mol) : bool := existsb (fun g => feq c g f) (m_frags m).

(* Molecule.add_fragment(fragment, use_hash=False) on a non-empty molecule: 0 refused, 1 added, 2 OverflowError *)
(* g_pool_use_hash 0 (generated from the iterator: which use_hash keyword pooling_method=0 passes) selects the path *)
Definition decide0 (c : cfg) (f : frag) (m : mol) : Z :=
  if g_pool_use_hash 0 then decide c f m
  else g_add_decision0 false (accepts0 c f m) (has_cap c) (Z.of_nat (length (m_frags m))) (cap_val c).

Fixpoint offer0 (c : cfg) (f : frag) (ms : list mol) : offer_res :=
  match ms with
  | [] => Rejected
  | m :: ms' =>
      if decide0 c f m =? 1 then Added (mol_add m f :: ms')
      else if decide0 c f m =? 2 then Overflowed (mol_bump m f :: ms')
      else match offer0 c f ms' with
           | Added r => Added (m :: r)
           | Overflowed r => Overflowed (m :: r)
           | Rejected => Rejected
           end
  end.

(* flat buffer self.molecules + what was yielded before the final flush *)
Record state0 := { s0_mols : list mol; s0_emitted : list mol }.

Definition step0 (c : cfg) (st : state0) (f : frag) : state0 :=
  if negb (f_valid f) then
    (if c_yinv c then {| s0_mols := s0_mols st; s0_emitted := s0_emitted st ++ [mol_new 2 f] |} else st)
  else
    match offer0 c f (s0_mols st) with
    | Added ms' => {| s0_mols := ms'; s0_emitted := s0_emitted st |}
    | Overflowed ms' => {| s0_mols := ms';
                           s0_emitted := if c_yover c then s0_emitted st ++ [mol_new 1 f] else s0_emitted st |}
    | Rejected => {| s0_mols := s0_mols st ++ [mol_new 0 f]; s0_emitted := s0_emitted st |}
    end.

Definition assign0_ok (c : cfg) (frags : list frag) : list mol :=
  let st := fold_left (step0 c) frags {| s0_mols := []; s0_emitted := [] |} in
  s0_emitted st ++ s0_mols st.

Definition assign0 (c : cfg) (frags : list frag) : option (list mol) :=      (* None = OverflowError raised *)
  if cap_bad c then (if existsb (needs_mol c) frags then None else Some [])
  else Some (assign0_ok c frags).

(* every_fragment_as_molecule=True *)
Definition efm_one (c : cfg) (f : frag) : list mol :=
  if f_valid f then [mol_new 0 f] else if c_yinv c then [mol_new 2 f] else [].
Definition assign_efm (c : cfg) (frags : list frag) : option (list mol) :=
  if cap_bad c then (if existsb (needs_mol c) frags then None else Some [])
  else Some (flat_map (efm_one c) frags).

(* the options: pooling_method (0 / 1) and every_fragment_as_molecule *)
Record xcfg := { x_pool0 : bool; x_efm : bool }.
Definition assignx (x : xcfg) (c : cfg) (frags : list frag) : option (list mol) :=
  if x_efm x then assign_efm c frags
  else if x_pool0 x then assign0 c frags
  else assign c frags.

(* ---- two iterators in one process (histories): each has its own configuration (umi_hamming_distance, radius, cap,
   pooling) and its own buffer; `sched` says which one takes its next fragment (false = first, true = second); what is
   left when the schedule ends is consumed first-then-second.  Nothing is shared between the two states. *)
Fixpoint duo_run {S1 S2 : Type} (stepA : S1 -> frag -> S1) (stepB : S2 -> frag -> S2) (sched : list bool)
         (la lb : list frag) (sa : S1) (sb : S2) : S1 * S2 :=
  match sched with
  | [] => (fold_left stepA la sa, fold_left stepB lb sb)
  | false :: s' => match la with
                   | a :: la' => duo_run stepA stepB s' la' lb (stepA sa a) sb
                   | [] => duo_run stepA stepB s' [] lb sa sb
                   end
  | true :: s' => match lb with
                  | b :: lb' => duo_run stepA stepB s' la lb' sa (stepB sb b)
                  | [] => duo_run stepA stepB s' la [] sa sb
                  end
  end.

(* ---- NOT the code: the capacity test hoisted before the match test (add_fragment raising OverflowError for every
   fragment offered to a full molecule).  Used only by the refutation C06_cap_hoisted_refuted. *)
Fixpoint offer_h (c : cfg) (f : frag) (ms : list mol) : offer_res :=
  match ms with
  | [] => Rejected
  | m :: ms' =>
      if full c m then Overflowed (mol_bump m f :: ms')
      else if accepts c f m then Added (mol_add m f :: ms')
      else match offer_h c f ms' with
           | Added r => Added (m :: r)
           | Overflowed r => Overflowed (m :: r)
           | Rejected => Rejected
           end
  end.
Definition step0_h (c : cfg) (st : state0) (f : frag) : state0 :=
  if negb (f_valid f) then
    (if c_yinv c then {| s0_mols := s0_mols st; s0_emitted := s0_emitted st ++ [mol_new 2 f] |} else st)
  else
    match offer_h c f (s0_mols st) with
    | Added ms' => {| s0_mols := ms'; s0_emitted := s0_emitted st |}
    | Overflowed ms' => {| s0_mols := ms';
                           s0_emitted := if c_yover c then s0_emitted st ++ [mol_new 1 f] else s0_emitted st |}
    | Rejected => {| s0_mols := s0_mols st ++ [mol_new 0 f]; s0_emitted := s0_emitted st |}
    end.
(* one pool (all fragments share the match_hash), so the flat list is the pool *)
Definition assign_h (c : cfg) (frags : list frag) : list mol :=
  let st := fold_left (step0_h c) frags {| s0_mols := []; s0_emitted := [] |} in
  s0_emitted st ++ s0_mols st.

(* ---- I/O glue: the cfg value of Model/C06.v extended by two optional entries:
   index 7 = 1 for pooling_method=0, index 8 = 1 for every_fragment_as_molecule (absent = the defaults) *)
Definition dec_xcfg (v : Val) : xcfg := {| x_pool0 := getB (nthV 7 v); x_efm := getB (nthV 8 v) |}.
Definition enc_runx (x : xcfg) (c : cfg) (frags : list frag) : Val :=
  match assignx x c frags with
  | None => VL [VZ 0]
  | Some out => VL [VZ 1; VL (map (enc_mol (c_fixed c)) out)]
  end.

(* modes as run_C06 (0 run + write_tags, 1 precondition, 3 re-tagging history with the default options) *)
Definition run_C06x (mode : Z) (v : Val) : Val :=
  let c := dec_cfg (nthV 0 v) in
  let x := dec_xcfg (nthV 0 v) in
  let frags := map dec_frag (getL (nthV 1 v)) in
  match mode with
  | 0 => enc_runx x c frags
  | _ => run_C06 mode v
  end.
