(* C11 model, extension: the parts of create_count_table around the per-read accumulation of Model/C11.v:
   several alignment files, -head (the enumerate / break loops exactly as coded, per file and - in BED mode - per
   fetched region), --showtags / missing -o (exit before anything is counted), return_df versus file output,
   --bulk (row sums over all samples, column "Bulkseq"; applied on the file-output path only).
   By-value counting of float-typed tags is in Model/C11.v ([TFlt], [num_of]).  Definitions only. *)
From Coq Require Import ZArith List Bool QArith.
Import ListNotations.
From SCMO Require Import Lib.Val Model.C11.
Open Scope Z_scope.

Record xopts := mkX {
  x_o : opts;
  x_head : option Z;          (* -head N *)
  x_bulk : bool;              (* --bulk *)
  x_showtags : bool;          (* --showtags *)
  x_return_df : bool;         (* create_count_table(args, return_df=...) *)
  x_out : bool                (* args.o is not None *)
}.

Inductive xres := XTable (t : tbl) | XRaise (e : Z) | XExit.

(* ---------------------------------------------------------------- the loops, as coded *)
(*   args.head is not None and i > args.head   *)
Definition stop (h : option Z) (i : Z) : bool := match h with Some n => n <? i | None => false end.

(* plain / -contig:   for i, read in enumerate(it):  if <stop>: break;  assigned += assignReads(read, ...)   *)
Fixpoint loop_plain (o : opts) (h : option Z) (i : Z) (reads : list read) (acc : res tbl) : res tbl :=
  match reads with
  | [] => acc
  | r :: rs => if stop h i then acc else loop_plain o h (i + 1) rs (step o None acc r)
  end.

(* -bedfile:   for i, read in enumerate(f.fetch(chromo, start, end)):  assignReads(read, ...);  if <stop>: break   *)
Fixpoint loop_bed (o : opts) (reg : Z * Z * str) (h : option Z) (i : Z) (reads : list read) (acc : res tbl) : res tbl :=
  match reads with
  | [] => acc
  | r :: rs => let acc' := step o (Some reg) acc r in
               if stop h i then acc' else loop_bed o reg h (i + 1) rs acc'
  end.

(* vocabulary of the GENERATED loop description (coq/Gen/GenCountFilter.v: gen_head_stop_plain, _bed are the break tests of the
   current source, gen_head_test_first_plain, _bed say whether they stand before the assignReads call):
   the enumerate loop with the test before (first = true) or after (first = false) the call *)
Fixpoint loop_src (first : bool) (stopf : option Z -> Z -> bool) (o : opts) (reg : option (Z * Z * str))
         (h : option Z) (i : Z) (reads : list read) (acc : res tbl) : res tbl :=
  match reads with
  | [] => acc
  | r :: rs =>
      if first then (if stopf h i then acc else loop_src first stopf o reg h (i + 1) rs (step o reg acc r))
      else let acc' := step o reg acc r in
           if stopf h i then acc' else loop_src first stopf o reg h (i + 1) rs acc'
  end.

(* one alignment file: the counter i starts at 0 for every file and, in BED mode, for every region *)
Definition count_file (x : xopts) (acc : res tbl) (reads : list read) : res tbl :=
  let o := x_o x in
  match o_bed o with
  | None =>
      loop_plain o (x_head x) 0 (match o_contig o with Some c => filter (on_contig c) reads | None => reads end) acc
  | Some regions =>
      fold_left (fun acc (row : str * Z * Z * str) =>
                   let '(c, s, e, n) := row in
                   if region_selected o c
                   then loop_bed o (s, e, n) (x_head x) 0 (filter (overlaps c s e) reads) acc
                   else acc)
                regions acc
  end.

(* for bamFile in args.alignmentfiles: ...  (one shared count table) *)
Definition xcount (x : xopts) (files : list (list read)) : res tbl := fold_left (count_file x) files (Ok []).

(* ---------------------------------------------------------------- --bulk *)
Definition s_Bulkseq : str := [66; 117; 108; 107; 115; 101; 113].     (* "Bulkseq" *)
Definition bulk_sample : sample := [Some (TStr s_Bulkseq)].

(* df.sum(axis=1) -> one column "Bulkseq": every cell is re-labelled with the one sample and accumulated *)
Definition relabel (c : cellkey * Q) : cellkey * Q := ((bulk_sample, snd (fst c)), snd c).
Definition bulk_of (t : tbl) : tbl := add_all (map relabel t) [].

(* ---------------------------------------------------------------- create_count_table *)
Definition exits (x : xopts) : bool := x_showtags x || (negb (x_return_df x) && negb (x_out x)).

Definition xrun (x : xopts) (files : list (list read)) : xres :=
  if is_nil files then XRaise 2                                      (* "Supply at least one bam file" *)
  else if exits x then XExit                                         (* tag listing, exit() *)
  else if is_nil (snd (prep (x_o x))) then XRaise 2                  (* "No features supplied" *)
  else match xcount x files with
       | Raise e => XRaise e
       | Ok t => if x_return_df x then XTable t                      (* returned before --bulk is looked at *)
                 else if x_bulk x then XTable (bulk_of t) else XTable t
       end.

(* ---------------------------------------------------------------- declarative specification (executable form) *)
(* the records the loops hand to assignReads: a prefix of what the iterator yields *)
Definition head_plain {A} (h : option Z) (l : list A) : list A :=
  match h with None => l | Some n => firstn (Z.to_nat (n + 1)) l end.
Definition head_bed {A} (h : option Z) (l : list A) : list A :=
  match h with None => l | Some n => firstn (Z.to_nat (Z.max 1 (n + 2))) l end.

Definition xpresented_file (x : xopts) (reads : list read) : list (option (Z * Z * str) * read) :=
  let o := x_o x in
  match o_bed o with
  | None => map (pair None)
              (head_plain (x_head x) (match o_contig o with Some c => filter (on_contig c) reads | None => reads end))
  | Some regions =>
      flat_map (fun row : str * Z * Z * str =>
                  let '(c, s, e, n) := row in
                  if region_selected o c
                  then map (pair (Some (s, e, n))) (head_bed (x_head x) (filter (overlaps c s e) reads))
                  else []) regions
  end.

Definition xpresented (x : xopts) (files : list (list read)) : list (option (Z * Z * str) * read) :=
  flat_map (xpresented_file x) files.

(* group-by sum per (sample, key) *)
Definition xspec_cell (x : xopts) (k : cellkey) (files : list (list read)) : Q :=
  fold_right (fun p acc => (sum_matching k (spec_contrib (x_o x) (fst p) (snd p)) + acc)%Q) 0%Q (xpresented x files).

(* group-by sum per key, whatever the sample (--bulk) *)
Definition key_eqb (a b : key) : bool := list_eqb kc_eqb a b.
Definition key_sum (k : key) (l : list (cellkey * Q)) : Q :=
  fold_right (fun c acc => ((if key_eqb k (snd (fst c)) then snd c else 0) + acc)%Q) 0%Q l.
Definition xspec_bulk (x : xopts) (k : key) (files : list (list read)) : Q :=
  fold_right (fun p acc => (key_sum k (spec_contrib (x_o x) (fst p) (snd p)) + acc)%Q) 0%Q (xpresented x files).

Definition xspec_keys (x : xopts) (files : list (list read)) : list cellkey :=
  flat_map (fun p => map fst (spec_contrib (x_o x) (fst p) (snd p))) (xpresented x files).

Definition xpre (x : xopts) (files : list (list read)) : bool :=
  wf_opts (x_o x) && forallb (forallb wf_read) files.

Definition bulk_mode (x : xopts) : bool := negb (x_return_df x) && x_bulk x.

(* an observed outcome *)
Inductive xobs := OTable (cells : list (cellkey * Q)) | ORaise | OExit.

Definition xspecb (x : xopts) (files : list (list read)) (out : xobs) : bool :=
  if is_nil files then match out with ORaise => true | _ => false end
  else if exits x then match out with OExit => true | _ => false end
  else if xpre x files then
    match out with
    | OTable cells =>
        if bulk_mode x then
          forallb (fun c => list_eqb otval_eqb (fst (fst c)) bulk_sample
                            && Qeq_bool (snd c) (xspec_bulk x (snd (fst c)) files)) cells
          && forallb (fun k => Qeq_bool (xspec_bulk x (snd k) files) 0
                               || existsb (ck_eqb (bulk_sample, snd k)) (map fst cells)) (xspec_keys x files)
          && nodup_keys (map fst cells)
        else
          forallb (fun c => Qeq_bool (snd c) (xspec_cell x (fst c) files)) cells
          && forallb (fun k => Qeq_bool (xspec_cell x k files) 0 || existsb (ck_eqb k) (map fst cells)) (xspec_keys x files)
          && nodup_keys (map fst cells)
    | _ => false
    end
  else true.

(* ---------------------------------------------------------------- I/O glue *)
Definition dec_xopts (v : Val) : xopts :=
  {| x_o := dec_opts (nthV 0 v); x_head := getOpt getZ (nthV 1 v); x_bulk := getB (nthV 2 v);
     x_showtags := getB (nthV 3 v); x_return_df := getB (nthV 4 v); x_out := getB (nthV 5 v) |}.

Definition dec_files (v : Val) : list (list read) := map (fun f => map dec_read (getL f)) (getL v).

Definition enc_xres (r : xres) : Val :=
  match r with
  | XTable t => VL [VZ 0; VL (map enc_cell (filter nonzero t))]
  | XRaise e => VL [VZ 1; VZ e]
  | XExit => VL [VZ 2]
  end.

Definition dec_xobs (v : Val) : xobs :=
  if getZ (nthV 0 v) =? 0 then OTable (map dec_cell (getL (nthV 1 v)))
  else if getZ (nthV 0 v) =? 1 then ORaise else OExit.

(* modes 0-4: Model/C11.v;  5: xrun;  6: xpre;  7: xspecb on [input; observed] *)
Definition run_C11x (mode : Z) (v : Val) : Val :=
  match mode with
  | 5 => enc_xres (xrun (dec_xopts (nthV 0 v)) (dec_files (nthV 1 v)))
  | 6 => ofB (xpre (dec_xopts (nthV 0 v)) (dec_files (nthV 1 v)))
  | 7 => let inp := nthV 0 v in
         ofB (xspecb (dec_xopts (nthV 0 inp)) (dec_files (nthV 1 inp)) (dec_xobs (nthV 1 v)))
  | _ => run_C11 mode v
  end.
