(* C08 extension, model of the code that GENERATES the region tasks of the tiled mode:
   bamtagmultiome.run_multiome_tagging (not one_contig_per_process)
     regions = blacklisted_binning_contigs(contig_length_resource, bin_size=bp_per_segment,
                                           fragment_size=fragment_size, blacklist_path=None, ...)
     job_gen = [[('*',None,None,None,None)]] + list(bp_chunked(regions, bp_per_job))
   blacklisted_binning_contigs without blacklist: for every (contig, length)
     for bin_start, bin_end, fetch_start, fetch_end in blacklisted_binning(0, length, bin_size, [], fragment_size):
        yield contig, bin_start, bin_end, fetch_start, fetch_end
   [blacklisted_binning] is the model of C17 (Model/C17.v; its expressions are REGENERATED from /repo into
   Gen/GenTiling.v, control flow skeleton-pinned).  The contig loop is a hand transcription tied by K.
   Definitions only. *)
From Coq Require Import ZArith List Bool.
Import ListNotations.
From SCMO Require Import Lib.Val Lib.Tiling Model.C17 Model.C08.
Open Scope Z_scope.

(* the 5-tuple (contig, bin_start, bin_end, fetch_start, fetch_end) as a region task *)
Definition task_of (c : Z) (o : obin) : task :=
  match snd o with
  | Some w => {| t_contig := c; t_region := true; t_start := fst (fst o); t_end := snd (fst o);
                 t_fs := fst w; t_fe := snd w |}
  | None => {| t_contig := c; t_region := true; t_start := fst (fst o); t_end := snd (fst o);
               t_fs := fst (fst o); t_fe := snd (fst o) |}
  end.

(* the tasks of one contig (an exception of the generator yields no task; it never happens for
   bin_size > 0, see gen_tasks_eq) *)
Definition gen_tasks (c len bs f : Z) : list task :=
  match C17.blacklisted_binning 0 len bs [] (Some f) with
  | Ok out => map (task_of c) out
  | Raise _ => []
  end.

(* contig loop of blacklisted_binning_contigs, contig by contig in header order *)
Definition gen_plans (contigs : list (Z * Z)) (bs f : Z) : list contig_plan :=
  map (fun cl => (fst cl, snd cl, gen_tasks (fst cl) (snd cl) bs f)) contigs.

Definition gen_regions (contigs : list (Z * Z)) (bs f : Z) : list task := plan_tasks (gen_plans contigs bs f).

(* the region jobs of run_multiome_tagging: bp_chunked(regions, bp_per_job) *)
Definition gen_jobs (contigs : list (Z * Z)) (bs f k : Z) : list (list task) :=
  C08.bp_chunked (gen_regions contigs bs f) k.

Definition dec_contig (v : Val) : Z * Z := (getZ (nthV 0 v), getZ (nthV 1 v)).

(* mode 5: [contigs (id, length); bin size; fragment size; bp_per_job; L]
           -> [regions; jobs; plans_ok L (gen_plans ...)]
   other modes: run_C08 *)
Definition run_C08x (mode : Z) (v : Val) : Val :=
  match mode with
  | 5 => let cs := map dec_contig (getL (nthV 0 v)) in
         let bs := getZ (nthV 1 v) in
         let f := getZ (nthV 2 v) in
         let k := getZ (nthV 3 v) in
         let L := getZ (nthV 4 v) in
         VL [VL (map enc_task (gen_regions cs bs f));
             VL (map (fun job => VL (map enc_task job)) (gen_jobs cs bs f k));
             ofB (plans_ok L (gen_plans cs bs f))]
  | _ => run_C08 mode v
  end.
