(* C10 — property theorems only.  Each is closed by [exact lemma]; Print Assumptions beneath.
   bins_u / bins_t are the two copies of coordinate_to_bins REGENERATED from /repo (Gen/GenBins.v);
   skip_bin is the regenerated over-bounds test of assignReads. *)
From Coq Require Import ZArith List Bool Permutation Sorted.
Import ListNotations.
From SCMO Require Import Lib.PyInt Gen.GenBins Model.C10 Proofs.C10 Proofs.C10_b.
Open Scope Z_scope.

(* each read lands in exactly the windows [i*s, i*s+b) that contain the coordinate *)
Theorem C10_membership_table : forall dp b s lo hi, 0 < s ->
  In (lo, hi) (bins_t dp b s) <-> exists i, lo = i * s /\ hi = i * s + b /\ lo <= dp < hi.
Proof. exact (membership bins_t bins_t_def). Qed.
Print Assumptions C10_membership_table.

Theorem C10_membership_utils : forall dp b s lo hi, 0 < s ->
  In (lo, hi) (bins_u dp b s) <-> exists i, lo = i * s /\ hi = i * s + b /\ lo <= dp < hi.
Proof. exact (membership bins_u bins_u_def). Qed.
Print Assumptions C10_membership_utils.

(* no sliding (s = b): exactly one bin, [k*b,(k+1)*b) with k = floor(dp/b) *)
Theorem C10_no_sliding_table : forall dp b, 0 < b -> bins_t dp b b = [(b * (dp / b), b * (dp / b) + b)].
Proof. exact (no_sliding bins_t bins_t_def). Qed.
Print Assumptions C10_no_sliding_table.

Theorem C10_no_sliding_utils : forall dp b, 0 < b -> bins_u dp b b = [(b * (dp / b), b * (dp / b) + b)].
Proof. exact (no_sliding bins_u bins_u_def). Qed.
Print Assumptions C10_no_sliding_utils.

(* nothing is counted twice *)
Theorem C10_no_double : forall dp b s, 0 < s -> NoDup (bins_t dp b s) /\ NoDup (bins_u dp b s).
Proof. intros dp b s H. exact (conj (nodup bins_t bins_t_def dp b s H) (nodup bins_u bins_u_def dp b s H)). Qed.
Print Assumptions C10_no_double.

(* over-bounds rule: a window is dropped iff it leaves [0, reflen] and keepOverBounds is off *)
Theorem C10_counted : forall keep reflen dp b s lo hi,
  In (lo, hi) (counted_bins keep reflen dp b s) <->
  In (lo, hi) (bins_t dp b s) /\ (keep = true \/ (0 <= lo /\ hi <= reflen)).
Proof. exact counted_iff. Qed.
Print Assumptions C10_counted.

(* table level: every cell holds exactly the summed weights of the reads whose key matches and whose
   coordinate lies in that window (declarative; does not mention the bins functions) *)
Theorem C10_cell : forall keep b s k lo hi reads, 0 < s ->
  cell (k, lo, hi) (table keep b s reads) = decl_cell keep b s (k, lo, hi) reads.
Proof. exact table_cell_decl. Qed.
Print Assumptions C10_cell.

(* table total = sum over reads of weight x number of in-bounds windows containing the read *)
Theorem C10_total : forall keep b s reads,
  total (table keep b s reads) = spec_total keep b s reads.
Proof. exact table_total. Qed.
Print Assumptions C10_total.

(* histories: several calls in one process (also several alignment files / contigs of different length in one
   call, since every read carries the length of its own contig): call n yields exactly the table of its own
   reads and options, whatever was counted before *)
Theorem C10_history : forall calls n keep b s reads,
  nth_error calls n = Some (keep, b, s, reads) -> nth_error (history calls) n = Some (table keep b s reads).
Proof. exact history_nth. Qed.
Print Assumptions C10_history.

(* non-vacuity: a coordinate on a bin boundary, sliding and non-sliding *)
Example C10_boundary : bins_t 30 30 30 = [(30, 60)] /\ bins_t 30 30 10 = [(10, 40); (20, 50); (30, 60)]
  /\ counted_bins false 55 30 30 10 = [(10, 40); (20, 50)].
Proof. vm_compute. repeat split. Qed.
Print Assumptions C10_boundary.

(* split_double_BAM.py takes element [0] of coordinate_to_bins(DS, binsize, binsize) (call regenerated
   from source): it is the bin containing the site, never the preceding one *)
Theorem C10_split_double_bin : forall ds b, 0 < b ->
  split_double_bin ds b = Some (b * (ds / b), b * (ds / b) + b).
Proof. exact split_double_bin_ok. Qed.
Print Assumptions C10_split_double_bin.

(* ---- added in session 4: consequences for the whole table ---- *)

(* the two copies of coordinate_to_bins (utils.binning and bamToCountTable's own) agree everywhere *)
Theorem C10_copies_agree : forall dp b s, 0 < s -> bins_u dp b s = bins_t dp b s.
Proof. exact copies_agree. Qed.
Print Assumptions C10_copies_agree.

(* how many windows contain one coordinate: floor(b/s) or floor(b/s)+1, exactly b/s when s divides b,
   and never none (so a counted read is never silently lost by the kernel) *)
Theorem C10_window_count : forall dp b s, 0 < s -> s <= b ->
  Z.of_nat (length (bins_t dp b s)) = dp / s - (dp - b) / s
  /\ b / s <= Z.of_nat (length (bins_t dp b s)) <= b / s + 1
  /\ bins_t dp b s <> [].
Proof.
  intros dp b s Hs Hb.
  exact (conj (window_count dp b s Hs Hb) (conj (window_count_bounds dp b s Hs Hb) (at_least_one_window dp b s Hs Hb))).
Qed.
Print Assumptions C10_window_count.

Theorem C10_window_count_divides : forall dp s m, 0 < s -> 1 <= m ->
  Z.of_nat (length (bins_t dp (m * s) s)) = m.
Proof. exact window_count_divides. Qed.
Print Assumptions C10_window_count_divides.

(* windows come out left to right, all of width b, all starting on a multiple of s *)
Theorem C10_windows_sorted : forall dp b s, 0 < s ->
  StronglySorted (fun p q => fst p < fst q /\ snd p < snd q) (bins_t dp b s)
  /\ Forall (fun p => snd p = fst p + b /\ fst p mod s = 0) (bins_t dp b s).
Proof. intros dp b s Hs. exact (conj (bins_sorted dp b s Hs) (bins_shape_all dp b s Hs)). Qed.
Print Assumptions C10_windows_sorted.

(* the statement's "consequently" clause in closed form, non-sliding: the table total is the summed
   weight of the reads whose bin [k*b,(k+1)*b) lies inside [0, reflen] (all reads with keepOverBounds) *)
Theorem C10_total_no_sliding : forall keep b reads, 0 < b ->
  total (table keep b b reads) = weight_inside keep b reads.
Proof. exact total_no_sliding. Qed.
Print Assumptions C10_total_no_sliding.

Theorem C10_total_keep : forall b reads, 0 < b -> total (table true b b reads) = weight_all reads.
Proof. exact total_keep_no_sliding. Qed.
Print Assumptions C10_total_keep.

(* sliding with s | b and keepOverBounds: every read is counted exactly b/s times *)
Theorem C10_total_keep_sliding : forall s m reads, 0 < s -> 1 <= m ->
  total (table true (m * s) s reads) = m * weight_all reads.
Proof. exact total_keep_divides. Qed.
Print Assumptions C10_total_keep_sliding.

(* which reads the bounds rule drops in non-sliding mode: exactly those in the trailing partial bin *)
Theorem C10_partial_last_bin : forall reflen dp b, 0 < b -> 0 <= dp < reflen ->
  counted_bins false reflen dp b b = [] <-> b * (reflen / b) <= dp.
Proof. exact partial_last_bin. Qed.
Print Assumptions C10_partial_last_bin.

(* the table is a function of the MULTISET of reads: the order of reads, alignment files and contigs
   does not matter, and counting two batches separately and adding equals counting them together *)
Theorem C10_order_irrelevant : forall keep b s k lo hi r1 r2, 0 < s -> Permutation r1 r2 ->
  cell (k, lo, hi) (table keep b s r1) = cell (k, lo, hi) (table keep b s r2)
  /\ total (table keep b s r1) = total (table keep b s r2).
Proof.
  intros keep b s k lo hi r1 r2 Hs P.
  exact (conj (cell_perm keep b s k lo hi r1 r2 Hs P) (total_perm keep b s r1 r2 P)).
Qed.
Print Assumptions C10_order_irrelevant.

Theorem C10_additive : forall keep b s k lo hi r1 r2, 0 < s ->
  cell (k, lo, hi) (table keep b s (r1 ++ r2))
    = cell (k, lo, hi) (table keep b s r1) + cell (k, lo, hi) (table keep b s r2)
  /\ total (table keep b s (r1 ++ r2)) = total (table keep b s r1) + total (table keep b s r2).
Proof.
  intros keep b s k lo hi r1 r2 Hs.
  exact (conj (cell_app keep b s k lo hi r1 r2 Hs) (total_app keep b s r1 r2)).
Qed.
Print Assumptions C10_additive.

(* one row per (key, window): no cell is split over two rows; and no phantom rows - every row is a
   counted window of some read with that key *)
Theorem C10_rows : forall keep b s reads, 0 < s ->
  NoDup (map fst (table keep b s reads))
  /\ forall q, In q (map fst (table keep b s reads)) ->
       exists r, In r reads /\ In (snd (fst q), snd q) (counted_bins keep (r_reflen r) (r_dp r) b s)
                 /\ fst (fst q) = r_key r.
Proof.
  intros keep b s reads Hs.
  exact (conj (table_rows_NoDup keep b s reads) (fun q => table_rows_sound keep b s reads q Hs)).
Qed.
Print Assumptions C10_rows.

(* non-vacuity for the added theorems: boundary coordinate, s not dividing b, a dropped trailing bin *)
Example C10_added_examples :
  length (bins_t 30 30 10) = 3%nat /\ length (bins_t 9 25 10) = 2%nat /\ length (bins_t 10 25 10) = 3%nat
  /\ counted_bins false 100 95 30 30 = [] /\ counted_bins false 100 89 30 30 = [(60, 90)]
  /\ total (table false 30 30 [ {| r_dp := 95; r_w := 2; r_key := 0; r_reflen := 100 |};
                                {| r_dp := 60; r_w := 1; r_key := 0; r_reflen := 100 |} ]) = 1
  /\ total (table true 30 10 [ {| r_dp := 30; r_w := 2; r_key := 0; r_reflen := 100 |} ]) = 6.
Proof. vm_compute. repeat split. Qed.
Print Assumptions C10_added_examples.
