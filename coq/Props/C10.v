(* C10 — property theorems only.  Each is closed by [exact lemma]; Print Assumptions beneath.
   bins_u / bins_t are the two copies of coordinate_to_bins REGENERATED from /repo (Gen/GenBins.v);
   skip_bin is the regenerated over-bounds test of assignReads. *)
From Coq Require Import ZArith List Bool.
Import ListNotations.
From SCMO Require Import Lib.PyInt Gen.GenBins Model.C10 Proofs.C10.
Open Scope Z_scope.

(* each read lands in exactly the windows [i*s, i*s+b) that contain the coordinate *)
Theorem C10_membership_table : forall dp b s lo hi, 0 < s ->
  In (lo, hi) (bins_t dp b s) <-> exists i, lo = i * s /\ hi = i * s + b /\ lo <= dp < hi.
Proof. exact (membership bins_t bins_t_def). Qed.
Print Assumptions C10_membership_table.

Theorem C10_membership_utils : forall dp b s lo hi, 0 < s ->
  In (lo, hi) (bins_u dp b s) <-> exists i, lo = i * s /\ hi = i * s + b /\ lo <= dp < hi.
Proof. exact (membership bins_u bins_u_def). Qed.
Print Assumptions C10_membership_utils.

(* no sliding (s = b): exactly one bin, [k*b,(k+1)*b) with k = floor(dp/b) *)
Theorem C10_no_sliding_table : forall dp b, 0 < b -> bins_t dp b b = [(b * (dp / b), b * (dp / b) + b)].
Proof. exact (no_sliding bins_t bins_t_def). Qed.
Print Assumptions C10_no_sliding_table.

Theorem C10_no_sliding_utils : forall dp b, 0 < b -> bins_u dp b b = [(b * (dp / b), b * (dp / b) + b)].
Proof. exact (no_sliding bins_u bins_u_def). Qed.
Print Assumptions C10_no_sliding_utils.

(* nothing is counted twice *)
Theorem C10_no_double : forall dp b s, 0 < s -> NoDup (bins_t dp b s) /\ NoDup (bins_u dp b s).
Proof. intros dp b s H. exact (conj (nodup bins_t bins_t_def dp b s H) (nodup bins_u bins_u_def dp b s H)). Qed.
Print Assumptions C10_no_double.

(* over-bounds rule: a window is dropped iff it leaves [0, reflen] and keepOverBounds is off *)
Theorem C10_counted : forall keep reflen dp b s lo hi,
  In (lo, hi) (counted_bins keep reflen dp b s) <->
  In (lo, hi) (bins_t dp b s) /\ (keep = true \/ (0 <= lo /\ hi <= reflen)).
Proof. exact counted_iff. Qed.
Print Assumptions C10_counted.

(* table level: every cell holds exactly the summed weights of the reads whose key matches and whose
   coordinate lies in that window (declarative; does not mention the bins functions) *)
Theorem C10_cell : forall keep b s k lo hi reads, 0 < s ->
  cell (k, lo, hi) (table keep b s reads) = decl_cell keep b s (k, lo, hi) reads.
Proof. exact table_cell_decl. Qed.
Print Assumptions C10_cell.

(* table total = sum over reads of weight x number of in-bounds windows containing the read *)
Theorem C10_total : forall keep b s reads,
  total (table keep b s reads) = spec_total keep b s reads.
Proof. exact table_total. Qed.
Print Assumptions C10_total.

(* histories: several calls in one process (also several alignment files / contigs of different length in one
   call, since every read carries the length of its own contig): call n yields exactly the table of its own
   reads and options, whatever was counted before *)
Theorem C10_history : forall calls n keep b s reads,
  nth_error calls n = Some (keep, b, s, reads) -> nth_error (history calls) n = Some (table keep b s reads).
Proof. exact history_nth. Qed.
Print Assumptions C10_history.

(* non-vacuity: a coordinate on a bin boundary, sliding and non-sliding *)
Example C10_boundary : bins_t 30 30 30 = [(30, 60)] /\ bins_t 30 30 10 = [(10, 40); (20, 50); (30, 60)]
  /\ counted_bins false 55 30 30 10 = [(10, 40); (20, 50)].
Proof. vm_compute. repeat split. Qed.
Print Assumptions C10_boundary.

(* split_double_BAM.py takes element [0] of coordinate_to_bins(DS, binsize, binsize) (call regenerated
   from source): it is the bin containing the site, never the preceding one *)
Theorem C10_split_double_bin : forall ds b, 0 < b ->
  split_double_bin ds b = Some (b * (ds / b), b * (ds / b) + b).
Proof. exact split_double_bin_ok. Qed.
Print Assumptions C10_split_double_bin.
