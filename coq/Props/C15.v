(* C15 — property theorems only.  Each is closed by [exact lemma]; Print Assumptions beneath.
   consensus caller ref maxN m reads = the records Molecule.deduplicate_majority(max_N_span = maxN)
   produces for the reads of a molecule (Model/C15.v; repaired behaviour, see fixes/C15-*.md).
   caller = base caller of one column; the implementation's is [fun os => fst (call pc os)]. *)
From Coq Require Import ZArith List Bool QArith.
Import ListNotations.
From SCMO Require Import Lib.PyInt Model.C15 Proofs.C15_a Proofs.C15_b Proofs.C15_c Proofs.C15_d Proofs.C15_e Proofs.C15 Proofs.C15_h.
Open Scope Z_scope.

(* the aligned (M) positions of all records, in order, are exactly the sorted distinct reference
   positions observed by the molecule's reads (M over covered runs, N over gaps); every CIGAR
   alternates M/N, starts and ends with M, has positive lengths and no N longer than max_N_span;
   the molecule is cut into 1 + (number of gaps longer than max_N_span) records *)
Theorem C15_blocks_exact : forall caller ref maxN m reads recs,
  consensus caller ref maxN m reads = Some recs ->
  flat_map rec_positions recs = covered reads /\
  inc (covered reads) /\
  (forall p, In p (covered reads) <-> exists o, In o (all_obs reads) /\ o_pos o = p) /\
  Forall (fun r => okM maxN (c_cigar r)) recs /\
  length recs = S (n_long maxN (cigar_of_runs (runs (covered reads)))).
Proof. exact blocks_exact. Qed.
Print Assumptions C15_blocks_exact.

(* no record at all exactly when no base of the molecule is aligned (outside the property) *)
Theorem C15_no_coverage : forall caller ref maxN m reads,
  consensus caller ref maxN m reads = None <-> all_obs reads = [].
Proof. exact consensus_none. Qed.
Print Assumptions C15_no_coverage.

(* blocks of find_ranges: expanding them gives back the position list, for every list *)
Theorem C15_runs_expand : forall l, flat_map rng (runs l) = l.
Proof. exact runs_expand. Qed.
Print Assumptions C15_runs_expand.

(* |seq| = sum of the M lengths = number of aligned positions; the base at each position is the
   call for the observations at that position *)
Theorem C15_lengths : forall caller ref maxN m reads recs r,
  consensus caller ref maxN m reads = Some recs -> In r recs ->
  c_seq r = map (call_at caller (all_obs reads)) (rec_positions r) /\
  Z.of_nat (length (c_seq r)) = query_len (c_cigar r) /\
  length (c_seq r) = length (rec_positions r).
Proof. exact record_seq. Qed.
Print Assumptions C15_lengths.

(* a record starts at its first aligned position *)
Theorem C15_start : forall caller ref maxN m reads recs r,
  consensus caller ref maxN m reads = Some recs -> In r recs ->
  exists t, rec_positions r = c_start r :: t.
Proof. exact record_start. Qed.
Print Assumptions C15_start.

(* the MD tag read column-wise against the record's sequence gives the (upper-cased) reference base
   of every aligned position *)
Theorem C15_md : forall caller ref maxN m reads recs r,
  consensus caller ref maxN m reads = Some recs -> In r recs ->
  (forall p, is_digit (ref p) = false) ->
  md_decode (c_md r) (c_seq r) = Some (map (fun p => upper (ref p)) (rec_positions r)).
Proof. exact record_md. Qed.
Print Assumptions C15_md.

(* create_MD_tag / reader round trip for any reference stretch and query of equal length *)
Theorem C15_md_roundtrip : forall ref q,
  length ref = length q -> Forall (fun c => is_digit c = false) ref ->
  md_decode (md_tag ref q) q = Some (map upper ref).
Proof. exact md_roundtrip. Qed.
Print Assumptions C15_md_roundtrip.

(* D18: the unrepaired reference stretch (reference_start..reference_end, gap included) does not
   round-trip on gapped coverage; the M-block stretch does *)
Theorem C15_md_unrepaired_refuted :
  let ref := fun p => nth (Z.to_nat p) [65;65;65;67;67;67;71;71;71] 78 in
  let p := mkPartial 0 (Some 9) [65;65;65;71;71;71] [CM 3; CN 3; CM 3] [(0,3);(6,9)] in
  md_decode (md_old ref p) (pa_seq p) <> Some (map ref (expand (pa_start p) (pa_cigar p))) /\
  md_decode (md_tag (map ref (block_positions (pa_md p))) (pa_seq p)) (pa_seq p)
    = Some (map ref (expand (pa_start p) (pa_cigar p))).
Proof. exact md_old_refuted. Qed.
Print Assumptions C15_md_unrepaired_refuted.

(* arg-max: for correctness probabilities in [0,1) the called base is the one whose exact likelihood is
   strictly above all others; when the two best likelihoods are equal the call is N *)
Theorem C15_call_argmax : forall pc : Z -> Q, (forall q, (0 <= pc q /\ pc q < 1)%Q) ->
  forall os, let l := likelihoods pc os in
  (exists p, unique_max l (fst (call pc os)) p) \/ (tied_max l /\ fst (call pc os) = baseN).
Proof. exact call_argmax. Qed.
Print Assumptions C15_call_argmax.

(* what the likelihood table of a column holds: one entry per observed base plus N; a base's value is
   the product of the correctness probabilities of the observations showing it, N's the product of the
   error probabilities of all non-N observations, each times 4^(number of factors - 1) *)
Theorem C15_likelihoods : forall pc os,
  NoDup (map fst (likelihoods pc os)) /\
  (forall b, In b (map fst (likelihoods pc os)) <-> b = baseN \/ exists q, In (b, q) os) /\
  (forall b v, In (b, v) (likelihoods pc os) -> b <> baseN -> v = lik (map pc (quals_of b os))) /\
  (forall v, In (baseN, v) (likelihoods pc os) -> (v == lik (map (om pc) (nonN os)))%Q).
Proof. exact likelihoods_spec. Qed.
Print Assumptions C15_likelihoods.

(* the same arg-max law stated over the declarative likelihood L of each key: either the called base
   is a key whose likelihood is strictly above that of every other key, or the call is N and two
   different keys share the maximal likelihood *)
Theorem C15_call_argmax_decl : forall pc : Z -> Q, (forall q, (0 <= pc q /\ pc q < 1)%Q) ->
  forall os, let b := fst (call pc os) in
  (is_key os b /\ forall k, is_key os k -> k <> b -> (L pc os k < L pc os b)%Q) \/
  (b = baseN /\ exists k1 k2, k1 <> k2 /\ is_key os k1 /\ is_key os k2 /\
                 (L pc os k1 == L pc os k2)%Q /\ forall k, is_key os k -> (L pc os k <= L pc os k1)%Q).
Proof. exact call_decl. Qed.
Print Assumptions C15_call_argmax_decl.

(* a column in which every observation shows the same base b (not N), each more likely right than
   wrong, is called b *)
Theorem C15_call_unanimous : forall pc : Z -> Q, (forall q, (0 <= pc q /\ pc q < 1)%Q) ->
  forall os b, os <> [] -> b <> baseN ->
  Forall (fun o => fst o = b /\ (1 # 2 < pc (snd o))%Q) os ->
  fst (call pc os) = b.
Proof. exact call_unanimous. Qed.
Print Assumptions C15_call_unanimous.

(* non-vacuity of the call: agreement, conflict at unequal and at equal quality, one weak observation *)
Example C15_call_example :
  let pc := pc_of (map (fun q => if q =? 0 then 0 else 2 ^ 60 - 2 ^ (60 - q)) (zrange 0 42)) in
  fst (call pc [(65, 30); (65, 20)]) = 65 /\ fst (call pc [(65, 30); (67, 20)]) = 65 /\
  call pc [(65, 30); (67, 30)] = (78, 0%Q) /\ fst (call pc [(71, 1); (78, 40)]) = 78 /\
  fst (call pc [(67, 20); (65, 30); (67, 20)]) = 67.
Proof. vm_compute. repeat split. Qed.
Print Assumptions C15_call_example.

(* the reported probability is the winner's share of the total likelihood *)
Theorem C15_call_probability : forall pc : Z -> Q, (forall q, (0 <= pc q /\ pc q < 1)%Q) ->
  forall os,
  fst (call pc os) = fst (call_of (likelihoods pc os)) /\
  (snd (call pc os) == snd (call_of (likelihoods pc os)) / qsum (map snd (likelihoods pc os)))%Q.
Proof. exact call_is_call_of. Qed.
Print Assumptions C15_call_probability.

(* ranking law used above: most_common is a descending rearrangement *)
Theorem C15_most_common : forall l, Permutation.Permutation (most_common l) l /\ desc (most_common l).
Proof. intro l. exact (conj (most_common_perm l) (most_common_desc l)). Qed.
Print Assumptions C15_most_common.

(* the records carry the molecule's sample, UMI, site, fragment count (and strand, barcode) *)
Theorem C15_tags : forall caller ref maxN m reads recs r,
  consensus caller ref maxN m reads = Some recs -> In r recs ->
  c_SM r = m_sample m /\ c_RX r = m_umi m /\ c_DS r = m_site m /\
  c_TF r = m_fragments m + m_overflow m /\
  c_reverse r = match m_strand m with Some b => b | None => false end /\
  (forall u, m_umi m = Some u -> c_BC r = Some (m_bc m) /\ c_MI r = Some (m_bc m ++ u)).
Proof. exact record_tags. Qed.
Print Assumptions C15_tags.

(* one molecule object over time (AddFragment / AddMolecule / Consensus max_N_span, any sequence):
   the answer to every consensus request is the one computed from the fragments held at that moment,
   whatever was requested or added before; the fragments held are the initial ones followed by all
   additions in order (requests leave no trace) *)
Theorem C15_history_stateless : forall (A : Type) (ans : option Z -> list frag -> A) pre st mx post,
  nth_error (run_ops ans (pre ++ Consensus mx :: post) st) (n_requests pre) = Some (ans mx (held pre st)) /\
  held pre st = st ++ flat_map added pre /\
  length (run_ops ans (pre ++ Consensus mx :: post) st) = n_requests (pre ++ Consensus mx :: post).
Proof.
  intros A ans pre st mx post.
  exact (conj (run_ops_stateless ans pre st mx post) (conj (held_added pre st) (run_ops_length ans _ st))).
Qed.
Print Assumptions C15_history_stateless.

(* dropping a consensus request from a history leaves every other answer unchanged *)
Theorem C15_history_requests_independent : forall (A : Type) (ans : option Z -> list frag -> A) pre st mx post,
  run_ops ans (pre ++ post) st =
  firstn (n_requests pre) (run_ops ans (pre ++ Consensus mx :: post) st) ++
  skipn (S (n_requests pre)) (run_ops ans (pre ++ Consensus mx :: post) st).
Proof. intros A. exact (@run_ops_drop_request A). Qed.
Print Assumptions C15_history_requests_independent.

(* hence every answer in a history aligns exactly the positions covered by ALL reads held at that moment
   (later additions included, earlier answers irrelevant) and counts all fragments held *)
Theorem C15_history_blocks : forall caller ref b pre st mx post recs,
  nth_error (run_ops (answer caller ref b) (pre ++ Consensus mx :: post) st) (n_requests pre) = Some (Some recs) ->
  flat_map rec_positions recs = covered (reads_of (st ++ flat_map added pre)) /\
  Forall (fun r => okM mx (c_cigar r)) recs /\
  forall r, In r recs -> c_TF r = Z.of_nat (length (st ++ flat_map added pre)) + 0.
Proof. exact history_blocks. Qed.
Print Assumptions C15_history_blocks.

(* non-vacuity: consensus, add a fragment further downstream, consensus again with another max_N_span *)
Example C15_history_example :
  let f1 := mkFrag [65] 60 [mkRead 10 [(0,3)] [65;67;71] [30;30;30]] in
  let f2 := mkFrag [65] 60 [mkRead 10 [(0,2)] [65;67] [30;30]; mkRead 20 [(0,2)] [84;84] [30;30]] in
  map (option_map (map (fun r => (c_start r, c_cigar r, c_TF r))))
      (run_ops (answer (fun os => fst (call_fast (pc_of [0; 2 ^ 59]) os)) (fun _ => 65) (mkBase [83] (Some 10) [66] (Some false)))
               [Consensus None; AddFragment f2; Consensus None; Consensus (Some 3)] [f1])
  = [Some [(10, [CM 3], 1)]; Some [(10, [CM 3; CN 7; CM 2], 2)]; Some [(10, [CM 3], 2); (20, [CM 2], 2)]].
Proof. vm_compute. reflexivity. Qed.
Print Assumptions C15_history_example.

(* tie of the executable model to the theorems: the model run by the correspondence check calls
   bases with call_fast (no division by the total); for a table of probabilities in [0,1) that is
   the same consensus as with phredscores_to_base_call's [call] *)
Theorem C15_run_model_is_call : forall tab ref maxN m reads, valid_tab tab = true ->
  consensus (fun os => fst (call_fast (pc_of tab) os)) ref maxN m reads =
  consensus (fun os => fst (call (pc_of tab) os)) ref maxN m reads.
Proof. exact run_model_is_call. Qed.
Print Assumptions C15_run_model_is_call.

(* non-vacuity: a read with a deletion (gap of 1, kept as 1N), a mate 4 positions further (gap of 4,
   above max_N_span = 3: second record), conflicting bases at equal quality (tie -> N, position 2)
   and at unequal quality (position 3: T at 30 beats A at 20) *)
Example C15_example :
  let tab := map (fun q => if q =? 0 then 0 else 2 ^ 60 - 2 ^ (60 - q)) (zrange 0 42) in
  let ref := fun p => nth (Z.to_nat p) [65;67;71;84;65;67;71;84;65;67;71;84;65;67;71;84;65;67;71;84] 78 in
  let m := mkMeta [83] (Some [85]) (Some 1) [66] 2 0 (Some false) [60; 42] in
  let reads := [ mkRead 1 [(0,3);(2,1);(0,2)] [67;71;84;71;84] [30;30;30;30;30];
                 mkRead 11 [(0,3)] [84;65;67] [30;30;30];
                 mkRead 1 [(0,3)] [67;65;65] [30;30;20] ] in
  valid_tab tab = true /\
  option_map (map (fun r => (c_start r, c_cigar r, c_seq r, c_md r)))
             (consensus (fun os => fst (call (pc_of tab) os)) ref (Some 3) m reads)
  = Some [ (1, [CM 3; CN 1; CM 2], [67;78;84;71;84], [49;71;49;67;71]);
           (11, [CM 3], [84;65;67], [51]) ].
Proof. vm_compute. split; reflexivity. Qed.
Print Assumptions C15_example.
