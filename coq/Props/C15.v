From Coq Require Import ZArith List Bool.
Import ListNotations.
From SCMO Require Import Model.C15 Proofs.C15.
Open Scope Z_scope.
Example C15_placeholder : runs [1;2;3;7;8] = [(1,3);(7,8)].
Proof. exact placeholder. Qed.
Print Assumptions C15_placeholder.
