(* C15 — property theorems only.  Each is closed by [exact lemma]; Print Assumptions beneath.
   consensus caller qcaller ref maxN m reads = the records Molecule.deduplicate_majority(max_N_span = maxN)
   produces for the reads of a molecule (Model/C15.v; repaired behaviour, see fixes/C15-*.md).
   caller = base caller of one column; the implementation's is [fun os => fst (call pc os)];
   qcaller = phred quality of one column; the implementation's is [col_qual pc tt].
   consensus_x .. ref chrom creads = the whole request (what is raised / skipped; reads with their contig).
   The gen_* expressions are regenerated from the source on every run (coq/Gen/GenDedup.v). *)
From Coq Require Import ZArith List Bool QArith.
Import ListNotations.
From SCMO Require Import Lib.PyInt Gen.GenDedup Model.C15 Proofs.C15_g Proofs.C15_a Proofs.C15_b Proofs.C15_c Proofs.C15_d Proofs.C15_e Proofs.C15 Proofs.C15_h Proofs.C15_q Proofs.C15_x.
Open Scope Z_scope.

(* the aligned (M) positions of all records, in order, are exactly the sorted distinct reference
   positions observed by the molecule's reads (M over covered runs, N over gaps); every CIGAR
   alternates M/N, starts and ends with M, has positive lengths and no N longer than max_N_span;
   the molecule is cut into 1 + (number of gaps longer than max_N_span) records *)
Theorem C15_blocks_exact : forall caller qcaller ref maxN m reads recs,
  consensus caller qcaller ref maxN m reads = Some recs ->
  flat_map rec_positions recs = covered reads /\
  inc (covered reads) /\
  (forall p, In p (covered reads) <-> exists o, In o (all_obs reads) /\ o_pos o = p) /\
  Forall (fun r => okM maxN (c_cigar r)) recs /\
  length recs = S (n_long maxN (cigar_of_runs (runs (covered reads)))).
Proof. exact blocks_exact. Qed.
Print Assumptions C15_blocks_exact.

(* no record at all exactly when no base of the molecule is aligned (outside the property) *)
Theorem C15_no_coverage : forall caller qcaller ref maxN m reads,
  consensus caller qcaller ref maxN m reads = None <-> all_obs reads = [].
Proof. exact consensus_none. Qed.
Print Assumptions C15_no_coverage.

(* blocks of find_ranges: expanding them gives back the position list, for every list *)
Theorem C15_runs_expand : forall l, flat_map rng (runs l) = l.
Proof. exact runs_expand. Qed.
Print Assumptions C15_runs_expand.

(* |seq| = sum of the M lengths = number of aligned positions; the base at each position is the
   call for the observations at that position *)
Theorem C15_lengths : forall caller qcaller ref maxN m reads recs r,
  consensus caller qcaller ref maxN m reads = Some recs -> In r recs ->
  c_seq r = map (call_at caller (all_obs reads)) (rec_positions r) /\
  Z.of_nat (length (c_seq r)) = query_len (c_cigar r) /\
  length (c_seq r) = length (rec_positions r).
Proof. exact record_seq. Qed.
Print Assumptions C15_lengths.

(* a record starts at its first aligned position *)
Theorem C15_start : forall caller qcaller ref maxN m reads recs r,
  consensus caller qcaller ref maxN m reads = Some recs -> In r recs ->
  exists t, rec_positions r = c_start r :: t.
Proof. exact record_start. Qed.
Print Assumptions C15_start.

(* the MD tag read column-wise against the record's sequence gives the (upper-cased) reference base
   of every aligned position *)
Theorem C15_md : forall caller qcaller ref maxN m reads recs r,
  consensus caller qcaller ref maxN m reads = Some recs -> In r recs ->
  (forall p, is_digit (ref p) = false) ->
  md_decode (c_md r) (c_seq r) = Some (map (fun p => upper (ref p)) (rec_positions r)).
Proof. exact record_md. Qed.
Print Assumptions C15_md.

(* create_MD_tag / reader round trip for any reference stretch and query of equal length *)
Theorem C15_md_roundtrip : forall ref q,
  length ref = length q -> Forall (fun c => is_digit c = false) ref ->
  md_decode (md_tag ref q) q = Some (map upper ref).
Proof. exact md_roundtrip. Qed.
Print Assumptions C15_md_roundtrip.

(* D18: the unrepaired reference stretch (reference_start..reference_end, gap included) does not
   round-trip on gapped coverage; the M-block stretch does *)
Theorem C15_md_unrepaired_refuted :
  let ref := fun p => nth (Z.to_nat p) [65;65;65;67;67;67;71;71;71] 78 in
  let p := mkPartial 0 (Some 9) [65;65;65;71;71;71] [30;30;30;30;30;30] [CM 3; CN 3; CM 3] [(0,3);(6,9)] in
  md_decode (md_old ref p) (pa_seq p) <> Some (map ref (expand (pa_start p) (pa_cigar p))) /\
  md_decode (md_tag (map ref (block_positions (pa_md p))) (pa_seq p)) (pa_seq p)
    = Some (map ref (expand (pa_start p) (pa_cigar p))).
Proof. exact md_old_refuted. Qed.
Print Assumptions C15_md_unrepaired_refuted.

(* arg-max: for correctness probabilities in [0,1) the called base is the one whose exact likelihood is
   strictly above all others; when the two best likelihoods are equal the call is N *)
Theorem C15_call_argmax : forall pc : Z -> Q, (forall q, (0 <= pc q /\ pc q < 1)%Q) ->
  forall os, let l := likelihoods pc os in
  (exists p, unique_max l (fst (call pc os)) p) \/ (tied_max l /\ fst (call pc os) = baseN).
Proof. exact call_argmax. Qed.
Print Assumptions C15_call_argmax.

(* what the likelihood table of a column holds: one entry per observed base plus N; a base's value is
   the product of the correctness probabilities of the observations showing it, N's the product of the
   error probabilities of all non-N observations, each times 4^(number of factors - 1) *)
Theorem C15_likelihoods : forall pc os,
  NoDup (map fst (likelihoods pc os)) /\
  (forall b, In b (map fst (likelihoods pc os)) <-> b = baseN \/ exists q, In (b, q) os) /\
  (forall b v, In (b, v) (likelihoods pc os) -> b <> baseN -> v = lik (map pc (quals_of b os))) /\
  (forall v, In (baseN, v) (likelihoods pc os) -> (v == lik (map (om pc) (nonN os)))%Q).
Proof. exact likelihoods_spec. Qed.
Print Assumptions C15_likelihoods.

(* the same arg-max law stated over the declarative likelihood L of each key: either the called base
   is a key whose likelihood is strictly above that of every other key, or the call is N and two
   different keys share the maximal likelihood *)
Theorem C15_call_argmax_decl : forall pc : Z -> Q, (forall q, (0 <= pc q /\ pc q < 1)%Q) ->
  forall os, let b := fst (call pc os) in
  (is_key os b /\ forall k, is_key os k -> k <> b -> (L pc os k < L pc os b)%Q) \/
  (b = baseN /\ exists k1 k2, k1 <> k2 /\ is_key os k1 /\ is_key os k2 /\
                 (L pc os k1 == L pc os k2)%Q /\ forall k, is_key os k -> (L pc os k <= L pc os k1)%Q).
Proof. exact call_decl. Qed.
Print Assumptions C15_call_argmax_decl.

(* a column in which every observation shows the same base b (not N), each more likely right than
   wrong, is called b *)
Theorem C15_call_unanimous : forall pc : Z -> Q, (forall q, (0 <= pc q /\ pc q < 1)%Q) ->
  forall os b, os <> [] -> b <> baseN ->
  Forall (fun o => fst o = b /\ (1 # 2 < pc (snd o))%Q) os ->
  fst (call pc os) = b.
Proof. exact call_unanimous. Qed.
Print Assumptions C15_call_unanimous.

(* non-vacuity of the call: agreement, conflict at unequal and at equal quality, one weak observation *)
Example C15_call_example :
  let pc := pc_of (map (fun q => if q =? 0 then 0 else 2 ^ 60 - 2 ^ (60 - q)) (zrange 0 42)) in
  fst (call pc [(65, 30); (65, 20)]) = 65 /\ fst (call pc [(65, 30); (67, 20)]) = 65 /\
  call pc [(65, 30); (67, 30)] = (78, 0%Q) /\ fst (call pc [(71, 1); (78, 40)]) = 78 /\
  fst (call pc [(67, 20); (65, 30); (67, 20)]) = 67.
Proof. vm_compute. repeat split. Qed.
Print Assumptions C15_call_example.

(* the reported probability is the winner's share of the total likelihood *)
Theorem C15_call_probability : forall pc : Z -> Q, (forall q, (0 <= pc q /\ pc q < 1)%Q) ->
  forall os,
  fst (call pc os) = fst (call_of (likelihoods pc os)) /\
  (snd (call pc os) == snd (call_of (likelihoods pc os)) / qsum (map snd (likelihoods pc os)))%Q.
Proof. exact call_is_call_of. Qed.
Print Assumptions C15_call_probability.

(* ranking law used above: most_common is a descending rearrangement *)
Theorem C15_most_common : forall l, Permutation.Permutation (most_common l) l /\ desc (most_common l).
Proof. intro l. exact (conj (most_common_perm l) (most_common_desc l)). Qed.
Print Assumptions C15_most_common.

(* the records carry the molecule's sample, UMI, site, fragment count (and strand, barcode) *)
Theorem C15_tags : forall caller qcaller ref maxN m reads recs r,
  consensus caller qcaller ref maxN m reads = Some recs -> In r recs ->
  c_SM r = m_sample m /\ c_RX r = m_umi m /\ c_DS r = m_site m /\
  c_TF r = m_fragments m + m_overflow m /\
  c_reverse r = match m_strand m with Some b => b | None => false end /\
  (forall u, m_umi m = Some u -> c_BC r = Some (m_bc m) /\ c_MI r = Some (m_bc m ++ u)).
Proof. exact record_tags. Qed.
Print Assumptions C15_tags.

(* one molecule object over time (AddFragment / AddMolecule / Consensus max_N_span, any sequence):
   the answer to every consensus request is the one computed from the fragments held at that moment,
   whatever was requested or added before; the fragments held are the initial ones followed by all
   additions in order (requests leave no trace) *)
Theorem C15_history_stateless : forall (A : Type) (ans : option Z -> list frag -> A) pre st mx post,
  nth_error (run_ops ans (pre ++ Consensus mx :: post) st) (n_requests pre) = Some (ans mx (held pre st)) /\
  held pre st = st ++ flat_map added pre /\
  length (run_ops ans (pre ++ Consensus mx :: post) st) = n_requests (pre ++ Consensus mx :: post).
Proof.
  intros A ans pre st mx post.
  exact (conj (run_ops_stateless ans pre st mx post) (conj (held_added pre st) (run_ops_length ans _ st))).
Qed.
Print Assumptions C15_history_stateless.

(* dropping a consensus request from a history leaves every other answer unchanged *)
Theorem C15_history_requests_independent : forall (A : Type) (ans : option Z -> list frag -> A) pre st mx post,
  run_ops ans (pre ++ post) st =
  firstn (n_requests pre) (run_ops ans (pre ++ Consensus mx :: post) st) ++
  skipn (S (n_requests pre)) (run_ops ans (pre ++ Consensus mx :: post) st).
Proof. intros A. exact (@run_ops_drop_request A). Qed.
Print Assumptions C15_history_requests_independent.

(* hence every answer in a history aligns exactly the positions covered by ALL reads held at that moment
   (later additions included, earlier answers irrelevant) and counts all fragments held *)
Theorem C15_history_blocks : forall caller qcaller ref b pre st mx post recs,
  nth_error (run_ops (answer caller qcaller ref b) (pre ++ Consensus mx :: post) st) (n_requests pre) = Some (Some recs) ->
  flat_map rec_positions recs = covered (reads_of (st ++ flat_map added pre)) /\
  Forall (fun r => okM mx (c_cigar r)) recs /\
  forall r, In r recs -> c_TF r = Z.of_nat (length (st ++ flat_map added pre)) + 0.
Proof. exact history_blocks. Qed.
Print Assumptions C15_history_blocks.

(* non-vacuity: consensus, add a fragment further downstream, consensus again with another max_N_span *)
Example C15_history_example :
  let f1 := mkFrag [65] 60 [mkRead 10 [(0,3)] [65;67;71] [30;30;30]] in
  let f2 := mkFrag [65] 60 [mkRead 10 [(0,2)] [65;67] [30;30]; mkRead 20 [(0,2)] [84;84] [30;30]] in
  map (option_map (map (fun r => (c_start r, c_cigar r, c_TF r))))
      (run_ops (answer (fun os => fst (call_fast (pc_of [0; 2 ^ 59]) os)) (fun _ => 30) (fun _ => 65) (mkBase [83] (Some 10) [66] (Some false)))
               [Consensus None; AddFragment f2; Consensus None; Consensus (Some 3)] [f1])
  = [Some [(10, [CM 3], 1)]; Some [(10, [CM 3; CN 7; CM 2], 2)]; Some [(10, [CM 3], 2); (20, [CM 2], 2)]].
Proof. vm_compute. reflexivity. Qed.
Print Assumptions C15_history_example.

(* tie of the executable model to the theorems: the model run by the correspondence check calls
   bases with call_fast (no division by the total) and computes qualities with col_qual_fast (one
   integer division per column against the numerators of the thresholds); for a table of
   probabilities in [0,1) that is the same consensus as with phredscores_to_base_call's [call] and
   the quality [col_qual] over the thresholds T / 2^60 *)
Theorem C15_run_model_is_call : forall tab ttab ref maxN m reads, valid_tab tab = true ->
  consensus (fun os => fst (call_fast (pc_of tab) os)) (col_qual_fast (pc_of tab) ttab) ref maxN m reads =
  consensus (fun os => fst (call (pc_of tab) os)) (col_qual (pc_of tab) (tt_of ttab)) ref maxN m reads.
Proof. exact run_model_is_call. Qed.
Print Assumptions C15_run_model_is_call.

(* non-vacuity: a read with a deletion (gap of 1, kept as 1N), a mate 4 positions further (gap of 4,
   above max_N_span = 3: second record), conflicting bases at equal quality (tie -> N, position 2)
   and at unequal quality (position 3: T at 30 beats A at 20) *)
Example C15_example :
  let tab := map (fun q => if q =? 0 then 0 else 2 ^ 60 - 2 ^ (60 - q)) (zrange 0 42) in
  let ref := fun p => nth (Z.to_nat p) [65;67;71;84;65;67;71;84;65;67;71;84;65;67;71;84;65;67;71;84] 78 in
  let m := mkMeta [83] (Some [85]) (Some 1) [66] 2 0 (Some false) [60; 42] in
  let reads := [ mkRead 1 [(0,3);(2,1);(0,2)] [67;71;84;71;84] [30;30;30;30;30];
                 mkRead 11 [(0,3)] [84;65;67] [30;30;30];
                 mkRead 1 [(0,3)] [67;65;65] [30;30;20] ] in
  valid_tab tab = true /\
  option_map (map (fun r => (c_start r, c_cigar r, c_seq r, c_md r)))
             (consensus (fun os => fst (call (pc_of tab) os)) (col_qual (pc_of tab) []) ref (Some 3) m reads)
  = Some [ (1, [CM 3; CN 1; CM 2], [67;78;84;71;84], [49;71;49;67;71]);
           (11, [CM 3], [84;65;67], [51]) ].
Proof. vm_compute. split; reflexivity. Qed.
Print Assumptions C15_example.

(* ================================================================== phred qualities of the consensus bases
   tt = the thresholds of rint(-10 log10 x), tt_k = 10^(-(2k+1)/20), as rationals (the check passes 90 of
   them, numerators over 2^60); phred tt p = quality of a call of probability p *)

(* one quality per base: the quality of the column at that aligned position; as many as bases, as many
   as the CIGAR consumes *)
Theorem C15_qual_per_base : forall caller qcaller ref maxN m reads recs r,
  consensus caller qcaller ref maxN m reads = Some recs -> In r recs ->
  c_qual r = map (qual_at qcaller (all_obs reads)) (rec_positions r) /\
  length (c_qual r) = length (c_seq r) /\
  Z.of_nat (length (c_qual r)) = query_len (c_cigar r).
Proof. exact record_qual. Qed.
Print Assumptions C15_qual_per_base.

(* range: 0 .. number of thresholds (90 for the table of the check: what the clip bounds 1e-9 / 1 - 1e-9 allow) *)
Theorem C15_qual_range : forall tt p, 0 <= phred tt p <= Z.of_nat (length tt).
Proof. exact phred_range. Qed.
Print Assumptions C15_qual_range.

(* the band law: with strictly decreasing thresholds the quality k says exactly that the clipped error
   probability 1 - p lies below the first k thresholds and not below the others (rint(-10 log10 x) = k) *)
Theorem C15_qual_band : forall tt p, qdec tt ->
  let k := Z.to_nat (phred tt p) in let x := clipq (1 - p)%Q in
  (forall t, In t (firstn k tt) -> (x < t)%Q) /\ (forall t, In t (skipn k tt) -> (t <= x)%Q).
Proof. exact phred_band. Qed.
Print Assumptions C15_qual_band.

(* a more probable call never has a lower quality; equal probabilities have equal quality *)
Theorem C15_qual_monotone : forall tt p p',
  ((p <= p')%Q -> phred tt p <= phred tt p') /\ ((p == p')%Q -> phred tt p = phred tt p').
Proof. intros tt p p'. exact (conj (phred_mono tt p p') (phred_comp tt p p')). Qed.
Print Assumptions C15_qual_monotone.

(* the ends of the scale: probability at most 1 - hi gives 0, at least 1 - lo gives the maximum *)
Theorem C15_qual_ends : forall tt p,
  ((p <= 1 - clip_hi)%Q -> Forall (fun t => t <= clip_hi)%Q tt -> phred tt p = 0) /\
  ((1 - clip_lo <= p)%Q -> Forall (fun t => clip_lo < t)%Q tt -> phred tt p = Z.of_nat (length tt)).
Proof. intros tt p. exact (conj (phred_zero tt p) (phred_full tt p)). Qed.
Print Assumptions C15_qual_ends.

(* N positions, 1: an undecidable column (two best likelihoods equal) is called N with quality 0;
   every other column has a unique best base b and its quality is that of b's share of the total *)
Theorem C15_qual_no_call : forall pc : Z -> Q, (forall q, (0 <= pc q /\ pc q < 1)%Q) ->
  forall tt os, os <> [] -> Forall (fun t => t <= clip_hi)%Q tt ->
  let l := likelihoods pc os in
  (exists p, unique_max l (fst (call pc os)) p /\ (snd (call pc os) == p / qsum (map snd l))%Q) \/
  (tied_max l /\ fst (call pc os) = baseN /\ col_qual pc tt os = 0).
Proof. exact call_argmax_qual. Qed.
Print Assumptions C15_qual_no_call.

(* N positions, 2: a position no read observed reads the default ('N', 0): quality 0 *)
Theorem C15_qual_uncovered : forall pc tt, Forall (fun t => t <= clip_hi)%Q tt ->
  call_at (fun os => fst (call pc os)) [] 0 = baseN /\ col_qual pc tt [] = 0.
Proof. intros pc tt H. exact (conj eq_refl (col_qual_nil pc tt H)). Qed.
Print Assumptions C15_qual_uncovered.

(* N positions, 3: a column in which every read shows N is called N with probability 1 *)
Theorem C15_call_N_only : forall pc os, os <> [] -> Forall (fun o => fst o = baseN) os ->
  fst (call pc os) = baseN /\ (snd (call pc os) == 1)%Q.
Proof. exact call_allN. Qed.
Print Assumptions C15_call_N_only.

Example C15_call_N_only_example :
  let pc := pc_of (map (fun q => if q =? 0 then 0 else 2 ^ 60 - 2 ^ (60 - q)) (zrange 0 42)) in
  let os := [(78, 30); (78, 2)] in
  fst (call pc os) = 78 /\ (snd (call pc os) == 1)%Q /\ col_qual pc (tt_of ttab90) os = 90.
Proof. vm_compute. repeat split; reflexivity. Qed.
Print Assumptions C15_call_N_only_example.

(* the table of the check: a table accepted by valid_ttab is strictly decreasing and inside the clip
   bounds, and the floor comparison the extracted model uses is the rational comparison *)
Theorem C15_qual_table : forall ttab p,
  phred_floor ttab p = phred (tt_of ttab) p /\
  (valid_ttab ttab = true ->
   qdec (tt_of ttab) /\ Forall (fun t => clip_lo < t /\ t <= clip_hi)%Q (tt_of ttab)).
Proof. intros ttab p. exact (conj (phred_floor_correct ttab p) (valid_ttab_spec ttab)). Qed.
Print Assumptions C15_qual_table.

(* the 90 thresholds built into the model (the check passes no table of its own) are the exact ones:
   T_k = floor(10^(-(2k+1)/20) * 2^60), the rounding threshold of rint(-10 log10 x) between k and k + 1 *)
Theorem C15_ttab90_exact :
  length ttab90 = 90%nat /\ forallb exact_threshold (combine (zrange 0 90) ttab90) = true /\ valid_ttab ttab90 = true.
Proof. exact ttab90_exact. Qed.
Print Assumptions C15_ttab90_exact.

(* non-vacuity: five thresholds (decimal approximations of 10^(-1/20) .. 10^(-9/20)) and the toy table
   pc q = 1 - 2^-q; one confident read: all five thresholds are above 1 - p; A against C at equal quality: N,
   quality 0; A against a nearly as confident C: p ~ 1/2 -> 3; pc = 1/2: A and N tie -> 0 *)
Example C15_qual_example :
  let pc := pc_of (map (fun q => if q =? 0 then 0 else 2 ^ 60 - 2 ^ (60 - q)) (zrange 0 42)) in
  let tt := [8913 # 10000; 7079 # 10000; 5623 # 10000; 4467 # 10000; 3548 # 10000]%Q in
  qdec tt /\ Forall (fun t => clip_lo < t /\ t <= clip_hi)%Q tt /\
  col_qual pc tt [(65, 30)] = 5 /\ col_qual pc tt [(65, 30); (67, 30)] = 0 /\
  col_qual pc tt [(65, 30); (67, 20)] = 3 /\ col_qual pc tt [(65, 1)] = 0 /\ col_qual pc tt [] = 0 /\
  phred tt (1 # 2) = 3 /\ phred tt (3 # 10) = 2 /\ phred tt 0 = 0 /\ phred tt 1 = 5.
Proof.
  cbn zeta. split; [cbn [qdec]; repeat split; reflexivity|].
  split; [repeat (constructor; [split; [reflexivity|discriminate]|]); constructor|].
  vm_compute. repeat split; reflexivity.
Qed.
Print Assumptions C15_qual_example.

(* ================================================================== translator tie: the regenerated expressions *)

(* get_CIGAR: a gap is start - previous end - 1 long, a block end - start + 1 (both inclusive), the
   alignment start is the minimum of the block starts; the operation characters it emits are the two
   (different) characters generate_partial_reads dispatches on *)
Theorem C15_gen_cigar_shape : forall s e pe a,
  gen_cigar_gap_len s pe = s - pe - 1 /\ gen_cigar_block_len s e = e - s + 1 /\
  gen_alignment_start a s = Z.min a s /\
  gen_cigar_gap_op = gen_branch_gap_op /\ gen_cigar_block_op = gen_branch_block_op /\
  gen_branch_gap_op <> gen_branch_block_op.
Proof.
  intros s e pe a.
  exact (conj (shape_gap_len s pe) (conj (shape_block_len s e) (conj (shape_alignment_start a s) shape_ops))).
Qed.
Print Assumptions C15_gen_cigar_shape.

(* hence the (character, amount) list get_CIGAR returns drives generate_partial_reads exactly like the
   M/N list of the model, for every caller *)
Theorem C15_raw_cigar_drives : forall callf qualf maxN c s,
  partial_reads_raw callf qualf maxN (map raw_of c) s = partial_reads callf qualf maxN c s.
Proof. exact partial_reads_raw_of. Qed.
Print Assumptions C15_raw_cigar_drives.

(* generate_partial_reads: a gap starts a new record iff max_N_span is given and smaller than the gap;
   a block is the first of its record iff no operation has been kept *)
Theorem C15_gen_split_shape : forall h mx a n,
  gen_split h mx a = h && (mx <? a) /\ gen_first_block n = (n =? 0).
Proof. intros h mx a n. exact (conj (shape_split h mx a) (shape_first_block n)). Qed.
Print Assumptions C15_gen_split_shape.

(* create_MD_tag: match test and count flush *)
Theorem C15_gen_md_shape : forall r b n,
  gen_md_match r b = (r =? b) /\ gen_md_flush n = (0 <? n).
Proof. intros r b n. exact (conj (shape_md_match r b) (shape_md_flush n)). Qed.
Print Assumptions C15_gen_md_shape.

(* phredscores_to_base_call: undecidable iff nothing ranked or the two best equal; ('N', 0) then and
   for a position without observation; so the decision on a ranked list is the one of the theorems *)
Theorem C15_gen_call_shape : forall n e l,
  gen_no_call n e = (n =? 0) || ((2 <=? n) && e) /\
  (gen_no_call_base = baseN /\ gen_no_call_prob = 0 /\ gen_default_base = baseN /\ gen_default_prob = 0) /\
  decide l = match l with
             | [] => (baseN, 0%Q)
             | [(b, p)] => (b, p)
             | (b, p) :: (_, p2) :: _ => if Qeq_bool p p2 then (baseN, 0%Q) else (b, p)
             end.
Proof. intros n e l. exact (conj (shape_no_call n e) (conj shape_no_call_result (decide_spec l))). Qed.
Print Assumptions C15_gen_call_shape.

(* write_tags_to_psuedoreads / extract_stretch_from_dict: the tag table holds SM (always, sample), DS (cut
   site known, site), RX / BC / MI (UMI known; UMI, barcode, barcode ++ UMI), TF (always, fragments + overflow),
   each once; the clip bounds satisfy 0 < lo < hi < 1 *)
Theorem C15_gen_tags_shape : forall n o,
  (has_tag tagSM 0 1 /\ has_tag tagDS 1 2 /\ has_tag tagRX 2 3 /\ has_tag tagBC 2 4 /\
   has_tag tagMI 2 5 /\ has_tag tagTF 0 6) /\
  gen_TF n o = n + o /\ (0 < clip_lo /\ clip_lo < clip_hi /\ clip_hi < 1)%Q.
Proof. intros n o. exact (conj shape_tags (conj (shape_TF n o) shape_clip)). Qed.
Print Assumptions C15_gen_tags_shape.

(* ================================================================== the request as a whole *)

(* a molecule without chromosome: no record and no exception, whatever else is missing *)
Theorem C15_no_chromosome_skips : forall caller qcaller maxN m ref creads,
  consensus_x caller qcaller ref maxN m None creads = Records None [].
Proof. exact x_no_chromosome. Qed.
Print Assumptions C15_no_chromosome_skips.

(* a chromosome but not one aligned base: ValueError (np.concatenate of nothing), reference or not *)
Theorem C15_no_coverage_raises : forall caller qcaller maxN m ref k creads,
  all_obs (map snd creads) = [] ->
  consensus_x caller qcaller ref maxN m (Some k) creads = RaiseNoCoverage.
Proof. exact x_no_coverage. Qed.
Print Assumptions C15_no_coverage_raises.

(* aligned bases but no reference attached: AttributeError, and not a single record is returned *)
Theorem C15_no_reference_raises : forall caller qcaller maxN m k creads,
  all_obs (map snd creads) <> [] ->
  consensus_x caller qcaller None maxN m (Some k) creads = RaiseNoReference.
Proof. exact x_no_reference. Qed.
Print Assumptions C15_no_reference_raises.

(* the outcomes are exhaustive and exclusive; records exist exactly when chromosome, coverage and reference
   are all there, and they are the records of [consensus] over all reads, on the molecule's chromosome *)
Theorem C15_request_outcome : forall caller qcaller maxN m ref chrom creads,
  match consensus_x caller qcaller ref maxN m chrom creads with
  | Records None recs => chrom = None /\ recs = []
  | Records (Some k) recs => chrom = Some k /\ all_obs (map snd creads) <> [] /\
                             exists f, ref = Some f /\ consensus caller qcaller f maxN m (map snd creads) = Some recs
  | RaiseNoCoverage => chrom <> None /\ all_obs (map snd creads) = []
  | RaiseNoReference => chrom <> None /\ all_obs (map snd creads) <> [] /\ ref = None
  end.
Proof. exact x_outcome. Qed.
Print Assumptions C15_request_outcome.

(* one contig (every read that contributes an observation is on the molecule's chromosome): the records
   align exactly the positions covered on that contig *)
Theorem C15_single_contig_blocks : forall caller qcaller maxN m f k creads recs,
  Forall (fun cr => fst cr = k \/ read_obs (snd cr) = []) creads ->
  consensus_x caller qcaller (Some f) maxN m (Some k) creads = Records (Some k) recs ->
  flat_map rec_positions recs = covered (reads_on k creads).
Proof. exact x_single_contig. Qed.
Print Assumptions C15_single_contig_blocks.

(* FINDING (fixes/C15-D35): without that hypothesis the statement is refuted.  Reads on two contigs in one
   molecule (a chimeric pair, add_molecule of a molecule on another contig) are pooled by position; the record
   on contig 1 aligns 10..12, which only the read on contig 0 covers *)
Theorem C15_multicontig_refuted :
  let tab := map (fun q => if q =? 0 then 0 else 2 ^ 60 - 2 ^ (60 - q)) (zrange 0 42) in
  let m := mkMeta [83] (Some [85]) None [66] 2 0 (Some false) [60; 60] in
  let creads := [ (0, mkRead 10 [(0,3)] [65;65;65] [30;30;30]); (1, mkRead 20 [(0,3)] [67;67;67] [30;30;30]) ] in
  exists recs,
    consensus_x (fun os => fst (call (pc_of tab) os)) (col_qual (pc_of tab) []) (Some (fun _ => 67)) None m (Some 1) creads
      = Records (Some 1) recs /\
    flat_map rec_positions recs = [10; 11; 12; 20; 21; 22] /\
    covered (reads_on 1 creads) = [20; 21; 22].
Proof. exact x_multicontig_refuted. Qed.
Print Assumptions C15_multicontig_refuted.

(* non-vacuity: the same two reads on ONE contig with a reference (one record 3M7N3M), without a reference,
   without coverage (unmapped read: empty CIGAR), without chromosome *)
Example C15_request_example :
  let tab := map (fun q => if q =? 0 then 0 else 2 ^ 60 - 2 ^ (60 - q)) (zrange 0 42) in
  let m := mkMeta [83] (Some [85]) None [66] 2 0 (Some false) [60; 60] in
  let c := fun os => fst (call (pc_of tab) os) in let q := col_qual (pc_of tab) [1 # 2]%Q in
  let creads := [ (1, mkRead 10 [(0,3)] [65;65;65] [30;30;30]); (1, mkRead 20 [(0,3)] [67;67;67] [30;30;30]) ] in
  match consensus_x c q (Some (fun _ => 67)) None m (Some 1) creads with
  | Records (Some 1) [r] => c_cigar r = [CM 3; CN 7; CM 3] /\ c_qual r = [1;1;1;1;1;1] /\ c_md r = [67;67;67;51]
  | _ => False
  end /\
  consensus_x c q None None m (Some 1) creads = RaiseNoReference /\
  consensus_x c q None None m (Some 1) [(1, mkRead 10 [] [65;65;65] [30;30;30])] = RaiseNoCoverage /\
  consensus_x c q None None m None creads = Records None [].
Proof. vm_compute. repeat split; reflexivity. Qed.
Print Assumptions C15_request_example.
