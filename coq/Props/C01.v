(* C01 - property theorems only.  Each is closed by [exact lemma]; Print Assumptions beneath.

   Objects (Model/C01.v): [loader strats rejhdr cfg pairs] is DemultiplexingStrategyLoader.demultiplex of the
   repaired tree (c_legacy = false), parametric in the strategies (functions pair -> Accept recs | Reject reason |
   Raise kind) and in the reject-header builder rejhdr; [fastq_iter files] is FastqIterator on the line lists of the
   mate files.  The result carries the trace of write() calls, one [event] per record and file, labelled with the
   input pair index and the strategy index that caused it; the bytes of an output file are the concatenation of
   the e_text of its events ([file_events] / [file_bytes]).
   [res_crashed = false]: the call returned (no exception left the loop).
   Vocabulary (Proofs/C01*.v): consumed cfg pairs = the pairs the loop body ran on; step_events = what the step
   of one pair under one strategy writes; lab_eqb p j e = event e is labelled (p, j); count_at tr t p j m = number
   of events labelled (p, j) in mate file m of the target (t = true) / reject (t = false) sink; step_ok = the
   accepted record list covers the target handle's files and each of those records can be serialised (no partial
   write), the input tuple covers the reject handle's files; is_accept = accepted and written (counted as a yield). *)
From Coq Require Import ZArith List Bool Sorted.
Import ListNotations.
From SCMO Require Import Lib.Val Model.C01 Proofs.C01 Proofs.C01_b Proofs.C01_c Proofs.C01_ex.
Open Scope Z_scope.

(* ---- reader: stops at the FIRST index where any mate file has no (non-empty) header; every tuple before it is
   yielded exactly as the files hold it; nothing after it is read *)
Theorem C01_stop_rule : forall files : list (list str), files <> [] ->
  (forall k, (k < length (fastq_iter files))%nat ->
             nth k (fastq_iter files) [] = row k files /\ exhausted k files = false)
  /\ exhausted (length (fastq_iter files)) files = true.
Proof. exact stop_rule. Qed.
Print Assumptions C01_stop_rule.

Theorem C01_stop_rule_first : forall (files : list (list str)) (n : nat), files <> [] ->
  (forall k, (k < n)%nat -> exhausted k files = false) -> exhausted n files = true ->
  length (fastq_iter files) = n.
Proof. exact stop_rule_unique. Qed.
Print Assumptions C01_stop_rule_first.

(* ---- the loop leaves with an exception exactly when a reject record of a consumed pair cannot be formatted *)
Theorem C01_crash_iff : forall strats rejhdr cfg, c_legacy cfg = false -> forall pairs,
  res_crashed (loader strats rejhdr cfg pairs) = existsb (pair_crash strats rejhdr cfg) (consumed cfg pairs).
Proof. exact loader_crash_iff. Qed.
Print Assumptions C01_crash_iff.

(* ---- PARTITION.  In every run that returns, the writes caused by input pair p under strategy j are exactly the
   writes of that one step; pairs beyond the stop and labels that do not exist own nothing *)
Theorem C01_partition_events : forall strats rejhdr cfg, c_legacy cfg = false -> forall pairs p j,
  res_crashed (loader strats rejhdr cfg pairs) = false ->
  filter (lab_eqb p j) (res_trace (loader strats rejhdr cfg pairs)) =
  if (p <? length (consumed cfg pairs))%nat && (j <? length strats)%nat
  then step_events rejhdr cfg p (nth p pairs []) j (nth j strats dflt) else [].
Proof. exact partition_events. Qed.
Print Assumptions C01_partition_events.

(* ... by outcome class: accepted (and every record write() touches can be serialised) -> the strategy's records, to the
   demultiplexed output only; rejected or raised ->
   with a rejects handle one record per mate file whose text is header / ORIGINAL bases / plus / ORIGINAL qualities
   and whose header contains ;RR:<reason>, to the rejects output only; without a rejects handle nothing.
   (rejhdr contract: a formatted reject header contains the reason tag.) *)
Theorem C01_partition : forall strats rejhdr cfg, c_legacy cfg = false ->
  (forall r reason h, rejhdr r reason = HOk h -> contains (tagRR ++ reason) h) ->
  forall pairs p j,
  res_crashed (loader strats rejhdr cfg pairs) = false ->
  (p < length (consumed cfg pairs))%nat -> (j < length strats)%nat ->
  let evs := filter (lab_eqb p j) (res_trace (loader strats rejhdr cfg pairs)) in
  match nth j strats dflt (nth p pairs []) with
  | Accept recs => forallb a_ok (touched cfg recs) = true -> evs = write_target cfg p j recs
  | Reject why | Raise why =>
      if c_rejects cfg
      then exists ts, evs = write_reject cfg p j ts /\ Forall2 (reject_ok why) (nth p pairs []) ts
      else evs = []
  end.
Proof. exact partition_content. Qed.
Print Assumptions C01_partition.

(* ... as a count per mate file: with a rejects handle, target count + reject count = 1 (never both, never
   neither); the record is in the target sink iff the strategy accepted.  Without a rejects handle the reject
   count is 0 and the target count is 1 iff accepted. *)
Theorem C01_exactly_once : forall strats rejhdr cfg, c_legacy cfg = false -> forall pairs (t : bool) p j m,
  res_crashed (loader strats rejhdr cfg pairs) = false ->
  (p < length (consumed cfg pairs))%nat -> (j < length strats)%nat ->
  step_ok cfg (nth p pairs []) (nth j strats dflt) ->
  (m < (if t then target_width cfg else c_nh cfg))%nat ->
  count_at (res_trace (loader strats rejhdr cfg pairs)) t p j m =
  if Bool.eqb t (is_accept cfg (nth j strats dflt (nth p pairs []))) && (t || c_rejects cfg) then 1%nat else 0%nat.
Proof. exact partition_count. Qed.
Print Assumptions C01_exactly_once.

Theorem C01_nothing_beyond : forall strats rejhdr cfg, c_legacy cfg = false -> forall pairs p j,
  res_crashed (loader strats rejhdr cfg pairs) = false ->
  (length (consumed cfg pairs) <= p)%nat \/ (length strats <= j)%nat ->
  filter (lab_eqb p j) (res_trace (loader strats rejhdr cfg pairs)) = [].
Proof. exact nothing_beyond. Qed.
Print Assumptions C01_nothing_beyond.

(* ---- COUNTERS.  processedReadPairs = number of consumed pairs = min(n, max(1, maxReadPairs)) (n for None; the
   test runs after the first pair, so a limit <= 0 still consumes one); the consumed pairs are a prefix *)
Theorem C01_processed : forall strats rejhdr cfg, c_legacy cfg = false -> forall pairs,
  res_crashed (loader strats rejhdr cfg pairs) = false ->
  res_processed (loader strats rejhdr cfg pairs) = Z.of_nat (length (consumed cfg pairs)) /\
  res_processed (loader strats rejhdr cfg pairs) =
    match pairs, c_max cfg with
    | [], _ => 0
    | _, None => Z.of_nat (length pairs)
    | _, Some m => Z.min (Z.of_nat (length pairs)) (Z.max 1 m)
    end /\
  exists k, consumed cfg pairs = firstn k pairs.
Proof. exact processed_spec. Qed.
Print Assumptions C01_processed.

(* strategyYields[j] = number of consumed pairs strategy j accepted -- no hypothesis about raising strategies *)
Theorem C01_counters : forall strats rejhdr cfg, c_legacy cfg = false -> forall pairs j,
  res_crashed (loader strats rejhdr cfg pairs) = false -> (j < length strats)%nat ->
  nth j (res_yields (loader strats rejhdr cfg pairs)) 0 = Z.of_nat (length (accepted_by strats cfg j (consumed cfg pairs))).
Proof. exact yields_count. Qed.
Print Assumptions C01_counters.

(* ... = the number of records strategy j put into the R1 file(s) of the demultiplexed output *)
Theorem C01_counters_written : forall strats rejhdr cfg, c_legacy cfg = false -> forall pairs j,
  res_crashed (loader strats rejhdr cfg pairs) = false -> (j < length strats)%nat -> (0 < target_width cfg)%nat ->
  (forall r, In r (consumed cfg pairs) -> step_ok cfg r (nth j strats dflt)) ->
  nth j (res_yields (loader strats rejhdr cfg pairs)) 0 =
  Z.of_nat (length (filter (written_by j) (res_trace (loader strats rejhdr cfg pairs)))).
Proof. exact counters_written. Qed.
Print Assumptions C01_counters_written.

(* ---- ORDER: every output file lists its records in input order (pair index, then strategy order) *)
Theorem C01_order : forall strats rejhdr cfg, c_legacy cfg = false -> forall pairs t cell m,
  res_crashed (loader strats rejhdr cfg pairs) = false ->
  StronglySorted ev_le (file_events (res_trace (loader strats rejhdr cfg pairs)) t cell m).
Proof. exact file_sorted. Qed.
Print Assumptions C01_order.

(* ---- MATE SYNC: the R1 and R2 files of a sink (joint mode: the two files; per-cell mode: the two files of every
   cell) hold the same sequence of (pair, strategy) labels: equal record counts, record k of both stems from the
   same input pair.  step_ok2 = step_ok + (per-cell mode) the mates of an accepted pair name the same cell. *)
Theorem C01_mate_sync : forall strats rejhdr cfg, c_legacy cfg = false -> forall pairs t cell m1 m2,
  res_crashed (loader strats rejhdr cfg pairs) = false ->
  (forall r f, In r (consumed cfg pairs) -> In f strats -> step_ok2 cfg r f) ->
  (m1 < width cfg t)%nat -> (m2 < width cfg t)%nat ->
  map lab (file_events (res_trace (loader strats rejhdr cfg pairs)) t cell m1) =
  map lab (file_events (res_trace (loader strats rejhdr cfg pairs)) t cell m2).
Proof. exact mate_sync. Qed.
Print Assumptions C01_mate_sync.

(* ---- the log handle (log_handle=None is the API default, demux.py always passes one) is an input of the loader and no
   result depends on it; all theorems above are stated for every cfg, hence for both values *)
Theorem C01_log_independent : forall strats rejhdr cfg b pairs,
  loader strats rejhdr (set_log b cfg) pairs = loader strats rejhdr cfg pairs.
Proof. exact log_independent. Qed.
Print Assumptions C01_log_independent.

(* ---- what was wrong (D1): with the generic-exception arm of the unrepaired loader a pair whose strategy raises is
   written nowhere although a rejects handle exists, and the yield counter exceeds the records written *)
Theorem C01_legacy_generic_arm_refuted :
  exists strats rejhdr cfg pairs,
    c_legacy cfg = true /\ c_rejects cfg = true /\
    let res := loader strats rejhdr cfg pairs in
    res_crashed res = false /\ res_processed res = 3 /\
    filter (lab_eqb 2 0) (res_trace res) = [] /\
    nth 0 (res_yields res) 0 = 2 /\
    length (filter (written_by 0) (res_trace res)) = 1%nat.
Proof. exact legacy_generic_arm_refuted. Qed.
Print Assumptions C01_legacy_generic_arm_refuted.

(* ---- the excluded case (D4): a reject record that cannot be formatted aborts the run; pairs are left unwritten *)
Theorem C01_reject_crash_refuted :
  exists strats rejhdr cfg pairs,
    c_legacy cfg = false /\
    let res := loader strats rejhdr cfg pairs in
    res_crashed res = true /\ filter (lab_eqb 1 0) (res_trace res) = [] /\ filter (lab_eqb 2 0) (res_trace res) = [].
Proof. exact reject_crash_example. Qed.
Print Assumptions C01_reject_crash_refuted.

(* ---- the excluded case of step_ok: a partial write (R1 written, serialising R2 raises) puts the pair into BOTH outputs
   and R1/R2 out of step; the correspondence check reports any partial write of the real code as a violation *)
Theorem C01_partial_write_refuted :
  exists strats rejhdr cfg pairs,
    c_legacy cfg = false /\ c_rejects cfg = true /\
    let res := loader strats rejhdr cfg pairs in
    res_crashed res = false /\
    count_at (res_trace res) true 0 0 0 = 1%nat /\ count_at (res_trace res) false 0 0 0 = 1%nat /\
    length (file_events (res_trace res) true [] 0) = 1%nat /\ length (file_events (res_trace res) true [] 1) = 0%nat /\
    res_yields res = [0].
Proof. exact partial_write_refuted. Qed.
Print Assumptions C01_partial_write_refuted.

(* ---- non-vacuity: a run over accept / reject / raise satisfying every hypothesis above *)
Example C01_example_run :
  let res := loader [ex_strat] ex_rejhdr (ex_cfg false) ex_pairs in
  res_crashed res = false /\ res_processed res = 3 /\ res_yields res = [1]
  /\ map lab (file_events (res_trace res) true [] 0) = [(0, 0)]%nat
  /\ map lab (file_events (res_trace res) true [] 1) = [(0, 0)]%nat
  /\ map lab (file_events (res_trace res) false [] 0) = [(1, 0); (2, 0)]%nat
  /\ map lab (file_events (res_trace res) false [] 1) = [(1, 0); (2, 0)]%nat
  /\ file_bytes (res_trace res) false [] 0 =
       [64;98;59;82;82;58;98;99;10; 67;67;10; 43;10; 73;73;10;   64;99;59;82;82;58;73;69;10; 71;10; 43;10; 73;10]
  /\ (forall r f, In r (consumed (ex_cfg false) ex_pairs) -> In f [ex_strat] -> step_ok2 (ex_cfg false) r f).
Proof. exact ex_run. Qed.
Print Assumptions C01_example_run.

Example C01_example_rejhdr_contract :
  forall r reason h, ex_rejhdr r reason = HOk h -> contains (tagRR ++ reason) h.
Proof. exact ex_rejhdr_contract. Qed.
Print Assumptions C01_example_rejhdr_contract.

Example C01_example_reader :
  fastq_iter [[[64;49]; [65]; [43]; [73];  [64;50;32;9]; [67]; [43]; [73]; [32]; [71]; [43]; [73]];
              [[64;49]; [84]; [43]; [73];  [64;50]; [71]; [43]]]
  = [[mkRead [64;49] [65] [43] [73]; mkRead [64;49] [84] [43] [73]];
     [mkRead [64;50] [67] [43] [73]; mkRead [64;50] [71] [43] []]].
Proof. exact ex_reader. Qed.
Print Assumptions C01_example_reader.
