(* C01 - property theorems only.  Each is closed by [exact lemma]; Print Assumptions beneath.

   Objects (Model/C01.v): [loader sh strats rejhdr cfg pairs] is DemultiplexingStrategyLoader.demultiplex, defined from
   the SHAPE [sh] of its loop (Lib/C01Shape.v: sink / handle guard / reaches-the-yield-increment of the accept,
   NonMultiplexable and generic-exception arms, increment-before-write, position of the processedReadPairs increment
   and of the strategy loop relative to the maxReadPairs test), parametric in the strategies (functions pair -> Accept
   recs | Reject reason | Raise kind) and in the reject-header builder rejhdr; [fastq_iter files] is FastqIterator on
   the line lists of the mate files.  Every loader theorem is stated FOR EVERY WELL-FORMED SHAPE (wf_shape sh = true);
   the shape regenerated from the current source (Gen/GenLoader.v, tools/c01.py LoaderTranslator) is shown well-formed by
   computation (C01_generated_shape_wf), and each conjunct of wf_shape is shown necessary (C01_shape_fields_needed).  The result carries the trace of write() calls, one [event] per record and file, labelled with the
   input pair index and the strategy index that caused it; the bytes of an output file are the concatenation of
   the e_text of its events ([file_events] / [file_bytes]).
   [res_crashed = false]: the call returned (no exception left the loop).
   Vocabulary (Proofs/C01*.v): consumed sh cfg pairs = the pairs the loop body ran on; step_events = what the step
   of one pair under one strategy writes; lab_eqb p j e = event e is labelled (p, j); count_at tr t p j m = number
   of events labelled (p, j) in mate file m of the target (t = true) / reject (t = false) sink; step_ok = the
   accepted record list covers the target handle's files and each of those records can be serialised (no partial
   write), the input tuple covers the reject handle's files; is_accept = accepted and written (counted as a yield). *)
From Coq Require Import ZArith List Bool Sorted.
Import ListNotations.
From SCMO Require Import Lib.Val Lib.C01Shape Gen.GenLoader Model.C01 Model.C01Spec Model.C01x
  Proofs.C01 Proofs.C01_b Proofs.C01_c Proofs.C01_ex Proofs.C01Spec Proofs.C01Bridge Proofs.C01_gen.
Open Scope Z_scope.

(* ---- reader: stops at the FIRST index where any mate file has no (non-empty) header; every tuple before it is
   yielded exactly as the files hold it; nothing after it is read *)
Theorem C01_stop_rule : forall files : list (list str), files <> [] ->
  (forall k, (k < length (fastq_iter files))%nat ->
             nth k (fastq_iter files) [] = row k files /\ exhausted k files = false)
  /\ exhausted (length (fastq_iter files)) files = true.
Proof. exact stop_rule. Qed.
Print Assumptions C01_stop_rule.

Theorem C01_stop_rule_first : forall (files : list (list str)) (n : nat), files <> [] ->
  (forall k, (k < n)%nat -> exhausted k files = false) -> exhausted n files = true ->
  length (fastq_iter files) = n.
Proof. exact stop_rule_unique. Qed.
Print Assumptions C01_stop_rule_first.

(* ---- the loop leaves with an exception exactly when a reject record of a consumed pair cannot be formatted *)
Theorem C01_crash_iff : forall sh strats rejhdr cfg, wf_shape sh = true -> forall pairs,
  res_crashed (loader sh strats rejhdr cfg pairs) = existsb (pair_crash strats rejhdr cfg) (consumed sh cfg pairs).
Proof. exact loader_crash_iff. Qed.
Print Assumptions C01_crash_iff.

(* ---- PARTITION.  In every run that returns, the writes caused by input pair p under strategy j are exactly the
   writes of that one step; pairs beyond the stop and labels that do not exist own nothing *)
Theorem C01_partition_events : forall sh strats rejhdr cfg, wf_shape sh = true -> forall pairs p j,
  res_crashed (loader sh strats rejhdr cfg pairs) = false ->
  filter (lab_eqb p j) (res_trace (loader sh strats rejhdr cfg pairs)) =
  if (p <? length (consumed sh cfg pairs))%nat && (j <? length strats)%nat
  then step_events rejhdr cfg p (nth p pairs []) j (nth j strats dflt) else [].
Proof. exact partition_events. Qed.
Print Assumptions C01_partition_events.

(* ... by outcome class: accepted (and every record write() touches can be serialised) -> the strategy's records, to the
   demultiplexed output only; rejected or raised ->
   with a rejects handle one record per mate file whose text is header / ORIGINAL bases / plus / ORIGINAL qualities
   and whose header contains ;RR:<reason>, to the rejects output only; without a rejects handle nothing.
   (rejhdr contract: a formatted reject header contains the reason tag.) *)
Theorem C01_partition : forall sh strats rejhdr cfg, wf_shape sh = true ->
  (forall r reason h, rejhdr r reason = HOk h -> contains (tagRR ++ reason) h) ->
  forall pairs p j,
  res_crashed (loader sh strats rejhdr cfg pairs) = false ->
  (p < length (consumed sh cfg pairs))%nat -> (j < length strats)%nat ->
  let evs := filter (lab_eqb p j) (res_trace (loader sh strats rejhdr cfg pairs)) in
  match nth j strats dflt (nth p pairs []) with
  | Accept recs => forallb a_ok (touched cfg recs) = true -> evs = write_target cfg p j recs
  | Reject why | Raise why =>
      if c_rejects cfg
      then exists ts, evs = write_reject cfg p j ts /\ Forall2 (reject_ok why) (nth p pairs []) ts
      else evs = []
  end.
Proof. exact partition_content. Qed.
Print Assumptions C01_partition.

(* ... as a count per mate file: with a rejects handle, target count + reject count = 1 (never both, never
   neither); the record is in the target sink iff the strategy accepted.  Without a rejects handle the reject
   count is 0 and the target count is 1 iff accepted. *)
Theorem C01_exactly_once : forall sh strats rejhdr cfg, wf_shape sh = true -> forall pairs (t : bool) p j m,
  res_crashed (loader sh strats rejhdr cfg pairs) = false ->
  (p < length (consumed sh cfg pairs))%nat -> (j < length strats)%nat ->
  step_ok cfg (nth p pairs []) (nth j strats dflt) ->
  (m < (if t then target_width cfg else c_nh cfg))%nat ->
  count_at (res_trace (loader sh strats rejhdr cfg pairs)) t p j m =
  if Bool.eqb t (is_accept cfg (nth j strats dflt (nth p pairs []))) && (t || c_rejects cfg) then 1%nat else 0%nat.
Proof. exact partition_count. Qed.
Print Assumptions C01_exactly_once.

Theorem C01_nothing_beyond : forall sh strats rejhdr cfg, wf_shape sh = true -> forall pairs p j,
  res_crashed (loader sh strats rejhdr cfg pairs) = false ->
  (length (consumed sh cfg pairs) <= p)%nat \/ (length strats <= j)%nat ->
  filter (lab_eqb p j) (res_trace (loader sh strats rejhdr cfg pairs)) = [].
Proof. exact nothing_beyond. Qed.
Print Assumptions C01_nothing_beyond.

(* ---- COUNTERS.  processedReadPairs = number of consumed pairs = min(n, max(1, maxReadPairs)) (n for None; the
   test runs after the first pair, so a limit <= 0 still consumes one; with the test first - the other well-formed
   order, min_consumed sh = 0 - it consumes none); the consumed pairs are a prefix *)
Theorem C01_processed : forall sh strats rejhdr cfg, wf_shape sh = true -> forall pairs,
  res_crashed (loader sh strats rejhdr cfg pairs) = false ->
  res_processed (loader sh strats rejhdr cfg pairs) = Z.of_nat (length (consumed sh cfg pairs)) /\
  res_processed (loader sh strats rejhdr cfg pairs) =
    match pairs, c_max cfg with
    | [], _ => 0
    | _, None => Z.of_nat (length pairs)
    | _, Some m => Z.min (Z.of_nat (length pairs)) (Z.max (min_consumed sh) m)
    end /\
  exists k, consumed sh cfg pairs = firstn k pairs.
Proof. exact processed_spec. Qed.
Print Assumptions C01_processed.

(* strategyYields[j] = number of consumed pairs strategy j accepted -- no hypothesis about raising strategies *)
Theorem C01_counters : forall sh strats rejhdr cfg, wf_shape sh = true -> forall pairs j,
  res_crashed (loader sh strats rejhdr cfg pairs) = false -> (j < length strats)%nat ->
  nth j (res_yields (loader sh strats rejhdr cfg pairs)) 0 = Z.of_nat (length (accepted_by strats cfg j (consumed sh cfg pairs))).
Proof. exact yields_count. Qed.
Print Assumptions C01_counters.

(* ... = the number of records strategy j put into the R1 file(s) of the demultiplexed output *)
Theorem C01_counters_written : forall sh strats rejhdr cfg, wf_shape sh = true -> forall pairs j,
  res_crashed (loader sh strats rejhdr cfg pairs) = false -> (j < length strats)%nat -> (0 < target_width cfg)%nat ->
  (forall r, In r (consumed sh cfg pairs) -> step_ok cfg r (nth j strats dflt)) ->
  nth j (res_yields (loader sh strats rejhdr cfg pairs)) 0 =
  Z.of_nat (length (filter (written_by j) (res_trace (loader sh strats rejhdr cfg pairs)))).
Proof. exact counters_written. Qed.
Print Assumptions C01_counters_written.

(* ---- ORDER: every output file lists its records in input order (pair index, then strategy order) *)
Theorem C01_order : forall sh strats rejhdr cfg, wf_shape sh = true -> forall pairs t cell m,
  res_crashed (loader sh strats rejhdr cfg pairs) = false ->
  StronglySorted ev_le (file_events (res_trace (loader sh strats rejhdr cfg pairs)) t cell m).
Proof. exact file_sorted. Qed.
Print Assumptions C01_order.

(* ---- MATE SYNC: the R1 and R2 files of a sink (joint mode: the two files; per-cell mode: the two files of every
   cell) hold the same sequence of (pair, strategy) labels: equal record counts, record k of both stems from the
   same input pair.  step_ok2 = step_ok + (per-cell mode) the mates of an accepted pair name the same cell. *)
Theorem C01_mate_sync : forall sh strats rejhdr cfg, wf_shape sh = true -> forall pairs t cell m1 m2,
  res_crashed (loader sh strats rejhdr cfg pairs) = false ->
  (forall r f, In r (consumed sh cfg pairs) -> In f strats -> step_ok2 cfg r f) ->
  (m1 < width cfg t)%nat -> (m2 < width cfg t)%nat ->
  map lab (file_events (res_trace (loader sh strats rejhdr cfg pairs)) t cell m1) =
  map lab (file_events (res_trace (loader sh strats rejhdr cfg pairs)) t cell m2).
Proof. exact mate_sync. Qed.
Print Assumptions C01_mate_sync.

(* ---- the log handle (log_handle=None is the API default, demux.py always passes one) is an input of the loader and no
   result depends on it; all theorems above are stated for every cfg, hence for both values *)
Theorem C01_log_independent : forall sh strats rejhdr cfg b pairs,
  loader sh strats rejhdr (set_log b cfg) pairs = loader sh strats rejhdr cfg pairs.
Proof. exact log_independent. Qed.
Print Assumptions C01_log_independent.

(* ---- what was wrong (D1): with the generic-exception arm of the unrepaired loader a pair whose strategy raises is
   written nowhere although a rejects handle exists, and the yield counter exceeds the records written *)
Theorem C01_legacy_generic_arm_refuted :
  exists sh strats rejhdr cfg pairs,
    wf_shape sh = false /\ c_rejects cfg = true /\
    let res := loader sh strats rejhdr cfg pairs in
    res_crashed res = false /\ res_processed res = 3 /\
    filter (lab_eqb 2 0) (res_trace res) = [] /\
    nth 0 (res_yields res) 0 = 2 /\
    length (filter (written_by 0) (res_trace res)) = 1%nat.
Proof. exact legacy_generic_arm_refuted. Qed.
Print Assumptions C01_legacy_generic_arm_refuted.

(* ---- the excluded case (D4): a reject record that cannot be formatted aborts the run; pairs are left unwritten *)
Theorem C01_reject_crash_refuted :
  exists sh strats rejhdr cfg pairs,
    wf_shape sh = true /\
    let res := loader sh strats rejhdr cfg pairs in
    res_crashed res = true /\ filter (lab_eqb 1 0) (res_trace res) = [] /\ filter (lab_eqb 2 0) (res_trace res) = [].
Proof. exact reject_crash_example. Qed.
Print Assumptions C01_reject_crash_refuted.

(* ---- the excluded case of step_ok: a partial write (R1 written, serialising R2 raises) puts the pair into BOTH outputs
   and R1/R2 out of step; the correspondence check reports any partial write of the real code as a violation *)
Theorem C01_partial_write_refuted :
  exists sh strats rejhdr cfg pairs,
    wf_shape sh = true /\ c_rejects cfg = true /\
    let res := loader sh strats rejhdr cfg pairs in
    res_crashed res = false /\
    count_at (res_trace res) true 0 0 0 = 1%nat /\ count_at (res_trace res) false 0 0 0 = 1%nat /\
    length (file_events (res_trace res) true [] 0) = 1%nat /\ length (file_events (res_trace res) true [] 1) = 0%nat /\
    res_yields res = [0].
Proof. exact partial_write_refuted. Qed.
Print Assumptions C01_partial_write_refuted.

(* ---- T: the shape of the loop regenerated from the current source is well-formed (by computation), so every theorem
   above speaks about the loop as it stands; run_C01 (the extracted model the correspondence check runs) is that loader *)
Theorem C01_generated_shape_wf : wf_shape loader_shape = true.
Proof. exact generated_shape_wf. Qed.
Print Assumptions C01_generated_shape_wf.

Theorem C01_wf_shapes : forall sh, wf_shape sh = true <-> exists guard_target test_last, sh = good_shape guard_target test_last.
Proof. exact wf_shapes. Qed.
Print Assumptions C01_wf_shapes.

(* ---- each conjunct of wf_shape is needed: one field changed and a run that breaks the property (reject arm without
   handle guard: dies without a rejects handle / reject arm reaching the increment: rejected pair counted / reject arm
   writing to the demultiplexed output / increment before the write: raising write counted / test between increment and
   strategy loop: counted pair written nowhere / accepted records not written) *)
Theorem C01_shape_fields_needed_refuted :
  (let sh := set_reject (mkArm SReject false false) repaired_shape in
   wf_shape sh = false /\
   res_crashed (loader sh [ex_strat] ex_rejhdr (mkConfig None false false 2 false) ex_pairs) = true) /\
  (let sh := set_reject (mkArm SReject true true) repaired_shape in
   wf_shape sh = false /\
   let res := loader sh [ex_strat] ex_rejhdr ex_cfg ex_pairs in
   res_crashed res = false /\ res_yields res = [2] /\ length (filter (written_by 0) (res_trace res)) = 1%nat) /\
  (let sh := set_reject (mkArm STarget true false) repaired_shape in
   wf_shape sh = false /\
   let res := loader sh [ex_strat] ex_rejhdr ex_cfg ex_pairs in
   res_crashed res = false /\ count_at (res_trace res) true 1 0 0 = 1%nat /\ count_at (res_trace res) false 1 0 0 = 0%nat) /\
  (let sh := mkShape (mkArm STarget true true) (mkArm SReject true false) (mkArm SReject true false) true true true in
   wf_shape sh = false /\
   let res := loader sh [ex_partial] ex_rejhdr ex_cfg [exA] in
   res_crashed res = false /\ res_yields res = [1] /\ count_at (res_trace res) false 0 0 0 = 1%nat) /\
  (let sh := mkShape (mkArm STarget true true) (mkArm SReject true false) (mkArm SReject true false) false true false in
   wf_shape sh = false /\
   let res := loader sh [ex_strat] ex_rejhdr (mkConfig (Some 2) true false 2 false) ex_pairs in
   res_crashed res = false /\ res_processed res = 2 /\ filter (lab_eqb 1 0) (res_trace res) = []) /\
  (let sh := mkShape (mkArm SNone true true) (mkArm SReject true false) (mkArm SReject true false) false true true in
   wf_shape sh = false /\
   let res := loader sh [ex_strat] ex_rejhdr ex_cfg ex_pairs in
   res_crashed res = false /\ res_yields res = [1] /\ filter (lab_eqb 0 0) (res_trace res) = []).
Proof. exact shape_fields_needed. Qed.
Print Assumptions C01_shape_fields_needed_refuted.

(* ---- the SPECIFICATION over observations of one run (input lines, records read, records of every output file with the
   pair they stem from, returned and logged counters): spec_C01 (Proofs/C01Spec.v) restates the theorems above on
   observables; specb_C01 (Model/C01Spec.v) is what the extracted binary evaluates on the implementation's real output
   files (run_C01 mode 2).  The decision procedure decides the proposition: *)
Theorem C01_specb_iff : forall sc ob, specb_C01 sc ob = true <-> spec_C01 sc ob.
Proof. exact specb_iff. Qed.
Print Assumptions C01_specb_iff.

(* ---- the model's run, observed the way the implementation is observed (records of every output file attributed to
   their input pair and strategy, returned counters), satisfies that specification - for every well-formed shape of the
   loop, every strategy list and reject-header builder that keep their contracts (a formatted reject header carries
   ;RR:reason; headers and reasons contain no newline), every library read from newline-free lines, in every run that
   returns and in which no write is partial (step_ok2).  So the verdict of specb_C01 on the implementation's files is the
   statement the theorems above establish for the model. *)
Theorem C01_model_satisfies_spec : forall sh strats rejhdr cfg, wf_shape sh = true ->
  (forall r reason h, rejhdr r reason = HOk h ->
     contains (tagRR ++ reason) h /\ (read_nlfree r -> nl_free reason -> nl_free h)) ->
  (forall r reason why, rejhdr r reason = HNonMux why -> nl_free why) ->
  (forall f r why, In f strats -> f r = Reject why \/ f r = Raise why -> nl_free why) ->
  forall files, files <> [] -> Forall (Forall nl_free) files -> (0 < c_nh cfg)%nat ->
  let pairs := fastq_iter files in
  let res := demultiplex sh strats rejhdr cfg files in
  res_crashed res = false ->
  (forall r f, In r (consumed sh cfg pairs) -> In f strats -> step_ok2 cfg r f) ->
  spec_C01 (model_sconf strats cfg (length files)) (model_obs files res).
Proof. exact model_satisfies_spec. Qed.
Print Assumptions C01_model_satisfies_spec.

(* non-vacuity of C01_model_satisfies_spec and C01_specb_iff: a library of three pairs in two mate files (accepted /
   rejected / the strategy raises) satisfies every hypothesis; the specification holds and the decision procedure says so *)
Example C01_example_bridge :
  let res := demultiplex repaired_shape [bx_strat] bx_rejhdr bx_cfg bx_files in
  res_crashed res = false /\ res_processed res = 3 /\ res_yields res = [1] /\
  spec_C01 (model_sconf [bx_strat] bx_cfg (length bx_files)) (model_obs bx_files res) /\
  specb_C01 (model_sconf [bx_strat] bx_cfg (length bx_files)) (model_obs bx_files res) = true.
Proof. exact bx_bridge. Qed.
Print Assumptions C01_example_bridge.

(* the decision procedure is not constantly true: the same observation with the yield counter off by one, or with the
   rejected pair missing from the rejects, is refused *)
Example C01_example_specb_rejects :
  let res := demultiplex repaired_shape [bx_strat] bx_rejhdr bx_cfg bx_files in
  let sc := model_sconf [bx_strat] bx_cfg (length bx_files) in
  let ob := model_obs bx_files res in
  specb_C01 sc (mkObs (ob_in ob) (ob_pairs ob) (ob_out ob) (ob_processed ob) [2] None) = false /\
  specb_C01 sc (mkObs (ob_in ob) (ob_pairs ob) (filter (fun f => f_target f) (ob_out ob)) (ob_processed ob) (ob_yields ob) None) = false /\
  specb_C01 sc (mkObs (ob_in ob) (ob_pairs ob) (ob_out ob ++ ob_out ob) (ob_processed ob) (ob_yields ob) None) = false.
Proof. exact bx_specb_rejects. Qed.
Print Assumptions C01_example_specb_rejects.

(* ---- non-vacuity: a run over accept / reject / raise satisfying every hypothesis above *)
Example C01_example_run :
  let res := loader repaired_shape [ex_strat] ex_rejhdr ex_cfg ex_pairs in
  wf_shape repaired_shape = true /\
  res_crashed res = false /\ res_processed res = 3 /\ res_yields res = [1]
  /\ map lab (file_events (res_trace res) true [] 0) = [(0, 0)]%nat
  /\ map lab (file_events (res_trace res) true [] 1) = [(0, 0)]%nat
  /\ map lab (file_events (res_trace res) false [] 0) = [(1, 0); (2, 0)]%nat
  /\ map lab (file_events (res_trace res) false [] 1) = [(1, 0); (2, 0)]%nat
  /\ file_bytes (res_trace res) false [] 0 =
       [64;98;59;82;82;58;98;99;10; 67;67;10; 43;10; 73;73;10;   64;99;59;82;82;58;73;69;10; 71;10; 43;10; 73;10]
  /\ (forall r f, In r (consumed repaired_shape ex_cfg ex_pairs) -> In f [ex_strat] -> step_ok2 ex_cfg r f).
Proof. exact ex_run. Qed.
Print Assumptions C01_example_run.

(* the other well-formed order of the loop body (maxReadPairs test first) *)
Example C01_example_run_test_first :
  wf_shape (good_shape false false) = true /\
  let res := loader (good_shape false false) [ex_strat] ex_rejhdr (mkConfig (Some 2) true false 2 false) ex_pairs in
  res_crashed res = false /\ res_processed res = 2 /\ res_yields res = [1]
  /\ map lab (file_events (res_trace res) false [] 0) = [(1, 0)]%nat
  /\ res_processed (loader (good_shape false false) [ex_strat] ex_rejhdr (mkConfig (Some 0) true false 2 false) ex_pairs) = 0
  /\ res_processed (loader repaired_shape [ex_strat] ex_rejhdr (mkConfig (Some 0) true false 2 false) ex_pairs) = 1.
Proof. exact ex_run_test_first. Qed.
Print Assumptions C01_example_run_test_first.

Example C01_example_rejhdr_contract :
  forall r reason h, ex_rejhdr r reason = HOk h -> contains (tagRR ++ reason) h.
Proof. exact ex_rejhdr_contract. Qed.
Print Assumptions C01_example_rejhdr_contract.

Example C01_example_reader :
  fastq_iter [[[64;49]; [65]; [43]; [73];  [64;50;32;9]; [67]; [43]; [73]; [32]; [71]; [43]; [73]];
              [[64;49]; [84]; [43]; [73];  [64;50]; [71]; [43]]]
  = [[mkRead [64;49] [65] [43] [73]; mkRead [64;49] [84] [43] [73]];
     [mkRead [64;50] [67] [43] [73]; mkRead [64;50] [71] [43] []]].
Proof. exact ex_reader. Qed.
Print Assumptions C01_example_reader.
