(* C12 — property theorems only.  Each is closed by [exact lemma]; Print Assumptions beneath.
   The arithmetic (g_f_start g_f_end g_not_owned g_bin_i g_bin_start g_bin_end of count_fragments_binned, the
   range/step/end expressions of generate_jobs, the rejection chain of read_counts and the keyword arguments of
   its call) is REGENERATED from /repo into Gen/GenBinCount.v on every run.
   H1 = 0 <= site < contig length, H2 = site within max_fragment_size of the aligned span: both are part of
   [regular] and visible in every statement that needs them; *_refuted show they cannot be dropped. *)
From Coq Require Import ZArith List Bool Permutation.
Import ListNotations.
From SCMO Require Import Lib.PyInt Gen.GenBinCount Model.C12 Model.C12x Proofs.C12_dict Proofs.C12 Proofs.C12x Proofs.C12m.
Open Scope Z_scope.

(* the job intervals of one contig tile [0, ceil(len/w)*w) in steps of w = bin_size*bins_per_job: consecutive,
   every boundary a multiple of the bin size, every coordinate of the contig in exactly one job *)
Theorem C12_jobs_tile : forall c len, valid_cfg c = true ->
  let w := c_b c * c_k c in
  jobs_contig c len = map (fun i => (i * w, (i + 1) * w)) (zrange 0 (cdiv len w))
  /\ (forall st en, In (st, en) (jobs_contig c len) ->
        0 <= st < len /\ en = st + w /\ st mod c_b c = 0 /\ en mod c_b c = 0)
  /\ (forall x, 0 <= x < len ->
        exists jb, In jb (jobs_contig c len) /\ fst jb <= x < snd jb
                   /\ forall jb', In jb' (jobs_contig c len) -> fst jb' <= x < snd jb' -> jb' = jb)
  /\ (0 <= len -> len <= cdiv len w * w < len + w).
Proof. exact jobs_tile. Qed.
Print Assumptions C12_jobs_tile.

(* every bin id a job produces comes from a passing record whose site the job owns, and the bin starts inside
   the job on a multiple of the bin size: no other job can produce the same bin id *)
Theorem C12_job_cells_owned : forall c g cn jb q, valid_cfg c = true -> In (cn, jb) (all_jobs c g) ->
  In q (keys (count_job c (cn, jb))) ->
  exists r, In r (creads cn) /\ passes c r = true /\ q = cellid c cn r /\ fst jb <= site r < snd jb
            /\ fst jb <= fst (bin_of c (clen cn) r) < snd jb
            /\ fst (bin_of c (clen cn) r) = c_b c * (site r / c_b c)
            /\ fst (bin_of c (clen cn) r) mod c_b c = 0.
Proof. exact count_job_cells. Qed.
Print Assumptions C12_job_cells_owned.

(* obtain_counts' update-merge (which OVERWRITES per (bin id, sample)) never overwrites: for EVERY completion
   order p of the jobs and EVERY input (no hypothesis on the records) the merged dictionary is the concatenation
   of the job results and a lookup is the sum of the per-job lookups *)
Theorem C12_merge_is_sum : forall c g p q s, valid_cfg c = true -> NoDup (map cid g) ->
  Permutation (all_jobs c g) p ->
  merge_all (map (count_job c) p) = concat (map (count_job c) p)
  /\ look (merge_all (map (count_job c) p)) q s = zsum (fun j => look (count_job c j) q s) (all_jobs c g).
Proof. intros c g p q s Hv Hn Hp. exact (conj (merged_is_concat c g p Hv Hn Hp) (merged_look_sum c g p q s Hv Hn Hp)). Qed.
Print Assumptions C12_merge_is_sum.

(* a passing record with H1 and H2 is selected (fetched and owned) by exactly one job of its contig, and the bin
   it is counted in is [b*floor(site/b), min(b*(floor(site/b)+1), len)), which contains the site *)
Theorem C12_once : forall c cn r, valid_cfg c = true -> passes c r = true -> regular c (clen cn) r = true ->
  zsum (fun jb => if sel c cn jb r then 1 else 0) (jobs_contig c (clen cn)) = 1
  /\ cellid c cn r = cell_of c cn r
  /\ c_b c * (site r / c_b c) <= site r < c_b c * (site r / c_b c) + c_b c.
Proof. exact once. Qed.
Print Assumptions C12_once.

(* MAIN: for every completion order, every cell of the merged matrix equals the declarative count (number of
   passing records of that contig with that key, sample and bin) - which mentions neither jobs nor order *)
Theorem C12_matrix : forall c g p q s, valid_cfg c = true -> NoDup (map cid g) -> regular_genome c g ->
  Permutation (all_jobs c g) p -> look (merge_all (map (count_job c) p)) q s = decl c g q s.
Proof. exact matrix_decl. Qed.
Print Assumptions C12_matrix.

(* identical for every number of bins per job and every worker schedule *)
Theorem C12_invariant : forall c k1 k2 g p1 p2 q s, 0 < c_b c -> 0 <= c_mfs c -> 0 < k1 -> 0 < k2 ->
  NoDup (map cid g) -> regular_genome c g ->
  Permutation (all_jobs (set_k c k1) g) p1 -> Permutation (all_jobs (set_k c k2) g) p2 ->
  look (merge_all (map (count_job (set_k c k1)) p1)) q s = look (merge_all (map (count_job (set_k c k2)) p2)) q s
  /\ total (merge_all (map (count_job (set_k c k1)) p1)) = total (merge_all (map (count_job (set_k c k2)) p2)).
Proof. exact invariant. Qed.
Print Assumptions C12_invariant.

(* the total of the matrix is the number of passing records in the BAM *)
Theorem C12_total : forall c g p, valid_cfg c = true -> NoDup (map cid g) -> regular_genome c g ->
  Permutation (all_jobs c g) p -> total (merge_all (map (count_job c) p)) = decl_total c g.
Proof. exact matrix_total. Qed.
Print Assumptions C12_total.

(* the entry point with a schedule given as a permutation of job positions: no exception, cells and total as
   declared, and the result is a proper dictionary (distinct bin ids, every stored count >= 1), so equality of
   all lookups is equality of the dictionaries up to order *)
Theorem C12_obtain : forall c g sched, valid_cfg c = true -> NoDup (map cid g) -> regular_genome c g ->
  Permutation (seq 0 (length (all_jobs c g))) sched ->
  exists d, obtain c g sched = Ok d /\ (forall q s, look d q s = decl c g q s) /\ total d = decl_total c g
            /\ NoDup (keys d) /\ positive d.
Proof. exact obtain_matrix. Qed.
Print Assumptions C12_obtain.

(* sessions (the same path counted repeatedly and rewritten in between): the i-th result is [obtain] of the
   parameters and BAM content of the i-th call - a function of the CURRENT content only - and, under the hypotheses
   for that call, it is the declarative matrix of that content whatever was counted before *)
Theorem C12_history_stateless : forall h i c g sched, nth_error h i = Some (c, g, sched) ->
  nth_error (run_history h) i = Some (obtain c g sched).
Proof. exact history_stateless. Qed.
Print Assumptions C12_history_stateless.

Theorem C12_history_matrix : forall h i c g sched, nth_error h i = Some (c, g, sched) ->
  valid_cfg c = true -> NoDup (map cid g) -> regular_genome c g ->
  Permutation (seq 0 (length (all_jobs c g))) sched ->
  exists d, nth_error (run_history h) i = Some (Ok d) /\ (forall q s, look d q s = decl c g q s)
            /\ total d = decl_total c g /\ NoDup (keys d) /\ positive d.
Proof. exact history_matrix. Qed.
Print Assumptions C12_history_matrix.

(* "passing" is what the statement says: read 1, not QC-failed, not duplicate (when deduplicating), not marked as
   non-uniquely mappable (unless ignored), mapping quality at least the threshold *)
Theorem C12_filter_spec : forall c r, passes c r = true <->
  r_r1 r = true /\ r_qcfail r = false /\ (c_dedup c = true -> r_dup r = false)
  /\ (c_ignmp c = true \/ r_mp r = 0 \/ r_mp r = 1) /\ (c_has_mq c = true -> c_mq c <= r_mq r).
Proof. exact passes_spec. Qed.
Print Assumptions C12_filter_spec.

(* the boolean precondition evaluated by the harness implies the hypotheses above *)
Theorem C12_pre_sound : forall c g, pre c g = true -> valid_cfg c = true /\ NoDup (map cid g) /\ regular_genome c g.
Proof. exact pre_sound. Qed.
Print Assumptions C12_pre_sound.

(* ---- the hypotheses cannot be dropped (faithful model, concrete inputs) *)
Theorem C12_far_site_refuted : exists c g k1 k2 q s,
  valid_cfg (set_k c k1) = true /\ valid_cfg (set_k c k2) = true /\ NoDup (map cid g)
  /\ (forall cn r, In cn g -> In r (creads cn) -> passes c r = true /\ 0 <= site r < clen cn /\ wf_rec (clen cn) r = true)
  /\ look (run_id (set_k c k1) g) q s <> look (run_id (set_k c k2) g) q s.
Proof. exact far_site_refuted. Qed.
Print Assumptions C12_far_site_refuted.

Theorem C12_site_beyond_contig_refuted : exists c g k1 k2 q s,
  valid_cfg (set_k c k1) = true /\ valid_cfg (set_k c k2) = true /\ NoDup (map cid g)
  /\ (forall cn r, In cn g -> In r (creads cn) -> passes c r = true /\ near (c_mfs c) r = true /\ wf_rec (clen cn) r = true)
  /\ look (run_id (set_k c k1) g) q s <> look (run_id (set_k c k2) g) q s.
Proof. exact site_beyond_contig_refuted. Qed.
Print Assumptions C12_site_beyond_contig_refuted.

Theorem C12_negative_site_dropped : exists c g,
  NoDup (map cid g)
  /\ (forall cn r, In cn g -> In r (creads cn) -> passes c r = true /\ near (c_mfs c) r = true /\ wf_rec (clen cn) r = true)
  /\ decl_total c g = 1
  /\ forall k p, 0 < k -> Permutation (all_jobs (set_k c k) g) p -> total (merge_all (map (count_job (set_k c k)) p)) = 0.
Proof. exact negative_site_dropped. Qed.
Print Assumptions C12_negative_site_dropped.

(* D15: get_binned_counts with adjacent user regions counts a record twice (widened start reused as ownership
   bound; inclusive stop) *)
Theorem C12_regions_refuted : exists fs bin regions reads b,
  fs = 1000 /\ regions = [(0, 2000); (2000, 4000)] /\ length reads = 1%nat
  /\ In (b, 2) (region_counts fs bin regions reads).
Proof. exact regions_refuted. Qed.
Print Assumptions C12_regions_refuted.

(* non-vacuity: two contigs (one not a multiple of the bin size), sites exactly on job boundaries, a site at the
   far end of a long record, a duplicate, a read 2: the hypotheses hold and the result is as declared *)
Example C12_instance :
  let c := cfg0 10 2 50 in
  let g := [ {| cid := 1; clen := 95; creads := [mk 0 10 (Some 0); mk 15 25 (Some 20); mk 15 60 (Some 59);
                                                 mk 30 40 (Some 40); mk 85 95 (Some 94);
                                                 {| r_lo := 20; r_hi := 30; r_ds := Some 20; r_r1 := true; r_qcfail := false;
                                                    r_dup := true; r_mp := 0; r_mq := 60; r_sample := 1; r_key := 0 |};
                                                 {| r_lo := 20; r_hi := 30; r_ds := None; r_r1 := false; r_qcfail := false;
                                                    r_dup := false; r_mp := 0; r_mq := 60; r_sample := 2; r_key := 0 |}] |};
             {| cid := 2; clen := 40; creads := [mk 39 40 None] |} ] in
  pre c g = true
  /\ obtain c g [3; 0; 6; 2; 1; 5; 4]%nat
     = Ok [((0, 1, 0, 10), [(1, 1)]); ((0, 2, 30, 40), [(1, 1)]); ((0, 1, 50, 60), [(1, 1)]);
           ((0, 1, 40, 50), [(1, 1)]); ((0, 1, 20, 30), [(1, 1)]); ((0, 1, 90, 95), [(1, 1)])]
  /\ decl_total c g = 6.
Proof. vm_compute. repeat split. Qed.
Print Assumptions C12_instance.

(* ======================================================================================================================
   EXTENSION (a): get_binned_counts with user regions, exactly as coded (region start widened by fs = 1000, clipped at 0,
   and reused as ownership bound; inclusive stop; one job per region; job results added).
   [region_hit fs rg r]: record r = (reference_start, reference_end, site) is counted by the job of user region rg;
   [region_mult fs regions r]: by how many regions. *)

(* a record is counted by a region iff its site lies in the CLOSED window [max(0, start - fs), stop] and pysam fetches it
   (it starts before stop and ends after the widened start) *)
Theorem C12_region_hit_window : forall fs a stop lo hi s,
  region_hit fs (a, stop) (lo, hi, s) = true
  <-> Z.max 0 (a - fs) <= s <= stop /\ lo < stop /\ Z.max 0 (a - fs) < hi.
Proof. exact region_hit_iff. Qed.
Print Assumptions C12_region_hit_window.

(* for a record whose site is inside its aligned span: site in [max(0,start-fs), stop), or exactly ON the stop while the
   record starts before it *)
Theorem C12_region_hit_inside : forall fs a stop lo hi s, lo <= s < hi ->
  region_hit fs (a, stop) (lo, hi, s) = true
  <-> (Z.max 0 (a - fs) <= s < stop) \/ (s = stop /\ lo < stop /\ Z.max 0 (a - fs) <= stop).
Proof. exact region_hit_inside. Qed.
Print Assumptions C12_region_hit_inside.

(* EXACT table, for every region list (overlapping, adjacent, repeated, unsorted ...): bin b is reported with count n iff
   n > 0 is the sum, over the records whose site falls in bin b, of the number of regions whose window contains the
   record; reported bins are distinct; the total is the sum of the multiplicities *)
Theorem C12_regions_exact : forall fs bin regions reads b n,
  In (b, n) (region_counts fs bin regions reads)
  <-> 0 < n /\ n = zsum (fun r => if g_region_bin (rsite r) bin =? b then region_mult fs regions r else 0) reads.
Proof. exact regions_exact. Qed.
Print Assumptions C12_regions_exact.

Theorem C12_regions_total : forall fs bin regions reads,
  NoDup (map fst (region_counts fs bin regions reads))
  /\ zsum snd (region_counts fs bin regions reads) = zsum (region_mult fs regions) reads.
Proof. intros fs bin regions reads. exact (conj (regions_keys_NoDup fs bin regions reads) (regions_total fs bin regions reads)). Qed.
Print Assumptions C12_regions_total.

(* regions whose windows [max(0,start-fs), stop] are pairwise disjoint (e.g. more than fs apart): every record is counted at
   most once, and exactly the records hit by some region - the union of the WIDENED CLOSED windows, not of the user regions *)
Theorem C12_regions_separated_once : forall fs regions r, regions_separated fs regions = true ->
  0 <= region_mult fs regions r <= 1
  /\ (region_mult fs regions r = 1 <-> exists rg, In rg regions /\ region_hit fs rg r = true).
Proof. exact separated_once. Qed.
Print Assumptions C12_regions_separated_once.

Theorem C12_regions_far_apart : forall fs a b, 0 <= fs -> snd a + fs < fst b -> win_disjoint fs a b = true.
Proof. exact far_apart_separated. Qed.
Print Assumptions C12_regions_far_apart.

(* a single region counts a record that lies OUTSIDE it (in the 1000 bp margin before its start) *)
Theorem C12_regions_margin_refuted : exists fs bin regions reads b,
  fs = 1000 /\ regions = [(2000, 4000)] /\ reads = [(1500, 1503, 1500)]
  /\ (forall rg r, In rg regions -> In r reads -> ~ (fst rg <= rsite r < snd rg))
  /\ In (b, 1) (region_counts fs bin regions reads).
Proof. exact regions_margin_refuted. Qed.
Print Assumptions C12_regions_margin_refuted.

(* regions that do not touch but are closer than fs double count as well *)
Theorem C12_regions_close_refuted : exists fs regions r,
  fs = 1000 /\ regions = [(0, 2000); (2500, 4000)] /\ region_mult fs regions r = 2.
Proof. exact regions_close_refuted. Qed.
Print Assumptions C12_regions_close_refuted.

Example C12_regions_instance :
  let regions := [(5000, 6000); (1000, 2000); (7500, 8000)] in
  let reads := [(1990, 2003, 2000); (2000, 2003, 2000); (10, 13, 12); (4100, 4103, 4100); (3999, 4002, 3999); (6400, 6410, 6400)] in
  regions_separated 1000 regions = true
  /\ map (region_mult 1000 regions) reads = [1; 0; 1; 1; 0; 0]
  /\ region_counts 1000 1000 regions reads = [(4000, 1); (2000, 1); (0, 1)].
Proof. vm_compute. repeat split. Qed.
Print Assumptions C12_regions_instance.

(* ======================================================================================================================
   EXTENSION (b): count_methylation_binned on the same tiling (generate_commands jobs; fetch window, ownership test of every
   aligned position, bin expressions, dyad shift and filter call REGENERATED from the source, names g_m_), merged by
   MethylationCountMatrix.update, which OVERWRITES per (sample, location). *)

(* exactly one owner: every call (aligned position) of a passing record is selected - record fetched, position owned - by
   exactly one job of its contig, for every bin size, bins_per_job and max_fragment_size >= 0 *)
Theorem C12_meth_once : forall c cn it, valid_cfg (mc c) = true -> m_regular c (mclen cn) (fst it) = true ->
  m_passes c (fst it) = true -> In (snd it) (m_calls (fst it)) ->
  zsum (fun jb => if msel c cn jb it then 1 else 0) (jobs_contig (mc c) (mclen cn)) = 1.
Proof. exact msel_once. Qed.
Print Assumptions C12_meth_once.

(* the overwriting update never overwrites: for EVERY completion order and EVERY input (no hypothesis on the records) both
   counters of a cell of the merged matrix are the sums of the per-job counters *)
Theorem C12_meth_merge_is_sum : forall c g p k meth, valid_cfg (mc c) = true -> m_dyad c = false -> NoDup (map mcid g) ->
  Permutation (m_all_jobs c g) p ->
  fcnt (fmerge_all (map (m_count_job c) p)) k meth = zsum (fun j => fcnt (m_count_job c j) k meth) (m_all_jobs c g).
Proof. exact m_merged_sum. Qed.
Print Assumptions C12_meth_merge_is_sum.

(* MAIN: every cell [n_unmethylated, n_methylated] of the merged matrix equals the declarative count of z / Z calls of
   passing records at positions inside that bin with that sample (and strand) - no jobs, no order in the right-hand side *)
Theorem C12_meth_matrix : forall c g p k, valid_cfg (mc c) = true -> m_dyad c = false -> NoDup (map mcid g) ->
  m_regular_genome c g -> Permutation (m_all_jobs c g) p ->
  fval (fmerge_all (map (m_count_job c) p)) k = m_decl c g k.
Proof. exact m_matrix. Qed.
Print Assumptions C12_meth_matrix.

(* identical for every number of bins per job and every completion order *)
Theorem C12_meth_invariant : forall c k1 k2 g p1 p2 key,
  0 < c_b (mc c) -> 0 <= c_mfs (mc c) -> 0 < k1 -> 0 < k2 -> m_dyad c = false ->
  NoDup (map mcid g) -> m_regular_genome c g ->
  Permutation (m_all_jobs (m_set_k c k1) g) p1 -> Permutation (m_all_jobs (m_set_k c k2) g) p2 ->
  fval (fmerge_all (map (m_count_job (m_set_k c k1)) p1)) key = fval (fmerge_all (map (m_count_job (m_set_k c k2)) p2)) key.
Proof. exact m_invariant. Qed.
Print Assumptions C12_meth_invariant.

Theorem C12_meth_obtain : forall c g sched key, valid_cfg (mc c) = true -> m_dyad c = false -> NoDup (map mcid g) ->
  m_regular_genome c g -> Permutation (seq 0 (length (m_all_jobs c g))) sched ->
  fval (m_obtain c g sched) key = m_decl c g key.
Proof. exact m_obtain_matrix. Qed.
Print Assumptions C12_meth_obtain.

Theorem C12_meth_pre_sound : forall c g, m_pre c g = true ->
  valid_cfg (mc c) = true /\ m_dyad c = false /\ NoDup (map mcid g) /\ m_regular_genome c g.
Proof. exact m_pre_sound. Qed.
Print Assumptions C12_meth_pre_sound.

(* dyad mode: the +1 shift of reverse-strand calls happens AFTER the ownership test, the shifted call of the last position
   of a job is stored under the first bin of the NEXT job and overwritten by that job's result: the matrix depends on
   bins_per_job (one call lost with 1 bin per job, none with 2) *)
Theorem C12_meth_dyad_refuted : exists c g k1 k2 key,
  m_dyad c = true /\ valid_cfg (mc (m_set_k c k1)) = true /\ valid_cfg (mc (m_set_k c k2)) = true /\ NoDup (map mcid g)
  /\ m_regular_genome c g
  /\ fval (m_run_id (m_set_k c k1) g) key <> fval (m_run_id (m_set_k c k2) g) key.
Proof. exact m_dyad_refuted. Qed.
Print Assumptions C12_meth_dyad_refuted.

(* non-vacuity: two contigs, calls on job boundaries (positions 19 / 20 with 10 x 2 = 20 bp jobs), a reverse read, a
   duplicate, a read 2 (counted: read1_only is off), other XM letters *)
Example C12_meth_instance :
  let c := mcfg0 10 2 false true in
  let g := [ {| mcid := 1; mclen := 45; mreads := [mk_m 15 25 false [(15, 2); (19, 1); (20, 1); (24, 3)];
                                                   mk_m 18 22 true [(19, 2); (20, 1); (21, 0)];
                                                   {| m_lo := 18; m_hi := 22; m_r1 := false; m_qcfail := false; m_dup := false; m_mp := 0;
                                                      m_mq := 60; m_sample := 2; m_rev := false; m_calls := [(19, 1)] |};
                                                   {| m_lo := 18; m_hi := 22; m_r1 := true; m_qcfail := false; m_dup := true; m_mp := 0;
                                                      m_mq := 60; m_sample := 2; m_rev := false; m_calls := [(19, 1)] |};
                                                   mk_m 40 45 false [(44, 1)]] |};
             {| mcid := 2; mclen := 10; mreads := [mk_m 0 10 true [(0, 2); (9, 2)]] |} ] in
  m_pre c g = true
  /\ m_obtain c g [3; 0; 2; 1]%nat
     = [((1, (2, 2, 0, 10)), (2, 0)); ((1, (1, 1, 10, 20)), (1, 1)); ((1, (2, 1, 10, 20)), (1, 0)); ((2, (1, 1, 10, 20)), (0, 1));
        ((1, (1, 1, 40, 45)), (0, 1)); ((1, (1, 1, 20, 30)), (0, 1)); ((1, (2, 1, 20, 30)), (0, 1))]
  /\ m_decl_total c g = 9.
Proof. vm_compute. repeat split. Qed.
Print Assumptions C12_meth_instance.

(* get_binned_counts_prefixed / _generate_count_dict_prefixed: the same widening, ownership test and bin expression
   (regenerated separately), hence the same exact table and the same refutations *)
Theorem C12_regions_prefixed_same :
  (forall start fs, g_pregion_start start fs = g_region_start start fs)
  /\ (forall cut start stop, g_pregion_skip cut start stop = g_region_skip cut start stop)
  /\ (forall cut bin, g_pregion_bin cut bin = g_region_bin cut bin).
Proof. exact pregion_same. Qed.
Print Assumptions C12_regions_prefixed_same.
