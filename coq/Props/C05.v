(* C05 — property theorems only.  Each is closed by [exact lemma]; Print Assumptions beneath.
   Model/C05.v is the hand-written model of bamtagmultiome's record flow (tied to the source by the
   correspondence check tools/c05.py: source-slice execution of the job block + end-to-end BAMs).
   sort / merge (htslib) and the molecule iterator are universally quantified functions constrained
   only by their stated contracts. *)
From Coq Require Import ZArith List Bool Permutation.
Import ListNotations.
From SCMO Require Import Lib.Val Model.C05 Proofs.C05_a Proofs.C05_b Proofs.C05.
Open Scope Z_scope.

(* ---- the job list of tag_multiome_multi_processing (one contig per process) *)

(* for EVERY contig list (any order, any lengths, '*' present or not): the jobs, concatenated, are the
   unplaced bin followed by each listed contig exactly once, in order *)
Theorem C05_jobs_cover : forall cs : list (cname * Z),
  concat (contig_jobs cs) = None :: filter (fun c => negb (is_star c)) (map fst cs) /\
  Permutation (concat (contig_jobs cs)) (None :: filter (fun c => negb (is_star c)) (map fst cs)).
Proof. exact (fun cs => conj (contig_jobs_concat cs) (jobs_cover cs)). Qed.
Print Assumptions C05_jobs_cover.

(* no job is empty; a job is the unplaced bin alone, one large contig alone, or small contigs only *)
Theorem C05_jobs_shape : forall cs : list (cname * Z),
  Forall (fun j => j <> []) (contig_jobs cs) /\
  Forall (fun j => j = [None] \/
                   (exists c len, j = [c] /\ In (c, len) cs /\ small_contig_threshold <= len) \/
                   Forall (fun c => exists len, In (c, len) cs /\ len < small_contig_threshold) j)
         (contig_jobs cs).
Proof.
  exact (fun cs => conj (contig_jobs_nonempty cs) (contig_jobs_shape cs)).
Qed.
Print Assumptions C05_jobs_shape.

(* the block as it stood before the repair loses contigs and repeats the unplaced bin (D8) *)
Theorem C05_jobs_cover_old_refuted :
  ~ In (Some 3) (concat (contig_jobs_old [(Some 1, 500); (Some 2, 600); (Some 3, 5000000)])) /\
  ~ In (Some 2) (concat (contig_jobs_old [(Some 1, 5000000); (Some 2, 600)])) /\
  concat (contig_jobs_old [(Some 1, 500); (None, 0)]) = [None; Some 1; None].
Proof. exact jobs_old_refuted. Qed.
Print Assumptions C05_jobs_cover_old_refuted.

(* ---- mate pairing (pysamiterators.MatePairIterator as driven by MoleculeIterator) *)

(* every primary record of the stream is in exactly one emitted pair, in the slot of its mate number,
   provided no two primary records share (name, first-read bit) *)
Theorem C05_pair_conserve : forall (rs : list rec) (ps : list pairT),
  NoDup (map ckey2 (filter primary rs)) ->
  pairing rs = Ok ps ->
  Permutation (map key (flat_map slotted ps)) (map key (map norm (filter primary rs))).
Proof. exact pairing_conserve. Qed.
Print Assumptions C05_pair_conserve.

(* ---- the molecule iterator contract is met by the simple iterator *)
Theorem C05_iter_contract_simple : forall valid mkey cap every,
  iter_contract valid (simple_iter valid mkey cap every).
Proof. exact simple_iter_contract. Qed.
Print Assumptions C05_iter_contract_simple.

(* ---- conservation, default options (yield_invalid = yield_overflow = True) *)

(* single process: for any sort that permutes and any iterator meeting the contract, the written records
   are exactly the expected input records (primary ones; all of them for qflag), each once, with
   unchanged payload id, name, contig, position, and the mate bits of [norm] *)
Theorem C05_conserve_single :
  forall (sort : list orec -> list orec) (valid : frag -> bool)
         (it : bool -> bool -> list frag -> list (list frag) * list frag) (qflag : bool)
         (hdr : list (Z * Z)) (recs : list rec) (b : bam),
  (forall l, Permutation (sort l) l) ->
  iter_contract valid it ->
  NoDup (map fst hdr) ->
  (forall r, In r recs -> placed_in (map fst hdr) r = true) ->
  pre_stream qflag recs ->
  single sort it qflag true true hdr recs = Ok b ->
  Permutation (map key (map fst (snd b))) (map key (map norm (expected qflag recs))).
Proof.
  exact (fun sort valid it qflag hdr recs b Hs Hit Hn Hp Hpre H =>
           single_conserve sort valid it qflag Hs Hit hdr recs Hn Hp b Hpre H).
Qed.
Print Assumptions C05_conserve_single.

(* contig per process (--multiprocess): the same, for ANY completion order of the jobs *)
Theorem C05_conserve_multi :
  forall (sort : list orec -> list orec) (merge : list bam -> bam) (valid : frag -> bool)
         (it : bool -> bool -> list frag -> list (list frag) * list frag) (qflag : bool)
         (hdr : list (Z * Z)) (recs : list rec) (in_rgs : list Z) (outs done : list (option bam)),
  (forall l, Permutation (sort l) l) ->
  (forall bs, Permutation (snd (merge bs)) (flat_map snd bs)) ->
  iter_contract valid it ->
  NoDup (map fst hdr) ->
  (forall r, In r recs -> placed_in (map fst hdr) r = true) ->
  pre_stream qflag recs ->
  job_outputs sort it qflag true true hdr recs = Ok outs ->
  Permutation done outs ->
  Permutation (map key (map fst (snd (multi_merge merge in_rgs done)))) (map key (map norm (expected qflag recs))).
Proof.
  exact (fun sort merge valid it qflag hdr recs in_rgs outs done Hs Hm Hit Hn Hp Hpre H Hd =>
           multi_conserve sort merge valid it qflag Hs Hit Hm hdr recs in_rgs Hn Hp outs done Hpre H Hd).
Qed.
Print Assumptions C05_conserve_multi.

(* "unchanged mate number when both mates are present": with SAM-conformant flags a paired record
   keeps its mate bits; name, place and payload are never changed by [norm] *)
Theorem C05_mate_unchanged : forall r,
  core (norm r) = core r /\
  (wf_flags r = true -> r_paired r = true -> r_read1 (norm r) = r_read1 r /\ r_read2 (norm r) = r_read2 r).
Proof. exact (fun r => conj (norm_core r) (norm_mate r)). Qed.
Print Assumptions C05_mate_unchanged.

(* ---- --no_rejects (yield_invalid = False): exactly the records of the valid fragments *)
Theorem C05_no_rejects_single :
  forall (sort : list orec -> list orec) (valid : frag -> bool)
         (it : bool -> bool -> list frag -> list (list frag) * list frag) (qflag : bool)
         (hdr : list (Z * Z)) (recs : list rec) (b : bam) (fs1 fs2 : list frag),
  (forall l, Permutation (sort l) l) ->
  iter_contract valid it ->
  fragments qflag (fetch None recs) = Ok fs1 ->
  fragments qflag (fetch_all (map fst hdr) recs) = Ok fs2 ->
  single sort it qflag false true hdr recs = Ok b ->
  Permutation (map fst (snd b)) (flat_map frag_recs (filter valid (fs1 ++ fs2))).
Proof.
  exact (fun sort valid it qflag hdr recs b fs1 fs2 Hs Hit H1 H2 H =>
           single_no_rejects sort valid it qflag Hs Hit hdr recs b fs1 fs2 H1 H2 H).
Qed.
Print Assumptions C05_no_rejects_single.

Theorem C05_no_rejects_multi :
  forall (sort : list orec -> list orec) (merge : list bam -> bam) (valid : frag -> bool)
         (it : bool -> bool -> list frag -> list (list frag) * list frag) (qflag : bool)
         (hdr : list (Z * Z)) (recs : list rec) (in_rgs : list Z) (F : cname -> list frag) (outs done : list (option bam)),
  (forall l, Permutation (sort l) l) ->
  (forall bs, Permutation (snd (merge bs)) (flat_map snd bs)) ->
  iter_contract valid it ->
  (forall c, fragments qflag (fetch c recs) = Ok (F c)) ->
  job_outputs sort it qflag false true hdr recs = Ok outs ->
  Permutation done outs ->
  Permutation (map fst (snd (multi_merge merge in_rgs done)))
              (flat_map (fun c => flat_map frag_recs (filter valid (F c)))
                        (concat (contig_jobs (contigs_with_reads hdr recs)))).
Proof.
  exact (fun sort merge valid it qflag hdr recs in_rgs F outs done Hs Hm Hit HF H Hd =>
           multi_no_rejects sort merge valid it qflag Hs Hit Hm hdr recs in_rgs F outs done HF H Hd).
Qed.
Print Assumptions C05_no_rejects_multi.

(* ---- output is the sort of what was written; every record's RG is declared in the header *)
Theorem C05_sorted_rg_single :
  forall (sort : list orec -> list orec)
         (it : bool -> bool -> list frag -> list (list frag) * list frag) (qflag yi yo : bool)
         (hdr : list (Z * Z)) (recs : list rec) (b : bam),
  (forall l, Permutation (sort l) l) ->
  single sort it qflag yi yo hdr recs = Ok b ->
  (exists l, snd b = sort l) /\ (forall r g, In (r, g) (snd b) -> In g (fst b)).
Proof.
  exact (fun sort it qflag yi yo hdr recs b Hs H =>
           conj (single_is_sorted sort it qflag hdr recs yi yo b H)
                (fun r g => single_rg sort it qflag Hs hdr recs yi yo b r g H)).
Qed.
Print Assumptions C05_sorted_rg_single.

Theorem C05_rg_multi :
  forall (sort : list orec -> list orec) (merge : list bam -> bam)
         (it : bool -> bool -> list frag -> list (list frag) * list frag) (qflag yi yo : bool)
         (hdr : list (Z * Z)) (recs : list rec) (in_rgs : list Z) (outs done : list (option bam)),
  (forall l, Permutation (sort l) l) ->
  (forall bs, Permutation (snd (merge bs)) (flat_map snd bs)) ->
  (forall bs b, In b bs -> incl (fst b) (fst (merge bs))) ->
  job_outputs sort it qflag yi yo hdr recs = Ok outs ->
  Permutation done outs ->
  forall r g, In (r, g) (snd (multi_merge merge in_rgs done)) -> In g (fst (multi_merge merge in_rgs done)).
Proof.
  exact (fun sort merge it qflag yi yo hdr recs in_rgs outs done Hs Hm Hrg H Hd r g =>
           multi_rg sort merge it qflag Hs Hm Hrg hdr recs in_rgs yi yo outs done r g H Hd).
Qed.
Print Assumptions C05_rg_multi.

(* ---- no exception: with SAM-conformant flags neither verify_pair nor Fragment.__init__ raises *)
Theorem C05_no_raise :
  forall sort merge it qflag yi yo in_rgs hdr recs,
  (forall r, In r recs -> wf_flags r = true) ->
  (exists b, single sort it qflag yi yo hdr recs = Ok b) /\
  (exists b, multi sort merge it qflag yi yo in_rgs hdr recs = Ok b).
Proof.
  exact (fun sort merge it qflag yi yo in_rgs hdr recs H =>
           conj (single_total sort it qflag yi yo hdr recs H) (multi_total sort merge it qflag yi yo in_rgs hdr recs H)).
Qed.
Print Assumptions C05_no_raise.

(* the qflag wrapper as it stood before the repair raises on the first read-2 record (D30) *)
Theorem C05_qflag_old_refuted :
  wf_flags demo_r2 = true /\ bind (pairing_qflag_old [demo_r2]) (mapM mkfrag) = Raise 2.
Proof. exact qflag_old_refuted. Qed.
Print Assumptions C05_qflag_old_refuted.

(* ---- the boolean precondition evaluated by the check implies the hypotheses above *)
Theorem C05_pre_sound : forall hdr recs qflag, pre hdr recs = true ->
  pre_stream qflag recs /\ NoDup (map fst hdr) /\ (forall r, In r recs -> placed_in (map fst hdr) r = true)
  /\ (forall r, In r recs -> wf_flags r = true).
Proof. exact pre_sound. Qed.
Print Assumptions C05_pre_sound.

(* ---- non-vacuity: the contracts of sort / merge are satisfiable, and a concrete library meets the
   precondition and runs through both pipelines *)
Example C05_contracts_satisfiable :
  (forall l, Permutation (csort l) l) /\
  (forall bs, Permutation (snd (cmerge bs)) (flat_map snd bs)) /\
  (forall bs b, In b bs -> incl (fst b) (fst (cmerge bs))).
Proof. exact (conj csort_perm (conj cmerge_perm cmerge_rg)). Qed.
Print Assumptions C05_contracts_satisfiable.

Example C05_demo :
  pre demo_hdr demo_recs = true /\
  (exists b, single csort demo_it false true true demo_hdr demo_recs = Ok b /\
             map (fun o : orec => r_id (fst o)) (snd b) = [1; 2; 3; 4; 5; 6; 8; 9]) /\
  (exists b, multi csort cmerge demo_it false true true [] demo_hdr demo_recs = Ok b /\
             map (fun o : orec => r_id (fst o)) (snd b) = [1; 2; 3; 4; 5; 6; 8; 9]) /\
  (exists b, single csort demo_it false false true demo_hdr demo_recs = Ok b /\
             map (fun o : orec => r_id (fst o)) (snd b) = [1; 2; 5; 6]) /\
  contig_jobs (contigs_with_reads demo_hdr demo_recs) = [[None]; [Some 0]; [Some 1]].
Proof. exact (conj demo_pre demo_runs). Qed.
Print Assumptions C05_demo.
