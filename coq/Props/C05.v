(* C05 — property theorems only.  Each is closed by [exact lemma]; Print Assumptions beneath.
   Model/C05.v is the hand-written model of bamtagmultiome's record flow (tied to the source by the
   correspondence check tools/c05.py: source-slice execution of the job block + end-to-end BAMs).
   sort / merge (htslib) and the molecule iterator are universally quantified functions constrained
   only by their stated contracts. *)
From Coq Require Import ZArith List Bool Permutation.
Import ListNotations.
From SCMO Require Import Lib.Val Model.C05 Model.C05x Proofs.C05_a Proofs.C05_b Proofs.C05 Proofs.C05x_a Proofs.C05x.
Open Scope Z_scope.

(* ---- the job list of tag_multiome_multi_processing (one contig per process) *)

(* for EVERY contig list (any order, any lengths, '*' present or not): the jobs, concatenated, are the
   unplaced bin followed by each listed contig exactly once, in order *)
Theorem C05_jobs_cover : forall cs : list (cname * Z),
  concat (contig_jobs cs) = None :: filter (fun c => negb (is_star c)) (map fst cs) /\
  Permutation (concat (contig_jobs cs)) (None :: filter (fun c => negb (is_star c)) (map fst cs)).
Proof. exact (fun cs => conj (contig_jobs_concat cs) (jobs_cover cs)). Qed.
Print Assumptions C05_jobs_cover.

(* no job is empty; a job is the unplaced bin alone, one large contig alone, or small contigs only *)
Theorem C05_jobs_shape : forall cs : list (cname * Z),
  Forall (fun j => j <> []) (contig_jobs cs) /\
  Forall (fun j => j = [None] \/
                   (exists c len, j = [c] /\ In (c, len) cs /\ small_contig_threshold <= len) \/
                   Forall (fun c => exists len, In (c, len) cs /\ len < small_contig_threshold) j)
         (contig_jobs cs).
Proof.
  exact (fun cs => conj (contig_jobs_nonempty cs) (contig_jobs_shape cs)).
Qed.
Print Assumptions C05_jobs_shape.

(* the block as it stood before the repair loses contigs and repeats the unplaced bin (D8) *)
Theorem C05_jobs_cover_old_refuted :
  ~ In (Some 3) (concat (contig_jobs_old [(Some 1, 500); (Some 2, 600); (Some 3, 5000000)])) /\
  ~ In (Some 2) (concat (contig_jobs_old [(Some 1, 5000000); (Some 2, 600)])) /\
  concat (contig_jobs_old [(Some 1, 500); (None, 0)]) = [None; Some 1; None].
Proof. exact jobs_old_refuted. Qed.
Print Assumptions C05_jobs_cover_old_refuted.

(* ---- mate pairing (pysamiterators.MatePairIterator as driven by MoleculeIterator) *)

(* every primary record of the stream is in exactly one emitted pair, in the slot of its mate number,
   provided no two primary records share (name, first-read bit) *)
Theorem C05_pair_conserve : forall (rs : list rec) (ps : list pairT),
  NoDup (map ckey2 (filter primary rs)) ->
  pairing rs = Ok ps ->
  Permutation (map key (flat_map slotted ps)) (map key (map norm (filter primary rs))).
Proof. exact pairing_conserve. Qed.
Print Assumptions C05_pair_conserve.

(* ---- the molecule iterator contract is met by the simple iterator *)
Theorem C05_iter_contract_simple : forall valid mkey cap every,
  iter_contract valid (simple_iter valid mkey cap every).
Proof. exact simple_iter_contract. Qed.
Print Assumptions C05_iter_contract_simple.

(* ---- conservation, default options (yield_invalid = yield_overflow = True) *)

(* single process: for any sort that permutes and any iterator meeting the contract, the written records
   are exactly the expected input records (primary ones; all of them for qflag), each once, with
   unchanged payload id, name, contig, position, and the mate bits of [norm] *)
Theorem C05_conserve_single :
  forall (sort : list orec -> list orec) (valid : frag -> bool)
         (it : bool -> bool -> list frag -> list (list frag) * list frag) (qflag : bool)
         (hdr : list (Z * Z)) (recs : list rec) (b : bam),
  (forall l, Permutation (sort l) l) ->
  iter_contract valid it ->
  NoDup (map fst hdr) ->
  (forall r, In r recs -> placed_in (map fst hdr) r = true) ->
  pre_stream qflag recs ->
  single sort it qflag true true hdr recs = Ok b ->
  Permutation (map key (map fst (snd b))) (map key (map norm (expected qflag recs))).
Proof.
  exact (fun sort valid it qflag hdr recs b Hs Hit Hn Hp Hpre H =>
           single_conserve sort valid it qflag Hs Hit hdr recs Hn Hp b Hpre H).
Qed.
Print Assumptions C05_conserve_single.

(* contig per process (--multiprocess): the same, for ANY completion order of the jobs *)
Theorem C05_conserve_multi :
  forall (sort : list orec -> list orec) (merge : list bam -> bam) (valid : frag -> bool)
         (it : bool -> bool -> list frag -> list (list frag) * list frag) (qflag : bool)
         (hdr : list (Z * Z)) (recs : list rec) (in_rgs : list Z) (outs done : list (option bam)),
  (forall l, Permutation (sort l) l) ->
  (forall bs, Permutation (snd (merge bs)) (flat_map snd bs)) ->
  iter_contract valid it ->
  NoDup (map fst hdr) ->
  (forall r, In r recs -> placed_in (map fst hdr) r = true) ->
  pre_stream qflag recs ->
  job_outputs sort it qflag true true hdr recs = Ok outs ->
  Permutation done outs ->
  Permutation (map key (map fst (snd (multi_merge merge in_rgs done)))) (map key (map norm (expected qflag recs))).
Proof.
  exact (fun sort merge valid it qflag hdr recs in_rgs outs done Hs Hm Hit Hn Hp Hpre H Hd =>
           multi_conserve sort merge valid it qflag Hs Hit Hm hdr recs in_rgs Hn Hp outs done Hpre H Hd).
Qed.
Print Assumptions C05_conserve_multi.

(* "unchanged mate number when both mates are present": with SAM-conformant flags a paired record
   keeps its mate bits; name, place and payload are never changed by [norm] *)
Theorem C05_mate_unchanged : forall r,
  core (norm r) = core r /\
  (wf_flags r = true -> r_paired r = true -> r_read1 (norm r) = r_read1 r /\ r_read2 (norm r) = r_read2 r).
Proof. exact (fun r => conj (norm_core r) (norm_mate r)). Qed.
Print Assumptions C05_mate_unchanged.

(* ---- --no_rejects (yield_invalid = False): exactly the records of the valid fragments *)
Theorem C05_no_rejects_single :
  forall (sort : list orec -> list orec) (valid : frag -> bool)
         (it : bool -> bool -> list frag -> list (list frag) * list frag) (qflag : bool)
         (hdr : list (Z * Z)) (recs : list rec) (b : bam) (fs1 fs2 : list frag),
  (forall l, Permutation (sort l) l) ->
  iter_contract valid it ->
  fragments qflag (fetch None recs) = Ok fs1 ->
  fragments qflag (fetch_all (map fst hdr) recs) = Ok fs2 ->
  single sort it qflag false true hdr recs = Ok b ->
  Permutation (map fst (snd b)) (flat_map frag_recs (filter valid (fs1 ++ fs2))).
Proof.
  exact (fun sort valid it qflag hdr recs b fs1 fs2 Hs Hit H1 H2 H =>
           single_no_rejects sort valid it qflag Hs Hit hdr recs b fs1 fs2 H1 H2 H).
Qed.
Print Assumptions C05_no_rejects_single.

Theorem C05_no_rejects_multi :
  forall (sort : list orec -> list orec) (merge : list bam -> bam) (valid : frag -> bool)
         (it : bool -> bool -> list frag -> list (list frag) * list frag) (qflag : bool)
         (hdr : list (Z * Z)) (recs : list rec) (in_rgs : list Z) (F : cname -> list frag) (outs done : list (option bam)),
  (forall l, Permutation (sort l) l) ->
  (forall bs, Permutation (snd (merge bs)) (flat_map snd bs)) ->
  iter_contract valid it ->
  (forall c, fragments qflag (fetch c recs) = Ok (F c)) ->
  job_outputs sort it qflag false true hdr recs = Ok outs ->
  Permutation done outs ->
  Permutation (map fst (snd (multi_merge merge in_rgs done)))
              (flat_map (fun c => flat_map frag_recs (filter valid (F c)))
                        (concat (contig_jobs (contigs_with_reads hdr recs)))).
Proof.
  exact (fun sort merge valid it qflag hdr recs in_rgs F outs done Hs Hm Hit HF H Hd =>
           multi_no_rejects sort merge valid it qflag Hs Hit Hm hdr recs in_rgs F outs done HF H Hd).
Qed.
Print Assumptions C05_no_rejects_multi.

(* ---- output is the sort of what was written; every record's RG is declared in the header *)
Theorem C05_sorted_rg_single :
  forall (sort : list orec -> list orec)
         (it : bool -> bool -> list frag -> list (list frag) * list frag) (qflag yi yo : bool)
         (hdr : list (Z * Z)) (recs : list rec) (b : bam),
  (forall l, Permutation (sort l) l) ->
  single sort it qflag yi yo hdr recs = Ok b ->
  (exists l, snd b = sort l) /\ (forall r g, In (r, g) (snd b) -> In g (fst b)).
Proof.
  exact (fun sort it qflag yi yo hdr recs b Hs H =>
           conj (single_is_sorted sort it qflag hdr recs yi yo b H)
                (fun r g => single_rg sort it qflag Hs hdr recs yi yo b r g H)).
Qed.
Print Assumptions C05_sorted_rg_single.

Theorem C05_rg_multi :
  forall (sort : list orec -> list orec) (merge : list bam -> bam)
         (it : bool -> bool -> list frag -> list (list frag) * list frag) (qflag yi yo : bool)
         (hdr : list (Z * Z)) (recs : list rec) (in_rgs : list Z) (outs done : list (option bam)),
  (forall l, Permutation (sort l) l) ->
  (forall bs, Permutation (snd (merge bs)) (flat_map snd bs)) ->
  (forall bs b, In b bs -> incl (fst b) (fst (merge bs))) ->
  job_outputs sort it qflag yi yo hdr recs = Ok outs ->
  Permutation done outs ->
  forall r g, In (r, g) (snd (multi_merge merge in_rgs done)) -> In g (fst (multi_merge merge in_rgs done)).
Proof.
  exact (fun sort merge it qflag yi yo hdr recs in_rgs outs done Hs Hm Hrg H Hd r g =>
           multi_rg sort merge it qflag Hs Hm Hrg hdr recs in_rgs yi yo outs done r g H Hd).
Qed.
Print Assumptions C05_rg_multi.

(* ---- no exception: with SAM-conformant flags neither verify_pair nor Fragment.__init__ raises *)
Theorem C05_no_raise :
  forall sort merge it qflag yi yo in_rgs hdr recs,
  (forall r, In r recs -> wf_flags r = true) ->
  (exists b, single sort it qflag yi yo hdr recs = Ok b) /\
  (exists b, multi sort merge it qflag yi yo in_rgs hdr recs = Ok b).
Proof.
  exact (fun sort merge it qflag yi yo in_rgs hdr recs H =>
           conj (single_total sort it qflag yi yo hdr recs H) (multi_total sort merge it qflag yi yo in_rgs hdr recs H)).
Qed.
Print Assumptions C05_no_raise.

(* the qflag wrapper as it stood before the repair raises on the first read-2 record (D30) *)
Theorem C05_qflag_old_refuted :
  wf_flags demo_r2 = true /\ bind (pairing_qflag_old [demo_r2]) (mapM mkfrag) = Raise 2.
Proof. exact qflag_old_refuted. Qed.
Print Assumptions C05_qflag_old_refuted.

(* ---- the boolean precondition evaluated by the check implies the hypotheses above *)
Theorem C05_pre_sound : forall hdr recs qflag, pre hdr recs = true ->
  pre_stream qflag recs /\ NoDup (map fst hdr) /\ (forall r, In r recs -> placed_in (map fst hdr) r = true)
  /\ (forall r, In r recs -> wf_flags r = true).
Proof. exact pre_sound. Qed.
Print Assumptions C05_pre_sound.

(* ---- non-vacuity: the contracts of sort / merge are satisfiable, and a concrete library meets the
   precondition and runs through both pipelines *)
Example C05_contracts_satisfiable :
  (forall l, Permutation (csort l) l) /\
  (forall bs, Permutation (snd (cmerge bs)) (flat_map snd bs)) /\
  (forall bs b, In b bs -> incl (fst b) (fst (cmerge bs))).
Proof. exact (conj csort_perm (conj cmerge_perm cmerge_rg)). Qed.
Print Assumptions C05_contracts_satisfiable.

Example C05_demo :
  pre demo_hdr demo_recs = true /\
  (exists b, single csort demo_it false true true demo_hdr demo_recs = Ok b /\
             map (fun o : orec => r_id (fst o)) (snd b) = [1; 2; 3; 4; 5; 6; 8; 9]) /\
  (exists b, multi csort cmerge demo_it false true true [] demo_hdr demo_recs = Ok b /\
             map (fun o : orec => r_id (fst o)) (snd b) = [1; 2; 3; 4; 5; 6; 8; 9]) /\
  (exists b, single csort demo_it false false true demo_hdr demo_recs = Ok b /\
             map (fun o : orec => r_id (fst o)) (snd b) = [1; 2; 5; 6]) /\
  contig_jobs (contigs_with_reads demo_hdr demo_recs) = [[None]; [Some 0]; [Some 1]].
Proof. exact (conj demo_pre demo_runs). Qed.
Print Assumptions C05_demo.

(* ======================================================================================================
   Contig selection: -contig <name> (sc) and -skip_contig a,b (skip)   [Model/C05x.v]
   The property text speaks of default options; these theorems say what the selection options do in each
   way of running, for the code AS CODED ([cpp_jobs false], [multi_sel ... false]) and for the job loop with
   the whitelist test suggested in fixes/C05-D31.patch ([cpp_jobs true], [multi_sel ... true]).
   "wanted" records: [want_rec sc skip r] = r is unplaced (the '*' bin is ALWAYS iterated, whatever the
   selection) or r lies on the selected contig (any contig when -contig is absent) and not on a skipped one.
   ====================================================================================================== *)

(* ---- job lists *)

(* one contig per process AS CODED: the job list never looks at the selection - the unplaced bin and EVERY
   contig with reads, each exactly once, in order; for every -contig / -skip_contig *)
Theorem C05_sel_jobs_as_coded : forall (sc : option cname) (skip : list cname) (cwr : list (cname * Z)),
  concat (cpp_jobs false sc skip cwr) = None :: filter (fun c => negb (is_star c)) (map fst cwr).
Proof. exact cpp_jobs_as_coded_concat. Qed.
Print Assumptions C05_sel_jobs_as_coded.

(* hence "no unselected contig is scheduled" fails for the code as coded: -contig 1 (or -skip_contig 2) and
   contig 2 still gets a job *)
Theorem C05_sel_jobs_honour_refuted :
  let cwr := [(Some 1, 500); (Some 2, 5000000)] in
  In (Some 2) (concat (cpp_jobs false (Some (Some 1)) [] cwr)) /\
  cmem (Some 2) (whitelist (Some (Some 1)) [] cwr) = false /\
  In (Some 2) (concat (cpp_jobs false None [Some 2] cwr)) /\
  cmem (Some 2) (whitelist None [Some 2] cwr) = false.
Proof. exact cpp_jobs_as_coded_refuted. Qed.
Print Assumptions C05_sel_jobs_honour_refuted.

(* one contig per process with the whitelist test: the unplaced bin and exactly the whitelisted contigs with
   reads, each once *)
Theorem C05_sel_jobs_repaired : forall (sc : option cname) (skip : list cname) (cwr : list (cname * Z)),
  NoDup (map fst cwr) ->
  NoDup (concat (cpp_jobs true sc skip cwr)) /\
  (forall c : cname,
     In c (concat (cpp_jobs true sc skip cwr)) <->
     c = None \/ In c (map fst cwr) /\ cmem c (whitelist sc skip cwr) = true).
Proof. exact cpp_jobs_repaired_spec. Qed.
Print Assumptions C05_sel_jobs_repaired.

(* binned mode (as coded): bp_chunked loses and repeats nothing - the jobs, concatenated, are the '*' task
   followed by the regions; a header contig gets exactly its regions when it is whitelisted and none
   otherwise; every region lies on a whitelisted header contig.  [bins] is any tiling function (C17) *)
Theorem C05_sel_jobs_binned :
  forall (bins : Z -> list region) (wl : list cname) (hdr : list (Z * Z)) (k : Z),
  concat (binned_jobs bins wl hdr k) = (None, None) :: regions bins wl hdr /\
  (NoDup (map fst hdr) -> forall c len, In (c, len) hdr ->
     filter (on_contig c) (regions bins wl hdr) =
     if cmem (Some c) wl then map (fun b => (Some c, Some b)) (bins len) else []) /\
  (forall t, In t (regions bins wl hdr) ->
     exists c len b, t = (Some c, Some b) /\ In (c, len) hdr /\ cmem (Some c) wl = true /\ In b (bins len)).
Proof.
  exact (fun bins wl hdr k => conj (binned_jobs_concat bins wl hdr k)
           (conj (fun H c len => regions_per_contig bins wl hdr c len H) (regions_selected bins wl hdr))).
Qed.
Print Assumptions C05_sel_jobs_binned.

(* ---- MoleculeIterator's skip_contigs test acts on whole pairs; on mates that lie on one contig it keeps
   exactly the (primary) records that are not on a skipped contig *)
Theorem C05_sel_pair_filter :
  forall (qflag : bool) (skip : list cname) (stream : list rec) (fs : list frag),
  pre_stream qflag stream ->
  coloc stream ->
  fragments_sel qflag skip stream = Ok fs ->
  Permutation (map key (flat_map frag_recs fs))
              (map key (map norm (expected qflag (filter (rec_kept skip) stream)))).
Proof. exact fragments_sel_conserve. Qed.
Print Assumptions C05_sel_pair_filter.

(* ---- conservation under a selection, default yield options *)

(* single process (as coded): exactly the wanted records, each once *)
Theorem C05_sel_conserve_single :
  forall (sort : list orec -> list orec) (valid : frag -> bool)
         (it : bool -> bool -> list frag -> list (list frag) * list frag) (qflag : bool) (skip : list cname),
  (forall l, Permutation (sort l) l) ->
  iter_contract valid it ->
  forall (sc : option cname) (hdr : list (Z * Z)) (recs : list rec),
  NoDup (map fst hdr) ->
  (forall r, In r recs -> placed_in (map fst hdr) r = true) ->
  forall b : bam,
  pre_stream qflag recs ->
  coloc recs ->
  sc_ok sc (map fst hdr) = true ->
  single_sel sort it qflag true true sc skip hdr recs = Ok b ->
  Permutation (map key (map fst (snd b))) (map key (map norm (expected qflag (filter (want_rec sc skip) recs)))).
Proof. exact single_sel_conserve. Qed.
Print Assumptions C05_sel_conserve_single.

(* one contig per process AS CODED, any completion order: -contig has no effect at all; what is written is
   every (primary) record that is not on a skipped contig *)
Theorem C05_sel_conserve_multi_as_coded :
  forall (sort : list orec -> list orec) (merge : list bam -> bam) (valid : frag -> bool)
         (it : bool -> bool -> list frag -> list (list frag) * list frag) (qflag : bool) (skip : list cname),
  (forall l, Permutation (sort l) l) ->
  iter_contract valid it ->
  (forall bs, Permutation (snd (merge bs)) (flat_map snd bs)) ->
  forall (hdr : list (Z * Z)) (recs : list rec) (in_rgs : list Z),
  NoDup (map fst hdr) ->
  (forall r, In r recs -> placed_in (map fst hdr) r = true) ->
  forall (sc : option cname) (outs done : list (option bam)),
  pre_stream qflag recs ->
  job_outputs_sel sort it qflag true true sc skip false hdr recs = Ok outs ->
  Permutation done outs ->
  Permutation (map key (map fst (snd (multi_merge merge in_rgs done))))
              (map key (map norm (expected qflag (filter (rec_kept skip) recs)))).
Proof. exact multi_sel_as_coded. Qed.
Print Assumptions C05_sel_conserve_multi_as_coded.

(* one contig per process with the whitelist test, any completion order: exactly the wanted records *)
Theorem C05_sel_conserve_multi_repaired :
  forall (sort : list orec -> list orec) (merge : list bam -> bam) (valid : frag -> bool)
         (it : bool -> bool -> list frag -> list (list frag) * list frag) (qflag : bool) (skip : list cname),
  (forall l, Permutation (sort l) l) ->
  iter_contract valid it ->
  (forall bs, Permutation (snd (merge bs)) (flat_map snd bs)) ->
  forall (hdr : list (Z * Z)) (recs : list rec) (in_rgs : list Z),
  NoDup (map fst hdr) ->
  (forall r, In r recs -> placed_in (map fst hdr) r = true) ->
  forall (sc : option cname) (outs done : list (option bam)),
  pre_stream qflag recs ->
  job_outputs_sel sort it qflag true true sc skip true hdr recs = Ok outs ->
  Permutation done outs ->
  Permutation (map key (map fst (snd (multi_merge merge in_rgs done))))
              (map key (map norm (expected qflag (filter (want_rec sc skip) recs)))).
Proof. exact multi_sel_repaired. Qed.
Print Assumptions C05_sel_conserve_multi_repaired.

(* binned mode at contig granularity (each contig that receives tasks is processed as a whole; header
   lengths positive), any completion order: exactly the wanted records *)
Theorem C05_sel_conserve_binned :
  forall (sort : list orec -> list orec) (merge : list bam -> bam) (valid : frag -> bool)
         (it : bool -> bool -> list frag -> list (list frag) * list frag) (qflag : bool) (skip : list cname),
  (forall l, Permutation (sort l) l) ->
  iter_contract valid it ->
  (forall bs, Permutation (snd (merge bs)) (flat_map snd bs)) ->
  forall (hdr : list (Z * Z)) (recs : list rec) (in_rgs : list Z),
  (forall r, In r recs -> placed_in (map fst hdr) r = true) ->
  forall (sc : option cname) (k : Z) (outs done : list (option bam)),
  (forall cl, In cl hdr -> 0 < snd cl) ->
  pre_stream qflag recs ->
  binned_outputs sort it qflag true true sc skip hdr recs k = Ok outs ->
  Permutation done outs ->
  Permutation (map key (map fst (snd (multi_merge merge in_rgs done))))
              (map key (map norm (expected qflag (filter (want_rec sc skip) recs)))).
Proof. exact multi_binned_conserve. Qed.
Print Assumptions C05_sel_conserve_binned.

(* binned mode with the real region tasks, PARTIAL: assuming the tiling contract of C08/C17 (the region tasks
   of one contig together write what one pass over that contig writes, [tiles]), the merged output is what the
   passes over the unplaced bin and over the whitelisted header contigs write - for any task output function,
   any tiling, any chunking, any completion order.  Full statement (not proved here): [tiles] itself, which is
   C08 (and fails for site-less molecules: known finding D11 of C08) *)
Theorem C05_sel_binned_records_partial :
  forall (sort : list orec -> list orec) (merge : list bam -> bam) (bins : Z -> list region)
         (tout : task -> list orec) (W : cname -> list orec) (hdr : list (Z * Z)) (wl : list cname) (k : Z)
         (in_rgs : list Z),
  (forall l, Permutation (sort l) l) ->
  (forall bs, Permutation (snd (merge bs)) (flat_map snd bs)) ->
  tout (None, None) = W None ->
  (forall c len, In (c, len) hdr ->
     Permutation (flat_map (fun b => tout (Some c, Some b)) (bins len)) (W (Some c))) ->
  forall done : list (option bam),
  Permutation done (map (task_job_out sort tout) (binned_jobs bins wl hdr k)) ->
  Permutation (snd (multi_merge merge in_rgs done))
              (flat_map W (None :: map (fun cl => Some (fst cl)) (filter (fun cl => cmem (Some (fst cl)) wl) hdr))).
Proof. exact binned_records. Qed.
Print Assumptions C05_sel_binned_records_partial.

(* ---- single process and multiprocess select the same records *)

(* AS CODED this holds when only -skip_contig is given (the skipped contigs are scheduled, their records are
   then dropped by the skip test inside every worker) *)
Theorem C05_sel_same_skip_as_coded :
  forall (sort : list orec -> list orec) (merge : list bam -> bam) (valid : frag -> bool)
         (it : bool -> bool -> list frag -> list (list frag) * list frag) (qflag : bool) (skip : list cname),
  (forall l, Permutation (sort l) l) ->
  iter_contract valid it ->
  (forall bs, Permutation (snd (merge bs)) (flat_map snd bs)) ->
  forall (hdr : list (Z * Z)) (recs : list rec) (in_rgs : list Z) (b : bam) (outs done : list (option bam)),
  NoDup (map fst hdr) ->
  (forall r, In r recs -> placed_in (map fst hdr) r = true) ->
  pre_stream qflag recs ->
  coloc recs ->
  single_sel sort it qflag true true None skip hdr recs = Ok b ->
  job_outputs_sel sort it qflag true true None skip false hdr recs = Ok outs ->
  Permutation done outs ->
  Permutation (map key (map fst (snd b))) (map key (map fst (snd (multi_merge merge in_rgs done)))).
Proof. exact sel_same_skip_as_coded. Qed.
Print Assumptions C05_sel_same_skip_as_coded.

(* ... and it FAILS as coded under -contig: on the demo library, -contig 0 in a single process writes the four
   records of contig 0 and the unplaced pair; one contig per process writes all eight primary records, among
   them records the selection excludes (D31) *)
Theorem C05_sel_same_as_coded_refuted :
  pre_sel (Some (Some 0)) demo_hdr demo_recs = true /\
  (exists b, single_sel csort demo_it false true true (Some (Some 0)) [] demo_hdr demo_recs = Ok b /\
             map (fun o : orec => r_id (fst o)) (snd b) = [1; 2; 3; 4; 8; 9]) /\
  (exists b, multi_sel csort cmerge demo_it false true true (Some (Some 0)) [] false [] demo_hdr demo_recs = Ok b /\
             map (fun o : orec => r_id (fst o)) (snd b) = [1; 2; 3; 4; 5; 6; 8; 9] /\
             existsb (fun o : orec => negb (want_rec (Some (Some 0)) [] (fst o))) (snd b) = true).
Proof. exact sel_same_as_coded_refuted. Qed.
Print Assumptions C05_sel_same_as_coded_refuted.

(* with the whitelist test in the job loop it holds for every selection that names a header contig *)
Theorem C05_sel_same_repaired :
  forall (sort : list orec -> list orec) (merge : list bam -> bam) (valid : frag -> bool)
         (it : bool -> bool -> list frag -> list (list frag) * list frag) (qflag : bool) (skip : list cname),
  (forall l, Permutation (sort l) l) ->
  iter_contract valid it ->
  (forall bs, Permutation (snd (merge bs)) (flat_map snd bs)) ->
  forall (sc : option cname) (hdr : list (Z * Z)) (recs : list rec) (in_rgs : list Z),
  NoDup (map fst hdr) ->
  (forall r, In r recs -> placed_in (map fst hdr) r = true) ->
  pre_stream qflag recs ->
  coloc recs ->
  forall (b : bam) (outs done : list (option bam)),
  sc_ok sc (map fst hdr) = true ->
  single_sel sort it qflag true true sc skip hdr recs = Ok b ->
  job_outputs_sel sort it qflag true true sc skip true hdr recs = Ok outs ->
  Permutation done outs ->
  Permutation (map key (map fst (snd b))) (map key (map fst (snd (multi_merge merge in_rgs done)))).
Proof. exact sel_same_repaired. Qed.
Print Assumptions C05_sel_same_repaired.

(* binned mode (contig granularity) selects what the single process selects *)
Theorem C05_sel_same_binned :
  forall (sort : list orec -> list orec) (merge : list bam -> bam) (valid : frag -> bool)
         (it : bool -> bool -> list frag -> list (list frag) * list frag) (qflag : bool) (skip : list cname),
  (forall l, Permutation (sort l) l) ->
  iter_contract valid it ->
  (forall bs, Permutation (snd (merge bs)) (flat_map snd bs)) ->
  forall (sc : option cname) (hdr : list (Z * Z)) (recs : list rec) (in_rgs : list Z),
  NoDup (map fst hdr) ->
  (forall r, In r recs -> placed_in (map fst hdr) r = true) ->
  pre_stream qflag recs ->
  coloc recs ->
  forall (k : Z) (b : bam) (outs done : list (option bam)),
  (forall cl, In cl hdr -> 0 < snd cl) ->
  sc_ok sc (map fst hdr) = true ->
  single_sel sort it qflag true true sc skip hdr recs = Ok b ->
  binned_outputs sort it qflag true true sc skip hdr recs k = Ok outs ->
  Permutation done outs ->
  Permutation (map key (map fst (snd b))) (map key (map fst (snd (multi_merge merge in_rgs done)))).
Proof. exact sel_same_binned. Qed.
Print Assumptions C05_sel_same_binned.

(* -contig '*' in a single process (outside [sc_ok]): both iterators of the chain fetch the unplaced bin and
   every unplaced record is written twice *)
Theorem C05_sel_single_star_refuted :
  exists b, single_sel csort demo_it false true true (Some None) [] demo_hdr demo_recs = Ok b /\
            map (fun o : orec => r_id (fst o)) (snd b) = [8; 8; 9; 9].
Proof. exact sel_single_star_refuted. Qed.
Print Assumptions C05_sel_single_star_refuted.

(* ---- with default options (no -contig, no -skip_contig) the selection-aware pipelines ARE the pipelines of
   the theorems above, and both job loops give the job list of C05_jobs_cover *)
Theorem C05_sel_default_unchanged :
  forall (sort : list orec -> list orec) (merge : list bam -> bam)
         (it : bool -> bool -> list frag -> list (list frag) * list frag) (qflag yi yo honour : bool)
         (in_rgs : list Z) (hdr : list (Z * Z)) (recs : list rec),
  single_sel sort it qflag yi yo None [] hdr recs = single sort it qflag yi yo hdr recs /\
  multi_sel sort merge it qflag yi yo None [] false in_rgs hdr recs = multi sort merge it qflag yi yo in_rgs hdr recs /\
  cpp_jobs honour None [] (contigs_with_reads hdr recs) = contig_jobs (contigs_with_reads hdr recs).
Proof.
  exact (fun sort merge it qflag yi yo honour in_rgs hdr recs =>
           conj (single_sel_default sort it qflag yi yo hdr recs)
                (multi_sel_default sort merge it qflag yi yo honour in_rgs hdr recs)).
Qed.
Print Assumptions C05_sel_default_unchanged.

(* ---- no exception under a selection: with SAM-conformant flags and a -contig that the header knows *)
Theorem C05_sel_no_raise :
  forall sort merge it qflag yi yo sc skip honour in_rgs hdr recs,
  (forall r, In r recs -> wf_flags r = true) ->
  (sc_ok sc (map fst hdr) = true -> exists b, single_sel sort it qflag yi yo sc skip hdr recs = Ok b) /\
  (exists b, multi_sel sort merge it qflag yi yo sc skip honour in_rgs hdr recs = Ok b).
Proof.
  exact (fun sort merge it qflag yi yo sc skip honour in_rgs hdr recs H =>
           conj (single_sel_total sort it qflag yi yo sc skip hdr recs H)
                (multi_sel_total sort merge it qflag yi yo sc skip honour in_rgs hdr recs H)).
Qed.
Print Assumptions C05_sel_no_raise.

(* ---- the boolean precondition evaluated by the check implies the hypotheses above *)
Theorem C05_sel_pre_sound : forall sc hdr recs qflag, pre_sel sc hdr recs = true ->
  pre_stream qflag recs /\ NoDup (map fst hdr) /\ (forall r, In r recs -> placed_in (map fst hdr) r = true)
  /\ (forall r, In r recs -> wf_flags r = true) /\ coloc recs /\ sc_ok sc (map fst hdr) = true.
Proof. exact pre_sel_sound. Qed.
Print Assumptions C05_sel_pre_sound.

(* ---- non-vacuity: the demo library satisfies the precondition under -contig 1 and under -skip_contig 0 and
   runs through all four pipelines (single, one contig per process as coded / repaired, binned); the job
   lists of the three multiprocess variants for -contig 1 / -skip_contig 0 *)
Example C05_sel_demo :
  pre_sel (Some (Some 1)) demo_hdr demo_recs = true /\ pre_sel None demo_hdr demo_recs = true /\
  (exists b, single_sel csort demo_it false true true (Some (Some 1)) [] demo_hdr demo_recs = Ok b /\
             map (fun o : orec => r_id (fst o)) (snd b) = [5; 6; 8; 9]) /\
  (exists b, multi_sel csort cmerge demo_it false true true (Some (Some 1)) [] true [] demo_hdr demo_recs = Ok b /\
             map (fun o : orec => r_id (fst o)) (snd b) = [5; 6; 8; 9]) /\
  (exists b, multi_binned csort cmerge demo_it false true true (Some (Some 1)) [] [] demo_hdr demo_recs 1000 = Ok b /\
             map (fun o : orec => r_id (fst o)) (snd b) = [5; 6; 8; 9]) /\
  (exists b, single_sel csort demo_it false true true None [Some 0] demo_hdr demo_recs = Ok b /\
             map (fun o : orec => r_id (fst o)) (snd b) = [5; 6; 8; 9]) /\
  (exists b, multi_sel csort cmerge demo_it false true true None [Some 0] false [] demo_hdr demo_recs = Ok b /\
             map (fun o : orec => r_id (fst o)) (snd b) = [5; 6; 8; 9]) /\
  cpp_jobs true (Some (Some 1)) [] (contigs_with_reads demo_hdr demo_recs) = [[None]; [Some 1]] /\
  cpp_jobs false (Some (Some 1)) [] (contigs_with_reads demo_hdr demo_recs) = [[None]; [Some 0]; [Some 1]] /\
  map (map fst) (binned_jobs one_bin (whitelist None [Some 0] (contigs_with_reads demo_hdr demo_recs)) demo_hdr 1000)
    = [[None]; [Some 1]; []].
Proof. exact sel_demo_runs. Qed.
Print Assumptions C05_sel_demo.
