(* C06 - property theorems only.  Each is closed by [exact lemma]; Print Assumptions beneath.
   [assign c frags] (Model/C06.v) is the greedy assignment of MoleculeIterator without ejection
   (None = the Molecule constructor raised OverflowError, only for max_associated_fragments <= 0);
   [write_tags true] is the REPAIRED Molecule.write_tags (fix D9), [write_tags false] the unpatched one.
   kinds: 0 = molecule built by assignment, 1 = overflow singleton, 2 = invalid fragment yielded alone. *)
From Coq Require Import ZArith List Bool Permutation.
Import ListNotations.
From SCMO Require Import Lib.Val Gen.GenAssign Model.C06 Model.C06x Proofs.C06_shape Proofs.C06 Proofs.C06_dup Proofs.C06_main Proofs.C06_greedy Proofs.C06_cap Proofs.C06_state Proofs.C06x Proofs.C06x_eq Proofs.C06x_ovf.
Open Scope Z_scope.

(* ---- T: the kernel REGENERATED from /repo (Gen/GenAssign.v), with which the model is defined, has the shape the
   proofs below rely on.  These are the obligations a changed operator / compared attribute / hash component /
   capacity test / tag expression in the source breaks. *)

(* guard chains of NlaIIIFragment.__eq__, CHICFragment.__eq__ (radius test `>`, only for radius > 0), Fragment.__eq__
   (sample, strand, contig, min(|start-start'|,|end-end'|) > radius) *)
Theorem C06_kernel_eq : forall c f m, accepts c f m = accepts_spec c f m.
Proof. exact accepts_shape. Qed.
Print Assumptions C06_kernel_eq.

(* Molecule.has_valid_span (asked by Fragment.__eq__): true exactly when both ends are set; 0 is a coordinate *)
Theorem C06_kernel_span : forall s e, g_mol_span_ok s e = s && e.
Proof. exact mol_span_shape. Qed.
Print Assumptions C06_kernel_span.

(* Fragment.umi_eq: equal -> True; distance 0 -> False; lengths differ -> False; hamming <= distance *)
Theorem C06_kernel_umi : forall d a b,
  umi_eq d a b = (if zs_eqb a b then true else if d =? 0 then false
                  else if negb (Nat.eqb (length a) (length b)) then false else hamming a b <=? d).
Proof. exact umi_eq_shape. Qed.
Print Assumptions C06_kernel_umi.

(* match_hash tuples (composed with what set_site stores): NLA and CHIC radius 0 pin strand, contig, site and cell;
   CHIC radius <> 0 pins strand, contig and cell *)
Theorem C06_kernel_hash : forall c f g,
  (c_cls c = 1 \/ (c_cls c = 2 /\ c_r c = 0) ->
   (key c f = key c g <-> f_strand f = f_strand g /\ f_contig f = f_contig g /\ f_site f = f_site g /\ f_cell f = f_cell g)) /\
  (c_cls c = 2 -> c_r c <> 0 -> key c f = key c g -> f_strand f = f_strand g /\ f_contig f = f_contig g /\ f_cell f = f_cell g).
Proof. exact key_shape. Qed.
Print Assumptions C06_kernel_hash.

(* add_fragment: a refused fragment goes on to the next molecule; the capacity test `len >= cap` applies only to a
   fragment that matches (OverflowError), otherwise it is added; the constructor raises exactly for cap <= 0 *)
Theorem C06_kernel_add : forall c f m ms,
  offer c f (m :: ms) =
  (if accepts c f m then (if full c m then Overflowed (mol_bump m f :: ms) else Added (mol_add m f :: ms))
   else match offer c f ms with Added r => Added (m :: r) | Overflowed r => Overflowed (m :: r) | Rejected => Rejected end) /\
  cap_bad c = match c_cap c with Some k => k <=? 0 | None => false end.
Proof. exact add_shape. Qed.
Print Assumptions C06_kernel_add.

(* write_tags: RC = rank, duplicate bit = (rank > 0) whatever the input flag, af = size, TF = size + overflow *)
Theorem C06_kernel_tags : forall n over rc f fs, 0 <= n -> 0 <= rc ->
  tags_from true n over rc (f :: fs) =
  {| t_id := f_id f; t_rc := rc; t_dup := 0 <? rc; t_af := n; t_tf := n + over; t_qc := negb (f_valid f) |}
  :: tags_from true n over (rc + 1) fs.
Proof. exact tags_from_cons. Qed.
Print Assumptions C06_kernel_tags.

(* the iterator returns whenever the cap is None or >= 1 *)
Theorem C06_run_total : forall c frags, cap_bad c = false -> exists out, assign c frags = Some out.
Proof. exact assign_total. Qed.
Print Assumptions C06_run_total.

(* partition: every valid fragment (and, with yield_invalid, every invalid one) is in exactly one molecule,
   for every distance, radius, cap and arrival order (yield_overflow on, as in the tagger) *)
Theorem C06_partition : forall c frags out, c_yover c = true -> assign c frags = Some out ->
  Permutation (concat (map m_frags out)) (filter (needs_mol c) frags).
Proof. exact partition_main. Qed.
Print Assumptions C06_partition.

(* soundness: any two fragments of one molecule share cell, strand and contig, and the site when the class
   compares sites exactly (NLA; CHIC radius 0); every fragment after the first was, when it joined, within the
   UMI distance of the representative (most common, first inserted on ties) UMI of the fragments before it and
   within the radius of their running site (CHIC radius > 0: min forward / max reverse; plain: start-or-end
   against min start / max end); fragments of assigned molecules are valid *)
Theorem C06_sound : forall c frags out m, assign c frags = Some out -> In m out ->
  (forall f g, In f (m_frags m) -> In g (m_frags m) ->
     f_cell f = f_cell g /\ f_strand f = f_strand g /\ f_contig f = f_contig g /\ (exact_site c -> f_site f = f_site g)) /\
  (forall p f q, m_frags m = p ++ f :: q -> p <> [] ->
     umi_close (c_d c) (f_umi f) (rep_of p) /\ radius_ok c p f) /\
  (m_kind m <> 2 -> forall f, In f (m_frags m) -> f_valid f = true).
Proof. exact sound_main. Qed.
Print Assumptions C06_sound.

(* what "same class" means: identical (cell, strand, contig, site, UMI) *)
Theorem C06_class_key : forall c g x, exact_site c ->
  (fkeyb c g x = true <-> f_cell g = f_cell x /\ f_strand g = f_strand x /\ f_contig g = f_contig x /\
                          f_site g = f_site x /\ f_umi g = f_umi x).
Proof. exact fkeyb_meaning. Qed.
Print Assumptions C06_class_key.

(* exactness: distance 0, exact sites, no cap: the assigned molecules are EXACTLY the classes of identical
   (cell, strand, contig, site, UMI) of the valid fragments, each class whole and in arrival order, every valid
   fragment in one, no class twice - for every arrival order; everything else in the output is an invalid singleton *)
Theorem C06_exact : forall c frags out, c_d c = 0 -> exact_site c -> c_cap c = None -> assign c frags = Some out ->
  let ms := filter normal out in
  let vf := filter f_valid frags in
  (forall m, In m ms -> exists g, In g vf /\ m_frags m = filter (fkeyb c g) vf) /\
  (forall x, In x vf -> exists m, In m ms /\ In x (m_frags m)) /\
  NoDup (map (mkey c) ms) /\
  (forall m, In m out -> normal m = false -> exists f, m_frags m = [f] /\ f_valid f = false).
Proof. exact exact_main. Qed.
Print Assumptions C06_exact.

(* exactness with a cap (distance 0, exact sites, max_associated_fragments = k >= 1): the molecule of a class is
   its first k fragments in arrival order, the rest of the class are exactly its refused (overflow) fragments, and
   TF = size + overflow = the size of the whole class *)
Theorem C06_exact_cap : forall c k frags out, c_d c = 0 -> exact_site c -> c_cap c = Some k -> 1 <= k -> assign c frags = Some out ->
  let ms := filter normal out in
  let vf := filter f_valid frags in
  (forall m, In m ms -> exists g, In g vf /\ m_frags m = firstn (Z.to_nat k) (filter (fkeyb c g) vf) /\
                                  m_ovf m = skipn (Z.to_nat k) (filter (fkeyb c g) vf) /\
                                  Z.of_nat (length (m_frags m)) + m_over m = Z.of_nat (length (filter (fkeyb c g) vf))) /\
  (forall x, In x vf -> exists m g, In m ms /\ hd_error (m_frags m) = Some g /\ fkeyb c g x = true) /\
  NoDup (map (mkey c) ms).
Proof. exact exact_cap_main. Qed.
Print Assumptions C06_exact_cap.

(* cap: no molecule exceeds max_associated_fragments, and only a full molecule has refused fragments *)
Theorem C06_cap : forall c frags out k m, c_cap c = Some k -> assign c frags = Some out -> In m out ->
  Z.of_nat (length (m_frags m)) <= k /\ (m_ovf m <> [] -> Z.of_nat (length (m_frags m)) = k).
Proof. exact cap_main. Qed.
Print Assumptions C06_cap.

(* maximality (no needless splitting), any distance / radius / cap: of two assigned molecules, the first fragment
   of one was REFUSED (fragment.__eq__ false) by the other as it was at some earlier moment (a non-empty prefix of
   its fragments and a prefix of its overflow fragments) - a molecule is only started when every cached one refuses *)
Theorem C06_greedy : forall c frags out, assign c frags = Some out ->
  forall l1 m1 l2 m2 l3, filter normal out = l1 ++ m1 :: l2 ++ m2 :: l3 -> separated c m1 m2.
Proof. exact greedy_main. Qed.
Print Assumptions C06_greedy.

(* exactly one primary: after write_tags every molecule has exactly one fragment not flagged duplicate - the
   first - whatever duplicate flags the input carried (the statement does not mention f_dup) *)
Theorem C06_one_primary : forall c frags out m, assign c frags = Some out -> In m out ->
  exists x, filter (fun x => negb (t_dup x)) (write_tags true m) = [x] /\ hd_error (write_tags true m) = Some x.
Proof. exact one_primary_main. Qed.
Print Assumptions C06_one_primary.

(* RC = rank in arrival order, duplicate = rank > 0, af = size, TF = size + overflow fragments *)
Theorem C06_tags : forall m, length (write_tags true m) = length (m_frags m) /\
  forall i x, nth_error (write_tags true m) i = Some x ->
    exists f, nth_error (m_frags m) i = Some f /\ t_id x = f_id f /\ t_rc x = Z.of_nat i /\
              t_dup x = (0 <? Z.of_nat i) /\
              t_af x = Z.of_nat (length (m_frags m)) /\
              t_tf x = Z.of_nat (length (m_frags m)) + Z.of_nat (length (m_ovf m)).
Proof. exact tags_main. Qed.
Print Assumptions C06_tags.

(* TF accounting: summed over the assigned molecules, TF (= size + overflow) counts every valid fragment once,
   with or without a cap and whether or not overflow fragments are yielded *)
Theorem C06_TF_total : forall c frags out, assign c frags = Some out ->
  list_sum (map tfn (filter normal out)) = length (filter f_valid frags).
Proof. exact tf_total_main. Qed.
Print Assumptions C06_TF_total.

(* the tagged result does not depend on the duplicate flags of the input ... *)
Theorem C06_dup_independent : forall c l1 l2, map erase l1 = map erase l2 -> tagged c l1 = tagged c l2.
Proof. exact dup_independent. Qed.
Print Assumptions C06_dup_independent.

(* ... so tagging the tagged reads again (same arrival order, carrying the duplicate bits of the first run) is idempotent *)
Theorem C06_retag_idempotent : forall c l, tagged c (retag c l) = tagged c l.
Proof. exact retag_idempotent. Qed.
Print Assumptions C06_retag_idempotent.

(* the molecule attributes the comparison reads are the running updates of _add_fragment: appending a fragment
   is one update step (Counter increment; site max on reverse / min otherwise; span min start / max end; strand
   = last non-None; sample of the first; chromosome and match_hash of the last fragment) *)
Theorem C06_running_state : forall c fs f, fs <> [] ->
  counter (map f_umi (fs ++ [f])) = counter_add (f_umi f) (counter (map f_umi fs)) /\
  site_of (fs ++ [f]) = site_step (site_of fs) f /\
  start_of (fs ++ [f]) = Z.min (f_site f) (start_of fs) /\ end_of (fs ++ [f]) = Z.max (f_end f) (end_of fs) /\
  strand_of (fs ++ [f]) = (if f_strand f =? 2 then strand_of fs else f_strand f) /\
  cell_of (fs ++ [f]) = cell_of fs /\ chrom_of (fs ++ [f]) = f_contig f /\ hash_of c (fs ++ [f]) = key c f.
Proof. exact running_state. Qed.
Print Assumptions C06_running_state.

(* the representative UMI has a maximal count *)
Theorem C06_most_common_max : forall c x, In x c -> exists b, In b c /\ most_common c = fst b /\ snd x <= snd b.
Proof. exact most_common_max. Qed.
Print Assumptions C06_most_common_max.

(* D9: with the unpatched write_tags (bit only ever set) a molecule whose reads arrive flagged has NO primary *)
Theorem C06_one_primary_unpatched_refuted : exists frags out m, assign (d9_cfg false) frags = Some out /\ In m out /\
  filter (fun x => negb (t_dup x)) (write_tags false m) = [].
Proof. exact d9_refuted. Qed.
Print Assumptions C06_one_primary_unpatched_refuted.

(* non-vacuity: UMIs AAA, AAT, ANA, TTT at one NLA site with distance 1, the second AAA arriving flagged duplicate,
   one fragment on the other strand: AAT and ANA join AAA's molecule, TTT and the reverse fragment do not *)
Example C06_example :
  option_map (map (fun m => map (fun t => (t_id t, t_rc t, t_dup t, t_af t)) (write_tags true m)))
    (assign ex_cfg [ex_frag 0 0 [65;65;65] true; ex_frag 1 0 [65;65;84] true; ex_frag 2 1 [65;65;65] false;
                    ex_frag 3 0 [84;84;84] false; ex_frag 4 0 [65;78;65] true])
  = Some [[(0, 0, false, 3); (1, 1, true, 3); (4, 2, true, 3)]; [(3, 0, false, 1)]; [(2, 0, false, 1)]].
Proof. vm_compute. reflexivity. Qed.
Print Assumptions C06_example.

(* ================================================================ extension: the iterator / molecule options
   [assign0] = pooling_method=0 (one flat buffer scanned in order, add_fragment(use_hash=False): the incoming fragment is
   compared with EVERY associated fragment by the member's __eq__); [assign_efm] = every_fragment_as_molecule=True;
   [assign] above = pooling_method=1.  Model/C06x.v *)

(* T: the use_hash=False path of Molecule.add_fragment (member scan; capacity test only after a member matched) and
   which use_hash keyword each pooling method passes (regenerated: g_add_decision0, g_pool_use_hash) *)
Theorem C06_kernel_add0 : forall c f m ms,
  offer0 c f (m :: ms) =
  (if accepts0 c f m then (if full c m then Overflowed (mol_bump m f :: ms) else Added (mol_add m f :: ms))
   else match offer0 c f ms with Added r => Added (m :: r) | Overflowed r => Overflowed (m :: r) | Rejected => Rejected end) /\
  g_pool_use_hash 0 = false /\ g_pool_use_hash 1 = true.
Proof. exact add0_shape. Qed.
Print Assumptions C06_kernel_add0.

(* fragment-to-fragment __eq__ (member g against incoming f) of the three classes *)
Theorem C06_kernel_feq : forall c g f, feq c g f = feq_spec c g f.
Proof. exact feq_shape. Qed.
Print Assumptions C06_kernel_feq.

(* (a) pooling 0 = pooling 1 when the comparison is exact (distance 0; NLA or CHIC radius 0): the same molecules - the same
   fragment lists in arrival order, the same refused fragments (TF), the same overflow / invalid singletons - for every
   arrival order and every cap, and the same inputs raise *)
Theorem C06_pool_equiv : forall c frags, c_d c = 0 -> exact_site c -> same_molecules (assign0 c frags) (assign c frags).
Proof. exact pool_equiv. Qed.
Print Assumptions C06_pool_equiv.

(* ... and not otherwise.  Distance > 0 (NLA, UMIs AAA AAT ATT): pooling 1 asks the representative UMI, pooling 0 any member *)
Theorem C06_pool_equiv_umi_refuted : exists c frags, exact_site c /\ c_d c = 1 /\
  part (assign c frags) = Some [[0; 1]; [2]] /\ part (assign0 c frags) = Some [[0; 1; 2]].
Proof. exact pool_equiv_umi_refuted. Qed.
Print Assumptions C06_pool_equiv_umi_refuted.

(* CHIC radius > 0 (radius 2, sites 1000 1002 1004, one UMI): pooling 1 asks the molecule's extreme site, pooling 0 any member *)
Theorem C06_pool_equiv_radius_refuted : exists c frags, c_cls c = 2 /\ c_r c = 2 /\ c_d c = 0 /\
  part (assign c frags) = Some [[0; 1]; [2]] /\ part (assign0 c frags) = Some [[0; 1; 2]].
Proof. exact pool_equiv_radius_refuted. Qed.
Print Assumptions C06_pool_equiv_radius_refuted.

(* ... and neither partition refines the other (sites 1000 1005 1002 1003) *)
Theorem C06_pool_refinement_refuted : exists c frags, c_cls c = 2 /\ c_d c = 0 /\
  part (assign c frags) = Some [[0; 2]; [1; 3]] /\ part (assign0 c frags) = Some [[0; 2; 3]; [1]].
Proof. exact pool_no_refinement_refuted. Qed.
Print Assumptions C06_pool_refinement_refuted.

(* what holds for pooling 0 with every class, distance, radius, cap and arrival order: *)
(* partition *)
Theorem C06_pool0_partition : forall c frags out, c_yover c = true -> assign0 c frags = Some out ->
  Permutation (concat (map m_frags out)) (filter (needs_mol c) frags).
Proof. exact partition0_main. Qed.
Print Assumptions C06_pool0_partition.

(* soundness: fragments of a molecule share cell, strand, contig (and site for exact classes); every fragment after the
   first was accepted by SOME earlier member: UMI within the distance of that member's UMI, site within the radius of that
   member's site (CHIC radius > 0) / start-or-end within the radius of that member's (plain) *)
Theorem C06_pool0_sound : forall c frags out m, assign0 c frags = Some out -> In m out ->
  (forall f g, In f (m_frags m) -> In g (m_frags m) ->
     f_cell f = f_cell g /\ f_strand f = f_strand g /\ f_contig f = f_contig g /\ (exact_site c -> f_site f = f_site g)) /\
  (forall p f q, m_frags m = p ++ f :: q -> p <> [] -> exists g, In g p /\ link c g f) /\
  (m_kind m <> 2 -> forall f, In f (m_frags m) -> f_valid f = true).
Proof. exact sound0_main. Qed.
Print Assumptions C06_pool0_sound.

(* (c) cap and TF accounting for pooling 0 *)
Theorem C06_pool0_cap : forall c frags out k m, c_cap c = Some k -> assign0 c frags = Some out -> In m out ->
  Z.of_nat (length (m_frags m)) <= k /\ (m_ovf m <> [] -> Z.of_nat (length (m_frags m)) = k).
Proof. exact cap0_main. Qed.
Print Assumptions C06_pool0_cap.

Theorem C06_pool0_TF_total : forall c frags out, assign0 c frags = Some out ->
  list_sum (map tfn (filter normal out)) = length (filter f_valid frags).
Proof. exact tf0_total_main. Qed.
Print Assumptions C06_pool0_TF_total.

(* (c) the order of the capacity test, as coded, both pooling methods, every cap and every pool content: an arriving
   fragment is refused with OverflowError exactly by the FIRST molecule of its pool that matches it, and only if that one
   is full; molecules before it - full or not - that do not match are passed over unchanged; a full molecule that does
   not match neither absorbs nor refuses it.  ([offer] is one scan of `for molecule in pool: molecule.add_fragment`) *)
Theorem C06_cap_order : forall c f ms,
  match offer c f ms with
  | Added ms' => exists l1 m l2, ms = l1 ++ m :: l2 /\ ms' = l1 ++ mol_add m f :: l2 /\
                                 accepts c f m = true /\ full c m = false /\ rejects c f l1
  | Overflowed ms' => exists l1 m l2, ms = l1 ++ m :: l2 /\ ms' = l1 ++ mol_bump m f :: l2 /\
                                      accepts c f m = true /\ full c m = true /\ rejects c f l1
  | Rejected => rejects c f ms
  end.
Proof. exact offer_spec. Qed.
Print Assumptions C06_cap_order.

Theorem C06_cap_order_pool0 : forall c f ms,
  match offer0 c f ms with
  | Added ms' => exists l1 m l2, ms = l1 ++ m :: l2 /\ ms' = l1 ++ mol_add m f :: l2 /\
                                 accepts0 c f m = true /\ full c m = false /\ rejects0 c f l1
  | Overflowed ms' => exists l1 m l2, ms = l1 ++ m :: l2 /\ ms' = l1 ++ mol_bump m f :: l2 /\
                                      accepts0 c f m = true /\ full c m = true /\ rejects0 c f l1
  | Rejected => rejects0 c f ms
  end.
Proof. exact offer0_spec. Qed.
Print Assumptions C06_cap_order_pool0.

(* (c) overflow fragments: every molecule marked `overflow` is ONE valid fragment with nothing refused; with
   yield_overflow their number equals the number of refused fragments the assigned molecules count in TF
   (ovf_sum = sum of overflow_fragments), without yield_overflow there are none - both pooling methods, every cap,
   distance, radius and arrival order *)
Theorem C06_overflow_singletons : forall c frags out, assign c frags = Some out ->
  (forall m, In m out -> m_kind m = 1 -> exists f, m_frags m = [f] /\ m_ovf m = [] /\ f_valid f = true) /\
  (c_yover c = true -> length (filter is_over out) = ovf_sum (filter normal out)) /\
  (c_yover c = false -> filter is_over out = []).
Proof. exact overflow_main1. Qed.
Print Assumptions C06_overflow_singletons.

Theorem C06_overflow_singletons_pool0 : forall c frags out, assign0 c frags = Some out ->
  (forall m, In m out -> m_kind m = 1 -> exists f, m_frags m = [f] /\ m_ovf m = [] /\ f_valid f = true) /\
  (c_yover c = true -> length (filter is_over out) = ovf_sum (filter normal out)) /\
  (c_yover c = false -> filter is_over out = []).
Proof. exact overflow_main0. Qed.
Print Assumptions C06_overflow_singletons_pool0.

(* with the capacity test hoisted before the match test (NOT the code; seeded change C06-13) C06_exact_cap fails: two
   UMIs at one site, cap 1 - the second fragment becomes an overflow singleton counted in the TF of the first molecule *)
Theorem C06_cap_hoisted_refuted : exists c frags, c_d c = 0 /\ exact_site c /\ c_cap c = Some 1 /\
  option_map (map shape3) (assign c frags) = Some [([0], 1%nat, 0); ([1], 1%nat, 0)] /\
  option_map (map shape3) (assign0 c frags) = Some [([0], 1%nat, 0); ([1], 1%nat, 0)] /\
  map shape3 (assign_h c frags) = [([1], 1%nat, 1); ([0], 2%nat, 0)].
Proof. exact cap_hoisted_refuted. Qed.
Print Assumptions C06_cap_hoisted_refuted.

(* (b) every_fragment_as_molecule: every valid fragment (and with yield_invalid every invalid one) is a molecule of its
   own, in arrival order, nothing refused; so after write_tags RC = 0, not duplicate, af = TF = 1 *)
Theorem C06_efm : forall c frags out, assign_efm c frags = Some out ->
  Permutation (concat (map m_frags out)) (filter (needs_mol c) frags) /\
  (forall m, In m out -> exists f, In f frags /\ m_frags m = [f] /\ m_ovf m = [] /\
      (m_kind m = 0 /\ f_valid f = true \/ m_kind m = 2 /\ f_valid f = false /\ c_yinv c = true)) /\
  map m_frags (filter normal out) = map (fun f => [f]) (filter f_valid frags).
Proof. exact efm_main. Qed.
Print Assumptions C06_efm.

Theorem C06_efm_tags : forall m f, m_frags m = [f] -> m_ovf m = [] ->
  write_tags true m = [{| t_id := f_id f; t_rc := 0; t_dup := false; t_af := 1; t_tf := 1; t_qc := negb (f_valid f) |}].
Proof. exact single_tags. Qed.
Print Assumptions C06_efm_tags.

(* (d) histories with two iterators in one process (MODEL-level: the two buffers and configurations are separate
   states; that the CODE shares nothing between iterators - e.g. no process-wide cache of UMI verdicts keyed without the
   distance, seeded change C06-12 - is tied by the correspondence check, which runs such interleaved histories through
   the real iterators and compares each with the model of its own settings): whatever the interleaving, each
   iterator ends as if it had run alone *)
Theorem C06_duo_isolated : forall c1 c2 sched la lb,
  duo_run (step c1) (step0 c2) sched la lb st0 s00 = (fold_left (step c1) la st0, fold_left (step0 c2) lb s00) /\
  duo_run (step c1) (step c2) sched la lb st0 st0 = (fold_left (step c1) la st0, fold_left (step c2) lb st0).
Proof. exact duo_isolated_main. Qed.
Print Assumptions C06_duo_isolated.

(* exactness for pooling 0 (distance 0, exact sites), without and with a cap: the statements of C06_exact / C06_exact_cap *)
Theorem C06_pool0_exact : forall c frags out, c_d c = 0 -> exact_site c -> c_cap c = None -> assign0 c frags = Some out ->
  let ms := filter normal out in
  let vf := filter f_valid frags in
  (forall m, In m ms -> exists g, In g vf /\ m_frags m = filter (fkeyb c g) vf) /\
  (forall x, In x vf -> exists m, In m ms /\ In x (m_frags m)) /\
  NoDup (map (mkey c) ms) /\
  (forall m, In m out -> normal m = false -> exists f, m_frags m = [f] /\ f_valid f = false).
Proof. exact exact0_main. Qed.
Print Assumptions C06_pool0_exact.

Theorem C06_pool0_exact_cap : forall c k frags out, c_d c = 0 -> exact_site c -> c_cap c = Some k -> 1 <= k -> assign0 c frags = Some out ->
  let ms := filter normal out in
  let vf := filter f_valid frags in
  (forall m, In m ms -> exists g, In g vf /\ m_frags m = firstn (Z.to_nat k) (filter (fkeyb c g) vf) /\
                                  m_ovf m = skipn (Z.to_nat k) (filter (fkeyb c g) vf) /\
                                  Z.of_nat (length (m_frags m)) + m_over m = Z.of_nat (length (filter (fkeyb c g) vf))) /\
  (forall x, In x vf -> exists m g, In m ms /\ hd_error (m_frags m) = Some g /\ fkeyb c g x = true) /\
  NoDup (map (mkey c) ms).
Proof. exact exact0_cap_main. Qed.
Print Assumptions C06_pool0_exact_cap.

(* non-vacuity of the extension *)
Example C06_pool_equiv_example :
  option_map (map shape3) (assign0 (xc 1 0 0 (Some 2)) w_eq) = Some [([4], 1%nat, 1); ([0; 2], 3%nat, 0); ([1], 1%nat, 0); ([3], 1%nat, 0)] /\
  option_map (map shape3) (assign (xc 1 0 0 (Some 2)) w_eq) = Some [([4], 1%nat, 1); ([0; 2], 3%nat, 0); ([1], 1%nat, 0); ([3], 1%nat, 0)].
Proof. exact pool_equiv_example. Qed.
Print Assumptions C06_pool_equiv_example.
Example C06_efm_example :
  option_map (map (fun m => map (fun t => (t_id t, t_rc t, t_dup t, t_af t, t_tf t)) (write_tags true m)))
    (assign_efm (xc 1 1 0 (Some 1)) [xf 0 1000 [65;65]; xf 1 1000 [65;65]; xf 2 1000 [65;67]])
  = Some [[(0, 0, false, 1, 1)]; [(1, 0, false, 1, 1)]; [(2, 0, false, 1, 1)]].
Proof. exact efm_example. Qed.
Print Assumptions C06_efm_example.
