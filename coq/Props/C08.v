(* C08 - property theorems only.  Each is closed by [exact lemma]; Print Assumptions beneath.
   region_action is the region gate of tagging.run_tagging_task REGENERATED from /repo
   (Gen/GenOwner.v); job_loop / job_run / parallel / serial are defined in Model/C08.v. *)
From Coq Require Import ZArith List Bool Permutation Sorted.
Import ListNotations.
From SCMO Require Import Lib.Val Lib.Tiling Model.C17 Gen.GenOwner Model.C08 Model.C08x Proofs.C08_a Proofs.C08_b Proofs.C08 Proofs.C08_ex Proofs.C08_x Proofs.C08_y.
Open Scope Z_scope.

(* T: the regenerated gate writes a molecule iff its site is on the task's contig inside
   [start, end), skips every other molecule (also one without a site) and never stops the loop *)
Theorem C08_gate : forall site c s e fs fe,
  region_action site c s e fs fe =
  match site with
  | None => ASkip
  | Some (cc, p) => if (cc =? c) && (s <=? p) && (p <? e) then AWrite else ASkip
  end.
Proof. exact region_action_spec. Qed.
Print Assumptions C08_gate.

(* the molecule loop of a task is a filter: nothing depends on the emission order *)
Theorem C08_loop_is_filter : forall t ms, job_loop t ms = filter (writes t) ms.
Proof. exact job_loop_filter. Qed.
Print Assumptions C08_loop_is_filter.

(* exactly one owner: if the (start,end) intervals of the region tasks tile [lo,hi) of a contig
   (consecutive, non-empty, disjoint, covering) every site in [lo,hi) is owned by exactly one task *)
Theorem C08_owner_unique : forall c lo hi ts s, chain c lo hi ts = true -> lo <= s < hi ->
  length (filter (fun t => owns t c s) ts) = 1%nat.
Proof. exact owner_unique_chain. Qed.
Print Assumptions C08_owner_unique.

(* over a whole job list (tiled contigs, whole-contig tasks, distinct contigs): a hash group with
   contig c and site s is accepted by exactly one task when covered and by none otherwise *)
Theorem C08_owner_unique_plans : forall L ps c s, plans_ok L ps = true ->
  n_accept (plan_tasks ps) c s = if covered ps c s then 1%nat else 0%nat.
Proof. exact plans_count. Qed.
Print Assumptions C08_owner_unique_plans.

(* window completeness: margins of at least L (or a window clipped at a contig end), fragment extent
   at most L: every read of a fragment whose site the task owns overlaps the fetch window *)
Theorem C08_window_complete : forall L len t f s,
  margin_ok L len t = true -> frag_ok L len f = true ->
  f_site f = Some s -> t_start t <= s < t_end t -> fully_fetched t f = true.
Proof. exact window_complete. Qed.
Print Assumptions C08_window_complete.

(* a fragment that lost a mate at the window edge has no read starting inside [start,end): the anchor
   coordinate the fragment classes fall back to is never owned by that task *)
Theorem C08_mateless_not_owned : forall L len t f r r',
  margin_ok L len t = true -> frag_ok L len f = true ->
  In r (f_reads f) -> overlaps t r = false -> In r' (f_reads f) ->
  ~ (t_start t <= r_lo r' < t_end t).
Proof. exact anchor_not_owned. Qed.
Print Assumptions C08_mateless_not_owned.

(* EQUIVALENCE.  For every per-hash-group molecule assignment g, every treatment [partial] of
   fragments that lost a mate, every tag function of the molecule, every grouping of the tasks into
   jobs and every completion order: the records written by the jobs are a permutation of the
   records the serial pass writes for the covered molecules (molecules on a whole-contig task's
   contig, or with their site in [0,len) of a tiled contig). *)
Theorem C08_equiv : forall (g : list frag -> list mol) (partial : task -> frag -> frag)
    (ksite : Z -> option Z) (kcontig : Z -> Z) (L : Z) (ps : list contig_plan) (fs : list frag)
    (tagf : mol -> frag -> read -> Z) (jobs : list (list task)),
  (forall l m f, In m (g l) -> In f m -> In f l) ->
  (forall l m, In m (g l) -> m <> []) ->
  plans_ok L ps = true -> frags_ok L ps fs = true ->
  (forall f, In f fs -> keyed ksite kcontig f) ->
  (forall t f, In t (plan_tasks ps) -> In f fs -> In (partial t f) (job_frag partial t f) -> keyed ksite kcontig (partial t f)) ->
  (forall t f, In t (plan_tasks ps) -> In f fs ->
     f_site (partial t f) = None \/ f_site (partial t f) = f_site f \/
     exists r, In r (f_reads f) /\ f_site (partial t f) = Some (r_lo r)) ->
  (forall t f, In t (plan_tasks ps) -> In f fs -> f_contig f = t_contig t -> f_contig (partial t f) = t_contig t) ->
  Permutation (concat jobs) (plan_tasks ps) ->
  Permutation (flat_map (write tagf) (parallel g partial jobs fs))
              (flat_map (write tagf) (filter (covered_mol ps) (serial g fs))).
Proof. exact equiv_stmt. Qed.
Print Assumptions C08_equiv.

(* ... and of everything the serial pass writes when every serial molecule is covered *)
Theorem C08_equiv_all : forall (g : list frag -> list mol) (partial : task -> frag -> frag)
    (ksite : Z -> option Z) (kcontig : Z -> Z) (L : Z) (ps : list contig_plan) (fs : list frag)
    (tagf : mol -> frag -> read -> Z) (jobs : list (list task)),
  (forall l m f, In m (g l) -> In f m -> In f l) ->
  (forall l m, In m (g l) -> m <> []) ->
  plans_ok L ps = true -> frags_ok L ps fs = true ->
  (forall f, In f fs -> keyed ksite kcontig f) ->
  (forall t f, In t (plan_tasks ps) -> In f fs -> In (partial t f) (job_frag partial t f) -> keyed ksite kcontig (partial t f)) ->
  (forall t f, In t (plan_tasks ps) -> In f fs ->
     f_site (partial t f) = None \/ f_site (partial t f) = f_site f \/
     exists r, In r (f_reads f) /\ f_site (partial t f) = Some (r_lo r)) ->
  (forall t f, In t (plan_tasks ps) -> In f fs -> f_contig f = t_contig t -> f_contig (partial t f) = t_contig t) ->
  Permutation (concat jobs) (plan_tasks ps) ->
  (forall m, In m (serial g fs) -> covered_mol ps m = true) ->
  Permutation (flat_map (write tagf) (parallel g partial jobs fs)) (flat_map (write tagf) (serial g fs)).
Proof. exact equiv_all_stmt. Qed.
Print Assumptions C08_equiv_all.

(* the historical gate (stop at site >= fetch_end before the ownership test): safe when molecules are
   emitted in site order ... *)
Theorem C08_break_safe : forall t ms, t_end t <= t_fe t -> StronglySorted site_le ms ->
  job_loop_gen act_with_stop t ms = filter (writes t) ms.
Proof. exact break_safe. Qed.
Print Assumptions C08_break_safe.

(* ... and refuted for the order MoleculeIterator really emits in (hash groups in order of first
   arrival): with margins and fragment extents as the property demands, an owned molecule is lost *)
Theorem C08_break_unsafe_refuted : exists t ms,
  margin_ok 100 2000 t = true /\ forallb (fun m => forallb (frag_ok 100 2000) m) ms = true /\
  mol_read_ids (filter (writes t) ms) = [4; 5] /\
  mol_read_ids (job_loop_gen act_with_stop t ms) = [].
Proof. exact (ex_intro _ ex_t0 (ex_intro _ ex_emission break_unsafe_witness)). Qed.
Print Assumptions C08_break_unsafe_refuted.

(* bp_chunked neither loses nor duplicates nor reorders a task *)
Theorem C08_chunk_flat : forall jobs n, concat (bp_chunked jobs n) = jobs.
Proof. exact bp_chunked_concat. Qed.
Print Assumptions C08_chunk_flat.

(* molecules without any site (D11): never written by a region task, always by a whole-contig task *)
Theorem C08_siteless_region : forall t ms m, t_region t = true -> In m (job_loop t ms) -> mol_site m <> None.
Proof. exact siteless_region. Qed.
Print Assumptions C08_siteless_region.

Theorem C08_siteless_contig : forall t ms, t_region t = false -> job_loop t ms = ms.
Proof. exact siteless_contig. Qed.
Print Assumptions C08_siteless_contig.

(* the full statement without the [covered] restriction is refuted by such a molecule (finding D11):
   tiling and geometry are as the property demands, the serial pass writes read 0, the region tasks do
   not, the whole-contig task of contig-per-process mode does *)
Theorem C08_siteless_refuted : exists ps fs jobs,
  plans_ok 100 ps = true /\ frags_ok 100 ps fs = true /\ Permutation (concat jobs) (plan_tasks ps) /\
  mol_read_ids (serial g_one fs) = [0; 2] /\ mol_read_ids (parallel g_one partial_nla jobs fs) = [2] /\
  mol_read_ids (parallel g_one partial_nla [[whole 0]] fs) = [0; 2].
Proof. exact siteless_refuted. Qed.
Print Assumptions C08_siteless_refuted.

(* non-vacuity: a library with a molecule straddling the bin boundary (site 990, mate ending at 1090),
   one whose mate lies inside the left margin of the next bin, a fragment that loses its first read in
   the second job, a second contig and unmapped reads satisfies every hypothesis of C08_equiv_all
   for the instances used by the executable model ... *)
Example C08_example_hyps : plans_ok 100 ex_ps = true /\ frags_ok 100 ex_ps ex_fs = true /\
  forallb (keyed_b (univ ex_ps ex_fs)) (univ ex_ps ex_fs) = true /\
  Permutation (concat ex_jobs) (plan_tasks ex_ps) /\
  forallb (covered_mol ex_ps) (serial g_one ex_fs) = true.
Proof. exact ex_hyps. Qed.
Print Assumptions C08_example_hyps.

Example C08_example_equiv :
  Permutation (flat_map (write ex_tag) (parallel g_one partial_nla ex_jobs ex_fs))
              (flat_map (write ex_tag) (serial g_one ex_fs)).
Proof. exact ex_equiv. Qed.
Print Assumptions C08_example_equiv.

(* ... and the two bins write [0;1;2;3;4;5;14;15] and [6;8;9]: each boundary molecule exactly once *)
Example C08_example_owners :
  map (fun t => mol_read_ids (job_run g_one partial_nla t ex_fs)) [ex_t0; ex_t1] =
  [[0; 1; 2; 3; 4; 5; 14; 15]; [6; 8; 9]] /\
  map (fun t => map f_key (job_frags partial_nla t ex_fs)) [ex_t0; ex_t1] = [[10; 10; 11; 12; 13; 16]; [11; 12; 13; -8]].
Proof. exact ex_owners. Qed.
Print Assumptions C08_example_owners.

(* ================================================================== the GENERATED tiling (Model/C08x.v)
   gen_tasks c len bs f = the (contig, start, end, fetch_start, fetch_end) tuples blacklisted_binning_contigs
   yields for a contig of length len, bin size bs, fragment size f, no blacklist (blacklisted_binning is
   the model of C17, regenerated expressions).  For every len >= 0, bin size >= 1 and margin f >= L the
   tasks tile [0,len) consecutively and their fetch margins are at least L or clipped at the contig ends *)
Theorem C08_gen_tiling : forall L c len bs f, 0 < bs -> 0 <= len -> L <= f ->
  C08.chain c 0 len (gen_tasks c len bs f) = true /\ forallb (margin_ok L len) (gen_tasks c len bs f) = true.
Proof. exact gen_tasks_tiling. Qed.
Print Assumptions C08_gen_tiling.

(* every generated task: region task of contig c, non-empty bin inside [0,len] of at most bs bases,
   fetch window = the bin widened by f on both sides and clipped to [0, len] *)
Theorem C08_gen_shape : forall c len bs f t, 0 < bs -> 0 <= len -> In t (gen_tasks c len bs f) ->
  t_contig t = c /\ t_region t = true /\ 0 <= t_start t /\ t_start t < t_end t /\ t_end t <= len /\ t_end t - t_start t <= bs /\ t_fs t = Z.max 0 (t_start t - f) /\ t_fe t = Z.min len (t_end t + f).
Proof. exact gen_tasks_shape. Qed.
Print Assumptions C08_gen_shape.

(* the whole job list of the tiled mode is a well-formed plan (contig names pairwise different) *)
Theorem C08_gen_plans_ok : forall L contigs bs f, 0 < bs -> L <= f ->
  (forall cl, In cl contigs -> 0 <= snd cl) -> distinct (map fst contigs) = true ->
  plans_ok L (gen_plans contigs bs f) = true.
Proof. exact gen_plans_ok. Qed.
Print Assumptions C08_gen_plans_ok.

(* EQUIVALENCE for the generated tiling: the tiling hypothesis of C08_equiv is discharged *)
Theorem C08_equiv_generated : forall (g : list frag -> list mol) (partial : task -> frag -> frag)
    (ksite : Z -> option Z) (kcontig : Z -> Z) (L : Z) (contigs : list (Z * Z)) (bs f : Z) (fs : list frag)
    (tagf : mol -> frag -> read -> Z) (jobs : list (list task)),
  let ps := gen_plans contigs bs f in
  (forall l m f, In m (g l) -> In f m -> In f l) ->
  (forall l m, In m (g l) -> m <> []) ->
  0 < bs -> L <= f -> (forall cl, In cl contigs -> 0 <= snd cl) -> distinct (map fst contigs) = true ->
  frags_ok L ps fs = true ->
  (forall f, In f fs -> keyed ksite kcontig f) ->
  (forall t f, In t (plan_tasks ps) -> In f fs -> In (partial t f) (job_frag partial t f) -> keyed ksite kcontig (partial t f)) ->
  (forall t f, In t (plan_tasks ps) -> In f fs ->
     f_site (partial t f) = None \/ f_site (partial t f) = f_site f \/
     exists r, In r (f_reads f) /\ f_site (partial t f) = Some (r_lo r)) ->
  (forall t f, In t (plan_tasks ps) -> In f fs -> f_contig f = t_contig t -> f_contig (partial t f) = t_contig t) ->
  Permutation (concat jobs) (gen_regions contigs bs f) ->
  Permutation (flat_map (write tagf) (parallel g partial jobs fs))
              (flat_map (write tagf) (filter (covered_mol ps) (serial g fs))).
Proof. exact equiv_generated. Qed.
Print Assumptions C08_equiv_generated.

(* the job list run_multiome_tagging builds (bp_chunked of the regions, any bp_per_job) in any
   completion order satisfies the last hypothesis of C08_equiv_generated *)
Theorem C08_gen_jobs_any_order : forall contigs bs f k jobs, Permutation jobs (gen_jobs contigs bs f k) ->
  Permutation (concat jobs) (gen_regions contigs bs f).
Proof. exact gen_jobs_perm. Qed.
Print Assumptions C08_gen_jobs_any_order.

(* which molecules are covered by the generated tiling depends on the contig lengths only *)
Theorem C08_gen_covered : forall contigs bs f c s, 0 < bs -> (forall cl, In cl contigs -> 0 <= snd cl) ->
  covered (gen_plans contigs bs f) c s = covered_tiled contigs c s.
Proof. exact covered_gen. Qed.
Print Assumptions C08_gen_covered.

(* BIN SIZE INDEPENDENCE: two bin sizes / fragment sizes (margins at least L), any job grouping and
   completion order each: the same multiset of records *)
Theorem C08_binsize_independent : forall (g : list frag -> list mol) (partial : task -> frag -> frag)
    (ksite : Z -> option Z) (kcontig : Z -> Z) (L : Z) (contigs : list (Z * Z)) (bs1 f1 bs2 f2 : Z) (fs : list frag)
    (tagf : mol -> frag -> read -> Z) (jobs1 jobs2 : list (list task)),
  (forall l m f, In m (g l) -> In f m -> In f l) ->
  (forall l m, In m (g l) -> m <> []) ->
  0 < bs1 -> 0 < bs2 -> L <= f1 -> L <= f2 ->
  (forall cl, In cl contigs -> 0 <= snd cl) -> distinct (map fst contigs) = true ->
  frags_ok L (gen_plans contigs bs1 f1) fs = true -> frags_ok L (gen_plans contigs bs2 f2) fs = true ->
  (forall f, In f fs -> keyed ksite kcontig f) ->
  (forall t f, In f fs -> In (partial t f) (job_frag partial t f) -> keyed ksite kcontig (partial t f)) ->
  (forall t f, In f fs ->
     f_site (partial t f) = None \/ f_site (partial t f) = f_site f \/
     exists r, In r (f_reads f) /\ f_site (partial t f) = Some (r_lo r)) ->
  (forall t f, In f fs -> f_contig f = t_contig t -> f_contig (partial t f) = t_contig t) ->
  Permutation (concat jobs1) (gen_regions contigs bs1 f1) ->
  Permutation (concat jobs2) (gen_regions contigs bs2 f2) ->
  Permutation (flat_map (write tagf) (parallel g partial jobs1 fs))
              (flat_map (write tagf) (parallel g partial jobs2 fs)).
Proof. exact binsize_independent. Qed.
Print Assumptions C08_binsize_independent.

(* COUNT CONSERVATION: the numbers of records written by the tasks add up to the number of records of
   the covered serial molecules (nothing written twice, nothing lost) *)
Theorem C08_count_conservation : forall (g : list frag -> list mol) (partial : task -> frag -> frag)
    (ksite : Z -> option Z) (kcontig : Z -> Z) (L : Z) (ps : list contig_plan) (fs : list frag)
    (tagf : mol -> frag -> read -> Z) (jobs : list (list task)),
  (forall l m f, In m (g l) -> In f m -> In f l) ->
  (forall l m, In m (g l) -> m <> []) ->
  plans_ok L ps = true -> frags_ok L ps fs = true ->
  (forall f, In f fs -> keyed ksite kcontig f) ->
  (forall t f, In t (plan_tasks ps) -> In f fs -> In (partial t f) (job_frag partial t f) -> keyed ksite kcontig (partial t f)) ->
  (forall t f, In t (plan_tasks ps) -> In f fs ->
     f_site (partial t f) = None \/ f_site (partial t f) = f_site f \/
     exists r, In r (f_reads f) /\ f_site (partial t f) = Some (r_lo r)) ->
  (forall t f, In t (plan_tasks ps) -> In f fs -> f_contig f = t_contig t -> f_contig (partial t f) = t_contig t) ->
  Permutation (concat jobs) (plan_tasks ps) ->
  list_sum (map (fun t => length (flat_map (write tagf) (job_run g partial t fs))) (concat jobs))
  = length (flat_map (write tagf) (filter (covered_mol ps) (serial g fs))).
Proof. exact count_conservation. Qed.
Print Assumptions C08_count_conservation.

(* non-vacuity: len = 3*833+1, len < bin, margin > bin, empty contig; and the example library on two
   tilings (3 and 10 regions) satisfies the hypotheses and gets the same 13 records written *)
Example C08_gen_example :
  map t4 (gen_tasks 7 2500 1000 100) = [(0, 833, 0, 933); (833, 1666, 733, 1766); (1666, 2499, 1566, 2500); (2499, 2500, 2399, 2500)] /\
  map t4 (gen_tasks 7 5 1000 100) = [(0, 5, 0, 5)] /\
  map t4 (gen_tasks 7 2000 1000 1500) = [(0, 1000, 0, 2000); (1000, 2000, 0, 2000)] /\
  gen_tasks 7 0 1000 100 = [].
Proof. exact gen_example. Qed.
Print Assumptions C08_gen_example.

Example C08_gen_example_binsize :
  let cs := [(0, 2000); (1, 500)] in
  plans_ok 100 (gen_plans cs 1000 100) = true /\ plans_ok 100 (gen_plans cs 300 117) = true /\
  frags_ok 100 (gen_plans cs 1000 100) ex_fs = true /\ frags_ok 100 (gen_plans cs 300 117) ex_fs = true /\
  length (gen_regions cs 1000 100) = 3%nat /\ length (gen_regions cs 300 117) = 10%nat /\
  mol_read_ids (parallel g_one partial_nla (gen_jobs cs 1000 100 1000) ex_fs) = [0; 1; 2; 3; 4; 5; 14; 15; 6; 8; 9; 10; 11] /\
  mol_read_ids (parallel g_one partial_nla (gen_jobs cs 300 117 700) ex_fs) = [0; 1; 2; 3; 14; 15; 4; 5; 8; 9; 6; 10; 11].
Proof. exact gen_example_binsize. Qed.
Print Assumptions C08_gen_example_binsize.

(* NO RECORD IS WRITTEN TWICE: if the serial pass writes every record id once, so do the jobs - for any
   number of tasks, any overlap of their fetch windows (a molecule may be fetched by many tasks), any
   job grouping and completion order *)
Theorem C08_no_double_write : forall (g : list frag -> list mol) (partial : task -> frag -> frag)
    (ksite : Z -> option Z) (kcontig : Z -> Z) (L : Z) (ps : list contig_plan) (fs : list frag)
    (tagf : mol -> frag -> read -> Z) (jobs : list (list task)),
  (forall l m f, In m (g l) -> In f m -> In f l) ->
  (forall l m, In m (g l) -> m <> []) ->
  plans_ok L ps = true -> frags_ok L ps fs = true ->
  (forall f, In f fs -> keyed ksite kcontig f) ->
  (forall t f, In t (plan_tasks ps) -> In f fs -> In (partial t f) (job_frag partial t f) -> keyed ksite kcontig (partial t f)) ->
  (forall t f, In t (plan_tasks ps) -> In f fs ->
     f_site (partial t f) = None \/ f_site (partial t f) = f_site f \/
     exists r, In r (f_reads f) /\ f_site (partial t f) = Some (r_lo r)) ->
  (forall t f, In t (plan_tasks ps) -> In f fs -> f_contig f = t_contig t -> f_contig (partial t f) = t_contig t) ->
  Permutation (concat jobs) (plan_tasks ps) ->
  NoDup (written_ids tagf (serial g fs)) ->
  NoDup (written_ids tagf (parallel g partial jobs fs)).
Proof. exact no_double_write. Qed.
Print Assumptions C08_no_double_write.

(* however many tasks of a tiling FETCH a site (their windows contain it), exactly one task owns it
   and at most one of the fetching tasks does *)
Theorem C08_owner_unique_among_fetchers : forall c lo hi ts s, C08.chain c lo hi ts = true -> lo <= s < hi ->
  length (filter (fun t => owns t c s) ts) = 1%nat /\
  Nat.le (length (filter (fun t => owns t c s) (filter (fun t => (t_fs t <=? s) && (s <? t_fe t)) ts))) 1.
Proof. exact owner_unique_among_fetchers. Qed.
Print Assumptions C08_owner_unique_among_fetchers.

Example C08_no_double_write_example : NoDup (written_ids ex_tag (serial g_one ex_fs)) /\
  NoDup (written_ids ex_tag (parallel g_one partial_nla ex_jobs ex_fs)) /\
  length (written_ids ex_tag (parallel g_one partial_nla ex_jobs ex_fs)) = length (written_ids ex_tag (serial g_one ex_fs)).
Proof. exact ex_no_double. Qed.
Print Assumptions C08_no_double_write_example.
