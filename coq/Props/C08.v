(* C08 - property theorems only.  Each is closed by [exact lemma]; Print Assumptions beneath.
   region_action is the region gate of tagging.run_tagging_task REGENERATED from /repo
   (Gen/GenOwner.v); job_loop / job_run / parallel / serial are defined in Model/C08.v. *)
From Coq Require Import ZArith List Bool Permutation Sorted.
Import ListNotations.
From SCMO Require Import Lib.Val Gen.GenOwner Model.C08 Proofs.C08_a Proofs.C08_b Proofs.C08 Proofs.C08_ex.
Open Scope Z_scope.

(* T: the regenerated gate writes a molecule iff its site is on the task's contig inside
   [start, end), skips every other molecule (also one without a site) and never stops the loop *)
Theorem C08_gate : forall site c s e fs fe,
  region_action site c s e fs fe =
  match site with
  | None => ASkip
  | Some (cc, p) => if (cc =? c) && (s <=? p) && (p <? e) then AWrite else ASkip
  end.
Proof. exact region_action_spec. Qed.
Print Assumptions C08_gate.

(* the molecule loop of a task is a filter: nothing depends on the emission order *)
Theorem C08_loop_is_filter : forall t ms, job_loop t ms = filter (writes t) ms.
Proof. exact job_loop_filter. Qed.
Print Assumptions C08_loop_is_filter.

(* exactly one owner: if the (start,end) intervals of the region tasks tile [lo,hi) of a contig
   (consecutive, non-empty, disjoint, covering) every site in [lo,hi) is owned by exactly one task *)
Theorem C08_owner_unique : forall c lo hi ts s, chain c lo hi ts = true -> lo <= s < hi ->
  length (filter (fun t => owns t c s) ts) = 1%nat.
Proof. exact owner_unique_chain. Qed.
Print Assumptions C08_owner_unique.

(* over a whole job list (tiled contigs, whole-contig tasks, distinct contigs): a hash group with
   contig c and site s is accepted by exactly one task when covered and by none otherwise *)
Theorem C08_owner_unique_plans : forall L ps c s, plans_ok L ps = true ->
  n_accept (plan_tasks ps) c s = if covered ps c s then 1%nat else 0%nat.
Proof. exact plans_count. Qed.
Print Assumptions C08_owner_unique_plans.

(* window completeness: margins of at least L (or a window clipped at a contig end), fragment extent
   at most L: every read of a fragment whose site the task owns overlaps the fetch window *)
Theorem C08_window_complete : forall L len t f s,
  margin_ok L len t = true -> frag_ok L len f = true ->
  f_site f = Some s -> t_start t <= s < t_end t -> fully_fetched t f = true.
Proof. exact window_complete. Qed.
Print Assumptions C08_window_complete.

(* a fragment that lost a mate at the window edge has no read starting inside [start,end): the anchor
   coordinate the fragment classes fall back to is never owned by that task *)
Theorem C08_mateless_not_owned : forall L len t f r r',
  margin_ok L len t = true -> frag_ok L len f = true ->
  In r (f_reads f) -> overlaps t r = false -> In r' (f_reads f) ->
  ~ (t_start t <= r_lo r' < t_end t).
Proof. exact anchor_not_owned. Qed.
Print Assumptions C08_mateless_not_owned.

(* EQUIVALENCE.  For every per-hash-group molecule assignment g, every treatment [partial] of
   fragments that lost a mate, every tag function of the molecule, every grouping of the tasks into
   jobs and every completion order: the records written by the jobs are a permutation of the
   records the serial pass writes for the covered molecules (molecules on a whole-contig task's
   contig, or with their site in [0,len) of a tiled contig). *)
Theorem C08_equiv : forall (g : list frag -> list mol) (partial : task -> frag -> frag)
    (ksite : Z -> option Z) (kcontig : Z -> Z) (L : Z) (ps : list contig_plan) (fs : list frag)
    (tagf : mol -> frag -> read -> Z) (jobs : list (list task)),
  (forall l m f, In m (g l) -> In f m -> In f l) ->
  (forall l m, In m (g l) -> m <> []) ->
  plans_ok L ps = true -> frags_ok L ps fs = true ->
  (forall f, In f fs -> keyed ksite kcontig f) ->
  (forall t f, In t (plan_tasks ps) -> In f fs -> In (partial t f) (job_frag partial t f) -> keyed ksite kcontig (partial t f)) ->
  (forall t f, In t (plan_tasks ps) -> In f fs ->
     f_site (partial t f) = None \/ f_site (partial t f) = f_site f \/
     exists r, In r (f_reads f) /\ f_site (partial t f) = Some (r_lo r)) ->
  (forall t f, In t (plan_tasks ps) -> In f fs -> f_contig f = t_contig t -> f_contig (partial t f) = t_contig t) ->
  Permutation (concat jobs) (plan_tasks ps) ->
  Permutation (flat_map (write tagf) (parallel g partial jobs fs))
              (flat_map (write tagf) (filter (covered_mol ps) (serial g fs))).
Proof. exact equiv_stmt. Qed.
Print Assumptions C08_equiv.

(* ... and of everything the serial pass writes when every serial molecule is covered *)
Theorem C08_equiv_all : forall (g : list frag -> list mol) (partial : task -> frag -> frag)
    (ksite : Z -> option Z) (kcontig : Z -> Z) (L : Z) (ps : list contig_plan) (fs : list frag)
    (tagf : mol -> frag -> read -> Z) (jobs : list (list task)),
  (forall l m f, In m (g l) -> In f m -> In f l) ->
  (forall l m, In m (g l) -> m <> []) ->
  plans_ok L ps = true -> frags_ok L ps fs = true ->
  (forall f, In f fs -> keyed ksite kcontig f) ->
  (forall t f, In t (plan_tasks ps) -> In f fs -> In (partial t f) (job_frag partial t f) -> keyed ksite kcontig (partial t f)) ->
  (forall t f, In t (plan_tasks ps) -> In f fs ->
     f_site (partial t f) = None \/ f_site (partial t f) = f_site f \/
     exists r, In r (f_reads f) /\ f_site (partial t f) = Some (r_lo r)) ->
  (forall t f, In t (plan_tasks ps) -> In f fs -> f_contig f = t_contig t -> f_contig (partial t f) = t_contig t) ->
  Permutation (concat jobs) (plan_tasks ps) ->
  (forall m, In m (serial g fs) -> covered_mol ps m = true) ->
  Permutation (flat_map (write tagf) (parallel g partial jobs fs)) (flat_map (write tagf) (serial g fs)).
Proof. exact equiv_all_stmt. Qed.
Print Assumptions C08_equiv_all.

(* the historical gate (stop at site >= fetch_end before the ownership test): safe when molecules are
   emitted in site order ... *)
Theorem C08_break_safe : forall t ms, t_end t <= t_fe t -> StronglySorted site_le ms ->
  job_loop_gen act_with_stop t ms = filter (writes t) ms.
Proof. exact break_safe. Qed.
Print Assumptions C08_break_safe.

(* ... and refuted for the order MoleculeIterator really emits in (hash groups in order of first
   arrival): with margins and fragment extents as the property demands, an owned molecule is lost *)
Theorem C08_break_unsafe_refuted : exists t ms,
  margin_ok 100 2000 t = true /\ forallb (fun m => forallb (frag_ok 100 2000) m) ms = true /\
  mol_read_ids (filter (writes t) ms) = [4; 5] /\
  mol_read_ids (job_loop_gen act_with_stop t ms) = [].
Proof. exact (ex_intro _ ex_t0 (ex_intro _ ex_emission break_unsafe_witness)). Qed.
Print Assumptions C08_break_unsafe_refuted.

(* bp_chunked neither loses nor duplicates nor reorders a task *)
Theorem C08_chunk_flat : forall jobs n, concat (bp_chunked jobs n) = jobs.
Proof. exact bp_chunked_concat. Qed.
Print Assumptions C08_chunk_flat.

(* molecules without any site (D11): never written by a region task, always by a whole-contig task *)
Theorem C08_siteless_region : forall t ms m, t_region t = true -> In m (job_loop t ms) -> mol_site m <> None.
Proof. exact siteless_region. Qed.
Print Assumptions C08_siteless_region.

Theorem C08_siteless_contig : forall t ms, t_region t = false -> job_loop t ms = ms.
Proof. exact siteless_contig. Qed.
Print Assumptions C08_siteless_contig.

(* the full statement without the [covered] restriction is refuted by such a molecule (finding D11):
   tiling and geometry are as the property demands, the serial pass writes read 0, the region tasks do
   not, the whole-contig task of contig-per-process mode does *)
Theorem C08_siteless_refuted : exists ps fs jobs,
  plans_ok 100 ps = true /\ frags_ok 100 ps fs = true /\ Permutation (concat jobs) (plan_tasks ps) /\
  mol_read_ids (serial g_one fs) = [0; 2] /\ mol_read_ids (parallel g_one partial_nla jobs fs) = [2] /\
  mol_read_ids (parallel g_one partial_nla [[whole 0]] fs) = [0; 2].
Proof. exact siteless_refuted. Qed.
Print Assumptions C08_siteless_refuted.

(* non-vacuity: a library with a molecule straddling the bin boundary (site 990, mate ending at 1090),
   one whose mate lies inside the left margin of the next bin, a fragment that loses its first read in
   the second job, a second contig and unmapped reads satisfies every hypothesis of C08_equiv_all
   for the instances used by the executable model ... *)
Example C08_example_hyps : plans_ok 100 ex_ps = true /\ frags_ok 100 ex_ps ex_fs = true /\
  forallb (keyed_b (univ ex_ps ex_fs)) (univ ex_ps ex_fs) = true /\
  Permutation (concat ex_jobs) (plan_tasks ex_ps) /\
  forallb (covered_mol ex_ps) (serial g_one ex_fs) = true.
Proof. exact ex_hyps. Qed.
Print Assumptions C08_example_hyps.

Example C08_example_equiv :
  Permutation (flat_map (write ex_tag) (parallel g_one partial_nla ex_jobs ex_fs))
              (flat_map (write ex_tag) (serial g_one ex_fs)).
Proof. exact ex_equiv. Qed.
Print Assumptions C08_example_equiv.

(* ... and the two bins write [0;1;2;3;4;5;14;15] and [6;8;9]: each boundary molecule exactly once *)
Example C08_example_owners :
  map (fun t => mol_read_ids (job_run g_one partial_nla t ex_fs)) [ex_t0; ex_t1] =
  [[0; 1; 2; 3; 4; 5; 14; 15]; [6; 8; 9]] /\
  map (fun t => map f_key (job_frags partial_nla t ex_fs)) [ex_t0; ex_t1] = [[10; 10; 11; 12; 13; 16]; [11; 12; 13; -8]].
Proof. exact ex_owners. Qed.
Print Assumptions C08_example_owners.
