(* C20 - property theorems only.  [pipeline] and [worker_body] are REGENERATED from /repo
   (Gen/GenStatus.v): run_multiome_tagging with tag_multiome_single_thread,
   tag_multiome_multi_processing, sorted_bam_file (code before / after its yield), sort_and_index and
   merge_bams inlined; which pipeline runs is the branch [ch id_ch_multiprocess].
   Quantifiers: [cnt] = number of iterations of every loop (molecules, fragments, worker results,
   temp files ...), [ch] = outcome of every run-time test, [f] = what happens to the i-th executed
   step (works / raises before / raises half way, and with which exception class: RuntimeError,
   ValueError, OSError, TimeoutError, MemoryError, another Exception, or a non-Exception such as
   KeyboardInterrupt - the except clauses of the source decide per class), so every crash point and
   every sequence of faults is covered; [crash_at e k] is the single fault of the statement. *)
From Coq Require Import List Bool Arith.
Import ListNotations.
From SCMO Require Import Lib.StatusLang Gen.GenStatus Model.C20 Proofs.C20 Proofs.C20_inst.

(* whenever the status file reports success, the output BAM exists, is complete, sorted, indexed:
   at the end of every run, however and wherever it was interrupted, in both pipelines *)
Theorem C20_never_ok_early : forall cnt ch f w0 r s,
  invb w0 = true -> lost w0 = false ->
  run_prog pipeline cnt ch f w0 = (r, s) ->
  st (wd s) = SOk -> ex (wd s) = true /\ co (wd s) = true /\ so (wd s) = true /\ ix (wd s) = true.
Proof. exact never_ok_early. Qed.
Print Assumptions C20_never_ok_early.

(* the same in the words of the statement: n molecules, crash point k *)
Theorem C20_never_ok_early_crash_at : forall cnt ch e k w0 r s,
  invb w0 = true -> lost w0 = false ->
  run_prog pipeline cnt ch (crash_at e k) w0 = (r, s) ->
  st (wd s) = SOk -> ex (wd s) = true /\ co (wd s) = true /\ so (wd s) = true /\ ix (wd s) = true.
Proof. exact never_ok_early_crash_at. Qed.
Print Assumptions C20_never_ok_early_crash_at.

(* a run that returns (possibly after swallowed failures such as a sort retry or a failed temp folder
   removal) ends with status Ok and a complete, sorted, indexed output *)
Theorem C20_ok_at_end : forall cnt ch f w0 s,
  lost w0 = false ->
  run_prog pipeline cnt ch f w0 = (RNormal, s) ->
  st (wd s) = SOk /\ ex (wd s) = true /\ co (wd s) = true /\ so (wd s) = true /\ ix (wd s) = true.
Proof. exact ok_at_end. Qed.
Print Assumptions C20_ok_at_end.

(* a run that fails never says success (it did not start with a stale success marker; no blacklist
   temp files to clean after the pipeline) *)
Theorem C20_fail_not_ok : forall cnt ch f w0 r s,
  ch id_ch_tempfiles = false ->
  st w0 <> SOk ->
  run_prog pipeline cnt ch f w0 = (r, s) ->
  r <> RNormal -> st (wd s) <> SOk.
Proof. exact fail_not_ok. Qed.
Print Assumptions C20_fail_not_ok.

(* a worker of the multiprocess pipeline that returns has written a complete sorted indexed BAM,
   whatever failed inside it with whatever exception class other than TimeoutError (swallowed on
   purpose by -max_time_per_segment) *)
Theorem C20_worker_complete : forall cnt ch f w0 s,
  no_timeout f ->
  lost w0 = false ->
  run_prog worker_body cnt ch f w0 = (RNormal, s) ->
  ex (wd s) = true /\ co (wd s) = true /\ so (wd s) = true /\ ix (wd s) = true.
Proof. exact worker_complete. Qed.
Print Assumptions C20_worker_complete.

(* non-vacuity (and why TimeoutError is excluded for the worker): standard runs of both pipelines and of a worker over 3 iterations of every loop complete; some crash point
   among the first 200 steps of the single-process run over a previous successful output raises and
   does not leave the success marker *)
Example C20_runs :
  (let '(r, s) := run_prog pipeline (fun _ => 3) (ch_of ch_true_single) no_fault w_fresh in
   (r, st (wd s), all_four (wd s))) = (RNormal, SOk, true) /\
  (let '(r, s) := run_prog pipeline (fun _ => 3) (ch_of ch_true_multi) no_fault w_fresh in
   (r, st (wd s), all_four (wd s))) = (RNormal, SOk, true) /\
  existsb (fun k => let '(r, s) := run_prog pipeline (fun _ => 3) (ch_of ch_true_single) (crash_at KOS k) w_prev_ok in
                    match r with RRaised KOS => negb (status_eqb (st (wd s)) SOk) | _ => false end) (seq 0 200) = true /\
  (let '(r, s) := run_prog worker_body (fun _ => 3) (ch_of ch_true_single) no_fault w_fresh in
   (r, all_four (wd s))) = (RNormal, true) /\
  worker_timeout_loses_records ch_true_single = true /\
  ch_of ch_true_single id_ch_tempfiles = false /\
  invb w_prev_ok = true /\ invb w_fresh = true.
Proof. vm_compute. repeat split. Qed.
Print Assumptions C20_runs.
